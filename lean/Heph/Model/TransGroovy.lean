import Heph.Model.IR
/-!
# Model of `src/translators/groovy.py` (`GroovyTranslator`), state threaded as Python mutates it

`visit : St → Out → Node → St × Out` is a hand port, method by method, of the visitor.

* `St` holds the attributes the visit methods read and assign around their children
  (`ident`, `is_unit`, `_cast_number`, `_namespace`, `_inside_is`, `_inside_is_function`,
  `_nodes_stack`), the attributes only `visit_program` / `_reset_state` / `__init__` assign
  (`context`, `types`, `_function_interfaces`) and the configuration read by the visit methods
  (`always_cast_numbers`; `always_cast_ftypes` is the constant `True`).  Every
  `{ st with x := … }` below is one Python assignment `self.x = …`, at the place where the Python
  method makes it.
* `Out` holds the three places a decorated visit method can put its text (`append_to`):
  `_children_res`, `_main_children`, `_main_method`.  `_children_res` is an explicit list:
  `pop_children_res(children)` is `popRes (len children)` with Python's slice semantics
  (`xs[-n:]` of a list shorter than `n` is the whole list), `children_res[i]` past the end
  (`IndexError`) reads the marker `errIndex`.
* `Obj` = `St` + `Out` + `program` + `package`.

Python exceptions that the translator can raise on ill-formed input (`None.is_wildcard()`,
`KeyError` of `get_classes(...)[name]`, `IndexError`) are rendered as marker texts `<<…>>`, so a
crash of the real translator corresponds to a marked text (the harness compares texts only where
the real translator returns one).

What the translator reads of the program's `Context` is kept by value in `Env`: every entry
`(namespace, kind, name)` with a summary of its value (`None`, a class declaration with its
`class_type`, anything else) — `harness/export_ast.py` exports it as `ctxinfo`, parallel to
`context`.

* `context.get_namespaces_decls(ns, name, kind)` (a worklist walk from `(ns[0],)` along
  `find_namespaces(·, none=False)`, answer a *set*) is modelled in closed form: the namespaces the
  walk pops are exactly those all of whose prefixes are registered as function / class entries with
  a non-`None` value (`reachable`); the set is a list without duplicates.  The translator only
  reads `len(…) == 1` and the namespace of the single element.
* `context.get_classes(ns, glob=True)[name]` is the depth-first walk of `_get_declarations_glob`
  (stack popped from the end, `find_namespaces(·, none=True)`), in order, the last namespace that
  has the name wins (`dict.update`), `None` values filtered afterwards.  The depth fuel
  `entries + 1` is always adequate: a namespace at depth `d` needs `d - 1` entries of pairwise
  different namespace lengths.

Not modelled: `self.types` is `node.get_types()` during a translation and `[]` otherwise; no
method that is reached reads it (`_get_function_reference_signature` is never called), the model
keeps only whether it is set.  `box_type()` of a primitive builtin answers an object whose
`get_name()` is its `name` attribute; the export carries `get_name()` of the primitive
(`int`, `char`, …), so `boxName` maps these back to the default `name`s of the builtin classes.
The attribute `name` of a builtin type is taken to be its `get_name()`.
-/
namespace Heph.TransGroovy
open Heph

abbrev Text := String

def errIndex : String := "<<IndexError>>"
def errNone : String := "<<None>>"
def errKey : String := "<<KeyError>>"
def errAttr : String := "<<AttributeError>>"

/-! ## Python string helpers -/

/-- `str.isspace()` of one character (also the class `\s` of `re` on `str` patterns) -/
def isPyWs (c : Char) : Bool :=
  let n := c.toNat
  (9 ≤ n && n ≤ 13) || (28 ≤ n && n ≤ 32) || n == 0x85 || n == 0xA0 || n == 0x1680 ||
  (0x2000 ≤ n && n ≤ 0x200A) || n == 0x2028 || n == 0x2029 || n == 0x202F || n == 0x205F || n == 0x3000

def sp (n : Nat) : String := String.ofList (List.replicate n ' ')
def join (sep : String) (xs : List String) : String := sep.intercalate xs

/-- `s.lstrip()` -/
def lstrip (s : String) : String := String.ofList (s.toList.dropWhile isPyWs)

/-- `re.sub(r'\s+', ' ', s)`; the flag says that the previous character was whitespace -/
def collapseAux : Bool → List Char → List Char
  | _, [] => []
  | inWs, c :: cs =>
      if isPyWs c then (if inWs then collapseAux true cs else ' ' :: collapseAux true cs)
      else c :: collapseAux false cs
def collapseWs (s : String) : String := String.ofList (collapseAux false s.toList)

/-! ## Types (`get_type_name`, `type_arg2str`, `box_type`) -/

def clsArray := "<class 'src.ir.groovy_types.ArrayType'>"
def clsVoid := "<class 'src.ir.groovy_types.VoidType'>"
def clsLong := "<class 'src.ir.groovy_types.LongType'>"
def clsShort := "<class 'src.ir.groovy_types.ShortType'>"
def clsByte := "<class 'src.ir.groovy_types.ByteType'>"
def clsNumber := "<class 'src.ir.groovy_types.NumberType'>"
def clsBigInteger := "<class 'src.ir.groovy_types.BigIntegerType'>"
def clsDouble := "<class 'src.ir.groovy_types.DoubleType'>"
def clsFloat := "<class 'src.ir.groovy_types.FloatType'>"

def isCls (t : Ty) (c : String) : Bool := match t with | .builtin cls _ _ _ _ => cls == c | _ => false
/-- `x == gt.<C>` for an optional attribute (`None == gt.C` is `False`) -/
def optIsCls (t : Option Ty) (c : String) : Bool := match t with | some x => isCls x c | none => false

/-- `isinstance(t_constructor, gt.ArrayType)` -/
def isArrayCon : Ty → Bool | .tcon cls _ _ _ => cls == clsArray | _ => false

/-- the attribute `t.name` -/
def attrName : Ty → String
  | .builtin _ nm _ _ _ => nm | .simple nm _ => nm | .tparam nm _ _ => nm | .wild _ _ => "*"
  | .tcon _ nm _ _ => nm | .param nm _ _ _ => nm | .nothing => "Nothing" | .ext c => c

mutual
/-- `get_type_name(t)` -/
def typeName : Ty → String
  | .wild _ none => errNone                -- `get_bound_rec()` is `None`, then `None.is_wildcard()`
  | .wild _ (some t) => typeName t         -- `get_bound_rec()` walks nested wildcards, then `get_type_name`
  | .param nm con args _ =>
      if isArrayCon con then
        (match args with | a :: _ => typeName a ++ "[]" | [] => errIndex)
      else nm ++ "<" ++ typeArgs args ++ ">"
  | .builtin _ nm _ _ _ => nm
  | .simple nm _ => nm
  | .tparam nm _ _ => nm
  | .tcon _ nm _ _ => nm
  | .nothing => "Nothing"
  | .ext c => c
/-- `", ".join(type_arg2str(ta) for ta in args)` -/
def typeArgs : List Ty → String
  | [] => ""
  | [x] => typeArg x
  | x :: y :: r => typeArg x ++ ", " ++ typeArgs (y :: r)
/-- `type_arg2str` -/
def typeArg : Ty → String
  | .wild var bd =>
      if var == 0 then "?"
      else (if var == 1 then "? extends " else "? super ") ++
        (match bd with | some x => typeName x | none => errNone)
  | .param nm con args _ =>
      if isArrayCon con then
        (match args with | a :: _ => typeName a ++ "[]" | [] => errIndex)
      else nm ++ "<" ++ typeArgs args ++ ">"
  | .builtin _ nm _ _ _ => nm
  | .simple nm _ => nm
  | .tparam nm _ _ => nm
  | .tcon _ nm _ _ => nm
  | .nothing => "Nothing"
  | .ext c => c
end

def typeNameO (t : Option Ty) : String := match t with | some x => typeName x | none => errNone

/-- `name` attribute of the builtin classes whose primitive form prints `get_name()` = the key -/
def boxName : String → String
  | "int" => "Integer" | "short" => "Short" | "long" => "Long" | "byte" => "Byte"
  | "float" => "Float" | "double" => "Double" | "char" => "Character" | "boolean" => "Boolean"
  | s => s

/-- `get_type_name(t if not t.is_primitive() else t.box_type())` -/
def boxedTypeName : Ty → String
  | .builtin _ nm _ true _ => boxName nm
  | t => typeName t

def boxedTypeNameO (t : Option Ty) : String := match t with | some x => boxedTypeName x | none => errNone

/-- `t.is_primitive()` -/
def isPrimitive : Ty → Bool | .builtin _ _ _ p _ => p | _ => false

/-- `visit_type_param` -/
def typeParamStr : Ty → String
  | .tparam nm _ bd => nm ++ (match bd with | some b => " extends " ++ typeName b | none => "")
  | t => typeName t

/-- `FunctionDeclaration.get_signature(FunctionType(n))` / `Lambda.get_signature(…)` printed by
    `get_type_name`: `FunctionN<type_arg2str(p1), …, type_arg2str(ret)>` -/
def signatureName (paramTypes : List Ty) (ret : Option Ty) : String :=
  "Function" ++ toString paramTypes.length ++ "<" ++
    join ", " (paramTypes.map typeArg ++ [match ret with | some r => typeArg r | none => errNone]) ++ ">"

/-! ## The context, by value -/

/-- what the translator reads of a value stored in the context -/
inductive CVal where
  | none                    -- Python `None`
  | cls (ctype : Nat)       -- a `ClassDeclaration` with its `class_type`
  | other
deriving Repr, DecidableEq, Inhabited

structure Entry where
  ns : List String
  kind : String
  name : String
  val : CVal
deriving Repr, Inhabited

abbrev Env := List Entry

/-- is `cur ++ rest` pushed by the worklist of `get_namespaces_decls` when `cur` is?  Every step is
    an entry of `find_namespaces(cur, none=False)`: a function or class with a non-`None` value -/
def reachableFrom (env : Env) : List String → List String → Bool
  | _, [] => true
  | cur, x :: rest =>
      (env.any fun e => e.ns == cur && (e.kind == "funcs" || e.kind == "classes") && e.name == x && e.val != CVal.none) &&
      reachableFrom env (cur ++ [x]) rest

/-- is the namespace popped by the walk started at `(root,)`? -/
def reachable (env : Env) (root : String) : List String → Bool
  | [] => false
  | r :: rest => r == root && reachableFrom env [root] rest

/-- the namespaces `n` with `(n + (name,), decl)` in `get_namespaces_decls(ns, name, kind)`
    (`none` = `IndexError` of `namespace[0]`) -/
def namespacesDecls (env : Env) (ns : List String) (name kind : String) : Option (List (List String)) :=
  match ns with
  | [] => none
  | root :: _ =>
      some ((env.filter fun e => e.kind == kind && e.name == name && reachable env root e.ns).map (·.ns)).eraseDups

/-- names of `find_namespaces(n, none=True)`: functions, then classes -/
def childNames (env : Env) (n : List String) : List String :=
  ((env.filter fun e => e.ns == n && e.kind == "funcs").map (·.name)) ++
  ((env.filter fun e => e.ns == n && e.kind == "classes").map (·.name))

/-- the namespaces popped by `_get_declarations_glob`, in order: the stack is popped from the end,
    so the children are walked last to first -/
def walk (env : Env) : Nat → List String → List (List String)
  | 0, _ => []
  | f + 1, n => n :: ((childNames env n).reverse.flatMap fun x => walk env f (n ++ [x]))

def walkFuel (env : Env) : Nat := env.length + 1

/-- `context.get_classes(ns, glob=True).get(name)`: `none` = `KeyError` (also for an entry whose value
    is `None`: filtered) -/
def classesGlobGet (env : Env) (ns : List String) (name : String) : Option CVal :=
  match ns with
  | [] => none
  | root :: _ =>
    let last := (walk env (walkFuel env) [root]).foldl (fun acc n =>
      match env.find? (fun e => e.ns == n && e.kind == "classes" && e.name == name) with
      | some e => some e.val
      | none => acc) none
    match last with
    | some CVal.none => none
    | other => other

/-! ## The translator state -/

/-- what `_parent_is_func_ref` / `is_closure` read of a stacked node -/
inductive Tag where
  | none | classD | funcRef | other
deriving Repr, DecidableEq, Inhabited

structure St where
  ident : Nat := 0
  isUnit : Bool := false
  castNumber : Bool := false                  -- `_cast_number`
  ns : List String := ["global"]              -- `_namespace`
  insideIs : Bool := false                    -- `_inside_is`
  insideIsFunction : Bool := false            -- `_inside_is_function`
  stack : List Tag := [Tag.none]              -- `_nodes_stack`, head = top
  functionInterfaces : List Nat := [0, 1, 2, 3]   -- `_function_interfaces` (a set of small ints)
  context : Option Env := none
  typesSet : Bool := false                    -- `types`: `[]` / `node.get_types()`
  alwaysCastNumbers : Bool := false           -- `options.get('cast_numbers', False)`, assigned by `__init__` only
deriving Repr, Inhabited

/-- where the decorated visit methods put their texts -/
structure Out where
  childrenRes : List Text := []
  mainChildren : List Text := []
  mainMethod : Text := ""
deriving Repr, Inhabited, DecidableEq

/-- the translator object -/
structure Obj where
  st : St := {}
  out : Out := {}
  program : Option String := none
  package : Option String := none
deriving Inhabited

/-- `_reset_state` (`always_cast_numbers`, `always_cast_ftypes` are not touched) -/
def resetState (st : St) : St :=
  { st with ident := 0, isUnit := false, castNumber := false, ns := ["global"], insideIs := false,
            insideIsFunction := false, stack := [Tag.none], functionInterfaces := [0, 1, 2, 3],
            context := none, typesSet := false }

def push (t : Tag) (st : St) : St := { st with stack := t :: st.stack }
def pop (st : St) : St := { st with stack := st.stack.tail }

/-- the kind of node `append_to` looks at -/
inductive Kind where
  | other | varD | funcD (isMain : Bool)
deriving Repr, DecidableEq

/-- `append_to`, after the visit: at the global namespace a function named `main` becomes
    `_main_method`, any other variable / function declaration goes to `_main_children`, everything
    else to `_children_res` -/
def route (k : Kind) (ns : List String) (o : Out) (res : Text) : Out :=
  if ns == ["global"] && k == Kind.funcD true then { o with mainMethod := res }
  else if ns == ["global"] && k != Kind.other then { o with mainChildren := o.mainChildren ++ [res] }
  else { o with childrenRes := o.childrenRes ++ [res] }

/-- end of `append_to.inner`: pop the node, route the text -/
def fin (k : Kind) (st : St) (o : Out) (res : Text) : St × Out :=
  (pop st, route k (pop st).ns o res)

/-- `pop_children_res(children)` with `len(children) = k` -/
def popRes (k : Nat) (o : Out) : Out × List Text :=
  if k == 0 then (o, [])
  else ({ o with childrenRes := o.childrenRes.take (o.childrenRes.length - k) },
        o.childrenRes.drop (o.childrenRes.length - k))

/-- `xs[i]` -/
def at! (xs : List Text) (i : Nat) : Text := xs.getD i errIndex
/-- `xs[-1]` -/
def last! (xs : List Text) : Text := xs.getLast?.getD errIndex

/-- `get_ident(old_ident=old)`: `0` is falsy, then the current `ident` is used -/
def identOld (st : St) (old : Nat) : String := if old != 0 then sp old else sp st.ident

/-- `_get_main_prefix(decl_type, name)` -/
def mainPrefix (st : St) (kind name : String) : String :=
  match st.context with
  | none => errAttr
  | some env =>
    match namespacesDecls env st.ns name kind with
    | none => errIndex
    | some [n] => if n == ["global"] then "Main." else ""
    | some _ => ""

/-- `(self._namespace[-2],) == ast.GLOBAL_NAMESPACE` -/
def parentIsGlobal (ns : List String) : Bool := ns.reverse.getD 1 "" == "global" && ns.length ≥ 2

def parentTag (st : St) : Tag := st.stack.getD 1 Tag.none
/-- `_parent_is_func_ref()` -/
def parentIsFuncRef (st : St) : Bool := parentTag st == Tag.funcRef
/-- `is_closure()` of `visit_func_decl` -/
def isClosure (st : St) : Bool := parentTag st != Tag.none && parentTag st != Tag.classD

def isBottom : Node → Bool | .bottom _ => true | _ => false
def isBlockO : Option Node → Bool | some (.block ..) => true | _ => false
def fieldName : Node → String | .fieldDecl nm .. => nm | _ => errAttr
def paramTypes : List Node → List Ty
  | [] => []
  | .paramDecl _ t _ _ :: r => t :: paramTypes r
  | _ :: r => paramTypes r

/-- `_get_functional_interfaces` -/
def functionalInterfaces (nums : List Nat) : String :=
  let one := fun (n : Nat) =>
    let tps := join ", " ((List.range (n + 1)).map fun i => if i < n then "A" ++ toString (i + 1) else "R")
    let ps := join ", " ((List.range n).map fun i => "A" ++ toString (i + 1) ++ " a" ++ toString (i + 1))
    "interface Function" ++ toString n ++ "<" ++ tps ++ "> {\n" ++ sp 2 ++ "public R apply(" ++ ps ++ ");\n}\n\n"
  let res := String.join (nums.map one)
  if res != "" then "\n\n" ++ res else ""

/-- the literal of `visit_integer_constant` -/
def intText (st : St) (lit : String) (t : Option Ty) : String :=
  match t with
  | none =>
      -- `None.is_primitive()` is reached unless `_cast_number` or `always_cast_numbers` short-circuits
      if !st.castNumber && !st.alwaysCastNumbers then errNone else lit
  | some x =>
      if !st.castNumber && (!st.alwaysCastNumbers && isPrimitive x) then lit
      else
        (if isCls x clsLong then "(Long) " else if isCls x clsShort then "(Short) "
         else if isCls x clsByte then "(Byte) " else if isCls x clsNumber then "(Number) "
         else if isCls x clsBigInteger then "(BigInteger) " else "") ++ lit

/-- the literal of `visit_real_constant` -/
def realText (st : St) (lit : String) (t : Option Ty) : String :=
  match t with
  | none => if !st.castNumber && !st.alwaysCastNumbers then errNone else lit
  | some x =>
      if !st.castNumber && (!st.alwaysCastNumbers && isPrimitive x) then lit
      else
        (if isCls x clsDouble then "(Double) " else if isCls x clsFloat then "(Float) "
         else if isCls x clsNumber then "(Number) " else "") ++ lit

/-- `OrderedDict` of constructor parameters: field name ↦ type name, printed `T x` -/
def ctorParams (fields : List Node) : List (String × String) :=
  fields.foldl (fun a f => match f with
    | .fieldDecl name t _ _ _ =>
        let tn := typeName t
        if a.any (fun q => q.1 == name) then a.map (fun q => if q.1 == name then (name, tn) else q) else a ++ [(name, tn)]
    | _ => a) []

/-- `get_superclasses_interfaces()`: per super-class instantiation its printed type and whether the
    class looked up under its name is an interface (`none` = the look-up raises) -/
def classifySupers (st : St) (supers : List Node) : List (String × Option Bool) :=
  supers.map fun s => match s with
    | .superInst t _ =>
        (typeName t, match st.context with
          | none => none
          | some env => match classesGlobGet env st.ns (attrName t) with
            | some (CVal.cls ct) => some (ct == 1)
            | _ => none)
    | _ => (errAttr, none)

/-- the state of the fresh `GroovyTranslator()` of `construct_constructor` -/
def nestedSt (st : St) : St := { context := st.context, castNumber := true, ns := st.ns }

/-- receiver text of `visit_func_call` / `visit_assign` -/
def receiverExpr (receiver : Option Node) (r : Text) : Text :=
  match receiver with
  | some rcv => if r != "" then (if isBottom rcv then "(" ++ r ++ ")." else r ++ ".") else ""
  | none => ""

/-! ## Text assembly of the visit methods (everything after the children have been visited) -/

/-- `visit_block`: `cr` = `pop_children_res(children)`, `st` = the state at that point -/
def blockText (st : St) (cr : List Text) : Text :=
  let res := match cr with
    | [] => "{ }"
    | [stmt] => "{\n" ++ sp st.ident ++ stmt ++ "\n" ++ sp (st.ident - 2) ++ "}"
    | _ => "{\n" ++ join ";\n" cr ++ "\n" ++ sp (st.ident - 2) ++ "}"
  if st.insideIs && !st.insideIsFunction then res ++ "()" else res

/-- `construct_constructor()`; `superCallT` is the `super_call` text -/
def ctorText (st : St) (name : String) (fields : List Node) (superCallT : Text) : Text :=
  let params := join "," ((ctorParams fields).map fun p => p.2 ++ " " ++ p.1)
  let fs := fields.map fun fd => "this." ++ fieldName fd ++ " = " ++ fieldName fd
  let cfields := (if !fs.isEmpty then "\n" ++ sp (st.ident + 2) else "") ++ join ("\n" ++ sp (st.ident + 2)) fs
  sp st.ident ++ "public " ++ name ++ "(" ++ params ++ ") {" ++ superCallT ++ cfields ++ "\n" ++
    (if !fs.isEmpty then sp st.ident else "") ++ "}"

/-- `visit_class_decl` after the children: `st` has `ident = old + 2` and the class' namespace -/
def classText (st : St) (old : Nat) (name : String) (ctype : Nat) (isFinal : Bool) (fields supers funcs : List Node)
    (cr : List Text) (superCallT : Text) : Text :=
  let fieldRes := (List.range fields.length).map fun i => at! cr i
  let funcRes := (List.range funcs.length).map fun i => at! cr (i + fields.length + supers.length)
  let tpr := join ", " (cr.drop (fields.length + supers.length + funcs.length))
  let res := sp old ++ (if isFinal then "final " else "") ++
    (if ctype == 0 then "class" else if ctype == 1 then "interface" else "abstract class") ++ " " ++ name
  let res := if tpr != "" then res ++ "<" ++ tpr ++ ">" else res
  -- get_superclasses_interfaces
  let classify := classifySupers st supers
  let keyErr := classify.any fun p => p.2.isNone
  let superclasses := (classify.filter fun p => p.2 != some true).map (·.1)
  let interfaces := (classify.filter fun p => p.2 == some true).map (·.1)
  let res := if !superclasses.isEmpty then res ++ " extends " ++ join ", " superclasses else res
  let res := if !interfaces.isEmpty then
      res ++ (if ctype == 1 then " extends " else " implements ") ++ join ", " interfaces
    else res
  let body :=
    if !funcRes.isEmpty || !fieldRes.isEmpty || !superclasses.isEmpty then
      let b := " {\n"
      let b := if !fieldRes.isEmpty then b ++ sp st.ident ++ join ("\n" ++ sp st.ident) fieldRes ++ "\n\n" else b
      let b := if !superclasses.isEmpty || !fieldRes.isEmpty then
          b ++ ctorText st name fields superCallT ++ (if !funcRes.isEmpty then "\n\n" else "")
        else b
      let b := if !funcRes.isEmpty then b ++ join "\n\n" funcRes else b
      b ++ "\n" ++ sp (st.ident - 4) ++ "}"
    else " {}"
  if keyErr then errKey else res ++ body

/-- `visit_var_decl` after the child -/
def varDeclText (st : St) (name : String) (isFinal : Bool) (varType inferred : Option Ty) (cr : List Text) : Text :=
  let vt := if varType.isSome || st.ns == ["global"] then typeNameO inferred ++ " " else ""
  let mp := if st.ns != ["global"] then mainPrefix st "vars" name else ""
  sp st.ident ++ (if isFinal then "final " else "") ++ (if vt != "" then vt else "def ") ++ mp ++
    name ++ " = " ++ lstrip (at! cr 0)

/-- `visit_param_decl` without the default value -/
def paramText (name : String) (t : Ty) (vararg : Bool) : Text :=
  let pt := match vararg, t with
    | true, .param _ _ (a :: _) _ => typeName a
    | true, .param _ _ [] _ => errIndex
    | _, _ => typeName t
  pt ++ (if vararg then "..." else "") ++ " " ++ name

/-- `visit_func_decl` after the children -/
def funcDeclText (st : St) (old : Nat) (name : String) (params : List Node) (retType inferred : Option Ty)
    (body : Option Node) (isFinal : Bool) (tparams : List Ty) (cr : List Text) : Text :=
  let isExpr := !isBlockO body
  let paramRes := (List.range params.length).map fun i => at! cr i
  let tpr := join ", " ((cr.drop params.length).take tparams.length)
  let bodyRes := if body.isSome then last! cr else ""
  let bodyT :=
    if bodyRes != "" then
      (if isExpr then "{\n" ++ bodyRes ++ "\n" ++ identOld st old ++ "}" else bodyRes)
    else ""
  if isClosure st then
    let pfx := if retType.isNone || optIsCls retType clsVoid then
        (match inferred with | some _ => "def" | none => errNone)   -- `ret_type.is_primitive()` comes first
      else "Closure<" ++ boxedTypeNameO inferred ++ ">"
    identOld st old ++ pfx ++ " " ++ name ++ " = { " ++ join ", " paramRes ++ " -> " ++ bodyRes ++ "}"
  else
    identOld st old ++ (if isFinal then "final " else "") ++ (if bodyT == "" then "abstract " else "") ++
      (if tpr != "" then "<" ++ tpr ++ ">" else "") ++ typeNameO inferred ++ " " ++ name ++
      "(" ++ join ", " paramRes ++ ") " ++ bodyT

/-- `visit_lambda` after the children -/
def lambdaText (params : List Node) (retType : Option Ty) (cr : List Text) : Text :=
  let paramRes := (List.range params.length).map fun i => at! cr i
  match retType with
  | none => errNone                                   -- `None.is_primitive()`
  | some _ =>
    "{ " ++ join ", " paramRes ++ " -> " ++ last! cr ++ "} " ++ " as " ++ signatureName (paramTypes params) retType

/-- `visit_bottom_constant` -/
def bottomText (st : St) (t : Option Ty) : Text :=
  sp st.ident ++ (if parentIsFuncRef st then "(" else "") ++
    (match t with | some x => "(" ++ typeName x ++ ") " | none => "") ++ "null" ++
    (if parentIsFuncRef st then ")" else "")

/-- `visit_array_expr`, `length == 0` -/
def emptyArrayText (st : St) (t : Ty) : Text :=
  sp st.ident ++ "new " ++
    (match t with | .param _ _ (a :: _) _ => typeName a | .param _ _ [] _ => errIndex | _ => errAttr) ++ "[0]"

/-- `visit_conditional` after the children (`st.ident = old + 2`) -/
def condText (st : St) (old : Nat) (cr : List Text) : Text :=
  identOld st old ++ "((" ++ lstrip (at! cr 0) ++ ") ?\n" ++ at! cr 1 ++ " : \n " ++ at! cr 2 ++ ")"

/-- `visit_func_call` after the children -/
def callText (st : St) (func : String) (receiver : Option Node) (isRefCall : Bool) (cr : List Text) : Text :=
  let mp := mainPrefix st "funcs" func
  let mp := if mp == "" then mainPrefix st "vars" func else mp
  let argsT := if receiver.isSome then cr.drop 1 else cr
  let recvT := if receiver.isSome then receiverExpr receiver (at! cr 0) else ""
  sp st.ident ++ recvT ++ mp ++ func ++ (if isRefCall then ".apply" else "") ++ "(" ++ join ", " argsT ++ ")"

/-- `visit_assign` after the children -/
def assignText (st : St) (old : Nat) (name : String) (receiver : Option Node) (cr : List Text) : Text :=
  let recvT := if receiver.isSome then receiverExpr receiver (at! cr 0) else ""
  let exprT := if receiver.isSome then at! cr 1 else at! cr 0
  identOld st old ++ recvT ++ mainPrefix st "vars" name ++ name ++ " = " ++ exprT

/-! ## State changes of `visit_func_decl` / `visit_lambda` around their children -/

/-- `old_ident` of `visit_func_decl` / `visit_lambda`; `st` already has the new namespace -/
def funcOld (st : St) : Nat := if parentIsGlobal st.ns then st.ident + 2 else st.ident

/-- up to the child loop of `visit_func_decl` (`isFunc`) / `visit_lambda`; `st` has the new namespace -/
def funcEnter (isFunc : Bool) (st : St) (unit isExpr : Bool) : St :=
  let st := if isFunc && st.insideIs then { st with insideIsFunction := true } else st
  let st := if parentIsGlobal st.ns then { st with ident := st.ident + 2 } else st
  let st := { st with ident := st.ident + 2 }
  let st := { st with isUnit := unit }
  if isExpr then { st with castNumber := false } else st

/-- the restoring assignments at the end of `visit_func_decl` (`isFunc`) / `visit_lambda`:
    `entry` is the state when the method was entered (namespace already changed), `st` the current one -/
def funcLeave (isFunc : Bool) (entry st : St) : St :=
  let old := funcOld entry
  let old := if parentIsGlobal st.ns then old - 2 else old
  let st := { st with ident := old, isUnit := entry.isUnit, castNumber := entry.castNumber }
  if isFunc && st.insideIs then { st with insideIsFunction := entry.insideIsFunction } else st

/-! ## The visitor -/

mutual
/-- `append_to(visit_*)` of the node: push, the method body, pop, route -/
def visit (st0 : St) (o : Out) : Node → St × Out
  | .block body isFunc =>
    let r := blockKids isFunc (push .other st0) o body
    let pr := popRes body.length r.2
    fin .other r.1 pr.1 (blockText r.1 pr.2)
  | .superInst t _ => fin .other (push .other st0) o (typeName t)
  | .classDecl name ctype isFinal fields supers funcs tparams =>
    let st := push .classD st0
    -- change_namespace, `self.ident += 2`
    let r1 := visitL { st with ns := st.ns ++ [name], ident := st.ident + 2 } o fields
    let r2 := visitL r1.1 r1.2 supers
    let r3 := visitL r2.1 r2.2 funcs
    let o3 := { r3.2 with childrenRes := r3.2.childrenRes ++ tparams.map typeParamStr }
    let pr := popRes (fields.length + supers.length + funcs.length + tparams.length) o3
    let res := classText r3.1 st.ident name ctype isFinal fields supers funcs pr.2 (superCall r3.1 supers)
    fin .other { r3.1 with ident := st.ident, ns := st.ns } pr.1 res
  | .varDecl name expr isFinal varType inferred =>
    let st := push .other st0
    let r := visit { st with castNumber := varType.isNone } o expr
    let pr := popRes 1 r.2
    fin .varD { r.1 with castNumber := st.castNumber } pr.1 (varDeclText r.1 name isFinal varType inferred pr.2)
  | .callArg expr _ =>
    let st := push .other st0
    let r := visit { st with ident := 0 } o expr
    let pr := popRes 1 r.2
    fin .other { r.1 with ident := st.ident } pr.1 (at! pr.2 0)
  | .fieldDecl name t isFinal _ _ =>
    fin .other (push .other st0) o ("public " ++ (if isFinal then "final " else "") ++ typeName t ++ " " ++ name)
  | .paramDecl name t vararg dflt =>
    let st := push .other st0
    let r := visitO { st with ident := 0 } o dflt
    let pr := popRes (if dflt.isSome then 1 else 0) r.2
    fin .other { r.1 with ident := st.ident } pr.1
      (paramText name t vararg ++ (if dflt.isSome then " = " ++ at! pr.2 0 else ""))
  | .funcDecl name params retType inferred body isFinal _ tparams _ =>
    let st := push .other st0
    -- change_namespace
    let entry := { st with ns := st.ns ++ [name] }
    let r1 := visitL (funcEnter true entry (optIsCls inferred clsVoid) (!isBlockO body)) o params
    let o2 := { r1.2 with childrenRes := r1.2.childrenRes ++ tparams.map typeParamStr }
    let r3 := visitO r1.1 o2 body
    let pr := popRes (params.length + tparams.length + (if body.isSome then 1 else 0)) r3.2
    let res := funcDeclText r3.1 (funcOld entry) name params retType inferred body isFinal tparams pr.2
    fin (.funcD (name == "main")) { funcLeave true entry r3.1 with ns := st.ns } pr.1 res
  | .lambda name params retType body _ =>
    let st := push .other st0
    -- change_namespace
    let entry := { st with ns := st.ns ++ [name] }
    let r1 := visitL (funcEnter false entry (optIsCls retType clsVoid) (!isBlockO (some body))) o params
    let r2 := visit r1.1 r1.2 body
    let pr := popRes (params.length + 1) r2.2
    fin .other { funcLeave false entry r2.1 with ns := st.ns } pr.1 (lambdaText params retType pr.2)
  | .funcRef func receiver sig =>
    let st := push .funcRef st0
    let r := visitO { st with ident := 0 } o receiver
    let st1 := { r.1 with ident := st.ident }
    let pr := popRes (if receiver.isSome then 1 else 0) r.2
    fin .other st1 pr.1
      (sp st1.ident ++ (match pr.2 with | x :: _ => x | [] => "Main") ++ "::" ++ func ++ " as " ++ typeNameO sig)
  | .bottom t => fin .other (push .other st0) o (bottomText (push .other st0) t)
  | .intC lit t => fin .other (push .other st0) o (sp st0.ident ++ intText st0 lit t)
  | .realC lit t => fin .other (push .other st0) o (sp st0.ident ++ realText st0 lit t)
  | .boolC lit => fin .other (push .other st0) o (sp st0.ident ++ lit)
  | .charC lit => fin .other (push .other st0) o (sp st0.ident ++ "(Character) '" ++ lit ++ "'")
  | .stringC lit => fin .other (push .other st0) o (sp st0.ident ++ "\"" ++ lit ++ "\"")
  | .arrayE t len exprs =>
    let st := push .other st0
    if len == 0 then fin .other st o (emptyArrayText st t)
    else
      let r := visitL { st with ident := 0 } o exprs
      let pr := popRes exprs.length r.2
      fin .other { r.1 with ident := st.ident } pr.1
        (sp st.ident ++ "new " ++ typeName t ++ "{" ++ join ", " pr.2 ++ "}")
  | .variable name =>
    fin .other (push .other st0) o (sp st0.ident ++ mainPrefix (push .other st0) "vars" name ++ name)
  | .binop _ l r op =>
    let st := push .other st0
    let ra := visit { st with ident := 0 } o l
    let rb := visit ra.1 ra.2 r
    let pr := popRes 2 rb.2
    fin .other { rb.1 with ident := st.ident } pr.1
      (identOld rb.1 st.ident ++ "(" ++ at! pr.2 0 ++ " " ++ op ++ " " ++ at! pr.2 1 ++ ")")
  | .cond c tb fb _ =>
    let st := push .other st0
    let rc := visit { st with insideIs := true, ident := st.ident + 2 } o c
    let rt := visit { rc.1 with ns := st.ns ++ ["true_block"] } rc.2 tb
    let rf := visit { rt.1 with ns := st.ns ++ ["false_block"] } rt.2 fb
    let st3 := { rf.1 with ns := st.ns }
    let pr := popRes 3 rf.2
    fin .other { st3 with ident := st.ident, insideIs := st.insideIs } pr.1 (condText st3 st.ident pr.2)
  | .isE e t isNot =>
    let st := push .other st0
    let r := visit { st with ident := 0 } o e
    let pr := popRes 1 r.2
    fin .other { r.1 with ident := st.ident } pr.1
      (identOld r.1 st.ident ++ at! pr.2 0 ++ " " ++ (if isNot then "!instanceof" else "instanceof") ++ " " ++ typeName t)
  | .newE t args canInfer =>
    let st := push .other st0
    let r := visitL { st with ident := 0, castNumber := true } o args
    let pr := popRes args.length r.2
    fin .other { r.1 with ident := st.ident, castNumber := st.castNumber } pr.1
      (sp st.ident ++ "new " ++ (if canInfer then attrName t ++ "<>" else typeName t) ++ "(" ++ join ", " pr.2 ++ ")")
  | .fieldAccess e field =>
    let st := push .other st0
    let r := visit { st with ident := 0 } o e
    let pr := popRes 1 r.2
    fin .other { r.1 with ident := st.ident } pr.1
      (sp st.ident ++ (if isBottom e then "(" ++ at! pr.2 0 ++ ")" else at! pr.2 0) ++ "." ++ field)
  | .call func args receiver _ _ isRefCall =>
    let st := push .other st0
    let rr := visitO { st with ident := 0, castNumber := true } o receiver
    let ra := visitL rr.1 rr.2 args
    let st1 := { ra.1 with ident := st.ident }
    let pr := popRes ((if receiver.isSome then 1 else 0) + args.length) ra.2
    fin .other { st1 with castNumber := st.castNumber } pr.1 (callText st1 func receiver isRefCall pr.2)
  | .assign name expr receiver =>
    let st := push .other st0
    let rr := visitO { st with ident := 0, castNumber := false } o receiver
    let re := visit rr.1 rr.2 expr
    let st1 := { re.1 with ident := st.ident }
    let pr := popRes ((if receiver.isSome then 1 else 0) + 1) re.2
    fin .other { st1 with castNumber := st.castNumber } pr.1 (assignText st1 st.ident name receiver pr.2)
/-- `for c in children: c.accept(self)` -/
def visitL (st : St) (o : Out) : List Node → St × Out
  | [] => (st, o)
  | x :: xs =>
    let r := visit st o x
    visitL r.1 r.2 xs
def visitO (st : St) (o : Out) : Option Node → St × Out
  | none => (st, o)
  | some x => visit st o x
/-- the child loop of `visit_block`: the last child of a function block whose function is not
    `void` is visited with `_cast_number = False` -/
def blockKids (isFunc : Bool) (st : St) (o : Out) : List Node → St × Out
  | [] => (st, o)
  | [x] =>
    if isFunc && !st.isUnit then
      let r := visit { st with castNumber := false } o x
      ({ r.1 with castNumber := st.castNumber }, r.2)
    else visit st o x
  | x :: y :: rest =>
    let r := visit st o x
    blockKids isFunc r.1 r.2 (y :: rest)
/-- `super_call` of `construct_constructor`: the arguments of the first super-class instantiation
    are translated by a fresh `GroovyTranslator()` (own `_children_res`), joined and
    whitespace-collapsed -/
def superCall (st : St) : List Node → Text
  | [] => ""
  | .superInst t args :: _ =>
    if t.isBuiltin then ""
    else
      let res := match args with
        | some xs => if xs.isEmpty then "" else collapseWs (join ", " (visitL (nestedSt st) {} xs).2.childrenRes)
        | none => ""
      "\n" ++ sp (st.ident + 2) ++ "super(" ++ res ++ ");"
  | _ :: _ => errAttr
end

/-! ## `visit_program` and the translator object -/

/-- a program as the Groovy translator reads it: the top-level declarations and the context by value -/
structure GProgram where
  decls : List Node
  env : Env
deriving Inhabited

/-- `GroovyTranslator(package, options)` right after construction -/
def initObj (package : Option String) (castNumbers : Bool := false) : Obj :=
  { st := { alwaysCastNumbers := castNumbers }, package := package }

def packageLine (package : Option String) : String :=
  match package with
  | some s => if s != "" then "package " ++ s ++ "\n\n" else ""
  | none => ""

/-- the text assembled by `visit_program` from the state after the children -/
def programText (package : Option String) (st : St) (o : Out) (nDecls : Nat) : Text :=
  let st2 := { st with ident := 2 }
  let mainDecls := o.mainChildren.map fun d => sp st2.ident ++ "static " ++ lstrip d
  let mainMethod := if o.mainMethod != "" then "\n\n" ++ sp st2.ident ++ "public static " ++ lstrip o.mainMethod else ""
  let mainCls := "class Main {\n" ++ join "\n\n" mainDecls ++ mainMethod ++ "\n}"
  let other := join "\n\n" (popRes nDecls o).2
  packageLine package ++ mainCls ++ functionalInterfaces st2.functionInterfaces ++
    (if other != "" then "\n\n" ++ other else "")

/-- the state of the object just before `_reset_state` (children visited, `self.ident = 2`) and the text -/
def programRun (ob : Obj) (p : GProgram) : St × Out × Text :=
  let r := visitL { ob.st with typesSet := true, context := some p.env } ob.out p.decls
  ({ r.1 with ident := 2 }, (popRes p.decls.length r.2).1, programText ob.package r.1 r.2 p.decls.length)

/-- `visit_program`: `self.types = …; self.context = …`, the children, `self.program = …`, `_reset_state()` -/
def visitProgram (ob : Obj) (p : GProgram) : Obj :=
  let r := programRun ob p
  { ob with st := resetState r.1, out := {}, program := some r.2.2 }

/-- `utils.translate_program(translator, p)`: `translator.visit(p); translator.result()` -/
def translate (ob : Obj) (p : GProgram) : Obj × String :=
  let ob1 := visitProgram ob p
  (ob1, ob1.program.getD "")

/-- the translator after translating the programs `ps` in turn -/
def after (ob : Obj) (ps : List GProgram) : Obj := ps.foldl visitProgram ob

def text (ob : Obj) (p : GProgram) : String := (translate ob p).2

end Heph.TransGroovy
