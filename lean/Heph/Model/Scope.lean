import Heph.Model.IR
/-!
# Scoping environment, class table and static receiver types (shared by `Spec/Scope` and `Model/Closed`)

Everything name resolution needs to know about a program (property C05):

* accessors of declaration nodes (`declName`, `isVarLike`, …),
* the class table: `findClass`, `hier` (a class and its superclasses through the `superInst`
  types, most derived first, with the type arguments substituted along the way),
  `memberFields` / `memberFuncs`,
* the environment `Env` visible at a program point (`inner`: declarations made since the innermost
  Java lambda/nested function was entered, `outer`: those outside it, `cls`: the enclosing class,
  `tvs`: type variables in scope, `tops`: the top-level declarations),
* `visibleVars` / `visibleFuncs`: the declarations an unqualified name can denote, in resolution order,
* `staticType`: the *declared* type of a receiver expression (declared variable/field/parameter
  types, return types with the receiver's and the explicit type arguments substituted, the type a
  `new`/cast/conditional carries).  It is a reader of declared types, not a type checker (C01).

Core Lean only.
-/
namespace Heph.Scope
open Heph

abbrev TMap := List (String × Ty)

/-! ## types -/

mutual
/-- substitution of type variables by name (arguments of parameterized types and wildcard bounds) -/
def substTy (m : TMap) : Ty → Ty
  | .tparam nm var bd => match m.lookup nm with | some t => t | none => .tparam nm var bd
  | .param nm con args sups => .param nm con (substTyL m args) sups
  | .wild var (some b) => .wild var (some (substTy m b))
  | t => t
def substTyL (m : TMap) : List Ty → List Ty
  | [] => []
  | x :: xs => substTy m x :: substTyL m xs
end

/-- the class whose members a value of this type has (a type variable / wildcard has those of its bound) -/
def tyClassName : Ty → Option String
  | .simple nm _ => some nm
  | .param nm _ _ _ => some nm
  | .tcon _ nm _ _ => some nm
  | .builtin _ nm _ _ _ => some nm
  | .tparam _ _ (some b) => tyClassName b
  | .wild _ (some b) => tyClassName b
  | _ => none

def tyArgs : Ty → List Ty
  | .param _ _ args _ => args
  | .tparam _ _ (some b) => tyArgs b
  | .wild _ (some b) => tyArgs b
  | _ => []

mutual
/-- the type variables a type mentions: through type arguments and wildcard bounds; not the
    parameters of its own type constructor, not its (derived) supertypes, not the bound of a mentioned variable -/
def tyVars : Ty → List String
  | .tparam nm _ _ => [nm]
  | .param _ _ args _ => tyVarsL args
  | .wild _ (some b) => tyVars b
  | _ => []
def tyVarsL : List Ty → List String
  | [] => []
  | x :: xs => tyVars x ++ tyVarsL xs
end

def tparamName : Ty → String
  | .tparam nm _ _ => nm
  | t => Ty.getName t

def tparamBound : Ty → Option Ty
  | .tparam _ _ b => b
  | _ => none

/-- number of parameters of a function type `FunctionN<A1,…,An,R>` -/
def funArity : Option Ty → Option Nat
  | some (.param nm _ args _) => if nm.startsWith "Function" then some (args.length - 1) else none
  | _ => none

def funResult : Option Ty → Option Ty
  | some (.param nm _ args _) => if nm.startsWith "Function" then args.getLast? else none
  | _ => none

/-! ## declaration nodes -/

def declName : Node → String
  | .classDecl nm .. => nm
  | .varDecl nm .. => nm
  | .fieldDecl nm .. => nm
  | .paramDecl nm .. => nm
  | .funcDecl nm .. => nm
  | _ => ""

def isVarDecl : Node → Bool | .varDecl .. => true | _ => false
def isParamDecl : Node → Bool | .paramDecl .. => true | _ => false
def isFuncDecl : Node → Bool | .funcDecl .. => true | _ => false
def isClassDecl : Node → Bool | .classDecl .. => true | _ => false
def isFieldDecl : Node → Bool | .fieldDecl .. => true | _ => false
/-- a local a `variable` node can denote -/
def isVarLike (d : Node) : Bool := isVarDecl d || isParamDecl d

/-- declared names a block introduces -/
def isLocalDecl (d : Node) : Bool := isVarDecl d || isFuncDecl d

/-- may be the target of an assignment: `var` variables and non-final fields (never parameters) -/
def isAssignable : Node → Bool
  | .varDecl _ _ isFinal _ _ => !isFinal
  | .fieldDecl _ _ isFinal _ _ => !isFinal
  | _ => false

/-- may be captured by a Java lambda: parameters and `final` variables (`_inside_java_lambda`) -/
def isCapturable : Node → Bool
  | .varDecl _ _ isFinal _ _ => isFinal
  | .paramDecl .. => true
  | _ => false

def classFields : Node → List Node | .classDecl _ _ _ fs _ _ _ => fs | _ => []
def classSupers : Node → List Node | .classDecl _ _ _ _ ss _ _ => ss | _ => []
def classFuncs : Node → List Node | .classDecl _ _ _ _ _ fs _ => fs | _ => []
def classTParams : Node → List Ty | .classDecl _ _ _ _ _ _ tps => tps | _ => []
def classKind : Node → Nat | .classDecl _ k .. => k | _ => 0
def superType : Node → Option Ty | .superInst t _ => some t | _ => none
def funcParams : Node → List Node
  | .funcDecl _ ps .. => ps
  | _ => []
def funcTParams : Node → List Ty
  | .funcDecl _ _ _ _ _ _ _ tps _ => tps
  | _ => []
def funcRet : Node → Option Ty
  | .funcDecl _ _ (some r) .. => some r
  | .funcDecl _ _ none inf .. => inf
  | _ => none
def paramName : Node → String | .paramDecl nm .. => nm | _ => ""
def paramVararg : Node → Bool | .paramDecl _ _ v _ => v | _ => false
def paramHasDefault : Node → Bool | .paramDecl _ _ _ (some _) => true | _ => false
def argName : Node → Option String | .callArg _ nm => nm | _ => none

/-- declared type of a variable-like declaration (`var_type`, else the recorded `inferred_type`) -/
def declTy : Node → Option Ty
  | .varDecl _ _ _ (some t) _ => some t
  | .varDecl _ _ _ none inf => inf
  | .paramDecl _ t _ _ => some t
  | .fieldDecl _ t .. => some t
  | _ => none

/-! ## class table -/

def findClass (tops : List Node) (name : String) : Option Node :=
  tops.find? fun d => isClassDecl d && declName d == name

def zipTMap : List Ty → List Ty → TMap
  | p :: ps, a :: as => (tparamName p, a) :: zipTMap ps as
  | _, _ => []

mutual
/-- the class `name` instantiated with `targs` and its superclasses, most derived first, each with
    the substitution of its type parameters.  `fuel` bounds the length of the superclass chain. -/
def hier (tops : List Node) : Nat → String → List Ty → List (Node × TMap)
  | 0, _, _ => []
  | fuel + 1, name, targs =>
    match findClass tops name with
    | none => []
    | some c =>
      let m := zipTMap (classTParams c) targs
      (c, m) :: hierSupers tops fuel m (classSupers c)
def hierSupers (tops : List Node) : Nat → TMap → List Node → List (Node × TMap)
  | _, _, [] => []
  | fuel, m, s :: ss =>
    (match superType s with
     | none => []
     | some t =>
       let st := substTy m t
       match tyClassName st with
       | none => []
       | some nm => hier tops fuel nm (tyArgs st)) ++ hierSupers tops fuel m ss
end

/-- the class of a type and its superclasses -/
def hierOfType (tops : List Node) : Option Ty → List (Node × TMap)
  | none => []
  | some t => match tyClassName t with
    | none => []
    | some nm => hier tops (tops.length + 1) nm (tyArgs t)

/-- fields called `name` of the classes of the hierarchy of `t`, most derived first -/
def memberFields (tops : List Node) (t : Option Ty) (name : String) : List (Node × TMap) :=
  (hierOfType tops t).flatMap fun cm =>
    ((classFields cm.1).filter fun f => declName f == name).map fun f => (f, cm.2)

def memberFuncs (tops : List Node) (t : Option Ty) (name : String) : List (Node × TMap) :=
  (hierOfType tops t).flatMap fun cm =>
    ((classFuncs cm.1).filter fun f => isFuncDecl f && declName f == name).map fun f => (f, cm.2)

/-! ## environments -/

structure Env where
  lang : String
  tops : List Node
  cls : Option Node := none
  inner : List Node := []
  outer : List Node := []
  tvs : List String := []
  inFun : Bool := false
deriving Inhabited

/-- the type `this` has inside a class -/
def selfType (c : Node) : Ty :=
  match classTParams c with
  | [] => .simple (declName c) []
  | tps => .param (declName c) (.tcon "" (declName c) tps []) tps []

def Env.selfTy (env : Env) : Option Ty := env.cls.map selfType

def Env.push (env : Env) (d : Node) : Env := { env with inner := d :: env.inner }

/-- entering a function or lambda with parameters `params`.  In Java a lambda or nested function
    (both are printed as lambdas) may only capture effectively final locals: what was visible
    becomes `outer`. -/
def Env.enterFun (env : Env) (params : List Node) : Env :=
  if env.inFun && env.lang == "java" then
    { env with inner := params.reverse, outer := env.inner ++ env.outer, inFun := true }
  else
    { env with inner := params.reverse ++ env.inner, inFun := true }

def Env.withTVars (env : Env) (tps : List Ty) : Env := { env with tvs := tps.map tparamName ++ env.tvs }

/-- a visible variable-like declaration: the declaration, the substitution of the class it was
    found in, and whether it lies outside the innermost Java lambda -/
structure VarRes where
  decl : Node
  tmap : TMap := []
  captured : Bool := false

/-- everything an unqualified variable name can denote, in resolution order: locals and
    parameters (innermost first), fields of the enclosing class and its superclasses, top-level variables -/
def visibleVars (env : Env) (x : String) : List VarRes :=
  ((env.inner.filter fun d => isVarLike d && declName d == x).map fun d => { decl := d })
  ++ ((env.outer.filter fun d => isVarLike d && declName d == x).map fun d => { decl := d, captured := true })
  ++ ((memberFields env.tops env.selfTy x).map fun fm => { decl := fm.1, tmap := fm.2 })
  ++ ((env.tops.filter fun d => isVarDecl d && declName d == x).map fun d => { decl := d })

/-- everything an unqualified function name can denote: nested functions declared earlier (or the
    one being declared), methods of the enclosing class and its superclasses, top-level functions -/
def visibleFuncs (env : Env) (f : String) : List (Node × TMap) :=
  (((env.inner ++ env.outer).filter fun d => isFuncDecl d && declName d == f).map fun d => (d, []))
  ++ memberFuncs env.tops env.selfTy f
  ++ ((env.tops.filter fun d => isFuncDecl d && declName d == f).map fun d => (d, []))

def VarRes.ty (r : VarRes) : Option Ty := (declTy r.decl).map (substTy r.tmap)

/-- result type of a call of `fm` with explicit type arguments `targs` -/
def callResult (fm : Node × TMap) (targs : List Ty) : Option Ty :=
  (funcRet fm.1).map (substTy (zipTMap (funcTParams fm.1) targs ++ fm.2))

mutual
/-- the declared type of an expression, `none` when no declaration says -/
def staticType (env : Env) : Node → Option Ty
  | .variable x => match visibleVars env x with
    | r :: _ => r.ty
    | [] => none
  | .newE t _ _ => some t
  | .bottom t => t
  | .cond _ tb _ (some t) => let _ := tb; some t
  | .cond _ tb _ none => staticType env tb
  | .block body _ => staticTypeLast env body
  | .fieldAccess e f => match memberFields env.tops (staticType env e) f with
    | fm :: _ => (declTy fm.1).map (substTy fm.2)
    | [] => none
  | .call f _ none targs _ _ => match visibleFuncs env f with
    | fm :: _ => callResult fm targs
    | [] => match visibleVars env f with
      | r :: _ => funResult r.ty
      | [] => none
  | .call f _ (some r) targs _ _ => match memberFuncs env.tops (staticType env r) f with
    | fm :: _ => callResult fm targs
    | [] => match memberFields env.tops (staticType env r) f with
      | fm :: _ => funResult ((declTy fm.1).map (substTy fm.2))
      | [] => none
  | .lambda _ _ _ _ sig => sig
  | .funcRef _ _ sig => sig
  | _ => none
def staticTypeLast (env : Env) : List Node → Option Ty
  | [] => none
  | [e] => staticType env e
  | _ :: e :: es => staticTypeLast env (e :: es)
end

end Heph.Scope
