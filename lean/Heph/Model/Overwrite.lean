import Heph.Model.Check
import Heph.Model.Mutation
/-!
# Type overwriting: which type argument is replaced, and the strict judge of the mutant (C04)

Two parts.

1. **Site selection for a constructor / generic call node** (`TypeOverwriting.visit_func_decl`,
   `src/transformations/type_overwriting.py`).  The candidate is a
   `TypeConstructorInstantiationCallNode` `n` of the type graph; its edges `type_graph[n]` lead to the
   type-variable nodes of the call.  The code

   ```python
   type_params = [e.target for e in type_graph[n] if any(x.is_inferred() for x in type_graph[e.target])]
   type_param  = random.choice(type_params)
   node_type   = n.t.get_type_variable_assignments()[type_param.t]
   ...
   indexes = {t_param: i for i, t_param in enumerate(type_parameters)}   # of the TYPE CONSTRUCTOR
   n.t.type_args[indexes[type_param.t]] = ir_type
   ```

   keeps the type variables the call constrains (`constrained`), draws one of them (`k`, the random
   draw, is an input of the model) and overwrites the argument at the position of the drawn
   variable **in the constructor's full parameter list** (`dictIndex`: a Python dict built by
   enumeration, a later equal key wins).

2. **Strict reading of bottom constants.**  The checker of C01 (`Heph.Check.checkProgram`) emits no
   obligation for a `BottomConstant` (`TODO() as T`, `(T) null`): the generator puts it wherever it
   has nothing else, and C01 wants to accept what the generator meant.  A compiler does type it: the
   expression has the recorded type `T`.  To judge a MUTANT ("a correct type checker must reject")
   acceptance has to be strict: `strictProg` rewrites every bottom constant with a recorded type to a
   literal carrying that type, for which the walker emits the ordinary `asg T τ` obligation; the
   obligations at *projected sinks* (rule 3 of the checker: only a bottom constant may stand there) are
   taken from the unchanged program.  `strictOk` = the checker accepts the program and every other
   obligation of the rewritten program holds.
-/
namespace Heph.Mut
open Heph Heph.Check

/-! ## 1. site selection -/

/-- one edge target of `type_graph[n]`: the `.t` of the type-variable node and whether
    `any(e.is_inferred() for e in type_graph[target])` -/
structure TVar where
  t : Ty
  inferred : Bool
deriving Inhabited

/-- `type_params`: the type variables of the call that have an inferred edge, in edge order -/
def constrained (tvs : List TVar) : List TVar := tvs.filter (·.inferred)

/-- `{p: i for i, p in enumerate(ps)}[k]`: the LAST position holding a key equal to `k` -/
def dictIndexFrom (ps : List Ty) (k : Ty) (i : Nat) (acc : Option Nat) : Option Nat :=
  match ps with
  | [] => acc
  | p :: ps => dictIndexFrom ps k (i + 1) (if Ty.beq p k then some i else acc)

def dictIndex (ps : List Ty) (k : Ty) : Option Nat := dictIndexFrom ps k 0 none

/-- `t.get_type_variable_assignments()[k]` for the dict `{p: a for p, a in zip(params, args)}` -/
def assignedArg (ps args : List Ty) (k : Ty) : Option Ty :=
  match dictIndex (ps.take args.length) k with
  | some i => args[i]?
  | none => none

inductive Pick where
  | noTypeParam                       -- `if not type_params: return node`
  | keyError                          -- the drawn variable is no parameter of the constructor
  | arg (index : Nat) (old : Ty)      -- the argument overwritten and the type replaced
deriving Inhabited

/-- the argument position `visit_func_decl` overwrites: `tparams` = type parameters of the type
    constructor (of the generic function), `args` = the explicit type arguments, `tvs` = the edges
    of the call node, `k` = the random draw among the constrained variables -/
def pickArg (tparams args : List Ty) (tvs : List TVar) (k : Nat) : Pick :=
  match (constrained tvs)[k]? with
  | none => .noTypeParam
  | some tv =>
    match assignedArg tparams args tv.t, dictIndex tparams tv.t with
    | some old, some i => .arg i old
    | _, _ => .keyError

/-- no two parameters of the constructor are equal (a class / function declares each once) -/
def distinctParams : List Ty → Bool
  | [] => true
  | p :: ps => !(ps.any fun q => Ty.beq q p) && distinctParams ps

/-! ## 2. strict judge -/

mutual
/-- every bottom constant with a recorded type becomes a literal of that type -/
def strictN (lt : LangTypes) : Node → Node
  | .block b f => .block (strictL lt b) f
  | .superInst t a => .superInst t (strictOL lt a)
  | .classDecl n c fin fs ss fn tp => .classDecl n c fin (strictL lt fs) (strictL lt ss) (strictL lt fn) tp
  | .varDecl n e fin vt inf => .varDecl n (strictN lt e) fin vt inf
  | .callArg e n => .callArg (strictN lt e) n
  | .fieldDecl n t fin co ov => .fieldDecl n t fin co ov
  | .paramDecl n t va d => .paramDecl n t va (strictO lt d)
  | .funcDecl n ps rt inf b fin ov tp ft => .funcDecl n (strictL lt ps) rt inf (strictO lt b) fin ov tp ft
  | .lambda n ps rt b sg => .lambda n (strictL lt ps) rt (strictN lt b) sg
  | .funcRef f r sg => .funcRef f (strictO lt r) sg
  | .bottom (some t) => .intC "bottom" (some (deproj lt t))
  | .bottom none => .bottom none
  | .intC l t => .intC l t
  | .realC l t => .realC l t
  | .boolC l => .boolC l
  | .charC l => .charC l
  | .stringC l => .stringC l
  | .arrayE t n es => .arrayE t n (strictL lt es)
  | .variable n => .variable n
  | .isE e t nt => .isE (strictN lt e) t nt
  | .binop k l r o => .binop k (strictN lt l) (strictN lt r) o
  | .cond c t f ty => .cond (strictN lt c) (strictN lt t) (strictN lt f) ty
  | .newE t a ci => .newE t (strictL lt a) ci
  | .fieldAccess e f => .fieldAccess (strictN lt e) f
  | .call f a r ta ci rc => .call f (strictL lt a) (strictO lt r) ta ci rc
  | .assign n e r => .assign n (strictN lt e) (strictO lt r)
def strictL (lt : LangTypes) : List Node → List Node
  | [] => []
  | x :: xs => strictN lt x :: strictL lt xs
def strictO (lt : LangTypes) : Option Node → Option Node
  | none => none
  | some x => some (strictN lt x)
def strictOL (lt : LangTypes) : Option (List Node) → Option (List Node)
  | none => none
  | some l => some (strictL lt l)
end

def strictProg (lt : LangTypes) (p : Program) : Program := { p with decls := strictL lt p.decls }

def isProjectedSink (o : Ob) : Bool := o.tag.endsWith "/projected-sink"

/-- the failing obligations of the strict reading that the checker of C01 does not have -/
def strictFailures (lt : LangTypes) (p : Program) : List Ob :=
  (progObs lt (strictProg lt p)).filter fun o => !isProjectedSink o && !o.j.check lt

/-- every failing obligation: those of the checker of C01, then the strict ones -/
def allFailures (lt : LangTypes) (p : Program) : List Ob := failures lt p ++ strictFailures lt p

def strictOk (lt : LangTypes) (p : Program) : Bool := (allFailures lt p).isEmpty

end Heph.Mut
