import Heph.Model.Env
import Heph.Model.SubD
import Heph.Model.Univ
/-!
# `checkProgram`: the executable reference type checker of the IR (C01)

The walker `obs` visits every typed position of a program and emits one *obligation* per
position: a path, a tag naming the kind of position (`init`, `default-arg`, `arg`, `named-arg`,
`vararg`, `ctor-arg`, `super-arg`, `result`, `lambda-body`, `assign`, `array-elem`,
`type-arg-bound`, `final-super`, `abstract-unimplemented`, `override-param`, `override-ret`, …) and a
judgement: `asg a e` ("the type `a` of the expression is assignable to the expected type `e`") or
`holds b` (a structural condition: a name resolves, arities agree, a class is not final …).
The walk is bidirectional: the expected type of a position is pushed into the branches of a
conditional and to the last statement of a block (tag `…/cond-branch`); the *recorded* type of a
conditional is a separate obligation with its own tag `cond-recorded-type` (rule 7).

`Spec/Typing.lean` reads the same obligations declaratively (`Asg`); `checkProgram` decides
them with `isSubD`.  `Proofs/CheckSound.lean`: `checkProgram … = .ok → WT …`.
-/
namespace Heph
namespace Check
open Heph.Ty

inductive Judg where
  | asg (a : Option Ty) (e : Ty)
  | holds (b : Bool)
deriving Inhabited

structure Ob where
  path : List String
  tag : String
  j : Judg
deriving Inhabited

def ob (π : List String) (tag : String) (j : Judg) : Ob := ⟨π, tag, j⟩

/-! ## well-formed types: arity and bounds of explicit type arguments -/

/-- each explicit type argument is within the bound of its parameter, after substituting the
    other arguments (`outer` = map already in force) -/
def boundObs (π : List String) (tag : String) (params args : List Ty) (outer : TMap) : List Ob :=
  let m := tmapUpdate outer params args
  (params.zip args).filterMap fun (p, a) =>
    match p with
    | tparam _ _ (some bd) =>
        let b := substituteType bd m
        (match a with
         | wild 1 (some ab) => some (ob π tag (.asg (some ab) b))
         | wild _ _ => none
         | _ => some (ob π tag (.asg (some a) b)))
    | _ => none

mutual
def typeWf (classes : List Node) (π : List String) : Ty → List Ob
  | param nm con args _ =>
      ob π "type-arity" (.holds (args.length == (conParams con).length)) ::
      ((match findClass classes nm with
        | some c => boundObs π "type-arg-bound" (clsTParams c) args []
        | none => []) ++ typeWfL classes π args)
  | wild _ (some b) => typeWf classes π b
  | _ => []
def typeWfL (classes : List Node) (π : List String) : List Ty → List Ob
  | [] => []
  | t :: ts => typeWf classes π t ++ typeWfL classes π ts
end

def typeWfO (classes : List Node) (π : List String) : Option Ty → List Ob
  | some t => typeWf classes π t
  | none => []

/-! ## argument binding (rule 5) -/

structure Plan where
  slots : List (Nat × Ty × String)     -- argument index ↦ expected type, tag
  errs : List String

/-- positional arguments bind parameters in order, a vararg parameter takes the remaining
    positional arguments, a named argument binds its parameter, an unbound parameter needs a
    default (`dflt i`: own or inherited) -/
def planCall (lt : LangTypes) (m : TMap) (dflt : Nat → Bool) :
    Nat → List Node → List Nat → List (String × Nat) → Plan → Plan
  | _, [], pos, _, acc => if pos.isEmpty then acc else { acc with errs := acc.errs ++ ["too-many-args"] }
  | i, p :: ps, pos, named, acc =>
    match p with
    | .paramDecl pn pt vararg d =>
      let τ := sinkType lt pt m
      if vararg then
        let et := match τ with | param _ _ (a :: _) _ => a | _ => τ
        planCall lt m dflt (i+1) ps [] named { acc with slots := acc.slots ++ pos.map fun k => (k, et, "vararg") }
      else match named.find? (fun q => q.1 == pn) with
        | some (_, k) => planCall lt m dflt (i+1) ps pos named { acc with slots := acc.slots ++ [(k, τ, "named-arg")] }
        | none =>
          (match pos with
           | k :: pos' => planCall lt m dflt (i+1) ps pos' named { acc with slots := acc.slots ++ [(k, τ, "arg")] }
           | [] =>
              if d.isSome || dflt i then planCall lt m dflt (i+1) ps [] named acc
              else planCall lt m dflt (i+1) ps [] named { acc with errs := acc.errs ++ ["missing-arg"] })
    | _ => planCall lt m dflt (i+1) ps pos named { acc with errs := acc.errs ++ ["bad-param"] }

def indexed {α} (xs : List α) : List (Nat × α) := (List.range xs.length).zip xs

/-- the expected type (and tag) of every argument of a call, aligned with the argument list -/
def callPlan (lt : LangTypes) (m : TMap) (dflt : Nat → Bool) (params args : List Node) :
    List (Option Ty × String) × List String :=
  let ia := indexed (args.map argName)
  let pos := ia.filterMap fun (k, nm) => if nm.isNone then some k else none
  let named := ia.filterMap fun (k, nm) => nm.map fun s => (s, k)
  let pl := planCall lt m dflt 0 params pos named ⟨[], []⟩
  let plan := (List.range args.length).map fun k =>
    match pl.slots.find? (fun s => s.1 == k) with
    | some (_, τ, tag) => (some τ, tag)
    | none => (none, "unbound-arg")
  let extra := if (List.range args.length).all (fun k => pl.slots.any (fun s => s.1 == k)) then [] else ["unbound-arg"]
  (plan, pl.errs ++ extra)

/-- a parameter without default may take the default of a declaration of the same name and
    arity in the receiver's class chain (overrides are generated with the defaults stripped) -/
def inheritedDefault (classes : List Node) (recvT : Option Ty) (fname : String) (n : Nat) (i : Nat) : Bool :=
  match recvT with
  | none => false
  | some t =>
    match clsOf classes (clsFuel classes) t with
    | some (c, m) =>
        (chainOf classes (clsFuel classes) c m).any fun km =>
          (clsFuncs km.1).any fun g =>
            declName g == fname && (funcParams g).length == n &&
              (match (funcParams g)[i]? with | some p => paramHasDefault p | none => false)
    | none => false

/-! ## class obligations -/

/-- a regular class implements every abstract function it inherits: an ancestor's function
    without body has an implementation in the class or in a nearer ancestor -/
def abstractObs (π : List String) (chain : List (Node × TMap)) : List Ob :=
  (indexed chain).flatMap fun (i, km) =>
    if i == 0 then [] else
    (clsFuncs km.1).filterMap fun g =>
      if funcHasBody g then none else
      some (ob (π ++ ["inherits:" ++ declName km.1 ++ "." ++ declName g]) "abstract-unimplemented"
        (.holds ((chain.take i).any fun kn => (clsFuncs kn.1).any fun h => declName h == declName g && funcHasBody h)))

/-- an override has the overridden parameter types (after substituting the super type
    arguments and renaming the method's type parameters) and an assignable return type -/
def overrideObs (lt : LangTypes) (π : List String) (superChain : List (Node × TMap)) (g : Node) : List Ob :=
  if !funcOverride g then [] else
  let π := π ++ ["func:" ++ declName g]
  match memberIn superChain (declName g) false with
  | none => [ob π "override-nothing" (.holds false)]
  | some (og, om) =>
    let om := tmapUpdate om (funcTParams og) (funcTParams g)
    ob π "override-final" (.holds (!(funcFinal og && funcHasBody og))) ::
    ob π "override-arity" (.holds ((funcParams og).length == (funcParams g).length)) ::
    (((funcParams og).zip (funcParams g)).filterMap fun (p1, p2) =>
        match paramTy p1, paramTy p2 with
        | some t1, some t2 => some (ob (π ++ ["param:" ++ declName p2]) "override-param"
            (.holds (beq (substituteType t1 om) t2)))
        | _, _ => none) ++
    (match funcRet g, funcRet og with
     | some r, some r0 =>
        if isVoid lt r && isVoid lt r0 then [] else [ob π "override-ret" (.asg (some r) (substituteType r0 om))]
     | _, _ => [])

def overrideFieldObs (π : List String) (superChain : List (Node × TMap)) (f : Node) : List Ob :=
  if !fieldOverride f then [] else
  match memberIn superChain (declName f) true, fieldTy f with
  | some (f0, m0), some t =>
      (match fieldTy f0 with
       | some t0 => [ob (π ++ ["field:" ++ declName f]) "override-field" (.holds (beq (substituteType t0 m0) t))]
       | none => [])
  | _, _ => [ob (π ++ ["field:" ++ declName f]) "override-field-nothing" (.holds false)]

/-! ## the walk -/

/-- obligation of an expression `e` standing at a position of expected type `τ` -/
def expectOb (Γ : Env) (π : List String) (e : Node) (exp : Option Ty) (tag : String) : List Ob :=
  match exp with
  | none => []
  | some τ =>
    if isVoid Γ.lt τ then []
    else if τ.isWild then [ob π (tag ++ "/projected-sink") (.holds (isBottomConst e))]   -- rule 3
    else [ob π tag (.asg (synth Γ e) τ)]

def condTag (tag : String) : String :=
  if tag.endsWith "/cond-branch" then tag else tag ++ "/cond-branch"

mutual
/-- obligations of node `n` standing at a position of expected type `exp` (tag `tag`) -/
def obs (Γ : Env) (π : List String) : Node → Option Ty → String → List Ob
  | .callArg e _, exp, tag => obs Γ π e exp tag
  | .block body _, exp, tag => obsBlock Γ π 0 body exp tag
  | .cond c t f ty, exp, tag =>
      obs Γ (π ++ ["cond"]) c (some Γ.lt.boolean) "condition" ++
      obs (Γ.smartCast c) (π ++ ["then"]) t exp (condTag tag) ++
      obs Γ (π ++ ["else"]) f exp (condTag tag) ++
      (match ty with
       | some ty => [ob (π ++ ["then"]) "cond-recorded-type" (.asg (synth (Γ.smartCast c) t) ty),
                     ob (π ++ ["else"]) "cond-recorded-type" (.asg (synth Γ f) ty)]
       | none => [ob π "cond-untyped" (.holds false)])
  | .varDecl nm e fin vt inf, exp, tag =>
      expectOb Γ π (.varDecl nm e fin vt inf) exp tag ++
      typeWfO Γ.classes (π ++ ["var:" ++ nm]) vt ++
      obs Γ (π ++ ["var:" ++ nm]) e (match inf with | some t => some (deproj Γ.lt t) | none => vt.map (deproj Γ.lt)) "init"
  | .funcDecl nm ps ret inf body fin ov tps ft, exp, tag =>
      let π' := π ++ ["func:" ++ nm]
      expectOb Γ π (.funcDecl nm ps ret inf body fin ov tps ft) exp tag ++
      typeWfL Γ.classes π' (tps.filterMap boundOf) ++
      obsParams Γ π' ps ++
      (match body with
       | some b => obs (Γ.bindParams ps) (π' ++ ["body"]) b
           ((match inf with | some t => some t | none => ret).map (deproj Γ.lt)) "result"
       | none => [])
  | .paramDecl nm t _va d, _, _ =>
      typeWf Γ.classes (π ++ ["param:" ++ nm]) t ++
      (match d with
       | some d => obs Γ (π ++ ["param:" ++ nm]) d (some (deproj Γ.lt t)) "default-arg"
       | none => [])
  | .lambda nm ps ret body sig, exp, tag =>
      expectOb Γ π (.lambda nm ps ret body sig) exp tag ++
      obs (Γ.bindParams ps) (π ++ ["lambda:" ++ nm]) body (ret.map (deproj Γ.lt)) "lambda-body"
  | .funcRef fn recv sig, exp, tag =>
      expectOb Γ π (.funcRef fn recv sig) exp tag ++
      (match recv with
       | some r => obs Γ (π ++ ["recv"]) r none ""
       | none => [])
  | .arrayE t len es, exp, tag =>
      expectOb Γ π (.arrayE t len es) exp tag ++
      typeWf Γ.classes π t ++
      obsZip Γ (π ++ ["array"]) 0 es
        (es.map fun _ => ((match t with | param _ _ (a :: _) _ => some a | _ => none), "array-elem"))
  | .isE e t isNot, exp, tag =>
      expectOb Γ π (.isE e t isNot) exp tag ++ obs Γ (π ++ ["is"]) e none ""
  | .binop kind l r op, exp, tag =>
      expectOb Γ π (.binop kind l r op) exp tag ++
      (if kind == "logical" then
        obs Γ (π ++ ["lhs"]) l (some Γ.lt.boolean) "logical-operand" ++
        obs Γ (π ++ ["rhs"]) r (some Γ.lt.boolean) "logical-operand"
       else obs Γ (π ++ ["lhs"]) l none "" ++ obs Γ (π ++ ["rhs"]) r none "")
  | .newE t args ci, exp, tag =>
      let π' := π ++ ["new:" ++ typeName t]
      expectOb Γ π (.newE t args ci) exp tag ++
      typeWf Γ.classes π' t ++
      (if isTop t || isVoid Γ.lt t then obsZip Γ π' 0 args []
       else match clsOf Γ.classes (clsFuel Γ.classes) t with
        | none => ob π' "unbound-class" (.holds false) :: obsZip Γ π' 0 args []
        | some (c, m) =>
            ob π' "abstract-new" (.holds (clsCType c == 0)) ::
            ob π' "ctor-arity" (.holds (args.length == (clsFields c).length)) ::
            obsZip Γ π' 0 args ((clsFields c).map fun f =>
              ((fieldTy f).map fun ft => sinkType Γ.lt ft m, "ctor-arg")))
  | .fieldAccess e fld, exp, tag =>
      expectOb Γ π (.fieldAccess e fld) exp tag ++
      ob (π ++ ["." ++ fld]) "unbound-field" (.holds (synth Γ (.fieldAccess e fld)).isSome) ::
      obs Γ (π ++ ["." ++ fld]) e none ""
  | .variable nm, exp, tag =>
      expectOb Γ π (.variable nm) exp tag ++ [ob (π ++ [nm]) "unbound-variable" (.holds (Γ.lookupVar nm).isSome)]
  | .assign nm e recv, exp, tag =>
      let π' := π ++ ["assign:" ++ nm]
      expectOb Γ π (.assign nm e recv) exp tag ++
      (match recv with
       | none =>
          (match Γ.lookupVar nm with
           | some (t, fin) => ob π' "final-assign" (.holds (!fin)) :: obs Γ π' e (some (deproj Γ.lt t)) "assign"
           | none => ob π' "unbound-variable" (.holds false) :: obs Γ π' e none "")
       | some r =>
          obs Γ (π' ++ ["recv"]) r none "" ++
          (match (synth Γ r).bind fun rt => findMember Γ.classes rt nm true with
           | some (f, m) =>
               ob π' "final-assign" (.holds (!fieldFinal f)) ::
               obs Γ π' e ((fieldTy f).map fun ft => sinkType Γ.lt ft m) "assign"
           | none => ob π' "unbound-field" (.holds false) :: obs Γ π' e none ""))
  | .call fn args recv targs ci isRef, exp, tag =>
      let π' := π ++ ["call:" ++ fn]
      expectOb Γ π (.call fn args recv targs ci isRef) exp tag ++
      (match recv with
       | some r => obs Γ (π' ++ ["recv"]) r none ""
       | none => []) ++
      (if isRef then
        (let sig : Option Ty := match recv with
            | none => (Γ.lookupVar fn).map (·.1)
            | some r => (synth Γ r).bind fun rt => (findMember Γ.classes rt fn true).bind fun fm =>
                (fieldTy fm.1).map fun ft => readType Γ.lt ft fm.2
         match sig with
         | some sig =>
            if isFunctionTy sig then
              ob π' "ref-call-arity" (.holds ((sigParams sig).length == args.length)) ::
              obsZip Γ π' 0 args ((sigParams sig).map fun pt =>
                (some (match pt with | wild 2 (some b) => b | _ => pt), "ref-call-arg"))
            else ob π' "not-a-function" (.holds false) :: obsZip Γ π' 0 args []
         | none => ob π' "unbound-ref-call" (.holds false) :: obsZip Γ π' 0 args [])
       else
        (let recvT : Option Ty := match recv with | none => none | some r => synth Γ r
         let target : Option (Node × TMap) := match recv with
            | none => Γ.lookupFunc fn
            | some _ => recvT.bind fun rt => findMember Γ.classes rt fn false
         match target with
         | none => ob π' "unbound-function" (.holds false) :: obsZip Γ π' 0 args []
         | some (d, m) =>
            let tps := funcTParams d
            let m' := tmapUpdate m tps targs
            let pl := callPlan Γ.lt m' (inheritedDefault Γ.classes recvT fn (funcParams d).length) (funcParams d) args
            ob π' "type-arg-arity" (.holds (targs.length == tps.length)) ::
            (boundObs π' "type-arg-bound" tps targs m ++ typeWfL Γ.classes π' targs ++
             pl.2.map (fun e => ob π' e (.holds false)) ++
             obsZip Γ π' 0 args pl.1)))
  | .superInst _t args, _, _ =>
      -- only reached through `obsClass`; the arguments are walked there
      (match args with | some as => obsZip Γ π 0 as [] | none => [])
  | .classDecl nm ct fin fields supers funcs tps, _, _ =>
      let c := Node.classDecl nm ct fin fields supers funcs tps
      let π' := π ++ ["class:" ++ nm]
      let chain := chainOf Γ.classes (clsFuel Γ.classes) c []
      typeWfL Γ.classes π' (tps.filterMap boundOf) ++
      typeWfL Γ.classes π' (fields.filterMap fieldTy) ++
      (match supers with
       | [] => []
       | s :: _ =>
         (match s with
          | .superInst st sargs =>
            typeWf Γ.classes (π' ++ ["super"]) st ++
            (match clsOf Γ.classes (clsFuel Γ.classes) st with
             | none => ob (π' ++ ["super"]) "unbound-superclass" (.holds false) ::
                 (match sargs with | some as => obsZip Γ (π' ++ ["super"]) 0 as [] | none => [])
             | some (sc, m) =>
               ob (π' ++ ["super"]) "final-super" (.holds (!clsFinal sc)) ::
               ob (π' ++ ["super"]) "interface-extends-class" (.holds (ct != 1 || clsCType sc == 1)) ::
               ((match sargs with
                 | some as =>
                    ob (π' ++ ["super"]) "super-arity" (.holds (as.length == (clsFields sc).length)) ::
                    obsZip Γ (π' ++ ["super"]) 0 as ((clsFields sc).map fun f =>
                      ((fieldTy f).map fun ft => sinkType Γ.lt ft m, "super-arg"))
                 | none => [ob (π' ++ ["super"]) "super-without-args" (.holds (clsCType sc == 1))]) ++
                (if ct == 0 then abstractObs π' chain else []) ++
                funcs.flatMap (overrideObs Γ.lt π' (chain.drop 1)) ++
                fields.flatMap (overrideFieldObs π' (chain.drop 1))))
          | _ => [ob π' "bad-super-node" (.holds false)])) ++
      obsFuncs (Γ.bindClass c) π' funcs
  | .bottom _, _, _ => []
  | .intC l t, exp, tag => expectOb Γ π (.intC l t) exp tag
  | .realC l t, exp, tag => expectOb Γ π (.realC l t) exp tag
  | .boolC l, exp, tag => expectOb Γ π (.boolC l) exp tag
  | .charC l, exp, tag => expectOb Γ π (.charC l) exp tag
  | .stringC l, exp, tag => expectOb Γ π (.stringC l) exp tag
  | .fieldDecl .., _, _ => []
/-- statements of a block: a declaration is in scope of the statements after it, the expected
    type goes to the last statement -/
def obsBlock (Γ : Env) (π : List String) (i : Nat) : List Node → Option Ty → String → List Ob
  | [], _, _ => []
  | [s], exp, tag => obs (Γ.extendF s) (π ++ [toString i]) s exp tag
  | s :: rest, exp, tag =>
      obs (Γ.extendF s) (π ++ [toString i]) s none "" ++ obsBlock (Γ.extend s) π (i+1) rest exp tag
/-- children paired with their expected types -/
def obsZip (Γ : Env) (π : List String) (i : Nat) : List Node → List (Option Ty × String) → List Ob
  | [], _ => []
  | a :: as, [] => obs Γ (π ++ [toString i]) a none "" ++ obsZip Γ π (i+1) as []
  | a :: as, (τ, tag) :: ps => obs Γ (π ++ [toString i]) a τ tag ++ obsZip Γ π (i+1) as ps
def obsParams (Γ : Env) (π : List String) : List Node → List Ob
  | [] => []
  | p :: ps => obs Γ π p none "" ++ obsParams Γ π ps
def obsFuncs (Γ : Env) (π : List String) : List Node → List Ob
  | [] => []
  | g :: gs => obs Γ π g none "" ++ obsFuncs Γ π gs
end

/-! ## the program -/

def isClass : Node → Bool | .classDecl .. => true | _ => false

def globalEnv (lt : LangTypes) (p : Program) : Env :=
  p.decls.foldl (fun Γ d => Γ.extend d) { lt := lt, classes := p.decls.filter isClass, binds := [] }

def obsDecls (Γ : Env) : List Node → List Ob
  | [] => []
  | d :: ds => obs Γ [] d none "" ++ obsDecls Γ ds

/-- every obligation of a program; the first one states that the table of built-ins is a
    universe (`tableOK`) -/
def progObs (lt : LangTypes) (p : Program) : List Ob :=
  ob [] "builtin-table" (.holds (tableOK lt.builtins)) :: obsDecls (globalEnv lt p) p.decls

/-! ## deciding obligations -/

/-- the executable assignability test: both types lie in the universe of the program, and
    `isSubD` accepts (after `deproj`: a declared projection denotes its bound) -/
def asgB (lt : LangTypes) (a e : Ty) : Bool :=
  let s := deproj lt a
  let t := deproj lt e
  goodB lt.builtins s && goodB lt.builtins t && isSubDTop lt.builtins s t

def Judg.check (lt : LangTypes) : Judg → Bool
  | .asg (some a) e => asgB lt a e
  | .asg none _ => false
  | .holds b => b

inductive CheckResult where
  | ok
  | error (path : List String) (reason : String) (detail : String)
deriving Inhabited, Repr

def Judg.detail : Judg → String
  | .asg (some a) e => getName a ++ " is not assignable to " ++ getName e
  | .asg none e => "untypable expression where " ++ getName e ++ " is expected"
  | .holds _ => ""

/-- coarse kind of a type, for shape signatures of findings -/
def kindOf : Ty → String
  | builtin .. => "builtin"
  | simple .. => "class"
  | param .. => "class"
  | tcon .. => "class"
  | tparam .. => "typevar"
  | wild .. => "projection"
  | nothing => "nothing"
  | ext _ => "ext"

def Judg.kinds : Judg → String
  | .asg (some a) e => kindOf a ++ "->" ++ kindOf e
  | .asg none e => "untypable->" ++ kindOf e
  | .holds _ => ""

def checkProgram (lt : LangTypes) (p : Program) : CheckResult :=
  match (progObs lt p).find? (fun o => !o.j.check lt) with
  | none => .ok
  | some o => .error o.path o.tag o.j.detail

/-- all failing obligations (the harness triages every one of them) -/
def failures (lt : LangTypes) (p : Program) : List Ob :=
  (progObs lt p).filter fun o => !o.j.check lt

end Check
end Heph
