/-!
# C18 / C13 — `ProgramProcessor` and the per-iteration driver loops of `hephaestus.py`

An executable model, branch by branch, of

* `src/modules/processor.py`: `ProgramProcessor.__init__` / `_get_transformation_schedule`, `get_program`
  (replay branch: `load_program(args.replay)`; otherwise `generate_program`), `get_transformations`,
  `can_transform`, `_apply_transformation`, `transform_program`, `inject_fault`, and the counter
  `current_transformation`;
* `hephaestus.py`: `process_cp_transformations` (the `while proc.can_transform()` loop with its
  `if res is None: continue`), `process_ncp_transformations`, `gen_program` (which strings them together and
  turns an `Exception` into a failed `ProgramRes`), and the succession of iterations (`_run` builds a NEW
  `ProgramProcessor` per iteration in ONE process: the heap persists from one iteration to the next).

What is abstract
* A program is a value of an arbitrary type `P` (its *content*) living in a cell of a `Heap`; variables of the
  Python code hold ADDRESSES.  Transformations mutate the object they are given in place: the model makes the
  aliasing explicit (`Heap.write` on the address the transformer received).
* The transformers (TypeErasure, TypeOverwriting, or anything registered in `CP_TRANSFORMATIONS` /
  `NCP_TRANSFORMATIONS`) are a PARAMETER `Beh P`: a function of the global number of the transformer run, the
  iteration, the class name, the `transformation_number` and the content of the program it is given, answering
  with an `Effect`: it raises, or it leaves the given object with a new content, returns that object or a fresh
  one (`result()`), and reports `is_transformed` and a note (`error_injected`).  Indexing by the global run
  number makes every stateful / randomised transformer an instance.
* `translate_program` and `dump_program` read the program: a saved file is recorded as the pair (content the
  text was made from, content pickled), in the order of the `save_program` calls.
* The random draw of the schedule (`random.choice(self.transformations)`) is an input: the drawn class names.
-/
namespace Heph.Processor

/-! ## the heap of program objects -/
structure Heap (P : Type) where
  cells : List P
deriving Repr

def Heap.read [Inhabited P] (h : Heap P) (a : Nat) : P := h.cells.getD a default
def Heap.write (h : Heap P) (a : Nat) (p : P) : Heap P := ⟨h.cells.set a p⟩
/-- a NEW object: its address is the old size of the heap -/
def Heap.alloc (h : Heap P) (p : P) : Heap P × Nat := (⟨h.cells ++ [p]⟩, h.cells.length)

/-! ## transformers as a parameter -/
inductive Effect (P : Type) where
  /-- `transform()` raises (after leaving the given object with content `inputAfter`) -/
  | raises (inputAfter : P) (msg : String)
  /-- `transform()` returns: the given object now has content `inputAfter`; `result()` is that object
      (`fresh = none`) or a new object with the given content; `is_transformed`; `error_injected` -/
  | ran (inputAfter : P) (fresh : Option P) (transformed : Bool) (info : String)

/-- behaviour of the transformers: global run number, iteration (`proc_id`), class name,
    `transformation_number`, content of the program given -/
abbrev Beh (P : Type) := Nat → Nat → String → Nat → P → Effect P

/-! ## files written by `save_program` -/
inductive Dest where
  | generator (pid : Nat)                  -- <test_directory>/generator/iter_<pid>/<filename>
  | transformation (pid tid : Nat)         -- <test_directory>/transformations/iter_<pid>/<tid>/<filename>
  | correct (pid : Nat)                    -- <dirname>/<package 0>/<filename>
  | tmp (pid : Nat)                        -- <test_directory>/tmp/<pid>/<filename>
  | generatorIncorrect (pid : Nat)         -- <test_directory>/generator/iter_<pid>/<incorrect filename>
  | incorrect (pid : Nat)                  -- <dirname>/<package 1>/<filename>
  | tmpIncorrect (pid : Nat)               -- <test_directory>/tmp/<pid>/<incorrect filename>
deriving Repr, DecidableEq

structure Save (P : Type) where
  dest : Dest
  text : P        -- content the source text was translated from
  bin : P         -- content pickled into `<file>.bin`
deriving Repr

structure World (P : Type) where
  heap : Heap P := ⟨[]⟩
  /-- transformer runs so far (all iterations) -/
  calls : Nat := 0
  saves : List (Save P) := []
  /-- used by the counter-model `cachedLoad` only: the object kept for the replayed path -/
  cache : Option Nat := none
deriving Repr

def World.save (w : World P) (d : Dest) (text bin : P) : World P :=
  { w with saves := w.saves ++ [⟨d, text, bin⟩] }

/-! ## the command line, as far as the processor and the loops read it -/
structure Args where
  /-- `--replay <file>` given -/
  replay : Bool := false
  /-- `--transformations` (`None` only when a `--transformation-schedule` file is used) -/
  transformations : Option Nat := some 0
  /-- lines of the `--transformation-schedule` file -/
  scheduleLines : List String := []
  /-- `--transformation-types` -/
  transformationTypes : List String := ["TypeErasure"]
  keepAll : Bool := false
  /-- `--only-correctness-preserving-transformations` -/
  onlyCP : Bool := false
deriving Repr

def cpNames : List String := ["TypeErasure"]
def ncpName : String := "TypeOverwriting"

/-- `ProgramProcessor._get_transformation_schedule` (after `self.transformations = [CP[t] for t in types]`).
    `drawn`: the class names `random.choice` returned, one per scheduled transformation. -/
def getSchedule (args : Args) (cps : List String) (drawn : List String) : Except String (List String) :=
  if !args.transformationTypes.all cps.contains then .error "KeyError"
  else match args.transformations with
    | some n =>
        if n = 0 then .ok []
        else if args.transformationTypes.isEmpty then .error "IndexError"
        else if drawn.length = n ∧ drawn.all args.transformationTypes.contains then .ok drawn
        else .error "schedule-input"
    | none =>
        if args.scheduleLines.all cps.contains then .ok args.scheduleLines else .error "SystemExit"

structure Proc where
  pid : Nat
  schedule : List String
  /-- `current_transformation` -/
  cur : Nat := 0
deriving Repr

/-- `can_transform` -/
def Proc.canTransform (pr : Proc) : Bool := decide (pr.cur < pr.schedule.length)
/-- `get_transformations` -/
def Proc.getTransformations (pr : Proc) : List String := pr.schedule.take pr.cur

/-! ## `get_program` -/

/-- how the replayed file becomes an object -/
abbrev Loader (P : Type) := World P → P → World P × Nat

/-- `load_program(self.args.replay)`: every call unpickles the file into a NEW object -/
def freshLoad : Loader P := fun w stored =>
  let (h, a) := w.heap.alloc stored
  ({ w with heap := h }, a)

/-- NOT the code: the loaded object kept in a table keyed by path and handed out again (the counter-model of
    `Props/C13.replay_cached_counterexample`) -/
def cachedLoad : Loader P := fun w stored =>
  match w.cache with
  | some a => (w, a)
  | none =>
      let (h, a) := w.heap.alloc stored
      ({ w with heap := h, cache := some a }, a)

/-- `get_program`: the replay branch or `generate_program` (a new object with the generator's content) -/
def getProgram (args : Args) (load : Loader P) (stored : P) (gen : Nat → P) (w : World P) (pid : Nat) :
    World P × Nat :=
  if args.replay then load w stored
  else
    let (h, a) := w.heap.alloc (gen pid)
    ({ w with heap := h }, a)

/-! ## `_apply_transformation`, `transform_program`, `inject_fault` -/

/-- runs one transformer on the object at `a`: answers the address of `result()`, `is_transformed`, note -/
def applyTransformation [Inhabited P] (beh : Beh P) (w : World P) (pid : Nat) (name : String) (number : Nat)
    (a : Nat) : World P × Except String (Nat × Bool × String) :=
  match beh w.calls pid name number (w.heap.read a) with
  | .raises after msg => ({ w with calls := w.calls + 1, heap := w.heap.write a after }, .error msg)
  | .ran after fresh t info =>
      let h1 := w.heap.write a after
      match fresh with
      | none => ({ w with calls := w.calls + 1, heap := h1 }, .ok (a, t, info))
      | some p => ({ w with calls := w.calls + 1, heap := (h1.alloc p).1 }, .ok ((h1.alloc p).2, t, info))

/-- `transform_program`: the counter is advanced BEFORE the `is_transformed` test -/
def transformProgram [Inhabited P] (beh : Beh P) (w : World P) (pr : Proc) (a : Nat) :
    World P × Proc × Except String (Option (Nat × String)) :=
  match pr.schedule[pr.cur]? with
  | none => (w, pr, .error "IndexError")
  | some name =>
    match applyTransformation beh w pr.pid name (pr.cur + 1) a with
    | (w', .error e) => (w', pr, .error e)
    | (w', .ok (a', t, info)) =>
        if t then (w', { pr with cur := pr.cur + 1 }, .ok (some (a', info)))
        else (w', { pr with cur := pr.cur + 1 }, .ok none)

/-- NOT the code: the counter advanced only when the step transformed something (the counter-model of
    `Props/C18.late_counter_diverges`) -/
def transformProgramLate [Inhabited P] (beh : Beh P) (w : World P) (pr : Proc) (a : Nat) :
    World P × Proc × Except String (Option (Nat × String)) :=
  match pr.schedule[pr.cur]? with
  | none => (w, pr, .error "IndexError")
  | some name =>
    match applyTransformation beh w pr.pid name (pr.cur + 1) a with
    | (w', .error e) => (w', pr, .error e)
    | (w', .ok (a', t, info)) =>
        if t then (w', { pr with cur := pr.cur + 1 }, .ok (some (a', info)))
        else (w', pr, .ok none)

/-- `inject_fault` (`random.choice` over the single non-preserving transformation) -/
def injectFault [Inhabited P] (beh : Beh P) (w : World P) (pr : Proc) (a : Nat) :
    World P × Proc × Except String (Option (Nat × String)) :=
  match applyTransformation beh w pr.pid ncpName (pr.cur + 1) a with
  | (w', .error e) => (w', pr, .error e)
  | (w', .ok (a', t, info)) =>
      if t then (w', { pr with cur := pr.cur + 1 }, .ok (some (a', info)))
      else (w', { pr with cur := pr.cur + 1 }, .ok none)

/-! ## `process_cp_transformations` -/
inductive Status where
  | done
  | failed (msg : String)     -- an `Exception` inside `gen_program`'s `try`
  | raised (msg : String)     -- raised outside the `try` (construction of the processor)
  | fuel                      -- the model's loop ran out of fuel: the real loop does not end
deriving Repr, DecidableEq

abbrev Step (P : Type) :=
  Beh P → World P → Proc → Nat → World P × Proc × Except String (Option (Nat × String))

structure LoopOut (P : Type) where
  world : World P
  proc : Proc
  /-- the local variable `program` -/
  program : Nat
  /-- the local variable `program_str` (the content it was translated from) -/
  programStr : Option P
  /-- calls of `transform_program` -/
  steps : Nat
  status : Status

/-- the `while proc.can_transform():` loop; `fuel` = number of evaluations of the loop condition allowed -/
def cpLoop [Inhabited P] (step : Step P) (beh : Beh P) (keepAll : Bool) :
    Nat → World P → Proc → Nat → Option P → Nat → LoopOut P
  | 0, w, pr, a, ps, n => ⟨w, pr, a, ps, n, .fuel⟩
  | f + 1, w, pr, a, ps, n =>
    if pr.canTransform then
      match step beh w pr a with
      | (w', pr', .error e) => ⟨w', pr', a, ps, n + 1, .failed e⟩
      | (w', pr', .ok none) => cpLoop step beh keepAll f w' pr' a ps (n + 1)          -- `continue`
      | (w', pr', .ok (some (a', _))) =>
          if keepAll then
            let c := w'.heap.read a'
            cpLoop step beh keepAll f (w'.save (.transformation pr'.pid (pr'.cur - 1)) c c) pr' a' (some c) (n + 1)
          else cpLoop step beh keepAll f w' pr' a' ps (n + 1)
    else ⟨w, pr, a, ps, n, .done⟩

/-- `process_cp_transformations`: the loop, then the two saves of the resulting program -/
def processCp [Inhabited P] (step : Step P) (beh : Beh P) (keepAll : Bool) (fuel : Nat) (w : World P) (pr : Proc)
    (a : Nat) : LoopOut P :=
  let o := cpLoop step beh keepAll fuel w pr a none 0
  match o.status with
  | .done =>
      let c := o.world.heap.read o.program
      let t := o.programStr.getD c
      { o with world := (o.world.save (.correct pr.pid) t c).save (.tmp pr.pid) t c }
  | _ => o

/-- `process_ncp_transformations` (on the object `gen_program` got from `get_program`) -/
def processNcp [Inhabited P] (beh : Beh P) (keepAll : Bool) (w : World P) (pr : Proc) (a : Nat) :
    World P × Proc × Except String (Option String) :=
  match injectFault beh w pr a with
  | (w', pr', .error e) => (w', pr', .error e)
  | (w', pr', .ok none) => (w', pr', .ok none)
  | (w', pr', .ok (some (a', err))) =>
      let w1 := if keepAll then w'.save (.generatorIncorrect pr.pid) (w'.heap.read a') (w'.heap.read a') else w'
      let c := w1.heap.read a'
      (((w1.save (.incorrect pr.pid) c c).save (.tmpIncorrect pr.pid) c c), pr', .ok (some err))

/-! ## `gen_program` and the iterations -/
structure IterRes (P : Type) where
  pid : Nat
  status : Status
  /-- address and content of the object `get_program` returned, read when it returned -/
  startAddr : Option Nat
  start : Option P
  /-- calls of `transform_program` -/
  steps : Nat
  /-- `current_transformation` when `gen_program` returns -/
  cur : Nat
  /-- `stats['transformations']` -/
  transformations : List String
  /-- `stats['error']` on success: the injected error -/
  injected : Option String
  /-- `stats['programs']`: the correct program, and the incorrect one if a fault was injected -/
  programs : List (Dest × Bool)
  /-- the files written during this iteration, in order -/
  saves : List (Save P)

/-- the fuel `gen_program` needs: one evaluation of the loop condition per scheduled transformation and the
    final one (adequacy: `Props/C18.cp_loop_terminates`) -/
def loopFuel (schedule : List String) : Nat := schedule.length + 1

def genProgram [Inhabited P] (step : Step P) (beh : Beh P) (args : Args) (load : Loader P) (stored : P) (gen : Nat → P)
    (schedule : Except String (List String)) (w : World P) (pid : Nat) : World P × IterRes P :=
  let n0 := w.saves.length
  match schedule with
  | .error e => (w, ⟨pid, .raised e, none, none, 0, 0, [], none, [], []⟩)
  | .ok sched =>
    let pr : Proc := { pid := pid, schedule := sched }
    let (w1, a) := getProgram args load stored gen w pid
    let c0 := w1.heap.read a
    let w2 := if args.keepAll then w1.save (.generator pid) c0 c0 else w1
    let o := processCp step beh args.keepAll (loopFuel sched) w2 pr a
    match o.status with
    | .done =>
        if args.onlyCP then
          (o.world, ⟨pid, .done, some a, some c0, o.steps, o.proc.cur, o.proc.getTransformations, none,
                     [(.correct pid, true)], o.world.saves.drop n0⟩)
        else
          match processNcp beh args.keepAll o.world o.proc a with
          | (w3, pr3, .error e) =>
              (w3, ⟨pid, .failed e, some a, some c0, o.steps, pr3.cur, pr3.getTransformations, none, [],
                    w3.saves.drop n0⟩)
          | (w3, pr3, .ok none) =>
              (w3, ⟨pid, .done, some a, some c0, o.steps, pr3.cur, o.proc.getTransformations, none,
                    [(.correct pid, true)], w3.saves.drop n0⟩)
          | (w3, pr3, .ok (some err)) =>
              (w3, ⟨pid, .done, some a, some c0, o.steps, pr3.cur, o.proc.getTransformations, some err,
                    [(.correct pid, true), (.incorrect pid, false)], w3.saves.drop n0⟩)
    | st =>
        (o.world, ⟨pid, st, some a, some c0, o.steps, o.proc.cur, o.proc.getTransformations, none, [],
                   o.world.saves.drop n0⟩)

/-- iterations `first, first+1, …` of one process: each builds a new `ProgramProcessor` (its own schedule),
    the world persists -/
def runIterations [Inhabited P] (step : Step P) (beh : Beh P) (args : Args) (load : Loader P) (stored : P) (gen : Nat → P)
    (schedules : Nat → Except String (List String)) : Nat → Nat → World P → World P × List (IterRes P)
  | 0, _, w => (w, [])
  | n + 1, pid, w =>
      let (w1, r) := genProgram step beh args load stored gen (schedules pid) w pid
      let (w2, rs) := runIterations step beh args load stored gen schedules n (pid + 1) w1
      (w2, r :: rs)

end Heph.Processor
