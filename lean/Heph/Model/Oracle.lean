/-!
# Model of the oracle check and the statistics of `hephaestus.py`

`check_oracle` (l. 371), `update_stats` (194), `save_stats` (170), `get_batches` (208),
`stop_condition` (183), the loop `_run` (484) with `run` / `run_parallel`.

* A generated program is `Prog`: its id, whether the tool itself failed on it
  (`ProgramRes.failed`), `stats['programs']` as the list `(file, expected to compile)` in
  dict order (files are numbered by the harness), and `stats['error']` (the injected error of
  the ill-typed variant, `None` when there is none, the tool's own error for a failed one).
* The compiler's answer is `Outcome`: what `analyze_compiler_output` returned (`failed`, a
  dict file ↦ messages) and `compiler.crash_msg`.
* The file system is the finite list of the directories that exist among `tmp/<pid>` (staging
  copy), `<pid>` (saved test case, both under the session directory) and the batch directory
  (`dirname`).  Only the failure modes of `shutil` that matter are modelled: `copytree` raises
  `FileNotFoundError` when the source is missing and `FileExistsError` when the destination
  exists (unless `dirs_exist_ok=True`); `rmtree` raises `FileNotFoundError` when the
  directory is missing.  An exception is an `Err` carrying the file system at that moment.
* `output[pid] = proc_res.stats` stores a *reference*: the reported message is the value of
  `stats['error']` when `check_oracle` returns.  Every assignment to `stats['error']` is
  followed by `output[pid] = …`, so the model stores the message itself.

`check_oracle` is modelled with two switches (`Variant`), read in three clearly marked
places (search `REPAIR`): `Variant.asIs` is the code of the unchanged tree,
`Variant.repaired` the code after both `fixes/C15-*.diff`.  `checkOracle` is the repaired one, `checkOracleAsIs` the other.

Not modelled: `--debug` (`sys.exit(1)` after the first mismatch), `--rerun`
(`_report_failed`), signals / `STOP_COND` (a parameter of `stopCondition` only), the wall
clock of timeout mode (a parameter), the order in which a worker pool delivers callbacks.
-/
namespace Heph.Oracle

/-! ## dictionaries `pid ↦ message` in insertion order -/

/-- `output` / `STATS['faults']`: pid ↦ `stats['error']` (JSON `null` = `none`) -/
abbrev Reported := List (Nat × Option String)

def keys (d : Reported) : List Nat := d.map (·.1)

/-- `d[k] = v` on a Python dict: overwrite in place or append -/
def dictSet : Reported → Nat → Option String → Reported
  | [], k, v => [(k, v)]
  | (k', v') :: t, k, v => if k' = k then (k, v) :: t else (k', v') :: dictSet t k v

/-- `d.update(r)` -/
def dictUpdate (d r : Reported) : Reported := r.foldl (fun d kv => dictSet d kv.1 kv.2) d

/-! ## programs, compiler outcome -/

structure Prog where
  pid : Nat
  /-- `ProgramRes.failed`: the tool itself failed while generating/transforming -/
  toolFailed : Bool
  /-- `stats['programs']` in dict order: (file, expected to compile) -/
  files : List (Nat × Bool)
  /-- `stats['error']` -/
  err : Option String
  /-- `stats['time']` -/
  time : Nat := 0
deriving Repr, DecidableEq, Inhabited

structure Outcome where
  /-- `failed`: file ↦ error messages (a dict: first entry wins in the model) -/
  failed : List (Nat × List String)
  /-- `compiler.crash_msg` -/
  crash : Option String
deriving Repr, DecidableEq, Inhabited

/-- `program in failed` -/
def Outcome.isFailed (o : Outcome) (f : Nat) : Bool := o.failed.any (·.1 == f)
/-- `failed[program]` -/
def Outcome.msgs (o : Outcome) (f : Nat) : List String := (o.failed.lookup f).getD []

/-- `'\n'.join(l)` -/
def joinLines (l : List String) : String := "\n".intercalate l

def snbc : String := "SHOULD NOT BE COMPILED: "

/-! ## the file system -/

inductive Path where
  | tmp (pid : Nat)     -- `<test_directory>/tmp/<pid>`
  | saved (pid : Nat)   -- `<test_directory>/<pid>`
  | batch (dir : Nat)   -- the `tempfile.mkdtemp()` directory of a batch
deriving Repr, DecidableEq, Inhabited

abbrev FS := List Path

inductive ErrKind where
  | fileExists | fileNotFound | typeError
deriving Repr, DecidableEq, Inhabited

/-- an exception leaving `check_oracle`, with the file system at that moment -/
structure Err where
  kind : ErrKind
  fs : FS
deriving Repr, DecidableEq, Inhabited

/-- `shutil.rmtree(p)` -/
def rmtree (fs : FS) (p : Path) : Except Err FS :=
  if p ∈ fs then .ok (fs.filter (· ≠ p)) else .error ⟨.fileNotFound, fs⟩

/-- `shutil.copytree(src, dst, dirs_exist_ok=okExists)`: `os.scandir(src)` comes first, then
    `os.makedirs(dst, exist_ok=okExists)`; nothing is copied when either raises -/
def copytree (okExists : Bool) (fs : FS) (src dst : Path) : Except Err FS :=
  if src ∉ fs then .error ⟨.fileNotFound, fs⟩
  else if dst ∈ fs then (if okExists then .ok fs else .error ⟨.fileExists, fs⟩)
  else .ok (fs ++ [dst])

/-! ## `check_oracle` -/

/-- which of the two candidate repairs are applied to `check_oracle` -/
structure Variant where
  /-- fixes/C15-both-mismatches.diff: promotions with `dirs_exist_ok=True`, the
      `SHOULD NOT BE COMPILED` message built from the injected error (REPAIR 1, REPAIR 2) -/
  bothFix : Bool
  /-- fixes/C15-crash-reports-all.diff: a crashed batch reports its tool-failed programs too
      (REPAIR 3) -/
  crashFix : Bool
deriving Repr, DecidableEq, Inhabited

/-- the unchanged tree -/
def Variant.asIs : Variant := ⟨false, false⟩
/-- both repairs applied -/
def Variant.repaired : Variant := ⟨true, true⟩

/-- the promotion `copytree(tmp/<pid>, <pid>)` of the two mismatch branches.
    REPAIR 1: the repaired code passes `dirs_exist_ok=True`. -/
def promote (v : Variant) (fs : FS) (pid : Nat) : Except Err FS :=
  copytree v.bothFix fs (.tmp pid) (.saved pid)

/-- state of the loop over `stats['programs']` of one program -/
structure LoopSt where
  err : Option String   -- `proc_res.stats['error']`
  out : Reported        -- `output`
  fs : FS
deriving Repr, DecidableEq, Inhabited

/-- `if oracle and program in failed:` — expected to compile, but rejected -/
def stepCorrect (v : Variant) (o : Outcome) (pid : Nat) (st : LoopSt) (f : Nat) : Except Err LoopSt :=
  let e := some (joinLines (o.msgs f))
  let out := dictSet st.out pid e
  match promote v st.fs pid with
  | .error x => .error x
  | .ok fs => .ok ⟨e, out, fs⟩

/-- the new value of `stats['error']` in `if not oracle and program not in failed:`.
    `none` = `TypeError` (`str + None`).
    REPAIR 2: the repaired code prefixes the *injected* error (read before the loop) and,
    when the program is already in `output`, appends to the message that is there. -/
def snbcMessage (v : Variant) (inj : Option String) (st : LoopSt) (pid : Nat) : Option String :=
  if v.bothFix then
    match inj with
    | none => none
    | some i =>
      if pid ∈ keys st.out then st.err.map (· ++ "\n" ++ (snbc ++ i)) else some (snbc ++ i)
  else st.err.map (snbc ++ ·)

/-- `if not oracle and program not in failed:` — expected to be rejected, but accepted -/
def stepIncorrect (v : Variant) (inj : Option String) (pid : Nat) (st : LoopSt) : Except Err LoopSt :=
  match snbcMessage v inj st pid with
  | none => .error ⟨.typeError, st.fs⟩
  | some m =>
    let out := dictSet st.out pid (some m)
    match promote v st.fs pid with
    | .error x => .error x
    | .ok fs => .ok ⟨some m, out, fs⟩

/-- body of `for program, oracle in proc_res.stats['programs'].items()`: both `if`s are
    evaluated (they exclude each other on `oracle`) -/
def fileStep (v : Variant) (o : Outcome) (inj : Option String) (pid : Nat) (st : LoopSt)
    (f : Nat × Bool) : Except Err LoopSt :=
  if f.2 && o.isFailed f.1 then stepCorrect v o pid st f.1
  else if !f.2 && !o.isFailed f.1 then stepIncorrect v inj pid st
  else .ok st

def filesLoop (v : Variant) (o : Outcome) (inj : Option String) (pid : Nat) :
    LoopSt → List (Nat × Bool) → Except Err LoopSt
  | st, [] => .ok st
  | st, f :: fs =>
    match fileStep v o inj pid st f with
    | .error x => .error x
    | .ok st' => filesLoop v o inj pid st' fs

/-- body of `for pid, proc_res in oracles.items()` (no crash) -/
def progStep (v : Variant) (o : Outcome) (st : Reported × FS) (p : Prog) : Except Err (Reported × FS) :=
  if p.toolFailed then
    -- `output[pid] = proc_res.stats; continue`  (skips the `rmtree` of `tmp/<pid>`)
    .ok (dictSet st.1 p.pid p.err, st.2)
  else
    match filesLoop v o p.err p.pid ⟨p.err, st.1, st.2⟩ p.files with
    | .error x => .error x
    | .ok ls =>
      match rmtree ls.fs (.tmp p.pid) with
      | .error x => .error x
      | .ok fs => .ok (ls.out, fs)

def progsLoop (v : Variant) (o : Outcome) : Reported × FS → List Prog → Except Err (Reported × FS)
  | st, [] => .ok st
  | st, p :: ps =>
    match progStep v o st p with
    | .error x => .error x
    | .ok st' => progsLoop v o st' ps

/-- the loop of the crash branch.
    REPAIR 3: the repaired code reports the tool-failed programs of a crashed batch too
    (with their own message; there is no test case to save). -/
def crashLoop (v : Variant) (msg : String) : Reported × FS → List Prog → Except Err (Reported × FS)
  | st, [] => .ok st
  | st, p :: ps =>
    if p.toolFailed then
      if v.crashFix then crashLoop v msg (dictSet st.1 p.pid p.err, st.2) ps
      else crashLoop v msg st ps
    else
      match copytree false st.2 (.tmp p.pid) (.saved p.pid) with
      | .error x => .error x
      | .ok fs => crashLoop v msg (dictSet st.1 p.pid (some msg), fs) ps

structure Batch where
  /-- number of the batch directory (`dirname`) -/
  dir : Nat
  /-- `oracles` in order -/
  progs : List Prog
deriving Repr, DecidableEq, Inhabited

/-- `check_oracle(dirname, oracles)` after the compiler has answered `o` -/
def checkOracleV (v : Variant) (b : Batch) (o : Outcome) (fs : FS) : Except Err (Reported × FS) :=
  match o.crash with
  | some msg =>
    match rmtree fs (.batch b.dir) with
    | .error x => .error x
    | .ok fs1 => crashLoop v msg ([], fs1) b.progs
  | none =>
    match progsLoop v o ([], fs) b.progs with
    | .error x => .error x
    | .ok st =>
      match rmtree st.2 (.batch b.dir) with
      | .error x => .error x
      | .ok fs2 => .ok (st.1, fs2)

/-- the repaired `check_oracle` (the code the full theorems of C15 are about) -/
def checkOracle : Batch → Outcome → FS → Except Err (Reported × FS) := checkOracleV .repaired

/-- `check_oracle` of the unchanged tree -/
def checkOracleAsIs : Batch → Outcome → FS → Except Err (Reported × FS) := checkOracleV .asIs

/-! ## statistics -/

structure Stats where
  passed : Int      -- `STATS['totals']['passed']` (`batch - len(res)` may be negative in Python)
  failed : Nat      -- `STATS['totals']['failed']`
  time : Nat        -- `STATS['time']`
  faults : Reported -- `STATS['faults']`
deriving Repr, DecidableEq, Inhabited

def Stats.init : Stats := ⟨0, 0, 0, []⟩

/-- `update_stats((res, _), batch, batch_time)` (the compilation time is wall clock: dropped) -/
def updateStats (s : Stats) (batch : Nat) (batchTime : Nat) (res : Reported) : Stats :=
  let failed := res.length
  { passed := s.passed + ((batch : Int) - (failed : Int))
    failed := s.failed + failed
    time := s.time + batchTime
    faults := dictUpdate s.faults res }

/-- what `save_stats` writes: the keys of `faults.json` are the decimal pids (JSON object keys)
    with the reported message; `stats.json` has the totals and the time -/
structure Saved where
  faults : List (String × Option String)
  passed : Int
  failed : Nat
  time : Nat
deriving Repr, DecidableEq, Inhabited

def saveStats (s : Stats) : Saved :=
  ⟨s.faults.map fun kv => (toString kv.1, kv.2), s.passed, s.failed, s.time⟩

/-! ## batches and the stop condition -/

structure Cfg where
  seconds : Option Nat     -- `cli_args.seconds`
  iterations : Option Nat  -- `cli_args.iterations`
  batch : Nat              -- `cli_args.batch`
deriving Repr, DecidableEq, Inhabited

/-- Python truthiness of an optional int -/
def truthy : Option Nat → Bool
  | some (_ + 1) => true
  | _ => false

/-- `stop_condition(iteration, time_passed)`; `stop` is the global `STOP_COND` -/
def stopCondition (c : Cfg) (stop : Bool) (iteration timePassed : Nat) : Bool :=
  if stop then false
  else if truthy c.seconds then decide (timePassed < c.seconds.getD 0)
  else if truthy c.iterations then decide (iteration < c.iterations.getD 0 + 1)
  else true

/-- `get_batches(programs)`; `none` = `TypeError` (`None - int`).
    `cli_args.stop_cond` is `"timeout"` iff `seconds` is truthy. -/
def getBatches (c : Cfg) (programs : Nat) : Option Int :=
  if truthy c.seconds then some c.batch
  else c.iterations.map fun it => min (c.batch : Int) ((it : Int) - (programs : Int))

/-! ## histories of batches -/

/-- one round of `_run`: the directories created while generating the batch (`mkdtemp`,
    `save_program` to `tmp/<pid>`), the batch, the compiler's answer, `batch_time` -/
structure Round where
  stage : List Path
  batch : Batch
  outcome : Outcome
  time : Nat
deriving Repr, DecidableEq, Inhabited

/-- `os.makedirs(p, exist_ok=True)` for every staged directory -/
def stageAll (fs : FS) (ps : List Path) : FS := ps.foldl (fun fs p => if p ∈ fs then fs else fs ++ [p]) fs

inductive Mode where
  | sequential  -- `run`: an exception of `check_oracle` ends the session
  | pool        -- `run_parallel`: `check_oracle_mul` turns it into `({}, 0)`
deriving Repr, DecidableEq, Inhabited

/-- `process_res` of one round -/
def roundStep (v : Variant) (m : Mode) (st : Stats × FS) (r : Round) : Except Err (Stats × FS) :=
  let fs := stageAll st.2 r.stage
  match checkOracleV v r.batch r.outcome fs with
  | .ok (res, fs') => .ok (updateStats st.1 r.batch.progs.length r.time res, fs')
  | .error x =>
    match m with
    | .sequential => .error x
    | .pool => .ok (updateStats st.1 r.batch.progs.length r.time [], x.fs)

/-- a history of rounds; in sequential mode the first exception ends it (the statistics of
    the rounds before it have been saved) -/
def runHistory (v : Variant) (m : Mode) : Stats × FS → List Round → Except (Err × Stats) (Stats × FS)
  | st, [] => .ok st
  | st, r :: rs =>
    match roundStep v m st r with
    | .error x => .error (x, st.1)
    | .ok st' => runHistory v m st' rs

def isTmp : Path → Bool
  | .tmp _ => true
  | _ => false

/-- `shutil.rmtree(<test_directory>/tmp)` at the end of `run` / `run_parallel` -/
def finalCleanup (fs : FS) : FS := fs.filter (!isTmp ·)

/-! ## the loop `_run` in iterations mode with a scripted generator and compiler -/

/-- what the scripted generator and compiler do for program number `pid`:
    `gen_program` returns `prog` (its `pid` field is set by the loop) and leaves `tmp/<pid>`
    behind iff `staged`; the compiler rejects the files `rejected` and crashes iff `crash` -/
structure SProg where
  prog : Prog
  staged : Bool
  rejected : List (Nat × List String)
  crash : Bool
deriving Repr, DecidableEq, Inhabited

/-- the text the scripted compiler prints when it crashes -/
def crashText : String := "java.lang.NullPointerException\n\tat com.sun.tools.javac.Main\n"

/-- the round `_run` forms from the programs `iteration … iteration + k - 1` -/
def mkRound (iteration : Nat) (sps : List SProg) : Round :=
  let progs := sps.zipIdx.map fun (sp, i) => { sp.prog with pid := iteration + i }
  let stage := Path.batch iteration ::
    (sps.zipIdx.filter (·.1.staged)).map fun (_, i) => Path.tmp (iteration + i)
  let live := sps.filter (!·.prog.toolFailed)
  { stage := stage
    batch := ⟨iteration, progs⟩
    outcome := ⟨live.flatMap (·.rejected), if sps.any (·.crash) then some crashText else none⟩
    time := (sps.map (·.prog.time)).sum }

inductive SessRes where
  | done (s : Stats) (fs : FS)          -- the loop ended, `tmp` removed
  | aborted (e : Err) (s : Stats)       -- an exception left `run` (sequential mode)
  | typeError (s : Stats) (fs : FS)     -- `get_batches` raised
  | fuel (s : Stats) (fs : FS)          -- the model's fuel ran out (`--batch 0`: the real loop never ends)
deriving Repr, DecidableEq, Inhabited

/-- `while stop_condition(iteration, time_passed)` of `_run`; program `pid` is `sps[pid-1]` -/
def sessionLoop (v : Variant) (m : Mode) (c : Cfg) (sps : List SProg) :
    Nat → Nat → Stats × FS → SessRes
  | 0, _, st => .fuel st.1 st.2
  | fuel + 1, iteration, st =>
    if !stopCondition c false iteration 0 then .done st.1 (finalCleanup st.2)
    else
      match getBatches c (iteration - 1) with
      | none => .typeError st.1 st.2
      | some n =>
        let k := n.toNat
        let r := mkRound iteration ((sps.drop (iteration - 1)).take k)
        match roundStep v m st r with
        | .error x => .aborted x st.1
        | .ok st' => sessionLoop v m c sps fuel (iteration + k) st'

/-- `run()` / `run_parallel()` with `--iterations len(sps) --batch batch` -/
def runSession (v : Variant) (m : Mode) (batch : Nat) (sps : List SProg) : SessRes :=
  sessionLoop v m ⟨none, some sps.length, batch⟩ sps (sps.length + 2) 1 (Stats.init, [])

end Heph.Oracle
