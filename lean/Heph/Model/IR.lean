import Heph.Model.Types
/-!
# The IR of `src/ir/ast.py`, by value

One constructor per AST class, one field per attribute the class defines (the exporter
`harness/export_ast.py` writes exactly these).  Left out: `FunctionCall.type_parameters`
(scratch written by the type analysis) and `Program.bt_factory` (a function of the language).
`classDecl.ctype`/`funcDecl.ftype` are the integer constants of `ClassDeclaration`/
`FunctionDeclaration` (REGULAR = 0, INTERFACE = 1, ABSTRACT = 2; CLASS_METHOD = 0, FUNCTION = 1).
-/
namespace Heph

inductive Node where
  | block (body : List Node) (isFunc : Bool)
  | superInst (t : Ty) (args : Option (List Node))
  | classDecl (name : String) (ctype : Nat) (isFinal : Bool) (fields supers funcs : List Node)
      (tparams : List Ty)
  | varDecl (name : String) (expr : Node) (isFinal : Bool) (varType : Option Ty) (inferred : Option Ty)
  | callArg (expr : Node) (name : Option String)
  | fieldDecl (name : String) (t : Ty) (isFinal canOverride override : Bool)
  | paramDecl (name : String) (t : Ty) (vararg : Bool) (dflt : Option Node)
  | funcDecl (name : String) (params : List Node) (retType : Option Ty) (inferred : Option Ty)
      (body : Option Node) (isFinal override : Bool) (tparams : List Ty) (ftype : Nat)
  | lambda (name : String) (params : List Node) (retType : Option Ty) (body : Node) (signature : Option Ty)
  | funcRef (func : String) (receiver : Option Node) (signature : Option Ty)
  | bottom (t : Option Ty)
  | intC (lit : String) (t : Option Ty)
  | realC (lit : String) (t : Option Ty)
  | boolC (lit : String)
  | charC (lit : String)
  | stringC (lit : String)
  | arrayE (t : Ty) (len : Nat) (exprs : List Node)
  | variable (name : String)
  | isE (e : Node) (t : Ty) (isNot : Bool)
  | binop (kind : String) (l r : Node) (op : String)
  | cond (c t f : Node) (ty : Option Ty)
  | newE (t : Ty) (args : List Node) (canInfer : Bool)
  | fieldAccess (e : Node) (field : String)
  | call (func : String) (args : List Node) (receiver : Option Node) (targs : List Ty)
      (canInfer : Bool) (isRefCall : Bool)
  | assign (name : String) (expr : Node) (receiver : Option Node)
deriving Inhabited, Repr

/-- one entry of the exported `Context`: namespace, entity kind
    (`types|funcs|lambdas|vars|classes|decls`), name -/
structure CtxEntry where
  ns : List String
  kind : String
  name : String
deriving Repr, Inhabited

structure Program where
  lang : String
  decls : List Node          -- top-level declarations in context order
  context : List CtxEntry    -- the whole context in insertion order (names only)
deriving Inhabited, Repr

end Heph
