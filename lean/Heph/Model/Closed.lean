import Heph.Spec.Scope
import Heph.Model.Pool
/-!
# `closedCheck` — the executable scope walker of C05

`Spec/Scope` states closedness with bounded quantifiers over the declaration lists visible at
each site; this file supplies the decision procedures (`Decidable (Resolves kw env u)`) and the
checker that evaluates them at every site of `programSites p`, reporting the first site that
fails with its path and a reason.  `Proofs/ClosedSound` shows `closedCheck p kw = .ok → Closed p kw`.

Core Lean only.
-/
namespace Heph.Scope
open Heph

/-- `∃ r, o = some r ∧ P r` is decided by looking at `o` -/
def decExSome {α : Type} (o : Option α) (P : α → Prop) [DecidablePred P] :
    Decidable (∃ r, o = some r ∧ P r) :=
  match o with
  | none => isFalse (fun ⟨_, h, _⟩ => by cases h)
  | some r =>
    if h : P r then isTrue ⟨r, rfl, h⟩
    else isFalse (fun ⟨r', h1, h2⟩ => by cases h1; exact h h2)

/-- `∃ x, x ∈ l` is decided by looking at `l` -/
def decExMem {α : Type} (l : List α) : Decidable (∃ x, x ∈ l) :=
  match l with
  | [] => isFalse (fun ⟨_, h⟩ => by cases h)
  | a :: _ => isTrue ⟨a, List.mem_cons_self⟩

instance (env : Env) (x : String) : Decidable (ResolvesVar env x) := by
  unfold ResolvesVar; exact decExSome _ _

instance (env : Env) (f : String) (args : List Node) (recv : Option Node) :
    Decidable (ResolvesCall env f args recv) := by
  unfold ResolvesCall; exact inferInstance

instance (env : Env) (f : String) (recv : Option Node) : Decidable (ResolvesFuncRef env f recv) := by
  unfold ResolvesFuncRef; exact decExMem _

instance (env : Env) (e : Node) (f : String) : Decidable (ResolvesField env e f) := by
  unfold ResolvesField; exact decExMem _

instance (env : Env) (t : Ty) (n : Nat) : Decidable (ResolvesNew env t n) := by
  unfold ResolvesNew; split <;> exact inferInstance

instance (env : Env) (t : Ty) (n : Option Nat) : Decidable (ResolvesSuper env t n) := by
  unfold ResolvesSuper; exact inferInstance

instance (env : Env) (x : String) (recv : Option Node) : Decidable (ResolvesAssign env x recv) := by
  unfold ResolvesAssign; split <;> exact decExSome _ _

instance (env : Env) (t : Ty) : Decidable (TypeVarsBound env t) := by
  unfold TypeVarsBound; exact inferInstance

instance (kw : List String) (env : Env) (u : Use) : Decidable (Resolves kw env u) := by
  unfold Resolves; split <;> exact inferInstance

inductive CheckResult where
  | ok
  | error (path reason : String)
deriving Repr, BEq, DecidableEq, Inhabited

def optTyName : Option Ty → String
  | some t => Ty.getName t
  | none => "?"

/-- a short description of a failing use (diagnostics only; no theorem depends on it) -/
def reason (kw : List String) (env : Env) : Use → String
  | .var x => match (visibleVars env x).head? with
    | none => "unresolved-variable:" ++ x
    | some _ => "java-lambda-captures-nonfinal:" ++ x
  | .call f args recv =>
    let what := match recv with | none => "function" | some r => "method-of:" ++ optTyName (staticType env r)
    if (candidateFuncs env f recv).isEmpty && (candidateRefType env f recv).isNone then "unresolved-" ++ what ++ ":" ++ f
    else "arity:" ++ what ++ ":" ++ f ++ ":" ++ toString args.length
  | .funcRef f recv => "unresolved-function-reference:" ++ f ++
      (match recv with | none => "" | some r => ":on:" ++ optTyName (staticType env r))
  | .field e f => "unresolved-field:" ++ f ++ ":on:" ++ optTyName (staticType env e)
  | .new t n => match t with
    | .builtin .. => "arity:new-builtin:" ++ Ty.getName t
    | _ => match findClass env.tops ((tyClassName t).getD "?") with
      | none => "unresolved-class:" ++ Ty.getName t
      | some c => if classKind c != 0 then "new-of-non-regular-class:" ++ declName c
                  else "arity:new:" ++ declName c ++ ":" ++ toString n
  | .super t _ => match findClass env.tops ((tyClassName t).getD "?") with
    | none => "unresolved-superclass:" ++ Ty.getName t
    | some c => "arity:super:" ++ declName c
  | .assign x recv => match recv with
    | none => match (visibleVars env x).head? with
      | none => "unresolved-variable:" ++ x
      | some r => if r.captured then "java-lambda-assigns-captured:" ++ x else "assign-final:" ++ x
    | some r => match (memberFields env.tops (staticType env r) x).head? with
      | none => "unresolved-field:" ++ x ++ ":on:" ++ optTyName (staticType env r)
      | some _ => "assign-final-field:" ++ x
  | .type t => "type-variable-out-of-scope:" ++ ",".intercalate ((tyVars t).filter fun v => !env.tvs.contains v)
  | .ident name => let _ := kw; "reserved-identifier:" ++ name
  | .distinct what _ => "duplicate-" ++ what

def siteOk (kw : List String) (s : Site) : Bool := decide (Resolves kw s.env s.use)

/-- run every obligation of the program; the first failing site is reported -/
def closedCheck (p : Program) (kw : List String) : CheckResult :=
  match (programSites p).find? fun s => !siteOk kw s with
  | none => .ok
  | some s => .error s.path (reason kw s.env s.use)

/-- a label per kind of site (evidence: use sites resolved per kind) -/
def useKind (env : Env) : Use → String
  | .var x => match (visibleVars env x).head? with
    | some r =>
      if r.captured then "var:captured-local"
      else if isFieldDecl r.decl then "var:field"
      else if isParamDecl r.decl then "var:param"
      else if (env.inner.any fun d => isVarLike d && declName d == x) then "var:local" else "var:top-level"
    | none => "var:unresolved"
  | .call f _ recv =>
    (match recv with | none => "call:plain" | some _ => "call:member") ++
    (if (candidateFuncs env f recv).isEmpty then ":function-typed" else "")
  | .funcRef _ recv => match recv with | none => "funcref:plain" | some _ => "funcref:member"
  | .field .. => "fieldaccess"
  | .new t _ => match t with | .builtin .. => "new:builtin" | _ => "new:class"
  | .super .. => "super"
  | .assign _ recv => match recv with | none => "assign:variable" | some _ => "assign:field"
  | .type t => if (tyVars t).isEmpty then "type:ground" else "type:with-variables"
  | .ident _ => "identifier"
  | .distinct what _ => "distinct:" ++ what

def countKinds (p : Program) : List (String × Nat) :=
  (programSites p).foldl (fun acc s =>
    let k := useKind s.env s.use
    match acc.lookup k with
    | some n => (k, n + 1) :: acc.filter (fun e => e.1 != k)
    | none => (k, 1) :: acc) []

end Heph.Scope
