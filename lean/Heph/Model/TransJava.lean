import Heph.Model.IR
import Heph.Model.Subst
/-!
# Model of `src/translators/java.py` (`JavaTranslator`), state threaded as Python mutates it

`visit : Nat → Env → St → Node → St × Text` is a hand port, method by method, of the visitor.
`St` holds the translator's mutable attributes; every assignment `self.x = …` of the Python
code is an update `{ st with x := … }` at the same place, including the ones that a tidy
printer would not need (`_inside_is_function`, `is_nested_func_block`, …).  What is *not* in
`St`:

* `_children_res`: every decorated visit appends exactly one string and every caller pops
  exactly the strings of the children it visited, so the list is modelled by return values
  (`visitL` returns the children's strings in order).  The one place where the discipline is
  broken in Python — `append_to` routes a variable/function declaration visited *at the global
  namespace* to `_main_children`/`_main_method` instead — is modelled by `route`, and
  `visitProgram` takes the remaining strings as "other classes", as `pop_children_res` on a
  list that is shorter than `len(children)` does.
* `context`, `types`, `program`, `package`: assigned by `visit_program` before they are read
  (`Env` is the by-value context; `types` is never read by the code that is reached).

`Text` is `String`.  Recursion is on explicit fuel (`fuelOf` = depth of the tree + 1); at
fuel 0 the visit answers `fuelMark`.  Python exceptions that the translator can raise on
ill-formed input (`None.is_wildcard()`, `KeyError`, `IndexError`) are rendered as the text
`errMark ++ reason` so that a crash of the real translator corresponds to a marked text.

The helper queries are the methods of `Context`, `type_utils.get_type_hint` (with
`get_decl_from_inheritance`, `_comp_type`), `ClassDeclaration.get_callable_functions`
(names only) and `context.get_decl`, as far as the translator reaches them.
-/
namespace Heph.TransJava

abbrev Text := String

def errMark : String := "<<ERROR:"
def fuelMark : String := "<<FUEL>>"
def err (what : String) : String := errMark ++ what ++ ">>"

/-! ## Python string helpers -/

/-- `str.isspace()` of one character (also the class `\s` of `re` on `str` patterns) -/
def isPyWs (c : Char) : Bool :=
  let n := c.toNat
  (9 ≤ n && n ≤ 13) || (28 ≤ n && n ≤ 32) || n == 0x85 || n == 0xA0 || n == 0x1680 ||
  (0x2000 ≤ n && n ≤ 0x200A) || n == 0x2028 || n == 0x2029 || n == 0x202F || n == 0x205F || n == 0x3000

def sp (n : Nat) : String := String.ofList (List.replicate n ' ')
def join (sep : String) (xs : List String) : String := sep.intercalate xs

/-- `s.lstrip()` -/
def lstripL (cs : List Char) : List Char := cs.dropWhile isPyWs
def lstrip (s : String) : String := String.ofList (lstripL s.toList)
/-- `s.strip()` -/
def stripL (cs : List Char) : List Char := ((lstripL cs).reverse.dropWhile isPyWs).reverse
def strip (s : String) : String := String.ofList (stripL s.toList)

/-- `utils.leading_spaces`: `len(s) - len(s.lstrip(' '))` -/
def leadingSpaces (s : String) : Nat := (s.toList.takeWhile (· == ' ')).length

/-- `utils.add_string_at(s, sub, pos)` = `s[:pos] + sub + s[pos:]` -/
def addStringAt (s sub : String) (pos : Nat) : String :=
  String.ofList (s.toList.take pos ++ sub.toList ++ s.toList.drop pos)

/-- `re.sub(r'\s+', ' ', s)`; the flag says that the previous character was whitespace -/
def collapseAux : Bool → List Char → List Char
  | _, [] => []
  | inWs, c :: cs =>
      if isPyWs c then (if inWs then collapseAux true cs else ' ' :: collapseAux true cs)
      else c :: collapseAux false cs
def collapseWsL (cs : List Char) : List Char := collapseAux false cs
def collapseWs (s : String) : String := String.ofList (collapseWsL s.toList)

/-- `x.rsplit(' ', 1)[0]` -/
def rsplit1L (cs : List Char) : List Char :=
  if cs.contains ' ' then ((cs.reverse.dropWhile (· != ' ')).drop 1).reverse else cs
def rsplit1 (s : String) : String := String.ofList (rsplit1L s.toList)

/-- `x.split()[-1]` (`IndexError` on a blank string) -/
def lastWord (s : String) : String :=
  let r := (s.toList.reverse.dropWhile isPyWs)
  if r.isEmpty then err "IndexError" else String.ofList (r.takeWhile (fun c => !isPyWs c)).reverse

/-- `x.replace("...", "[]")`: non-overlapping occurrences, left to right -/
def replaceDotsL : List Char → List Char
  | '.' :: '.' :: '.' :: cs => '[' :: ']' :: replaceDotsL cs
  | c :: cs => c :: replaceDotsL cs
  | [] => []
def replaceDots (s : String) : String := String.ofList (replaceDotsL s.toList)

def boxedOf : String → String
  | "boolean" => "Boolean" | "byte" => "Byte" | "char" => "Character" | "short" => "Short"
  | "int" => "Integer" | "long" => "Long" | "float" => "Float" | "double" => "Double"
  | "void" => "Void" | s => s

def rep (s : String) : Nat → String
  | 0 => ""
  | n+1 => s ++ rep s n

/-! ## types -/

def clsVoid := "<class 'src.ir.java_types.VoidType'>"
def clsObject := "<class 'src.ir.java_types.ObjectType'>"
def clsArray := "<class 'src.ir.java_types.ArrayType'>"

def tyObject : Ty := .builtin clsObject "Object" false false []
def tyVoid : Ty := .builtin clsVoid "void" false false [tyObject]
def tyBoolean : Ty := .builtin "<class 'src.ir.java_types.BooleanType'>" "Boolean" false false [tyObject]
def tyChar : Ty := .builtin "<class 'src.ir.java_types.CharType'>" "Character" false false [tyObject]
def tyString : Ty := .builtin "<class 'src.ir.java_types.StringType'>" "String" false false [tyObject]

def isCls (t : Ty) (c : String) : Bool := match t with | .builtin cls _ _ _ _ => cls == c | _ => false
/-- `x == jt.<C>` for an optional attribute (`None == jt.C` is `False`) -/
def optIsCls (t : Option Ty) (c : String) : Bool := match t with | some x => isCls x c | none => false
/-- `node.get_type() != jt.Void` -/
def notVoid (t : Option Ty) : Bool := !(optIsCls t clsVoid)

/-- the attribute `name` of a type object -/
def tyName : Ty → String
  | .builtin _ nm _ _ _ => nm | .simple nm _ => nm | .tparam nm _ _ => nm | .tcon _ nm _ _ => nm
  | .param nm _ _ _ => nm | .nothing => "Nothing" | .wild _ _ => "*" | .ext c => c

/-- `t.is_primitive()` -/
def isPrimitive : Ty → Bool
  | .builtin _ _ _ p _ => p | .tparam .. => true | .tcon .. => true | _ => false

mutual
/-- `get_type_name(t, get_boxed_void, box)` -/
def typeName : Ty → Bool → Bool → String
  | .wild v bd, bv, bx =>
      (match bd with
       | none => err "None.is_wildcard"
       | some b => typeName b bv bx)          -- get_bound_rec then get_type_name: nested wildcards unfold the same way
  | .param nm con args _, _, _ =>
      (match con with
       | .tcon cls _ _ _ =>
          if cls == clsArray then
            (match args with
             | a :: _ => typeName a false true ++ "[]"
             | [] => err "IndexError")
          else nm ++ "<" ++ typeArgs args ++ ">"
       | _ => nm ++ "<" ++ typeArgs args ++ ">")
  | .builtin cls nm _ _ _, bv, bx =>
      if bv && cls == clsVoid then "Void" else if bx then boxedOf nm else nm
  | .ext c, _, _ => err ("type-object " ++ c)
  | t, _, bx => if bx then boxedOf (Ty.getName t) else Ty.getName t
/-- `", ".join(type_arg2str(ta) for ta in type_args)` -/
def typeArgs : List Ty → String
  | [] => ""
  | [a] => typeArg a
  | a :: b :: rest => typeArg a ++ ", " ++ typeArgs (b :: rest)
/-- `type_arg2str` -/
def typeArg : Ty → String
  | .wild v bd =>
      if v == 0 then "?"
      else (if v == 1 then "? extends " else "? super ") ++
        (match bd with | some b => typeName b true true | none => err "None.is_wildcard")
  | t => typeName t true true
end

def typeNameO (t : Option Ty) (bv bx : Bool) : String :=
  match t with | some x => typeName x bv bx | none => err "None.is_wildcard"

/-- `visit_type_param` -/
def typeParamStr : Ty → String
  | .tparam nm _ bd =>
      nm ++ (match bd with | some b => " extends " ++ boxedOf (typeName b false false) | none => "")
  | t => Ty.getName t

/-! ## the context, by value -/

/-- one entry of `Context._context`: namespace, kind, name, value (`none` = Python `None`;
    declarations are exported in header form: bodies and initialisers stripped) -/
structure Entry where
  ns : List String
  kind : String
  name : String
  val : Option Node
deriving Inhabited, Repr

structure Env where
  entries : List Entry
deriving Inhabited, Repr

abbrev Dict := List (String × Option Node)

/-- `self._context.get(ns, {}).get(kind, {})` -/
def Env.cur (e : Env) (ns : List String) (kind : String) : Dict :=
  (e.entries.filter fun x => x.ns == ns && x.kind == kind).map fun x => (x.name, x.val)

def dictGet (d : Dict) (k : String) : Option (Option Node) := (d.find? fun p => p.1 == k).map (·.2)
def dropNone (d : Dict) : Dict := d.filter fun p => p.2.isSome
/-- `d1.update(d2)` -/
def dictUpdate (d1 d2 : Dict) : Dict :=
  d2.foldl (fun a p => if a.any (fun q => q.1 == p.1) then a.map (fun q => if q.1 == p.1 then p else q) else a ++ [p]) d1

/-- `find_namespaces(ns, none)` -/
def findNamespaces (e : Env) (ns : List String) (keepNone : Bool) : List (List String) :=
  let f := fun (d : Dict) => if keepNone then d else dropNone d
  ((f (e.cur ns "funcs")).map fun p => ns ++ [p.1]) ++ ((f (e.cur ns "classes")).map fun p => ns ++ [p.1])

/-- the namespaces popped by the worklist loops of `_get_declarations_glob` /
    `get_namespaces_decls`, in order (`stack` has its top at the head) -/
def nsWalk (e : Env) (keepNone : Bool) : Nat → List (List String) → List (List String)
  | 0, _ => []
  | _, [] => []
  | f+1, top :: rest => top :: nsWalk e keepNone f ((findNamespaces e top keepNone).reverse ++ rest)

def walkFuel (e : Env) : Nat := e.entries.length + 2

/-- `get_namespaces_decls(ns, name, kind, glob=True)` as a list (the Python value is a set) -/
def namespacesDecls (e : Env) (ns : List String) (name kind : String) : List (List String × Option Node) :=
  (nsWalk e false (walkFuel e) [ns.take 1]).flatMap fun n =>
    ((e.cur n kind).filter fun p => p.1 == name).map fun p => (n ++ [name], p.2)

/-- `get_classes(ns, glob=True)` (artificial `None` entries dropped) -/
def classesGlob (e : Env) (ns : List String) : Dict :=
  dropNone ((nsWalk e true (walkFuel e) [ns.take 1]).foldl (fun d n => dictUpdate d (e.cur n "classes")) [])

/-- `Context.get_decl(ns, name)` -/
def ctxGetDecl (e : Env) (ns : List String) (name : String) : Option Node :=
  (dictGet (e.cur ns "decls") name).join
/-- `Context.get_lambda(ns, name)` -/
def ctxGetLambda (e : Env) (ns : List String) (name : String) : Option Node :=
  (dictGet (e.cur ns "lambdas") name).join

/-- module function `context.get_decl(context, ns, name)`; the argument is the reversed namespace -/
def getDeclRev (e : Env) (name : String) : List String → Option (List String × Node)
  | [] => none
  | x :: rest =>
      let ns := (x :: rest).reverse
      match (dictGet (dropNone (e.cur ns "decls")) name).join with
      | some d => some (ns, d)
      | none => getDeclRev e name rest
def getDecl (e : Env) (ns : List String) (name : String) : Option (List String × Node) :=
  getDeclRev e name ns.reverse

def isFuncDecl : Node → Bool | .funcDecl .. => true | _ => false
def isLambda : Node → Bool | .lambda .. => true | _ => false
def isClassDecl : Node → Bool | .classDecl .. => true | _ => false
def isVarDecl : Node → Bool | .varDecl .. => true | _ => false
def isCall : Node → Bool | .call .. => true | _ => false
def isAssign : Node → Bool | .assign .. => true | _ => false
def isFuncRef : Node → Bool | .funcRef .. => true | _ => false
def isBlock : Node → Bool | .block .. => true | _ => false
def isBottomC : Node → Bool | .bottom _ => true | _ => false
def isIs : Node → Bool | .isE .. => true | _ => false
def varName? : Node → Option String | .variable n => some n | _ => none

def superType : Node → Option Ty | .superInst t _ => some t | _ => none

/-- `decl.get_type()` -/
def declType : Node → Option Ty
  | .varDecl _ _ _ _ inferred => inferred
  | .paramDecl _ t _ _ => some t
  | .fieldDecl _ t _ _ _ => some t
  | .funcDecl _ _ _ inferred _ _ _ _ _ => inferred
  | .classDecl name _ _ _ supers _ tparams =>
      let sts := supers.filterMap superType
      if tparams.isEmpty then some (.simple name sts)
      else some (.tcon "<class 'src.ir.types.TypeConstructor'>" name tparams sts)
  | .lambda _ _ ret _ _ => ret
  | _ => none

def funcTParams : Node → List Ty | .funcDecl _ _ _ _ _ _ _ tps _ => tps | _ => []
def funcParams : Node → List Node | .funcDecl _ ps _ _ _ _ _ _ _ => ps | _ => []
def declName : Node → String
  | .funcDecl nm .. => nm | .classDecl nm .. => nm | .varDecl nm .. => nm | .fieldDecl nm .. => nm
  | .paramDecl nm .. => nm | .lambda nm .. => nm | _ => ""

/-- `get_parent_class(ns)`; argument is the reversed namespace -/
def parentClassRev (e : Env) : List String → Option Node
  | [] => none
  | [_] => none
  | x :: y :: rest =>
      -- namespace = rest.reverse ++ [y, x]; parent = get_decl(ns[:-2], ns[-2])
      let parent := ctxGetDecl e rest.reverse y
      let lamb := rest.length > 0 && (y.splitOn "lambda_").length > 1
      if parent.isNone && !lamb then none
      else match parent with
        | some p => if isClassDecl p then some p else parentClassRev e (y :: rest)
        | none => parentClassRev e (y :: rest)
def parentClass (e : Env) (ns : List String) : Option Node := parentClassRev e ns.reverse

/-- `tu.get_superclass_decl(super_cls, class_decls)`: the last class whose type equals the
    superclass' type (constructor) -/
def superclassDecl (sup : Ty) (classDecls : List Node) : Option Node :=
  let key := match sup with | .param _ con _ _ => con | t => t
  (classDecls.filter fun c => match declType c with | some ct => Ty.beq key ct | none => false).getLast?

/-- names of `cls.get_callable_functions(class_decls)` -/
def callableNames (classDecls : List Node) : Nat → Node → List String
  | 0, _ => []
  | f+1, .classDecl _ _ _ _ supers funcs _ =>
      let own := funcs.map declName
      match supers.head? >>= superType with
      | none => own
      | some st =>
        match superclassDecl st classDecls with
        | none => own
        | some p => own ++ callableNames classDecls f p
  | _+1, _ => []

/-! ## `type_utils.get_type_hint` -/

/-- `get_decl_from_inheritance(t, name, context)`: supertypes first (closure order), then the
    subtypes among the non-parameterized global classes (receiver not parameterized; for a
    parameterized receiver the Python code draws from the RNG: answered `unmodelled`) -/
inductive Inh | found (d : Node) (rec : Ty) | notFound | unmodelled

def declFromInheritance (e : Env) (t : Ty) (name : String) : Inh :=
  let look := fun (st : Ty) => (getDecl e ["global", tyName st] name).map fun p => (p.2, st)
  match (Ty.closure t).findSome? look with
  | some (d, st) => .found d st
  | none =>
    let classTypes := ((e.cur ["global"] "classes").filterMap fun p => p.2).filterMap fun c =>
      match c with
      | .classDecl _ _ _ _ _ _ tps => if tps.isEmpty then declType c else none
      | _ => none
    match t with
    | .param .. => .unmodelled
    | _ =>
      let subs := classTypes.filter fun c => !(Ty.beq t c) && (Ty.isSubtype c t == .yes)
      match subs.findSome? look with
      | some (d, st) => .found d st
      | none => .notFound

/-- `_comp_type(t, name, type_args)` -/
def compType (e : Env) (t : Option Ty) (name : String) (targs : List Ty) : Option Ty :=
  match t with
  | none => none
  | some t =>
    match declFromInheritance e t name with
    | .notFound => none
    | .unmodelled => some (.ext "unmodelled:find_subtypes-of-parameterized")
    | .found d recT =>
      match declType d with
      | none => some (.ext "None.has_type_variables")
      | some dt =>
        if Ty.hasTV dt then
          let m0 : Ty.TMap := match recT with
            | .param _ con args _ => Ty.TMap.mk (Ty.conParams con) args
            | _ => []
          let m := if isFuncDecl d && !(funcTParams d).isEmpty then
              ((funcTParams d).zip targs).foldl (fun m kv => Ty.TMap.set m kv.1 kv.2) m0
            else m0
          some (Ty.substituteType dt m)
        else some dt

/-- `_return_type_hint(t)`: `names` holds the attribute chain, innermost last -/
def returnHint (e : Env) (names : List (String × List Ty)) (t : Option Ty) : Option Ty :=
  names.reverse.foldl (fun acc nt => compType e acc nt.1 nt.2) t

/-- the stack `smart_casts`: `(cond.lexpr, cond.rexpr)`; only `Variable.is_equal` can answer
    `True` for the expressions that are looked up, so the left side is kept as the variable's name -/
abbrev SmartCasts := List (Option String × Ty)

def smartCastGet (sc : SmartCasts) (name : String) : Option Ty :=
  (sc.reverse.find? fun p => p.1 == some name).map (·.2)

mutual
/-- `tu.get_type_hint(expr, context, ns, JavaBuiltinFactory(), types, smart_casts)` -/
def typeHint (e : Env) (ns : List String) (sc : SmartCasts) (names : List (String × List Ty)) : Node → Option Ty
  | .intC _ t => returnHint e names (some (t.getD (.ext "<class 'src.ir.java_types.IntegerType'>")))
  | .realC _ t => returnHint e names t
  | .boolC _ => returnHint e names (some tyBoolean)
  | .charC _ => returnHint e names (some tyChar)
  | .stringC _ => returnHint e names (some tyString)
  | .binop .. => returnHint e names (some tyBoolean)
  | .isE .. => returnHint e names (some tyBoolean)
  | .newE t _ _ => returnHint e names (some t)
  | .arrayE t _ _ => returnHint e names (some t)
  | .lambda _ _ _ _ sig => returnHint e names sig
  | .block body _ => returnHint e names (typeHintLast e ns sc body)
  | .variable name =>
      (match smartCastGet sc name with
       | some st => returnHint e names (some st)
       | none => returnHint e names ((getDecl e ns name).bind fun p => declType p.2))
  | .cond _ _ _ ty => returnHint e names ty
  | .bottom t => returnHint e names t
  | .call func _ receiver targs _ _ =>
      (match receiver with
       | none => returnHint e names ((getDecl e ns func).bind fun p => declType p.2)
       | some r => typeHint e ns sc (names ++ [(func, targs)]) r)
  | .funcRef _ _ sig => sig
  | .fieldAccess ex field => typeHint e ns sc (names ++ [(field, [])]) ex
  | _ => some tyVoid
/-- `get_type_hint(expr.body[-1], …)` -/
def typeHintLast (e : Env) (ns : List String) (sc : SmartCasts) : List Node → Option Ty
  | [] => some (.ext "IndexError")
  | [x] => typeHint e ns sc [] x
  | _ :: y :: rest => typeHintLast e ns sc (y :: rest)
end

/-- `getattr(type_hint, 'is_function_type', lambda: False)()` -/
def isFunctionType : Option Ty → Bool
  | some (.param _ con _ _) => (tyName con).startsWith "Function"
  | _ => false

mutual
/-- `node.is_bottom()` -/
def isBottom : Node → Bool
  | .bottom _ => true
  | .cond _ t f _ => isBottom t && isBottom f
  | .block body _ => isBottomLast body
  | _ => false
def isBottomLast : List Node → Bool
  | [] => true
  | [x] => isBottom x
  | _ :: y :: rest => isBottomLast (y :: rest)
end

/-! ## the translator's state -/

/-- what `_parent_is_block` / `_parent_is_function` / `_parent_is_func_ref` can see of a node -/
inductive Tag | none | block | func | lambda | funcRef | other
deriving DecidableEq, Repr, Inhabited

def tagOf : Node → Tag
  | .block .. => .block | .funcDecl .. => .func | .lambda .. => .lambda | .funcRef .. => .funcRef | _ => .other

structure St where
  ident : Nat := 0
  castNumber : Bool := false
  isFuncNonVoidBlock : Bool := false
  isNestedFuncBlock : Bool := false
  /-- `_visit_is_stack`, last element = top -/
  visitIsStack : List (Option String) := [none]
  ns : List String := ["global"]
  mainChildren : List Text := []
  mainMethod : Text := ""
  insideIs : Bool := false
  insideIsFunction : Bool := false
  /-- `_function_interfaces`: a set of small ints, iterated in ascending order -/
  functionInterfaces : List Nat := [0, 1, 2, 3]
  /-- `_nodes_stack`, head = top -/
  nodesStack : List Tag := [Tag.none]
  xCounter : Nat := 0
  smartCasts : SmartCasts := []
deriving Repr, Inhabited

/-- the state after `__init__` and after `_reset_state` -/
def St.init : St := {}

/-- `_reset_state` -/
def resetState (_ : St) : St :=
  { ident := 0, castNumber := false, isFuncNonVoidBlock := false, isNestedFuncBlock := false,
    visitIsStack := [none], ns := ["global"], mainChildren := [], mainMethod := "",
    insideIs := false, insideIsFunction := false, functionInterfaces := [0, 1, 2, 3],
    nodesStack := [Tag.none], xCounter := 0, smartCasts := [] }

def setAdd (s : List Nat) (n : Nat) : List Nat :=
  if s.contains n then s else (s.filter (· < n)) ++ [n] ++ (s.filter (· > n))

def parentTag (st : St) : Tag := st.nodesStack.getD 1 Tag.none
def parentIsBlock (st : St) : Bool := parentTag st == .block
def parentIsFunction (st : St) : Bool := parentTag st == .func || parentTag st == .lambda
def parentIsFuncRef (st : St) : Bool := parentTag st == .funcRef
def semi (st : St) : String := if parentIsBlock st then ";" else ""

/-- `get_ident(old_ident=old)` -/
def identOld (st : St) (old : Nat) : String := if old != 0 then sp old else sp st.ident

def isCount (st : St) (name : String) : Nat := st.visitIsStack.count (some name)

/-- `_get_main_prefix(decl_type, name)` -/
def mainPrefix (e : Env) (st : St) (kind name : String) : String :=
  match namespacesDecls e st.ns name kind with
  | [(n, _)] => if n.dropLast == ["global"] && isCount st name == 0 then "Main." else ""
  | _ => ""

/-- `self._namespace[-2]` -/
def nsParentName (ns : List String) : String := ns.reverse.getD 1 ""

/-- `is_nested_func()` of `visit_func_decl` -/
def isNestedFuncDecl (e : Env) (ns : List String) : Bool :=
  let parentNs := (ns.reverse.drop 2).reverse
  let parentName := nsParentName ns
  let d := match ctxGetDecl e parentNs parentName with
    | some d => some d
    | none => ctxGetLambda e parentNs parentName
  (match d with | some x => isFuncDecl x || isLambda x | none => false) ||
    parentName == "true_block" || parentName == "false_block"

/-- `_get_functional_interfaces` -/
def functionalInterfaces (nums : List Nat) : String :=
  let one := fun (n : Nat) =>
    let tps := join ", " ((List.range (n + 1)).map fun i => if i < n then "A" ++ toString (i + 1) else "R")
    let ps := join ", " ((List.range n).map fun i => "A" ++ toString (i + 1) ++ " a" ++ toString (i + 1))
    "interface Function" ++ toString n ++ "<" ++ tps ++ "> {\n" ++ sp 2 ++ "public R apply(" ++ ps ++ ");\n}\n\n"
  let res := String.join (nums.map one)
  if res != "" then "\n\n" ++ res else ""

/-- integer literal with cast (`get_cast_literal` of `visit_integer_constant`) -/
def intCast (t : Option Ty) (lit : String) : String :=
  if optIsCls t "<class 'src.ir.java_types.LongType'>" then "(long)" ++ lit
  else if optIsCls t "<class 'src.ir.java_types.ShortType'>" then "(short)" ++ lit
  else if optIsCls t "<class 'src.ir.java_types.ByteType'>" then "(byte)" ++ lit
  else if optIsCls t "<class 'src.ir.java_types.NumberType'>" then "(Number) new Long(" ++ lit ++ ")"
  else lit

def realCast (t : Option Ty) (lit : String) : String :=
  if optIsCls t "<class 'src.ir.java_types.FloatType'>" then "(float)" ++ lit
  else if optIsCls t "<class 'src.ir.java_types.NumberType'>" then "(Number) new Double(" ++ lit ++ ")"
  else lit

/-- children visited left to right, results in order -/
def visitL (v : St → Node → St × Text) (st : St) (xs : List Node) : St × List Text :=
  xs.foldl (fun (acc : St × List Text) x => let (s', r) := v acc.1 x; (s', acc.2 ++ [r])) (st, [])

/-- the child loop of `visit_block`: the last child is visited with `_cast_number = True` -/
def visitBlockKids (v : St → Node → St × Text) : St → List Node → St × List Text
  | st, [] => (st, [])
  | st, [x] =>
      let prev := st.castNumber
      let (s1, r) := v { st with castNumber := true } x
      ({ s1 with castNumber := prev }, [r])
  | st, x :: y :: rest =>
      let (s1, r) := v st x
      let (s2, rs) := visitBlockKids v s1 (y :: rest)
      (s2, r :: rs)

def optList : Option Node → List Node | some x => [x] | none => []

/-- `append_to`, after the visit: at the global namespace a function named `main` becomes
    `_main_method`, any other variable/function declaration goes to `_main_children` -/
def route (st : St) (n : Node) (res : Text) : St :=
  if st.ns == ["global"] then
    match n with
    | .funcDecl name .. =>
        if name == "main" then { st with mainMethod := res }
        else { st with mainChildren := st.mainChildren ++ [res] }
    | .varDecl .. => { st with mainChildren := st.mainChildren ++ [res] }
    | _ => st
  else st

/-- does `append_to` route this top-level node away from `_children_res`? -/
def routed : Node → Bool | .funcDecl .. => true | .varDecl .. => true | _ => false

/-- receiver text of `visit_func_call` / `visit_assign` / `visit_field_access` -/
def wrapBottom (recv : Node) (r : Text) : Text := if isBottomC recv then "(" ++ r ++ ")" else r

/-- the return-statement / sugar computation of `visit_block` (everything between the child
    loop and the assembly of `res`): answers `(return_stmt, sugar, sugar_semi, x_counter)` -/
def blockSugar (e : Env) (st : St) (body : List Node) : String × String × String × Nat :=
  let ret0 := "\n" ++ sp st.ident
  let last := body.getLast?
  let declLike := fun (l : Node) => isVarDecl l || isCall l || isAssign l
  if !parentIsFunction st then
    match last with
    | none => (ret0 ++ "return null;", "", "", st.xCounter)
    | some l =>
      if optIsCls (typeHint e st.ns [] [] l) clsVoid then
        if !declLike l then (ret0 ++ "return null;", "Object x_" ++ toString st.xCounter ++ " = ", "", st.xCounter + 1)
        else (ret0 ++ "return null;", "", "", st.xCounter)
      else (ret0, "return ", "", st.xCounter)
  else if st.isFuncNonVoidBlock then (ret0, "return ", "", st.xCounter)
  else
    let ret1 := if st.isNestedFuncBlock then ret0 ++ "return null;" else ret0
    match last with
    | none => (ret1, "", "", st.xCounter)
    | some l =>
      if declLike l then (ret1, "", "", st.xCounter)
      else
        let isBot := isBottom l
        let hint := typeHint e st.ns st.smartCasts [] l
        let isLam := isFunctionType hint
        let (pre, ssemi) :=
          if isBot then ("Object", "")
          else if isLam then (typeNameO hint false false, if isLambda l then ";" else "")
          else if isFuncRef l then (err "unmodelled:get_function_reference_type", "")
          else ("Object", "")
        let sugar := pre ++ " x_" ++ toString st.xCounter ++ " = "
        let ret2 := ret1 ++ (if isLam && (strip ret1).isEmpty then ";" else "")
        (ret2, sugar, ssemi, st.xCounter + 1)

/-- assembly of the block text from the children's texts -/
def blockText (st : St) (rs : List Text) (ret sugar ssemi : String) : Text :=
  match rs with
  | [] => "{ " ++ ret ++ sp (st.ident - 2) ++ "}"
  | [c] =>
      let c' := addStringAt c sugar (leadingSpaces c) ++ ssemi
      "{\n" ++ sp st.ident ++ strip c' ++ ret ++ "\n" ++ sp (st.ident - 2) ++ "}"
  | _ =>
      let lastC := rs.getLast?.getD ""
      let last' := addStringAt lastC sugar (leadingSpaces lastC) ++ ssemi
      "{\n" ++ join "\n" (rs.dropLast ++ [last']) ++ ret ++ "\n" ++ sp (st.ident - 2) ++ "}"

/-- `OrderedDict` of constructor parameters: field name ↦ type name -/
def ctorParams (fields : List Node) : List (String × String) :=
  fields.foldl (fun a f => match f with
    | .fieldDecl name t _ _ _ =>
        let tn := typeName t false false
        if a.any (fun q => q.1 == name) then a.map (fun q => if q.1 == name then (name, tn) else q) else a ++ [(name, tn)]
    | _ => a) []

/-- the first type argument of an array type (what `visit_array_expr` prints) -/
def arrayElem : Ty → Option Ty
  | .param _ _ (a :: _) _ => some a
  | _ => none

/-- `visit_array_expr`, `length == 0`: the text before `[0]` -/
def emptyArrayNew (t : Ty) : String :=
  match arrayElem t with
  | some a => if a.isParam then "(" ++ typeName a false false ++ "[]) new Object" else "new " ++ typeName a false false
  | none => err "AttributeError"

/-- `visit_array_expr`, `length != 0`: the text before the braces -/
def arrayNew (t : Ty) : String :=
  match t, arrayElem t with
  | .param .., some a => if !isPrimitive a then "(" ++ typeName t false false ++ ") new Object[]" else "new " ++ typeName t false false
  | .param .., none => err "IndexError"
  | _, _ => "new " ++ typeName t false false

/-- `visit_func_call`: the function declaration the name resolves to (`get_decl` + `isinstance`) -/
def calledDecl (e : Env) (ns : List String) (func : String) : Option (List String × Node) :=
  match getDecl e ns func with
  | some (dns, d) => if isFuncDecl d then some (dns, d) else none
  | none => none

/-- `visit_func_call`: is the callee a nested function (printed as a `FunctionN` variable)? -/
def calledNested (fdecl : Option (List String × Node)) : Bool :=
  match fdecl with
  | some (dns, _) =>
      let lastNs := dns.getLast?.getD ""
      lastNs != "global" && (match lastNs.toList.head? with | some c => c.isLower | none => false)
  | none => false

/-- the array a vararg tail is wrapped into (`visit_func_call` on a nested function) -/
def varargArrayNew (pt : Ty) : String :=
  let a0prim := match pt with | .param _ _ (a :: _) _ => isPrimitive a | _ => false
  if !a0prim then "(" ++ typeName pt false false ++ ") new Object[]" else "new " ++ typeName pt false false

/-- `visit_func_call`: the vararg tail of a nested function's call is wrapped into an array -/
def callArgs (fdecl : Option (List String × Node)) (nested : Bool) (rs : List Text) : List Text :=
  match fdecl with
  | some (_, d) =>
    (match (funcParams d).getLast? with
     | some (.paramDecl _ pt true _) =>
        if nested then
          let k := (funcParams d).length - 1
          rs.take k ++ [varargArrayNew pt ++ "{" ++ join ", " (rs.drop k) ++ "}"]
        else rs
     | _ => rs)
  | none => rs

/-- `get_superclasses_interfaces`: per superclass its printed type and whether the class it names is an
    interface (`none`: the name is not among the classes, a `KeyError`) -/
def classifySupers (e : Env) (ns : List String) (supers : List Node) : List (String × Option Bool) :=
  let glob := classesGlob e ns
  supers.filterMap fun s => match s with
    | .superInst t _ =>
        let isIface := match (dictGet glob (tyName t)).join with
          | some (.classDecl _ ct _ _ _ _ _) => some (ct == 1)
          | _ => none
        some (typeName t false false, isIface)
    | _ => none

/-- `construct_constructor`; `superArgs` is the text of the arguments of `super(...)` -/
def ctorText (ident : Nat) (name : String) (fields supers : List Node) (superArgs : Text) : Text :=
  let params := join "," ((ctorParams fields).map fun p => p.2 ++ " " ++ p.1)
  let fs := fields.map fun fd => "this." ++ declName fd ++ " = " ++ declName fd ++ ";"
  let cfields := (if !fs.isEmpty then "\n" ++ sp (ident + 2) else "") ++ join ("\n" ++ sp (ident + 2)) fs
  let superCall :=
    match supers.head? with
    | some (.superInst t _) =>
      if !(Ty.isBuiltin t) then "\n" ++ sp (ident + 2) ++ "super(" ++ superArgs ++ ");" else ""
    | _ => ""
  sp ident ++ "public " ++ name ++ "(" ++ params ++ ") {" ++ superCall ++ cfields ++ "\n" ++
    (if !fs.isEmpty then sp ident else "") ++ "}"

/-- the text `visit_class_decl` assembles (`old`: the indentation of the header, `ident`: of the members) -/
def classText (old ident : Nat) (name : String) (ctype : Nat) (isFinal : Bool) (tparams : List Ty)
    (classify : List (String × Option Bool)) (ctor : Text) (fieldRes funcRes : List Text) : Text :=
  let tpr := join ", " (tparams.map typeParamStr)
  let pre := sp old ++ (if isFinal then "final " else "")
  let clsPrefix := if ctype == 0 then "class" else if ctype == 1 then "interface" else "abstract class"
  let res := pre ++ clsPrefix ++ " " ++ name
  let res := if tpr != "" then res ++ "<" ++ tpr ++ ">" else res
  let keyErr := classify.any fun p => p.2.isNone
  let superclasses := (classify.filter fun p => p.2 != some true).map (·.1)
  let interfaces := (classify.filter fun p => p.2 == some true).map (·.1)
  let res := if !superclasses.isEmpty then res ++ " extends " ++ join ", " superclasses else res
  let res := if !interfaces.isEmpty then
      res ++ (if ctype == 1 then " extends " else " implements ") ++ join ", " interfaces
    else res
  let body :=
    if !funcRes.isEmpty || !fieldRes.isEmpty || !superclasses.isEmpty then
      let b := " {\n"
      let b := if !fieldRes.isEmpty then b ++ sp ident ++ join ("\n" ++ sp ident) fieldRes ++ "\n\n" else b
      let b := if !superclasses.isEmpty || !fieldRes.isEmpty then
          b ++ ctor ++ (if !funcRes.isEmpty then "\n\n" else "")
        else b
      let b := if !funcRes.isEmpty then b ++ join "\n\n" funcRes else b
      b ++ "\n" ++ sp (ident - 4) ++ "}"
    else " {}"
  if keyErr then err "KeyError" else res ++ body

/-- the body text of `visit_func_decl` (`closing`: the indentation before the closing brace) -/
def funcBodyText (bodyRes : Text) (isExpr nonVoid : Bool) (closing : String) : Text :=
  if bodyRes != "" then
    if isExpr then
      let br := if nonVoid then addStringAt bodyRes "return " (leadingSpaces bodyRes) else bodyRes
      "{\n" ++ br ++ ";\n" ++ closing ++ "}"
    else bodyRes
  else ""

/-- a nested function: `FunctionN<types> name = (params) -> body;` -/
def nestedFuncText (idt name : String) (inferred : Option Ty) (paramRes : List Text) (bodyT : Text) : Text :=
  let types := (paramRes.map fun x => replaceDots (rsplit1 x)) ++ [typeNameO inferred true false]
  let types := types.map boxedOf
  let ps := paramRes.map lastWord
  idt ++ "Function" ++ toString ps.length ++ "<" ++ join ", " types ++ "> " ++ name ++
    " = (" ++ join ", " ps ++ ") -> " ++ bodyT ++ ";"

/-- a method of a class (or of `Main`) -/
def methodText (idt name : String) (isFinal : Bool) (tparams : List Ty) (inferred : Option Ty)
    (paramRes : List Text) (bodyT : Text) : Text :=
  let tpr := join ", " (tparams.map typeParamStr)
  idt ++ "public " ++ (if isFinal then "final " else "") ++
    (if bodyT == "" then "abstract " else "") ++ (if tpr != "" then "<" ++ tpr ++ "> " else "") ++
    typeNameO inferred false false ++ " " ++ name ++ "(" ++ join ", " paramRes ++ ") " ++ bodyT ++
    (if bodyT == "" then ";" else "")

/-- `visit_func_decl` / `visit_lambda` up to the visit of the parameters: namespace pushed,
    `_inside_is_function`, indentation (+2, and +2 more for a member of `Main`),
    `is_func_non_void_block`; answers the state and `old_ident` -/
def funcEnter (st : St) (name : String) (nonVoid : Bool) : St × Nat :=
  let st := { st with ns := st.ns ++ [name] }
  let st := if st.insideIs then { st with insideIsFunction := true } else st
  let atGlobal := nsParentName st.ns == "global"
  let old := if atGlobal then st.ident + 2 else st.ident
  let st := if atGlobal then { st with ident := st.ident + 2 } else st
  let st := { st with ident := st.ident + 2 }
  ({ st with isFuncNonVoidBlock := nonVoid }, old)

/-- the end of `visit_func_decl` / `visit_lambda`: the attributes saved on entry (in `st0`) are
    restored (`nfb`: `is_nested_func_block`, which only `visit_func_decl` saves) -/
def funcLeave (st0 : St) (name : String) (old : Nat) (nfb : Option Bool) (s : St) : St :=
  let atGlobal := nsParentName (st0.ns ++ [name]) == "global"
  let old := if atGlobal then old - 2 else old
  let s4 := { s with ident := old, isFuncNonVoidBlock := st0.isFuncNonVoidBlock,
                     isNestedFuncBlock := nfb.getD s.isNestedFuncBlock, castNumber := st0.castNumber }
  let s5 := if s4.insideIs then { s4 with insideIsFunction := st0.insideIsFunction } else s4
  { s5 with ns := st0.ns }

/-- the body text of `visit_lambda` (`sm`: the semicolon of a lambda that is a block statement) -/
def lambdaBodyText (bodyRes : Text) (isExpr nonVoid : Bool) (sm : String) : Text :=
  if bodyRes != "" then
    if isExpr then
      let br := if nonVoid then addStringAt bodyRes "return " (leadingSpaces bodyRes) else bodyRes
      "{" ++ br ++ ";}" ++ sm
    else bodyRes
  else ""

/-! ## the visitor -/

/-- the body of the decorated visit methods (dispatch of `ASTVisitor.visit`), with the
    recursive call abstracted as `v`; `st` already has the node pushed on `_nodes_stack` -/
def visitNode (e : Env) (v : St → Node → St × Text) (st : St) (n : Node) : St × Text :=
  match n with
  | .block body _ =>
    let fnv := st.isFuncNonVoidBlock
    let nfb := st.isNestedFuncBlock
    let (s1, rs) := visitBlockKids v { st with isFuncNonVoidBlock := false, isNestedFuncBlock := false } body
    let s2 := { s1 with isFuncNonVoidBlock := fnv, isNestedFuncBlock := nfb }
    let (ret, sugar, ssemi, x') := blockSugar e s2 body
    let s3 := { s2 with xCounter := x' }
    let res := blockText s3 rs ret sugar ssemi
    if !parentIsFunction s3 then
      let etype : Option Ty := if body.isEmpty then some tyVoid else typeHintLast e s3.ns s3.smartCasts body
      let es := boxedOf (typeNameO etype true false)
      (s3, "((Function0<" ++ es ++ ">) (() -> " ++ res ++ ")).apply()")
    else (s3, res)
  | .callArg expr _ =>
    let old := st.ident
    let (s1, r) := v { st with ident := 0 } expr
    ({ s1 with ident := old }, r)
  | .bottom t =>
    let cast := match t with
      | some x => if !(Ty.beq x .nothing) then "(" ++ typeName x false false ++ ") " else ""
      | none => ""
    (st, sp st.ident ++ (if parentIsFuncRef st then "(" else "") ++ cast ++ "null" ++
         (if parentIsFuncRef st then ")" else "") ++ semi st)
  | .superInst t _ => (st, typeName t false false)
  | .classDecl name ctype isFinal fields supers funcs tparams =>
    -- change_namespace
    let initialNs := st.ns
    let st := { st with ns := st.ns ++ [name] }
    let old := st.ident
    let (s1, fieldRes) := visitL v { st with ident := st.ident + 2 } fields
    let (s2, _superRes) := visitL v s1 supers
    let (s3, funcRes) := visitL v s2 funcs
    -- construct_constructor: the arguments of `super(...)` are printed by a fresh JavaTranslator
    -- (context, _cast_number = True, _namespace); the text is used only for a non-builtin superclass
    let superArgs : Text :=
      match supers.head? with
      | some (.superInst _ (some (a :: as))) =>
          let tr : St := { St.init with castNumber := true, ns := s3.ns }
          collapseWs (join ", " (visitL v tr (a :: as)).2)
      | _ => ""
    let res := classText old s3.ident name ctype isFinal tparams (classifySupers e s3.ns supers)
      (ctorText s3.ident name fields supers superArgs) fieldRes funcRes
    ({ s3 with ident := old, ns := initialNs }, res)
  | .varDecl name expr isFinal _ inferred =>
    let prev := st.castNumber
    let (s1, r) := v { st with castNumber := true } expr
    let vt := typeNameO inferred false false
    let mp := if s1.ns != ["global"] then mainPrefix e s1 "vars" name else ""
    let res := sp s1.ident ++ (if isFinal then "final " else "") ++ vt ++ " " ++ mp ++ name ++ " = " ++ lstrip r ++ ";"
    ({ s1 with castNumber := prev }, res)
  | .fieldDecl name t isFinal _ _ =>
    (st, "public " ++ (if isFinal then "final " else "") ++ typeName t false false ++ " " ++ name ++ ";")
  | .paramDecl name t vararg _ =>
    let pt := match vararg, t with
      | true, .param _ _ (a :: _) _ => a
      | _, _ => t
    (st, typeName pt false false ++ (if vararg then "..." else "") ++ " " ++ name)
  | .funcDecl name params _ inferred body isFinal _ tparams _ =>
    let (st1, old) := funcEnter st name (notVoid inferred)
    let nested := isNestedFuncDecl e st1.ns
    let st1 := { st1 with isNestedFuncBlock := nested }
    let isExpr := match body with | some b => !isBlock b | none => true
    let st1 := if isExpr then { st1 with castNumber := true } else st1
    let (s1, paramRes) := visitL v st1 params
    let (s2, bodyRes) := match body with
      | some b => v s1 b
      | none => (s1, "")
    let bodyT := funcBodyText bodyRes isExpr (notVoid inferred) (identOld s2 old)
    let (s3, res) :=
      if isNestedFuncDecl e s2.ns then
        let s3 := { s2 with functionInterfaces := setAdd s2.functionInterfaces (paramRes.map lastWord).length }
        (s3, nestedFuncText (identOld s3 old) name inferred paramRes bodyT)
      else
        (s2, methodText (identOld s2 old) name isFinal tparams inferred paramRes bodyT)
    (funcLeave st name old (some st.isNestedFuncBlock) s3, res)
  | .lambda name params ret body _ =>
    let (st1, old) := funcEnter st name (notVoid ret)
    let isExpr := !isBlock body
    let st1 := if isExpr then { st1 with castNumber := true } else st1
    let (s1, paramRes) := visitL v st1 params
    let (s2, bodyRes) := v s1 body
    let res := "(" ++ join ", " paramRes ++ ") -> " ++ lambdaBodyText bodyRes isExpr (notVoid ret) (semi s2)
    (funcLeave st name old none s2, res)
  | .intC lit t =>
    if !st.castNumber then (st, sp st.ident ++ lit ++ semi st)
    else (st, sp st.ident ++ intCast t lit ++ semi st)
  | .realC lit t =>
    if !st.castNumber then (st, sp st.ident ++ lit ++ semi st)
    else (st, sp st.ident ++ realCast t lit ++ semi st)
  | .charC lit => (st, sp st.ident ++ " '" ++ lit ++ "'" ++ semi st)
  | .stringC lit => (st, sp st.ident ++ "\"" ++ lit ++ "\"" ++ semi st)
  | .boolC lit => (st, sp st.ident ++ lit ++ semi st)
  | .arrayE t len exprs =>
    if len == 0 then
      (st, sp st.ident ++ emptyArrayNew t ++ "[0]" ++ semi st)
    else
      let old := st.ident
      let prevCast := st.castNumber
      let (s1, rs) := visitL v { st with castNumber := true, ident := 0 } exprs
      let s2 := { s1 with castNumber := prevCast, ident := old }
      (s2, sp s2.ident ++ arrayNew t ++ "{" ++ join ", " rs ++ "}" ++ semi s2)
  | .variable name =>
    (st, sp st.ident ++ mainPrefix e st "vars" name ++ name ++ rep "_is" (isCount st name) ++ semi st)
  | .binop _ l r op =>
    let old := st.ident
    let (s1, ra) := v { st with ident := 0 } l
    let (s2, rb) := v s1 r
    let res := identOld s2 old ++ "(" ++ ra ++ " " ++ op ++ " " ++ rb ++ ")" ++ semi s2
    ({ s2 with ident := old }, res)
  | .cond c tb fb _ =>
    let prevInsideIs := st.insideIs
    let old := st.ident
    let (s1, rc) := v { st with insideIs := true, ident := st.ident + 2 } c
    let prevNs := s1.ns
    let (s4, rt, rf) :=
      match c with
      | .isE lexpr rexpr isNot =>
        let key := (varName? lexpr, rexpr)
        if !isNot then
          let s := { s1 with ns := prevNs ++ ["true_block"], smartCasts := s1.smartCasts ++ [key] }
          let (s2, rt) := v s tb
          let s2 := { s2 with smartCasts := s2.smartCasts.dropLast, visitIsStack := s2.visitIsStack.dropLast,
                              ns := prevNs ++ ["false_block"] }
          let (s3, rf) := v s2 fb
          (s3, rt, rf)
        else
          let s := { s1 with ns := prevNs ++ ["true_block"], visitIsStack := s1.visitIsStack.dropLast }
          let (s2, rt) := v s tb
          let s2 := { s2 with ns := prevNs ++ ["false_block"], smartCasts := s2.smartCasts ++ [key] }
          let (s3, rf) := v s2 fb
          ({ s3 with smartCasts := s3.smartCasts.dropLast }, rt, rf)
      | _ =>
        let (s2, rt) := v s1 tb
        let (s3, rf) := v s2 fb
        (s3, rt, rf)
    let res := identOld s4 old ++ "((" ++ lstrip rc ++ ") ?\n" ++ rt ++ " : \n " ++ rf ++ ")" ++ semi s4
    ({ s4 with ident := old, insideIs := prevInsideIs, ns := prevNs }, res)
  | .isE lexpr rexpr isNot =>
    let old := st.ident
    let (s1, r) := v { st with ident := 0 } lexpr
    let s2 := match varName? lexpr with
      | some nm => { s1 with visitIsStack := s1.visitIsStack ++ [some nm] }
      | none => s1
    let newVar := match varName? lexpr with
      | some nm => " " ++ nm ++ rep "_is" (isCount s2 nm)
      | none => ""
    let res := identOld s2 old ++ (if isNot then "!(" else "") ++ r ++ " instanceof " ++ Ty.getName rexpr ++
      newVar ++ (if isNot then ")" else "")
    ({ s2 with ident := old }, res)
  | .newE t args canInfer =>
    let old := st.ident
    let prevCast := st.castNumber
    let (s1, rs) := visitL v { st with ident := 0, castNumber := true } args
    let s2 := { s1 with ident := old }
    let cls := if canInfer then tyName t ++ "<>" else typeName t false false
    let res := sp s2.ident ++ "new " ++ cls ++ "(" ++ join ", " rs ++ ")" ++ semi s2
    ({ s2 with castNumber := prevCast }, res)
  | .fieldAccess ex field =>
    let old := st.ident
    let (s1, r) := v { st with ident := 0 } ex
    let s2 := { s1 with ident := old }
    (s2, sp s2.ident ++ wrapBottom ex r ++ "." ++ field ++ semi s2)
  | .funcRef func receiver _ =>
    let old := st.ident
    let (s1, rs) := visitL v { st with ident := 0 } (optList receiver)
    let s2 := { s1 with ident := old }
    let recv := match rs with
      | r :: _ => r
      | [] =>
        let r0 := match parentClass e s2.ns with
          | some pc =>
              let decls := (classesGlob e ["global"]).filterMap (·.2)
              if (callableNames decls (decls.length + 1) pc).contains func then "this" else ""
          | none => ""
        match getDecl e s2.ns func with
        | some (dns, d) => if dns == ["global"] && isFuncDecl d then "Main" else r0
        | none => r0
    let recv := if recv != "" then recv ++ "::" else recv
    (s2, sp s2.ident ++ recv ++ func ++ semi s2)
  | .call func args receiver _ _ isRefCall =>
    let old := st.ident
    let prevCast := st.castNumber
    let (s1, rr) := visitL v { st with ident := 0, castNumber := true } (optList receiver)
    let (s2, rs) := visitL v s1 args
    let s3 := { s2 with ident := old }
    let fdecl := calledDecl e s3.ns func
    let nested := calledNested fdecl
    let fname := mainPrefix e s3 "funcs" func ++ func
    let args' := callArgs fdecl nested rs
    let recvExpr := match receiver, rr with
      | some rcv, r :: _ => if r != "" then (if isBottomC rcv then "(" ++ r ++ ")." else r ++ ".") else ""
      | _, _ => ""
    let res := sp s3.ident ++ (if isRefCall then mainPrefix e s3 "vars" func else "") ++ recvExpr ++ fname ++
      (if nested || isRefCall then ".apply" else "") ++ "(" ++ join ", " args' ++ ")" ++ semi s3
    ({ s3 with castNumber := prevCast }, res)
  | .assign name expr receiver =>
    let old := st.ident
    let prevCast := st.castNumber
    let (s1, rr) := visitL v { st with ident := 0, castNumber := true } (optList receiver)
    let (s2, re) := v s1 expr
    let s3 := { s2 with ident := old }
    let nm := mainPrefix e s3 "vars" name ++ name
    let recvExpr := match receiver, rr with
      | some rcv, r :: _ => if r != "" then (if isBottomC rcv then "(" ++ r ++ ")." else r ++ ".") else ""
      | _, _ => ""
    let res := identOld s3 old ++ recvExpr ++ nm ++ " = " ++ re ++ ";"
    ({ s3 with ident := old, castNumber := prevCast }, res)

/-- `append_to(visit_*)`: push the node, visit, pop, route the result -/
def visit (e : Env) : Nat → St → Node → St × Text
  | 0, st, _ => (st, fuelMark)
  | f+1, st0, n =>
    let out := visitNode e (visit e f) { st0 with nodesStack := tagOf n :: st0.nodesStack } n
    let s' := { out.1 with nodesStack := out.1.nodesStack.drop 1 }
    (route s' n out.2, out.2)

mutual
def depth : Node → Nat
  | .block body _ => depthL body + 1
  | .superInst _ args => (match args with | some a => depthL a | none => 0) + 1
  | .classDecl _ _ _ fields supers funcs _ => max (depthL fields) (max (depthL supers) (depthL funcs)) + 1
  | .varDecl _ ex _ _ _ => depth ex + 1
  | .callArg ex _ => depth ex + 1
  | .paramDecl _ _ _ d => (match d with | some x => depth x | none => 0) + 1
  | .funcDecl _ ps _ _ body _ _ _ _ => max (depthL ps) (match body with | some b => depth b | none => 0) + 1
  | .lambda _ ps _ body _ => max (depthL ps) (depth body) + 1
  | .funcRef _ r _ => (match r with | some x => depth x | none => 0) + 1
  | .arrayE _ _ xs => depthL xs + 1
  | .isE ex _ _ => depth ex + 1
  | .binop _ l r _ => max (depth l) (depth r) + 1
  | .cond c t f _ => max (depth c) (max (depth t) (depth f)) + 1
  | .newE _ args _ => depthL args + 1
  | .fieldAccess ex _ => depth ex + 1
  | .call _ args r _ _ _ => max (depthL args) (match r with | some x => depth x | none => 0) + 1
  | .assign _ ex r => max (depth ex) (match r with | some x => depth x | none => 0) + 1
  | _ => 1
def depthL : List Node → Nat
  | [] => 0
  | x :: xs => max (depth x) (depthL xs)
end

/-- fuel that lets every node of the program be visited -/
def fuelOf (decls : List Node) : Nat := depthL decls + 1

/-- `visit_program` up to and including `_reset_state`; answers the final state and `self.program` -/
def visitProgram (e : Env) (package : String) (st : St) (decls : List Node) : St × Text :=
  let (s1, rs) := visitL (visit e (fuelOf decls)) st decls
  let packageStr := if package != "" then "package " ++ package ++ ";\n\n" else ""
  let s2 := { s1 with ident := 2 }
  let mainDecls := s2.mainChildren.map fun d => sp s2.ident ++ "static " ++ lstrip d
  let mainMethod := if s2.mainMethod != "" then "\n\n" ++ sp s2.ident ++ "static " ++ lstrip s2.mainMethod else ""
  let mainCls := "class Main {\n" ++ join "\n\n" mainDecls ++ mainMethod ++ "\n}"
  let others := ((decls.zip rs).filter fun p => !(st.ns == ["global"] && routed p.1)).map (·.2)
  let other := join "\n\n" others
  let prog := packageStr ++ mainCls ++ functionalInterfaces s2.functionInterfaces ++
    (if other != "" then "\n\n" ++ other else "")
  (resetState s2, prog)

/-- `utils.translate_program(JavaTranslator(package), p)` on a translator in state `st` -/
def translateFrom (e : Env) (package : String) (st : St) (decls : List Node) : Text :=
  (visitProgram e package st decls).2

/-- a fresh translator -/
def translate (e : Env) (package : String) (decls : List Node) : Text :=
  translateFrom e package St.init decls

end Heph.TransJava
