import Heph.Model.Types
/-!
# Model of substitution and instantiation in `src/ir/types.py` (by value)

`_get_type_substitution`, `substitute_type_args`, `perform_type_substitution`,
`substitute_type`, `TypeConstructor.new`, `to_variance_free`, `to_type_variable_free`,
`TypeParameter.get_bound_rec`, `has_type_variables`, `get_type_variables`, `has_bound_of`.

All functions are structurally recursive on the type being traversed (the Python recursion
only ever descends into arguments, bounds and the supertypes stored in a constructor), so no
fuel is needed.  A type map is the Python dict `{TypeParameter: Type}` in insertion order.
-/
namespace Heph
namespace Ty

abbrev TMap := List (Ty × Ty)

/-- `type_map.get(k)` -/
def TMap.get (m : TMap) (k : Ty) : Option Ty :=
  (m.find? fun p => beq p.1 k).map (·.2)

/-- `d[k] = v` -/
def TMap.set (m : TMap) (k v : Ty) : TMap :=
  if m.any (fun p => beq p.1 k) then m.map (fun p => if beq p.1 k then (p.1, v) else p)
  else m ++ [(k, v)]

/-- `{tp: args[i] for i, tp in enumerate(params)}` (a later duplicate key overwrites the value) -/
def TMap.mk (ks vs : List Ty) : TMap :=
  (ks.zip vs).foldl (fun m kv => TMap.set m kv.1 kv.2) []

mutual
/-- `has_type_variables()` -/
def hasTV : Ty → Bool
  | builtin .. => false
  | simple .. => false
  | tparam .. => true
  | tcon .. => true
  | wild _ bd => hasTVO bd
  | param _ _ args _ => hasTVL args
  | nothing => false
  | ext _ => false
def hasTVL : List Ty → Bool
  | [] => false
  | x :: xs => hasTV x || hasTVL xs
def hasTVO : Option Ty → Bool
  | none => false
  | some x => hasTV x
end

/-- `ParameterizedType(con, args)`: name and supertypes are copied from the constructor -/
def mkP (con : Ty) (args : List Ty) : Ty := param (conName con) con args (conSups con)

mutual
/-- `_get_type_substitution(t, m, cond)`; `dflt = true` is the default
    `cond = has_type_variables`, `dflt = false` is `substitute_type`'s `cond = False` -/
def getSubst : Ty → TMap → Bool → Ty
  | param _ con args _, m, dflt =>
      -- substitute_type_args
      let args' := getSubstL args m dflt
      mkP (performSubst con (TMap.mk (conParams con) args')) args'
  | wild var (some bd), m, dflt => wild var (some (getSubst bd m dflt))
  | tparam nm var (some bd), m, dflt =>
      let t := tparam nm var (some bd)
      (match m.get t with
       | none => tparam nm var (some (getSubst bd m dflt))
       | some r => if dflt && hasTV r then tparam nm var (some (getSubst bd m dflt)) else r)
  | t, m, dflt =>
      (match m.get t with
       | none => t
       | some r => if dflt && hasTV r then t else r)
def getSubstL : List Ty → TMap → Bool → List Ty
  | [], _, _ => []
  | x :: xs, m, dflt => getSubst x m dflt :: getSubstL xs m dflt
/-- `perform_type_substitution(con, m)`: parameterized supertypes are substituted with the
    default `cond` (the `cond` argument is not forwarded by the Python code) -/
def performSubst : Ty → TMap → Ty
  | tcon cls nm ps ss, m => tcon cls nm ps (performSubstL ss m)
  | t, _ => t
def performSubstL : List Ty → TMap → List Ty
  | [], _ => []
  | param nm con args ss :: rest, m => getSubst (param nm con args ss) m true :: performSubstL rest m
  | t :: rest, m => t :: performSubstL rest m
end

/-- `substitute_type(t, type_map)` -/
def substituteType (t : Ty) (m : TMap) : Ty := getSubst t m false

/-- `TypeConstructor.new(type_args)`: the copied constructor of the instance gets the
    definition's own supertypes back -/
def tconNew (con : Ty) (args : List Ty) : Ty :=
  let con' := performSubst con (TMap.mk (conParams con) args)
  param (conName con) (conWithSups con' (conSups con)) args (conSups con')

/-- `WildCardType.get_bound_rec()` -/
def wildBoundRec : Ty → Option Ty
  | wild _ none => none
  | wild _ (some t) => if t.isWild then wildBoundRec t else some t
  | _ => none

/-- `ParameterizedType.to_variance_free(type_var_map)`; `m = []` stands for `None`/empty -/
def toVarianceFree (t : Ty) (m : TMap) : Ty :=
  match t with
  | param _ con args _ =>
      let args' := (args.zip (conParams con)).map fun (a, tp) =>
        match a with
        | wild v (some b) =>
            let bound := (wildBoundRec (wild v (some b))).getD a
            if m.isEmpty then bound else (m.get tp).getD bound
        | _ => a
      tconNew con args'
  | t => t

/-- results of the functions that need `factory.get_any_type()`; `none` for the factory
    models the callers that pass `None` (then `AttributeError` is possible); `fuel` is the
    model running out of fuel (never with `tvFuel`) -/
inductive TR (α : Type) | ok (a : α) | attrError | fuel
deriving Repr

def TR.bind {α β} (x : TR α) (f : α → TR β) : TR β :=
  match x with | .ok a => f a | .attrError => .attrError | .fuel => .fuel
instance : Monad TR where
  pure := TR.ok
  bind := TR.bind

def anyOf (factory : Option Ty) : TR Ty :=
  match factory with | some a => .ok a | none => .attrError

mutual
/-- `TypeParameter.get_bound_rec(factory)` applied to a type parameter's *bound* field -/
def boundRecOf : Nat → Option Ty → Option Ty → TR (Option Ty)
  | 0, _, _ => .fuel
  | _+1, none, _ => .ok none
  | f+1, some t, fac =>
      match t with
      | tparam _ _ bd => boundRecOf f bd fac
      | param _ _ args _ =>
          if hasTVL args then (tvFree f t fac).bind fun r => .ok (some r) else .ok (some t)
      | wild _ bd => if hasTVO bd then .attrError else .ok (some t)  -- WildCardType has no to_type_variable_free
      | tcon .. => .attrError                                         -- neither has TypeConstructor
      | _ => .ok (some t)
/-- `_to_type_variable_free(t, t_param, factory)` -/
def tvFreeArg : Nat → Ty → Ty → Option Ty → TR Ty
  | 0, _, _, _ => .fuel
  | f+1, t, tp, fac =>
      match t with
      | tparam _ _ bd =>
          (boundRecOf f bd fac).bind fun b =>
            if variance tp == 2 then .ok (wild 0 none)
            else match b with
              | none => (anyOf fac).bind fun a => .ok (wild 1 (some a))
              | some b' => .ok (wild 1 (some b'))
      | param .. => tvFree f t fac
      | _ => .ok t
/-- the argument loop of `ParameterizedType.to_type_variable_free` -/
def tvFreeArgs : Nat → List Ty → List Ty → Option Ty → TR (List Ty)
  | 0, _, _, _ => .fuel
  | _+1, [], _, _ => .ok []
  | _+1, _ :: _, [], _ => .attrError   -- IndexError in Python (arity mismatch); not produced by well-formed types
  | f+1, a :: as, tp :: tps, fac =>
      let first : TR Ty :=
        match a with
        | wild 2 (some b) =>
            if hasTV b then
              (if variance tp == 2 then .ok (wild 0 none)
               else (anyOf fac).bind fun x => .ok (wild 1 (some x)))
            else .ok a
        | wild 2 none => .attrError
        | wild 1 _ =>
            (match wildBoundRec a with
             | some bb => if hasTV bb then tvFreeArg f bb tp fac else .ok a
             | none => .attrError)
        | _ => tvFreeArg f a tp fac
      first.bind fun x => (tvFreeArgs f as tps fac).bind fun xs => .ok (x :: xs)
/-- `ParameterizedType.to_type_variable_free(factory)` -/
def tvFree : Nat → Ty → Option Ty → TR Ty
  | 0, _, _ => .fuel
  | f+1, t, fac =>
      match t with
      | param _ con args _ =>
          (tvFreeArgs f args (conParams con) fac).bind fun args' => .ok (tconNew con args')
      | t => .ok t
end

def tvFuel (t : Ty) : Nat := 3 * size t + 3

/-- `t.to_type_variable_free(factory)` -/
def toTypeVariableFree (t : Ty) (fac : Option Ty) : TR Ty := tvFree (tvFuel t) t fac

/-- `TypeParameter.get_bound_rec(factory)` -/
def getBoundRec (t : Ty) (fac : Option Ty) : TR (Option Ty) :=
  match t with
  | tparam _ _ bd => boundRecOf (tvFuel t) bd fac
  | _ => .ok none

end Ty
end Heph
