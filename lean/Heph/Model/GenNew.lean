import Heph.Model.Subst
/-!
# Decision point `gen_new` (with `_get_subclass`): the class instantiated for an expected type
# and the expected types of the constructor arguments

```
def _get_subclass(self, etype, subtype=True):
    class_decls = self.context.get_classes(self.namespace).values()
    subclasses = []
    for c in class_decls:
        if c.class_type != ast.ClassDeclaration.REGULAR: continue
        if c.is_parameterized():
            t_con = getattr(etype, 't_constructor', None)
            if c.get_type() == t_con or (subtype and c.get_type().is_subtype(etype)): subclasses.append(c)
        else:
            if c.get_type() == etype or (subtype and c.get_type().is_subtype(etype)): subclasses.append(c)
    if not subclasses: return None
    return ut.random.choice([s for s in subclasses if s.name == etype.name] or subclasses)
```
```
# gen_new(etype, only_leaves, subtype, sam_coercion), after the function-type and SAM branches
class_decl = self._get_subclass(etype, subtype)
if isinstance(etype, tp.ParameterizedType): etype = etype.to_variance_free()
news = {any: New(any, []), void: New(void, [])}
con = news.get(etype)
if con is not None: return con
if class_decl is None or etype.name in self._blacklisted_classes:
    t = etype
    if etype.is_type_var() and (etype.name not in self._get_type_variable_names()): t = None
    return ast.BottomConstant(t)
if etype.is_type_constructor():
    etype, _ = tu.instantiate_type_constructor(etype, ...)                       # random
if class_decl.is_parameterized() and (class_decl.get_type().name != etype.name):
    etype, _ = tu.instantiate_type_constructor(class_decl.get_type(), ...)       # random
type_param_map = ({} if not class_decl.is_parameterized()
                  else {t_p: etype.type_args[i] for i, t_p in enumerate(class_decl.type_parameters)})
for field in class_decl.fields:
    expr_type = tp.substitute_type(field.get_type(), type_param_map)
    args.append(self.generate_expr(expr_type, only_leaves, subtype=False, gen_bottom=..., sam_coercion=True))
new_type = class_decl.get_type()
if class_decl.is_parameterized(): new_type = new_type.new(etype.type_args)
return ast.New(new_type, args)
```
The random choices (`random.choice` of the class, the results of `instantiate_type_constructor`)
are inputs of the model; everything else is computed.
-/
namespace Heph
namespace Check
open Heph.Ty

/-- `etype.name` for the types whose export keeps it (`ParameterizedType`, `SimpleClassifier`,
    `TypeConstructor`, `TypeParameter`; a wildcard is called `*`).  For a `Builtin` the attribute
    is an input of the model (`ename`): the export only has `get_name()`, which differs for
    primitives. -/
def attrName : Ty → String
  | param nm .. => nm
  | simple nm _ => nm
  | t => getName t

/-- `getattr(etype, 't_constructor', None)` -/
def tconOf : Ty → Option Ty | param _ c _ _ => some c | _ => none

/-- `etype.type_args` -/
def newTypeArgs : Ty → Option (List Ty) | param _ _ as _ => some as | _ => none

/-- a class declaration as `_get_subclass` reads it -/
structure ClassCand where
  name : String
  regular : Bool
  parameterized : Bool
  ty : Ty
deriving Inhabited

/-- the test of the loop of `_get_subclass` -/
def subclassKeeps (etype : Ty) (sub : Bool) (c : ClassCand) : Bool :=
  c.regular &&
    ((if c.parameterized then (match tconOf etype with | some tc => beq c.ty tc | none => false)
      else beq c.ty etype) ||
     (sub && isSubtype c.ty etype == .yes))

/-- the list `random.choice` draws from: the classes of the expected type's own name when
    there are any, otherwise all that passed the test -/
def subclassCandidates (classes : List ClassCand) (etype : Ty) (ename : String) (sub : Bool) : List ClassCand :=
  let subs := classes.filter (subclassKeeps etype sub)
  let own := subs.filter fun s => s.name == ename
  if own.isEmpty then subs else own

/-- the refinement checked on every recorded call of `_get_subclass` (`none` = `None`) -/
def subclassRefines (classes : List ClassCand) (etype : Ty) (ename : String) (sub : Bool) : Option String → Bool
  | none => (subclassCandidates classes etype ename sub).isEmpty
  | some n => (subclassCandidates classes etype ename sub).any fun c => c.name == n

/-- the class `_get_subclass` returned, as `gen_new` reads it: `get_type()`, `type_parameters`,
    the types of `fields` -/
structure NewClass where
  name : String
  ty : Ty
  tparams : List Ty
  fields : List Ty
deriving Inhabited

/-- what `gen_new` does after the function-type and SAM branches -/
inductive NewPlan where
  /-- `etype` is a function type: `_gen_func_ref_lambda` -/
  | funcRefOrLambda
  /-- `New(any, [])` / `New(void, [])` -/
  | trivial (t : Ty)
  /-- `BottomConstant(t)` -/
  | bottom (t : Option Ty)
  /-- `New(ty, args)` with the arguments generated at the types `expected` -/
  | new (ty : Ty) (expected : List Ty)
  /-- `IndexError` / `AttributeError` of `etype.type_args[i]`, or a random instantiation the
      recording does not supply -/
  | error
deriving Inhabited

/-- `{t_p: etype.type_args[i] for i, t_p in enumerate(type_parameters)}` -/
def typeParamMap (tparams : List Ty) (etype : Ty) : Option TMap :=
  if tparams.isEmpty then some []
  else match newTypeArgs etype with
    | none => none
    | some args => if args.length < tparams.length then none else some (TMap.mk tparams args)

/-- the part of `gen_new` after the class is known and the expected type is instantiated -/
def newFromClass (c : NewClass) (etype : Ty) : NewPlan :=
  match typeParamMap c.tparams etype with
  | none => .error
  | some m =>
      let expected := c.fields.map fun f => substituteType f m
      if c.tparams.isEmpty then .new c.ty expected
      else match newTypeArgs etype with
        | some args => .new (tconNew c.ty args) expected
        | none => .error

/-- the first random instantiation: when the expected type is a bare type constructor it is
    replaced by `insts[0]`; returns the expected type, its `name` and the instantiations left -/
def newStep1 (e1 : Ty) (ename : String) (insts : List Ty) : Option (Ty × String × List Ty) :=
  if e1.isTCon then (match insts with | i :: rest => some (i, attrName i, rest) | [] => none)
  else some (e1, ename, insts)

/-- `gen_new` once a class is found and not blacklisted; the second random instantiation happens
    when the class is generic and is not the class of the expected type -/
def newWithClass (c : NewClass) (e1 : Ty) (ename : String) (insts : List Ty) : NewPlan :=
  match newStep1 e1 ename insts with
  | none => .error
  | some (e2, n2, rest) =>
      if !c.tparams.isEmpty && attrName c.ty != n2 then
        (match rest with | i :: _ => newFromClass c i | [] => .error)
      else newFromClass c e2

/-- `BottomConstant(t)`: `t = None` for a type variable that is not in scope -/
def newBottom (e1 : Ty) (ename : String) (tvnames : List String) : NewPlan :=
  .bottom (if e1.isTVar && !tvnames.contains ename then none else some e1)

/-- `gen_new` from `_get_subclass` on; `insts` = the results of the calls of
    `instantiate_type_constructor` in order, `black` = `_blacklisted_classes`, `tvnames` =
    `_get_type_variable_names()`, `ename` = `etype.name` -/
def genNewPlan (isFn : Bool) (etype : Ty) (ename : String) (cls : Option NewClass) (anyT voidT : Ty)
    (black tvnames : List String) (insts : List Ty) : NewPlan :=
  if isFn then .funcRefOrLambda else
  let e1 := if etype.isParam then toVarianceFree etype [] else etype
  if beq anyT e1 then .trivial anyT
  else if beq voidT e1 then .trivial voidT
  else match cls with
    | none => newBottom e1 ename tvnames
    | some c => if black.contains ename then newBottom e1 ename tvnames else newWithClass c e1 ename insts

/-- `ParameterizedType.get_type_variable_assignments()` -/
def typeVarAssignments : Ty → TMap
  | param _ con args _ => TMap.mk (conParams con) args
  | _ => []

end Check
end Heph
