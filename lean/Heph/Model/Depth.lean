import Heph.Model.IR
/-!
# C18 — the recursion skeleton of expression generation, and the erasure search

`src/generators/generator.py` bounds the recursion of `generate_expr` with a counter
`self.depth`: every `gen_*` raises it around its recursive calls, `get_generators` offers only
leaf generators once `self.depth >= cfg.limits.max_depth` (or `only_leaves`), and `gen_new` — a
*leaf* generator that still recurses into the fields of the class — passes `gen_bottom=True` once
`self.depth > 2 * max_depth`.  `harness/regen_c18.py` reads this skeleton from the source
(`Heph.Generated.skeleton`); this file gives it a meaning.

## The table (`Skeleton`)
* `dispatch`: the three branches of `get_generators` in source order — condition text and the
  generator methods the branch can return (`const:<f>`, listed in `consts`, = a constant generator
  of `src/generators/generators.py`, a leaf).
* `gens`: per dispatched generator method its *flattened* sites: every call path through helper
  methods that ends in a `generate_expr` call, with `off` = sum of the `self.depth += k` in force
  along the path, `cnt` = number of calls on the path made under a raised counter (offset > 0),
  `ol` = the `only_leaves` argument composed along the path (`pass` = the generator's own),
  `void` = whether the type argument is the void type (`no|yes|maybe`), `cut` = the
  `self.depth > K * max_depth` test inside the `gen_bottom` argument, `cutExempt` = the guard of that test
  (the conjuncts `not X` beside it: children for which `X` holds are not cut).
* `roots`: the same for the declaration-level methods (`gen_lambda`, `gen_func_decl`,
  `gen_class_decl`, …): each starts a new **region**.

## The transition system
A *shape* is the tree of generator calls of one region; an edge carries `cnt`.  State of a
`generate_expr` call: `(depth, onlyLeaves, void)` — the type is abstracted to "is it void".
`admits sk m d ol v s`: shape `s` can be produced by `generate_expr` entered with
`self.depth = d`, `only_leaves = ol`, a void (`v`) or non-void expected type, when
`cfg.limits.max_depth = m`:
* anything may be a leaf (constants, bottom, variables, calls into another region);
* otherwise a generator of the branch of `get_generators` selected by `(d, ol, v)` runs, and every
  child comes from one of its sites, is entered at ANY depth `d' ≥ d + off` (callees may leak the
  counter upwards, never downwards), with `only_leaves` as the site says, void as the site says,
  and — at a site with a cut — only if `d' ≤ K * m` (otherwise the child is the bottom constant, or
  the expression of a primitive type: a leaf; a leaf child is admitted at every site).
`wdepth` = the largest number of raised-counter calls on a path of the shape.

What is NOT bounded by the counter, in the code and hence here: chains through edges with
`cnt = 0` (method-call receivers `a.f().g()…`, array elements, the right-hand side of an
assignment, receivers of function references), and nesting ACROSS regions (a lambda whose body
calls a function taking a lambda …): `_gen_side_effects` asks for void expressions, the void branch
of `get_generators` ignores the leaf rule, and `gen_new` on a function type builds a lambda without
consulting the cut.  Those end with probability 1 only (DESIGN C18 "partial").
-/
namespace Heph.Depth

structure FSite where
  path : String
  line : Nat
  off : Nat
  cnt : Nat
  ol : String
  targ : String
  void : String
  cut : Option (String × Nat)
  /-- the guard of the cut: texts `X` of the conjuncts `not X` beside the depth comparison (a child for which
      one of them holds is not cut) -/
  cutExempt : List String := []
deriving Repr, DecidableEq, Inhabited

structure FGen where
  name : String
  sites : List FSite
deriving Repr, DecidableEq, Inhabited

structure Skeleton where
  dispatch : List (String × List (String × String))
  consts : List String
  gens : List FGen
  roots : List FGen
  wrapperSites : List FSite
  boundary : List String
  problems : List String
  otherWrites : Nat
deriving Repr, Inhabited

/-! ## shapes -/
mutual
inductive Shape where
  | leaf
  | node (gen : String) (kids : Kids)
inductive Kids where
  | nil
  | cons (cnt : Nat) (s : Shape) (rest : Kids)
end

mutual
/-- raised-counter calls on the longest path -/
def Shape.wdepth : Shape → Nat
  | .leaf => 0
  | .node _ ks => ks.wdepth
def Kids.wdepth : Kids → Nat
  | .nil => 0
  | .cons c s r => max (c + s.wdepth) r.wdepth
end

/-! ## the dispatch of `get_generators` -/
def voidCond : String := "expr_type == self.bt_factory.get_void_type()"
def leafCond : String := "self.depth >= cfg.limits.max_depth or only_leaves"

/-- `self.depth >= cfg.limits.max_depth or only_leaves` -/
def leafMode (m d : Nat) (ol : Bool) : Bool := decide (m ≤ d) || ol

def Skeleton.branch (sk : Skeleton) (i : Nat) : List String :=
  match sk.dispatch[i]? with
  | some b => b.2.map (·.1)
  | none => []

/-- the generators `get_generators` can return in state `(d, ol, v)`: the void test comes first,
    then the leaf rule, then everything -/
def Skeleton.allowed (sk : Skeleton) (m d : Nat) (ol v : Bool) : List String :=
  if v then sk.branch 0 else if leafMode m d ol then sk.branch 1 else sk.branch 2

/-- `only_leaves` of the callee, from the argument as written -/
def olNext (arg : String) (ol : Bool) : Bool :=
  if arg == "True" then true else if arg == "pass" then ol else false

/-- a child at this site may be void / non-void -/
def voidOK (s : FSite) (v : Bool) : Prop := (s.void = "no" → v = false) ∧ (s.void = "yes" → v = true)

/-- the only exemption from the cut the bound tolerates: the type of the child (the type argument of the call,
    as written) is primitive — such a child comes from a constant generator, a leaf of the shape.  Any other
    guard (an exemption of all built-in types, which include the recursively generated `Array<…>` and
    `FunctionN<…>`; a random test; …) lets non-leaf children through above the cut. -/
def exemptOK (s : FSite) : Bool := s.cutExempt.all (fun x => x == s.targ ++ ".is_primitive()")

/-- `K` of a `self.depth > K * max_depth` cut that applies to every non-primitive argument type -/
def cutBound (s : FSite) : Option Nat :=
  match s.cut with
  | some (op, k) => if op == ">" && exemptOK s then some k else none
  | none => none

/-- with a cut, a child that is not the bottom constant needs `d' ≤ K * m` -/
def cutOK (s : FSite) (m d' : Nat) : Prop := ∀ k, cutBound s = some k → d' ≤ k * m

mutual
def admits (sk : Skeleton) (m : Nat) : Nat → Bool → Bool → Shape → Prop
  | _, _, _, .leaf => True
  | d, ol, v, .node g ks =>
      ∃ G, G ∈ sk.gens ∧ G.name = g ∧ g ∈ sk.allowed m d ol v ∧ admitsKids sk m G.sites d ol ks
def admitsKids (sk : Skeleton) (m : Nat) (sites : List FSite) : Nat → Bool → Kids → Prop
  | _, _, .nil => True
  | d, ol, .cons c sh rest =>
      (∃ s, s ∈ sites ∧ s.cnt = c ∧ (sh = .leaf ∨ ∃ d' v', d + s.off ≤ d' ∧ cutOK s m d' ∧ voidOK s v' ∧
          admits sk m d' (olNext s.ol ol) v' sh)) ∧
      admitsKids sk m sites d ol rest
end

/-- a region: a declaration-level method entered at depth `d` -/
def region (sk : Skeleton) (m d : Nat) (ol : Bool) : Shape → Prop
  | .leaf => True
  | .node r ks => ∃ R, R ∈ sk.roots ∧ R.name = r ∧ admitsKids sk m R.sites d ol ks

/-! ## the decidable hypothesis on the table -/
def Skeleton.allSites (sk : Skeleton) : List FSite :=
  (sk.gens.map (·.sites)).flatten ++ (sk.roots.map (·.sites)).flatten

def Skeleton.maxCnt (sk : Skeleton) : Nat := sk.allSites.foldl (fun a s => max a s.cnt) 0
def Skeleton.cutK (sk : Skeleton) : Nat :=
  sk.allSites.foldl (fun a s => match cutBound s with | some k => max a k | none => a) 0

/-- sites the code enters WITHOUT raising the counter (identified by call path, type argument and
    `only_leaves` argument as written); their edges are not counted, on the model side and on the
    exported programs alike.  The bound does not need this list (it counts raised-counter edges only):
    the list makes every NEW same-depth site — e.g. a `self.depth += 1` that was removed — a failure of
    `SkeletonOK`, because each one adds a family of chains that end with probability 1 only. -/
def sameDepthSites : List (String × String × String) := [
  ("gen_func_call>_gen_func_call", "type_fun.receiver_t", "pass"),          -- receiver of a method call
  ("gen_assignment", "var_decl.get_type()", "pass"),                        -- right-hand side of an assignment
  ("gen_assignment", "variable.get_type()", "pass"),
  ("gen_array_expr", "etype", "pass"),                                      -- array elements
  ("gen_new>_gen_func_ref_lambda>_gen_func_ref", "type_fun.receiver_t", "pass"),  -- receiver of a function reference
  ("gen_variable", "etype", "pass"),                                        -- no variable in scope: the expression itself
  ("gen_is_expr", "expr_type", "True")]                                     -- no final variable: the expression itself (leaves only)

def genSiteOK (C : Nat) (s : FSite) : Bool :=
  s.void == "no" && decide (s.cnt ≤ s.off) && decide (s.cnt ≤ C) &&
  (s.cnt != 0 || sameDepthSites.contains (s.path, s.targ, s.ol))

/-- in a leaf generator: never `only_leaves=False`, and a raised-counter recursion is cut -/
def leafSiteOK (K : Nat) (s : FSite) : Bool :=
  (s.ol == "True" || s.ol == "pass") && (s.cnt == 0 || match cutBound s with | some k => decide (k ≤ K) | none => false)

def dispatchNameOK (sk : Skeleton) (n : String) : Bool :=
  sk.consts.contains n || sk.gens.any (·.name == n)

def SkeletonOK (sk : Skeleton) : Bool :=
  sk.problems.isEmpty && sk.otherWrites == 0 && sk.wrapperSites.isEmpty &&
  sk.dispatch.map (·.1) == [voidCond, leafCond, ""] &&
  (sk.branch 0 ++ sk.branch 1 ++ sk.branch 2).all (dispatchNameOK sk) &&
  decide (1 ≤ sk.cutK) &&
  sk.gens.all (fun g => g.sites.all (genSiteOK sk.maxCnt)) &&
  sk.gens.all (fun g => !(sk.branch 1).contains g.name || g.sites.all (leafSiteOK sk.cutK)) &&
  sk.roots.all (fun g => g.sites.all (fun s => decide (s.cnt ≤ sk.maxCnt)))

/-- the bound: linear in `maxDepth` and in the entry depth -/
def B (sk : Skeleton) (m d : Nat) : Nat := (sk.cutK * m - d) + 4 * sk.maxCnt

/-! ## nesting of exported programs -/
mutual
/-- nesting of expression nodes within ONE region: an edge parent → child is counted exactly when
    the generator of the parent creates the child under a raised counter in every case
    (operands of binary operators, the three parts of a conditional, constructor arguments, call
    arguments, the receiver of a field access and of a field assignment).  Not counted: the
    `sameDepthSites` edges (call receiver, assignment value, array elements, function-reference
    receiver) and structural edges (block → statement, declaration → initialiser, argument wrapper).
    A lambda and a function declaration are leaves here: their bodies are regions of their own. -/
def regionDepth : Node → Nat
  | .block body _ => regionDepthList body
  | .superInst _ args => regionDepthOptList args
  | .classDecl _ _ _ _ supers _ _ => regionDepthList supers
  | .varDecl _ e _ _ _ => regionDepth e
  | .callArg e _ => regionDepth e
  | .fieldDecl .. => 0
  | .paramDecl _ _ _ dflt => regionDepthOpt dflt
  | .funcDecl .. => 0
  | .lambda .. => 0
  | .funcRef _ recv _ => regionDepthOpt recv
  | .bottom _ => 0
  | .intC .. => 0
  | .realC .. => 0
  | .boolC _ => 0
  | .charC _ => 0
  | .stringC _ => 0
  | .arrayE _ _ es => regionDepthList es
  | .variable _ => 0
  | .isE e _ _ => regionDepth e
  | .binop _ l r _ => 1 + max (regionDepth l) (regionDepth r)
  | .cond c t f _ => 1 + max (regionDepth c) (max (regionDepth t) (regionDepth f))
  | .newE _ args _ => regionDepthArgs args
  | .fieldAccess e _ => 1 + regionDepth e
  | .call _ args recv _ _ _ => max (regionDepthArgs args) (regionDepthOpt recv)
  | .assign _ e recv => max (regionDepth e) (match recv with | some r => 1 + regionDepth r | none => 0)
def regionDepthList : List Node → Nat
  | [] => 0
  | n :: ns => max (regionDepth n) (regionDepthList ns)
/-- children under a raised counter: `1 +` each -/
def regionDepthArgs : List Node → Nat
  | [] => 0
  | n :: ns => max (1 + regionDepth n) (regionDepthArgs ns)
def regionDepthOpt : Option Node → Nat
  | none => 0
  | some n => regionDepth n
def regionDepthOptList : Option (List Node) → Nat
  | none => 0
  | some l => regionDepthList l
end

mutual
/-- the largest `regionDepth` over all regions of a declaration (every sub-node taken as a root;
    a lambda / function contributes the region of its body and parameter defaults) -/
def exprDepth : Node → Nat
  | n@(.block body _) => max (regionDepth n) (exprDepthList body)
  | n@(.superInst _ args) => max (regionDepth n) (match args with | some l => exprDepthList l | none => 0)
  | n@(.classDecl _ _ _ fields supers funcs _) =>
      max (regionDepth n) (max (exprDepthList fields) (max (exprDepthList supers) (exprDepthList funcs)))
  | .varDecl _ e _ _ _ => exprDepth e
  | .callArg e _ => exprDepth e
  | .fieldDecl .. => 0
  | .paramDecl _ _ _ dflt => (match dflt with | some e => exprDepth e | none => 0)
  | .funcDecl _ params _ _ body _ _ _ _ =>
      max (exprDepthList params) (match body with | some b => exprDepth b | none => 0)
  | .lambda _ params _ body _ => max (exprDepthList params) (exprDepth body)
  | n@(.funcRef _ recv _) => max (regionDepth n) (match recv with | some e => exprDepth e | none => 0)
  | .bottom _ => 0
  | .intC .. => 0
  | .realC .. => 0
  | .boolC _ => 0
  | .charC _ => 0
  | .stringC _ => 0
  | n@(.arrayE _ _ es) => max (regionDepth n) (exprDepthList es)
  | .variable _ => 0
  | .isE e _ _ => exprDepth e
  | n@(.binop _ l r _) => max (regionDepth n) (max (exprDepth l) (exprDepth r))
  | n@(.cond c t f _) => max (regionDepth n) (max (exprDepth c) (max (exprDepth t) (exprDepth f)))
  | n@(.newE _ args _) => max (regionDepth n) (exprDepthList args)
  | n@(.fieldAccess e _) => max (regionDepth n) (exprDepth e)
  | n@(.call _ args recv _ _ _) =>
      max (regionDepth n) (max (exprDepthList args) (match recv with | some e => exprDepth e | none => 0))
  | n@(.assign _ e recv) =>
      max (regionDepth n) (max (exprDepth e) (match recv with | some r => exprDepth r | none => 0))
def exprDepthList : List Node → Nat
  | [] => 0
  | n :: ns => max (exprDepth n) (exprDepthList ns)
end

/-! ## the erasure search (`TypeErasure.visit_func_decl`) -/

/-- `itertools.combinations(l, r)` -/
def combinations : List α → Nat → List (List α)
  | _, 0 => [[]]
  | [], _ + 1 => []
  | a :: l, r + 1 => (combinations l r).map (a :: ·) ++ combinations l (r + 1)

/-- `chain.from_iterable(combinations(l, r) for r in range(len(l), 0, -1))` -/
def powerWalkFrom (l : List α) : Nat → List (List α)
  | 0 => []
  | r + 1 => combinations l (r + 1) ++ powerWalkFrom l r

def powerWalk (l : List α) : List (List α) := powerWalkFrom l l.length

/-- number of `is_combination_feasible` calls of the main loop: `enumerate` index `i` runs over the
    walk, the loop breaks BEFORE the test when `max_combinations` is truthy and `i > max_combinations`
    (and after the first feasible combination: `firstFeasible` = its index, if any) -/
def loopTests (walkLen maxComb : Nat) (firstFeasible : Option Nat) : Nat :=
  let cap := if maxComb == 0 then walkLen else min walkLen (maxComb + 1)
  match firstFeasible with
  | some i => min cap (i + 1)
  | none => cap

/-- all feasibility tests of one function: `n0` single-node pre-filter tests, then the loop over
    the `n` survivors -/
def erasureTests (n0 n maxComb : Nat) (firstFeasible : Option Nat) : Nat :=
  n0 + loopTests (2 ^ n - 1) maxComb firstFeasible

end Heph.Depth
