import Heph.Model.IR
import Heph.Model.Subst
/-!
# Scopes, member lookup and expression types of the IR (shared by `Spec/Typing` and `Model/Check`)

The IR is explicitly typed: every declaration carries its type, every constant its type, a
`Lambda`/`FunctionReference` its signature, a `Conditional` its recorded type.  The type of an
expression is therefore a *function* of the expression and of the declarations in scope
(`synth`), following the IR's own conventions (DESIGN, Block B, rules 2–6):

* `BottomConstant` without a type has type `Nothing`; a declared type that is itself a
  projection denotes the projection's bound (`deproj`);
* a member of declared type `P` read through a receiver `C<…>` has the substituted type; read
  through a projection it has the upper capture bound (`readType`);
* receiver type arguments and explicit method type arguments are substituted with the model of
  `substitute_type`;
* a smart-cast branch re-binds the tested variable (done by the walker in `Model/Check`).

Everything here is total; class-hierarchy walks take fuel (number of classes + slack).
-/
namespace Heph
namespace Check
open Heph.Ty

/-- by-value image of `Program.bt_factory` (a function of the language) -/
structure LangTypes where
  any : Ty
  void : Ty
  boolean : Ty
  char : Ty
  string : Ty
  integer : Ty
  builtins : List Ty
deriving Inhabited, Repr

inductive Bind where
  | var (t : Ty) (final : Bool)
  | func (d : Node) (m : TMap)
deriving Inhabited

structure Env where
  lt : LangTypes
  classes : List Node
  binds : List (String × Bind)     -- innermost first
deriving Inhabited

/-! ## node accessors -/

def declName : Node → String
  | .classDecl nm .. => nm
  | .varDecl nm .. => nm
  | .fieldDecl nm .. => nm
  | .paramDecl nm .. => nm
  | .funcDecl nm .. => nm
  | .lambda nm .. => nm
  | _ => ""

def clsTParams : Node → List Ty | .classDecl _ _ _ _ _ _ tps => tps | _ => []
def clsFields : Node → List Node | .classDecl _ _ _ fs _ _ _ => fs | _ => []
def clsFuncs : Node → List Node | .classDecl _ _ _ _ _ fns _ => fns | _ => []
def clsSupers : Node → List Node | .classDecl _ _ _ _ ss _ _ => ss | _ => []
def clsCType : Node → Nat | .classDecl _ ct .. => ct | _ => 0
def clsFinal : Node → Bool | .classDecl _ _ fin .. => fin | _ => false
def fieldTy : Node → Option Ty | .fieldDecl _ t .. => some t | _ => none
def fieldFinal : Node → Bool | .fieldDecl _ _ fin .. => fin | _ => true
def fieldOverride : Node → Bool | .fieldDecl _ _ _ _ ov => ov | _ => false
def paramTy : Node → Option Ty | .paramDecl _ t .. => some t | _ => none
def paramVararg : Node → Bool | .paramDecl _ _ v _ => v | _ => false
def paramHasDefault : Node → Bool | .paramDecl _ _ _ d => d.isSome | _ => false
def funcParams : Node → List Node | .funcDecl _ ps .. => ps | _ => []
def funcTParams : Node → List Ty | .funcDecl _ _ _ _ _ _ _ tps _ => tps | _ => []
def funcHasBody : Node → Bool | .funcDecl _ _ _ _ b .. => b.isSome | _ => false
def funcFinal : Node → Bool | .funcDecl _ _ _ _ _ fin .. => fin | _ => false
def funcOverride : Node → Bool | .funcDecl _ _ _ _ _ _ ov _ _ => ov | _ => false
/-- `FunctionDeclaration.get_type()`: the inferred type (the declared one when absent) -/
def funcRet : Node → Option Ty
  | .funcDecl _ _ ret inf .. => (match inf with | some t => some t | none => ret)
  | _ => none
def superTy : Node → Option Ty | .superInst t _ => some t | _ => none
def isBottomConst : Node → Bool | .bottom _ => true | _ => false
def argName : Node → Option String | .callArg _ nm => nm | _ => none

/-! ## types -/

/-- a declared type that is a projection denotes the projection's bound (rule 4) -/
def deproj (lt : LangTypes) (t : Ty) : Ty :=
  match t with
  | wild _ _ => (wildBoundRec t).getD lt.any
  | _ => t

def isVoid (lt : LangTypes) (t : Ty) : Bool := beq t lt.void

/-- `m.update({p: a for p, a in zip(ks, vs)})` -/
def tmapUpdate (m : TMap) (ks vs : List Ty) : TMap :=
  (ks.zip vs).foldl (fun m kv => TMap.set m kv.1 kv.2) m

/-- the type written at a sink (parameter, field, variable) seen through the map `m` -/
def sinkType (lt : LangTypes) (declared : Ty) (m : TMap) : Ty :=
  substituteType (deproj lt declared) m

/-- type of reading a member of declared type `declared` under the receiver map `m`: the upper
    capture bound when the substituted type is a projection (rule 2) -/
def readType (lt : LangTypes) (declared : Ty) (m : TMap) : Ty :=
  match substituteType declared m with
  | wild 1 (some b) => deproj lt b
  | wild v b =>
      (match declared with
       | tparam _ _ (some bd) =>
           (match substituteType bd m with
            | wild 1 (some x) => deproj lt x
            | wild _ _ => lt.any
            | b' => b')
       | wild _ _ => deproj lt (wild v b)
       | _ => lt.any)
  | t => t

def typeName : Ty → String
  | param nm .. => nm
  | simple nm _ => nm
  | t => getName t

def findClass (classes : List Node) (nm : String) : Option Node :=
  classes.find? fun c => declName c == nm

/-- the class declaration a type denotes and the map of its type parameters
    (through projections and type-variable bounds) -/
def clsOf (classes : List Node) : Nat → Ty → Option (Node × TMap)
  | 0, _ => none
  | f+1, t =>
    match t with
    | wild _ (some b) => clsOf classes f b
    | tparam _ _ (some b) => clsOf classes f b
    | param nm _ args _ =>
        (match findClass classes nm with
         | some c => some (c, TMap.mk (clsTParams c) args)
         | none => none)
    | simple nm _ =>
        (match findClass classes nm with
         | some c => some (c, [])
         | none => none)
    | _ => none

def clsFuel (classes : List Node) : Nat := classes.length + 16

/-- the instantiated direct superclass of `c` seen under `m` -/
def superOf (classes : List Node) (c : Node) (m : TMap) : Option (Node × TMap) :=
  match clsSupers c with
  | s :: _ => (match superTy s with
      | some st => clsOf classes (clsFuel classes) (substituteType st m)
      | none => none)
  | [] => none

/-- `c` and its ancestors, nearest first, each with the map of its type parameters -/
def chainOf (classes : List Node) : Nat → Node → TMap → List (Node × TMap)
  | 0, _, _ => []
  | f+1, c, m =>
    (c, m) :: (match superOf classes c m with
      | some (c', m') => chainOf classes f c' m'
      | none => [])

def memberIn (chain : List (Node × TMap)) (name : String) (isField : Bool) : Option (Node × TMap) :=
  match chain with
  | [] => none
  | (c, m) :: rest =>
    match (if isField then clsFields c else clsFuncs c).find? (fun d => declName d == name) with
    | some d => some (d, m)
    | none => memberIn rest name isField

/-- field or method `name` of a value of type `t`, with the receiver map -/
def findMember (classes : List Node) (t : Ty) (name : String) (isField : Bool) : Option (Node × TMap) :=
  match clsOf classes (clsFuel classes) t with
  | some (c, m) => memberIn (chainOf classes (clsFuel classes) c m) name isField
  | none => none

/-! ## environments -/

def Env.push (Γ : Env) (nm : String) (b : Bind) : Env := { Γ with binds := (nm, b) :: Γ.binds }

def Env.lookupVar (Γ : Env) (nm : String) : Option (Ty × Bool) :=
  match Γ.binds.find? (fun p => p.1 == nm && (match p.2 with | .var .. => true | _ => false)) with
  | some (_, .var t fin) => some (t, fin)
  | _ => none

def Env.lookupFunc (Γ : Env) (nm : String) : Option (Node × TMap) :=
  match Γ.binds.find? (fun p => p.1 == nm && (match p.2 with | .func .. => true | _ => false)) with
  | some (_, .func d m) => some (d, m)
  | _ => none

/-- a declaration statement extends the scope of the statements after it -/
def Env.extend (Γ : Env) (s : Node) : Env :=
  match s with
  | .varDecl nm _ fin vt inf =>
      (match (match inf with | some t => some t | none => vt) with
       | some t => Γ.push nm (.var t fin)
       | none => Γ)
  | .funcDecl nm .. => Γ.push nm (.func s [])
  | _ => Γ

/-- a (local or member) function is visible in its own body -/
def Env.extendF (Γ : Env) (s : Node) : Env :=
  match s with
  | .funcDecl nm .. => Γ.push nm (.func s [])
  | _ => Γ

def Env.bindParams (Γ : Env) (ps : List Node) : Env :=
  ps.foldl (fun Γ p => match p with
    | .paramDecl nm t _ _ => Γ.push nm (.var t true)
    | _ => Γ) Γ

/-- members visible inside class `c`: inherited ones first (base class outermost), fields with
    their substituted types, methods with the map of their declaring class -/
def Env.bindClass (Γ : Env) (c : Node) : Env :=
  let chain := (chainOf Γ.classes (clsFuel Γ.classes) c []).reverse
  chain.foldl (fun Γ km =>
    let Γ1 := (clsFields km.1).foldl (fun Γ f => match f with
      | .fieldDecl nm t fin _ _ => Γ.push nm (.var (substituteType t km.2) fin)
      | _ => Γ) Γ
    (clsFuncs km.1).foldl (fun Γ g => Γ.push (declName g) (.func g km.2)) Γ1) Γ

/-- the smart cast of `if (x is T)`: `x` has type `T` in the true branch (rule 6) -/
def Env.smartCast (Γ : Env) (c : Node) : Env :=
  match c with
  | .isE (.variable x) t _ =>
      (match Γ.lookupVar x with
       | some (_, fin) => Γ.push x (.var t fin)
       | none => Γ)
  | _ => Γ

/-! ## expression types -/

def isFunctionTy : Ty → Bool
  | param _ (tcon cls _ _ _) _ _ => (cls.splitOn "FunctionType").length > 1
  | _ => false

/-- the result type of a function-typed value -/
def sigRet (lt : LangTypes) (sig : Ty) : Option Ty :=
  match sig with
  | param _ _ args _ => if isFunctionTy sig then args.getLast?.map (deproj lt) else none
  | _ => none

def sigParams (sig : Ty) : List Ty :=
  match sig with
  | param _ _ args _ => args.dropLast
  | _ => []

mutual
/-- the type of an expression (statements have type `void`) -/
def synth (Γ : Env) : Node → Option Ty
  | .bottom t => (match t with | some t => some (deproj Γ.lt t) | none => some Ty.nothing)
  | .intC _ t => (match t with | some t => some t | none => some Γ.lt.integer)
  | .realC _ t => t
  | .boolC _ => some Γ.lt.boolean
  | .charC _ => some Γ.lt.char
  | .stringC _ => some Γ.lt.string
  | .variable nm => (Γ.lookupVar nm).map (·.1)
  | .arrayE t _ _ => some t
  | .isE .. => some Γ.lt.boolean
  | .binop .. => some Γ.lt.boolean
  | .cond _ _ _ ty => ty
  | .block body _ => synthBlock Γ body
  | .newE t _ _ => some t
  | .fieldAccess e fld =>
      (match synth Γ e with
       | some rt => (match findMember Γ.classes rt fld true with
           | some (f, m) => (fieldTy f).map fun ft => readType Γ.lt ft m
           | none => none)
       | none => none)
  | .lambda _ _ _ _ sig => sig
  | .funcRef _ _ sig => sig
  | .assign .. => some Γ.lt.void
  | .varDecl .. => some Γ.lt.void
  | .funcDecl .. => some Γ.lt.void
  | .callArg e _ => synth Γ e
  | .call fn _ recv targs _ isRef =>
      if isRef then
        (match recv with
         | none => (match Γ.lookupVar fn with
             | some (sig, _) => sigRet Γ.lt sig
             | none => none)
         | some r => (match synth Γ r with
             | some rt => (match findMember Γ.classes rt fn true with
                 | some (f, m) => (match fieldTy f with
                     | some ft => sigRet Γ.lt (readType Γ.lt ft m)
                     | none => none)
                 | none => none)
             | none => none))
      else
        (match recv with
         | none => (match Γ.lookupFunc fn with
             | some (d, m) => (funcRet d).map fun rt => readType Γ.lt rt (tmapUpdate m (funcTParams d) targs)
             | none => none)
         | some r => (match synth Γ r with
             | some rt => (match findMember Γ.classes rt fn false with
                 | some (d, m) => (funcRet d).map fun ret => readType Γ.lt ret (tmapUpdate m (funcTParams d) targs)
                 | none => none)
             | none => none))
  | _ => none
def synthBlock (Γ : Env) : List Node → Option Ty
  | [] => some Γ.lt.void
  | [s] => synth Γ s
  | s :: rest => synthBlock (Γ.extend s) rest
end

end Check
end Heph
