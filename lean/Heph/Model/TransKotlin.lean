import Heph.Model.IR
/-!
# Model of `src/translators/kotlin.py` (KotlinTranslator), state threaded as Python mutates it

`visit : St → Node → St × Doc`.  `St` is the record of the translator object's mutable
attributes; every `{ st with … }` below is one Python assignment `self.x = …`, at the place
where the Python method makes it — including the one that is never undone
(`visit_super_instantiation`: `self.ident = 0`).  `_children_res` is modelled by return values
(each visit returns exactly the one text it appends; `pop_children_res(children)` is the list of
the children's results), `_nodes_stack` by a list of `Frame`s holding exactly the attributes that
`visit_lambda` reads from the stacked nodes.

The output is a `Doc`: text pieces tagged with their origin; the text is `flatten doc`.  The one
place where the Python post-processes a child's text (`children_res[0][self.ident:]` in
`visit_conditional`) is `dropChars`, which shortens piece texts but keeps every piece, so tags
survive.  `if body_res:` (a test on the *text*) is modelled by testing `flatten`; when the text is
empty the (all-empty) pieces are kept, which does not change the text.

`tu.is_sam` (type_utils.py:1149) is modelled from the program: `context.get_classes(('global',),
glob=True)` is the list of class declarations among the top-level declarations (classes are only
ever registered in the global namespace; the harness checks this for every explored program),
`get_callable_functions` / `get_abstract_functions` are followed along `superclasses[0]` with
explicit fuel (a cyclic hierarchy makes the Python recurse forever).  Only what `is_sam` reads is
kept: the *number* of callable functions and, of the abstract functions, name / parameter defaults /
type parameters (the substitutions the Python applies to the copies do not change those).

Not modelled: exceptions.  `get_type_name` of a wildcard without bound (AttributeError in Python)
yields the marker text `<<None>>`; `type_args[0]` of an empty argument list yields `<<IndexError>>`.
`str.lower()` is modelled by ASCII lower-casing (it is applied to names of builtin types only).
-/
namespace Heph.TransKotlin
open Heph

/-! ## Docs -/

inductive Tag where
  | other                          -- layout, punctuation, keywords of expressions
  | classD (name : String)         -- `[fun ][open ]class|interface|abstract class NAME`
  | tparamD (name : String)        -- `[out |in ]T: Bound`
  | fieldD (name : String)         -- `[open ][override ]val|var x: T`
  | funcD (name : String)          -- `[open ][override ][abstract ]fun ` (the name follows the type parameters)
  | funcName (name : String)
  | paramD (name : String)         -- `[vararg ]x: T`
  | varD (name : String)           -- `val|var x`
  | superT                         -- type of a super-class clause
  | varAnnot (name : String)       -- `: T` of variable `name`
  | retAnnot (name : String)       -- `: T` of function `name`
  | lamRet                         -- `: T` of an anonymous function
  | targs (func : String)          -- `<A,B>` explicit type arguments of a call of `func`
  | newT (explicit : Bool)         -- class name of a `new`; explicit = printed with its type arguments
  | lit                            -- literal
  | op                             -- operator
  | name                           -- reference to a name (variable, field, function)
  | ty                             -- other printed type (cast of a bottom constant, `is`, array element, SAM name)
deriving Repr, DecidableEq, Inhabited

abbrev Piece := Tag × String
abbrev Doc := List Piece

def flatten (d : Doc) : String := String.join (d.map (·.2))

def o (s : String) : Doc := [(Tag.other, s)]
def sp (n : Nat) : String := String.ofList (List.replicate n ' ')
def ind (n : Nat) : Doc := o (sp n)

/-- `sep.join(docs)` -/
def joinD (sep : String) : List Doc → Doc
  | [] => []
  | [d] => d
  | d :: e :: r => d ++ o sep ++ joinD sep (e :: r)

/-- `text[n:]` on a doc: characters are removed from the front, pieces (and tags) are kept -/
def dropChars : Nat → Doc → Doc
  | _, [] => []
  | n, (t, s) :: r =>
      if n ≤ s.length then (t, String.ofList (s.toList.drop n)) :: r
      else (t, "") :: dropChars (n - s.length) r

/-! ## Types -/

def clsUnit := "<class 'src.ir.kotlin_types.UnitType'>"
def clsLong := "<class 'src.ir.kotlin_types.LongType'>"
def clsShort := "<class 'src.ir.kotlin_types.ShortType'>"
def clsByte := "<class 'src.ir.kotlin_types.ByteType'>"
def clsNumber := "<class 'src.ir.kotlin_types.NumberType'>"
def clsFloat := "<class 'src.ir.kotlin_types.FloatType'>"
def clsSpecArray := "<class 'src.ir.kotlin_types.SpecializedArrayType'>"
def clsTCon := "<class 'src.ir.types.TypeConstructor'>"

def isCls (t : Ty) (c : String) : Bool := match t with | .builtin cls _ _ _ _ => cls == c | _ => false
/-- `x == kt.Unit` (also for `x = None`) -/
def isUnitT (t : Option Ty) : Bool := match t with | some x => isCls x clsUnit | none => false

def isSpecCon : Ty → Bool | .tcon cls _ _ _ => cls == clsSpecArray | _ => false

/-- the attribute `t.name` -/
def attrName : Ty → String
  | .builtin _ nm _ _ _ => nm | .simple nm _ => nm | .tparam nm _ _ => nm | .wild _ _ => "*"
  | .tcon _ nm _ _ => nm | .param nm _ _ _ => nm | .nothing => "Nothing" | .ext c => c

mutual
/-- `get_type_name(t)` -/
def typeName : Ty → String
  | .wild _ none => "<<None>>"
  | .wild _ (some t) => typeName t        -- `get_bound_rec()` walks nested wildcards, then `get_type_name`
  | .param nm con args _ =>
      if isSpecCon con then
        (match args with | a :: _ => typeName a ++ "Array" | [] => "<<IndexError>>")
      else nm ++ "<" ++ typeArgs args ++ ">"
  | .builtin _ nm _ _ _ => nm
  | .simple nm _ => nm
  | .tparam nm _ _ => nm
  | .tcon _ nm _ _ => nm
  | .nothing => "Nothing"
  | .ext c => c
/-- `", ".join(type_arg2str(ta) for ta in args)` -/
def typeArgs : List Ty → String
  | [] => ""
  | [x] => typeArg x
  | x :: y :: r => typeArg x ++ ", " ++ typeArgs (y :: r)
/-- `type_arg2str` -/
def typeArg : Ty → String
  | .wild var bd =>
      if var == 0 then "*"
      else (if var == 1 then "out " else "in ") ++
        (match bd with | some x => typeName x | none => "<<None>>")
  | .param nm con args _ =>
      if isSpecCon con then
        (match args with | a :: _ => typeName a ++ "Array" | [] => "<<IndexError>>")
      else nm ++ "<" ++ typeArgs args ++ ">"
  | .builtin _ nm _ _ _ => nm
  | .simple nm _ => nm
  | .tparam nm _ _ => nm
  | .tcon _ nm _ _ => nm
  | .nothing => "Nothing"
  | .ext c => c
end

/-- `visit_type_param` -/
def typeParamStr : Ty → String
  | .tparam nm var bd =>
      Ty.varStr var ++ (if var != 0 then " " else "") ++ nm ++ ": " ++
        (match bd with | some x => typeName x | none => "Any")
  | t => typeName t

def tparamName : Ty → String | .tparam nm _ _ => nm | t => attrName t

def tparamDoc (t : Ty) : Doc := [(Tag.tparamD (tparamName t), typeParamStr t)]

/-! ## `tu.is_sam` -/

def superTys : List Node → List Ty
  | [] => []
  | .superInst t _ :: r => t :: superTys r
  | _ :: r => superTys r

/-- `ClassDeclaration.get_type()` -/
def classType : Node → Option Ty
  | .classDecl name _ _ _ supers _ tparams =>
      some (if tparams.isEmpty then .simple name (superTys supers)
            else .tcon clsTCon name tparams (superTys supers))
  | _ => none

def isClassDecl : Node → Bool | .classDecl .. => true | _ => false
def className : Node → String | .classDecl nm .. => nm | _ => ""

/-- `tu.get_superclass_decl(super_cls, class_decls)`: the LAST class whose type equals -/
def getSuperclassDecl (sup : Node) (classes : List Node) : Option Node :=
  match sup with
  | .superInst t _ =>
      classes.foldl (fun acc c =>
        match classType c with
        | none => acc
        | some ct =>
          (match t with
           | .param _ con _ _ => if Ty.beq con ct then some c else acc
           | _ => if Ty.beq t ct then some c else acc)) none
  | _ => none

def funcName : Node → String | .funcDecl nm .. => nm | _ => ""
def funcHasBody : Node → Bool | .funcDecl _ _ _ _ b _ _ _ _ => b.isSome | _ => true
def paramHasDefault : Node → Bool | .paramDecl _ _ _ d => d.isSome | _ => false
def funcParams : Node → List Node | .funcDecl _ ps .. => ps | _ => []
def funcTParams : Node → List Ty | .funcDecl _ _ _ _ _ _ _ tps _ => tps | _ => []

/-- `len(cls.get_callable_functions(class_decls))` -/
def callableCount : Nat → List Node → Node → Option Nat
  | 0, _, _ => none
  | fuel + 1, classes, c =>
    match c with
    | .classDecl _ _ _ _ supers funcs _ =>
      (match supers with
       | [] => some funcs.length
       | s :: _ =>
         match getSuperclassDecl s classes with
         | none => some funcs.length
         | some pd => (callableCount fuel classes pd).map (funcs.length + ·))
    | _ => some 0

/-- `cls.get_abstract_functions(class_decls)` (the originals of the copies) -/
def abstractFns : Nat → List Node → Node → Option (List Node)
  | 0, _, _ => none
  | fuel + 1, classes, c =>
    match c with
    | .classDecl _ _ _ _ supers funcs _ =>
      let own := funcs.filter (fun f => !funcHasBody f)
      (match supers with
       | [] => some own
       | s :: _ =>
         match getSuperclassDecl s classes with
         | none => some own
         | some pd =>
           let implemented := (funcs.filter funcHasBody).map funcName
           (abstractFns fuel classes pd).map fun inh =>
             own ++ inh.filter (fun f => !implemented.contains (funcName f)))
    | _ => some []

/-- `class_decls.get(name)` of the name-keyed dict -/
def lookupClass (classes : List Node) (nm : String) : Option Node :=
  classes.foldl (fun acc c => if className c == nm then some c else acc) none

mutual
/-- `check_decl(cls_decl)` inside `is_sam` -/
def checkDecl : Nat → List Node → Node → Option Bool
  | 0, _, _ => none
  | fuel + 1, classes, c =>
    match c with
    | .classDecl _ ctype _ fields supers _ _ =>
      (match callableCount (fuel + 1) classes c, abstractFns (fuel + 1) classes c with
       | some nCallable, some abs =>
         if ctype != 1 || !fields.isEmpty || nCallable > 0 || abs.length != 1 then some false
         else
           (match abs with
            | f :: _ =>
              if (funcParams f).any paramHasDefault then some false
              else if !(funcTParams f).isEmpty then some false
              else allSam fuel classes (superTys supers)
            | [] => some false)
       | _, _ => none)
    | _ => some false
/-- `all(is_sam(context, etype=s) for s in supertypes)` -/
def allSam : Nat → List Node → List Ty → Option Bool
  | 0, _, _ => none
  | _ + 1, _, [] => some true
  | fuel + 1, classes, t :: r =>
    match samType fuel classes (some t) with
    | some true => allSam fuel classes r
    | other => other
/-- `is_sam(context, etype=t)` -/
def samType : Nat → List Node → Option Ty → Option Bool
  | 0, _, _ => none
  | fuel + 1, classes, t =>
    match t with
    | some (.simple nm _) =>
        (match lookupClass classes nm with | none => some false | some c => checkDecl fuel classes c)
    | some (.param nm _ _ _) =>
        (match lookupClass classes nm with | none => some false | some c => checkDecl fuel classes c)
    | _ => some false
end

def samFuel (classes : List Node) : Nat := 3 * classes.length + 4

/-- `tu.is_sam(self.context, cls_decl=node)`; running out of fuel (Python: RecursionError) reads `False` -/
def isSamDecl (classes : List Node) (c : Node) : Bool :=
  (checkDecl (samFuel classes) classes c).getD false
/-- `tu.is_sam(self.context, etype=t)` -/
def isSamType (classes : List Node) (t : Option Ty) : Bool :=
  (samType (samFuel classes) classes t).getD false

/-! ## The translator state -/

/-- what `visit_lambda` reads from a stacked node -/
inductive Frame where
  | none                              -- the initial `None`
  | block
  | fn (retType : Option Ty)          -- FunctionDeclaration / Lambda: `ret_type`
  | varD (inferred : Option Ty)       -- VariableDeclaration: `inferred_type`
  | other
deriving Repr, Inhabited

structure St where
  ident : Nat := 0
  isUnit : Bool := false
  isLambda : Bool := false
  cast : Bool := false                 -- `_cast_integers`
  stack : List Frame := [Frame.none]   -- `_nodes_stack`, head = top
  context : List Node := []            -- `self.context` (as far as read: the class declarations)
deriving Inhabited

/-- the translator object: the attributes the visit methods work on, plus `self.program`
    (written by `visit_program` only) and `self.package` (assigned by `__init__` only) -/
structure Obj where
  st : St := {}
  program : Option String := none
  package : Option String := none
deriving Inhabited

def push (f : Frame) (st : St) : St := { st with stack := f :: st.stack }
def pop (st : St) : St := { st with stack := st.stack.tail }

def isBottom : Node → Bool | .bottom _ => true | _ => false
def isBlock : Option Node → Bool | some (.block ..) => true | _ => false

def asciiLower (s : String) : String :=
  String.ofList (s.toList.map fun c => if 'A' ≤ c ∧ c ≤ 'Z' then Char.ofNat (c.toNat + 32) else c)

def intSuffix (t : Option Ty) : String :=
  match t with
  | some x => if isCls x clsLong then ".toLong()" else if isCls x clsShort then ".toShort()"
              else if isCls x clsByte then ".toByte()" else if isCls x clsNumber then " as Number" else ""
  | none => ""

def classPrefix (ctype : Nat) : String :=
  if ctype == 0 then "class" else if ctype == 1 then "interface" else "abstract class"

/-- receiver text: `'({})'.format(r)` for a bottom constant -/
def recvDoc (rcv : Node) (d : Doc) : Doc := if isBottom rcv then o "(" ++ d ++ o ")" else d

mutual
def visit (st : St) : Node → St × Doc
  | .block body isFunc =>
    let st := push .block st
    let isUnit := st.isUnit
    let isLambda := st.isLambda
    let r := visitL { st with isUnit := false, isLambda := false } body
    let st1 := r.1
    let rs := r.2
    let ret := if isFunc && !isUnit && !isLambda then "return " else ""
    let init := rs.dropLast
    let res := o (if !isLambda then "{" else "") ++ o "\n" ++ joinD "\n" init
    let res := if !init.isEmpty then res ++ o "\n" else res
    let res := match rs.getLast? with
      | some last => res ++ ind st1.ident ++ o ret ++ last ++ o "\n" ++ ind st1.ident
      | none => res ++ ind st1.ident ++ o ret ++ o "\n" ++ ind st1.ident
    let res := res ++ o (if !isLambda then "}" else "")
    (pop { st1 with isUnit := isUnit, isLambda := isLambda }, res)
  | .superInst t args =>
    let st := push .other st
    let st0 := { st with ident := 0 }
    let r := visitOL st0 args
    (pop r.1, match args with
     | none => [(Tag.superT, typeName t)]
     | some _ => [(Tag.superT, typeName t)] ++ o "(" ++ joinD ", " r.2 ++ o ")")
  | .classDecl name ctype isFinal fields supers funcs tparams =>
    let st := push .other st
    let old := st.ident
    let r1 := visitL { st with ident := st.ident + 2 } fields
    let r2 := visitL r1.1 supers
    let r3 := visitL r2.1 funcs
    let st3 := r3.1
    let fr := r1.2
    let sr := r2.2
    let fnr := r3.2
    let tpr := tparams.map tparamDoc
    let isSam := isSamDecl st3.context (.classDecl name ctype isFinal fields supers funcs tparams)
    let pfx := if isSam then "interface" else classPrefix ctype
    let res := ind old ++ [(Tag.classD name,
      (if isSam then "fun " else "") ++ (if !isFinal && ctype != 1 && !isSam then "open " else "") ++
        pfx ++ " " ++ name)]
    let res := if !tpr.isEmpty then res ++ o "<" ++ joinD ", " tpr ++ o ">" else res
    let res := if !fr.isEmpty then res ++ o "(" ++ joinD ", " fr ++ o ")" else res
    let res := if !sr.isEmpty then res ++ o ": " ++ joinD ", " sr else res
    let res := if !fnr.isEmpty then res ++ o " {\n" ++ joinD "\n\n" fnr ++ o "\n" ++ ind old ++ o "}" else res
    (pop { st3 with ident := old }, res)
  | .varDecl name expr isFinal varType inferred =>
    let st := push (.varD inferred) st
    let old := st.ident
    let pre := ind st.ident
    let st0 := { st with ident := 0 }
    let prev := st0.cast
    let st0 := if varType.isNone then { st0 with cast := true } else st0
    let r := visit st0 expr
    let res := pre ++ [(Tag.varD name, (if isFinal then "val " else "var ") ++ name)] ++
      (match varType with | some t => [(Tag.varAnnot name, ": " ++ typeName t)] | none => []) ++ o " = " ++ r.2
    (pop { r.1 with ident := old, cast := prev }, res)
  | .callArg expr name =>
    let st := push .other st
    let old := st.ident
    let r := visit { st with ident := 0 } expr
    let st2 := { r.1 with ident := old }
    (pop st2, match name with
      | some nm => if nm != "" then [(Tag.name, nm)] ++ o " = " ++ r.2 else r.2
      | none => r.2)
  | .fieldDecl name t isFinal canOverride override =>
    let st := push .other st
    (pop st, [(Tag.fieldD name, (if canOverride then "open " else "") ++ (if override then "override " else "") ++
      (if isFinal then "val " else "var ") ++ name ++ ": " ++ typeName t)])
  | .paramDecl name t vararg dflt =>
    let st := push .other st
    let old := st.ident
    let r := visitO { st with ident := 0 } dflt
    let st2 := { r.1 with ident := old }
    let pt := match vararg, t with
      | true, .param _ _ (a :: _) _ => typeName a
      | true, .param _ _ [] _ => "<<IndexError>>"
      | _, _ => typeName t
    let res := [(Tag.paramD name, (if vararg then "vararg " else "") ++ name ++ ": " ++ pt)]
    let res := match r.2 with | d :: _ => res ++ o " = " ++ d | [] => res
    (pop st2, res)
  | .funcDecl name params retType inferred body isFinal override tparams _ =>
    let st := push (.fn retType) st
    let old := st.ident
    let st0 := { st with ident := st.ident + 2 }
    let prevUnit := st0.isUnit
    let st0 := { st0 with isUnit := isUnitT inferred }
    let prevC := st0.cast
    let isExpr := !isBlock body
    let st0 := if isExpr then { st0 with cast := true } else st0
    let r1 := visitL st0 params
    let pr := r1.2
    let tpr := tparams.map tparamDoc
    let r2 := visitO r1.1 body
    let bodyDoc := match r2.2 with | b :: _ => b | [] => []
    let pre := (if isFinal then "" else "open ") ++ (if override then "override " else "") ++
      (if body.isSome then "" else "abstract ")
    let res := ind old ++ [(Tag.funcD name, pre ++ "fun ")] ++
      (if !tpr.isEmpty then o "<" ++ joinD ", " tpr ++ o ">" else []) ++
      [(Tag.funcName name, name)] ++ o "(" ++ joinD ", " pr ++ o ")"
    let res := match retType with | some t => res ++ [(Tag.retAnnot name, ": " ++ typeName t)] | none => res
    let res := if flatten bodyDoc != "" then
        res ++ o " " ++ o (if isExpr && !isUnitT inferred then "=" else "") ++ o "\n" ++ bodyDoc
      else res ++ bodyDoc
    (pop { r2.1 with ident := old, isUnit := prevUnit, cast := prevC }, res)
  | .lambda _ params retType body _ =>
    let st := push (.fn retType) st
    let parent := st.stack.getD 1 Frame.none
    let grand := st.stack.getD 2 Frame.none
    let insideBlockUnit := match parent, grand with | .block, .fn rt => isUnitT rt | _, _ => false
    let old := st.ident
    let isExpr := !isBlock (some body)
    let st0 := { st with ident := if isExpr then 0 else st.ident + 2 }
    let prevUnit := st0.isUnit
    let prevLambda := st0.isLambda
    let st0 := { st0 with isUnit := isUnitT retType }
    let useLambda := match parent with | .varD inf => isSamType st0.context inf | _ => false
    let st0 := { st0 with isLambda := useLambda }
    let samName := match parent with
      | .varD (some inf) => if useLambda then typeName inf else ""
      | _ => ""
    let prevC := st0.cast
    let st0 := if isExpr then { st0 with cast := true } else st0
    let r1 := visitL st0 params
    let pr := r1.2
    let r2 := visit r1.1 body
    let bodyRes := r2.2
    let st3 := { r2.1 with ident := old }
    let res := if isExpr || useLambda then
        o (if insideBlockUnit then "var y = " else "") ++
          [(if useLambda then Tag.ty else Tag.other, if useLambda then samName else "")] ++
          o "{" ++ joinD ", " pr ++ o " -> " ++ bodyRes ++ o "}"
      else
        ind st3.ident ++ o "fun (" ++ joinD ", " pr ++ o ")" ++
          (match retType with | some t => [(Tag.lamRet, ": " ++ typeName t)] | none => []) ++ o " " ++ bodyRes
    (pop { st3 with isUnit := prevUnit, isLambda := prevLambda, cast := prevC }, res)
  | .funcRef func receiver _ =>
    let st := push .other st
    let old := st.ident
    let r := visitO { st with ident := 0 } receiver
    let st2 := { r.1 with ident := old }
    (pop st2, ind st2.ident ++ (match r.2 with | d :: _ => d | [] => []) ++ o "::" ++ [(Tag.name, func)])
  | .bottom t =>
    let st := push .other st
    (pop st, ind st.ident ++ (match t with
      | some x => o "(TODO() as " ++ [(Tag.ty, typeName x)] ++ o ")"
      | none => o "TODO()"))
  | .intC lit t =>
    let st := push .other st
    (pop st,
      if !st.cast then ind st.ident ++ [(Tag.lit, lit)]
      else if intSuffix t != "" && lit.toList.head? == some '-' then
        ind st.ident ++ o "(" ++ [(Tag.lit, lit)] ++ o ")" ++ o (intSuffix t)
      else ind st.ident ++ [(Tag.lit, lit)] ++ o (intSuffix t))
  | .realC lit t =>
    let st := push .other st
    let suffix := match t with | some x => if isCls x clsFloat then "f" else "" | none => ""
    (pop st, ind st.ident ++ [(Tag.lit, lit)] ++ o suffix)
  | .boolC lit => let st := push .other st; (pop st, ind st.ident ++ [(Tag.lit, lit)])
  | .charC lit => let st := push .other st; (pop st, ind st.ident ++ o "'" ++ [(Tag.lit, lit)] ++ o "'")
  | .stringC lit => let st := push .other st; (pop st, ind st.ident ++ o "\"" ++ [(Tag.lit, lit)] ++ o "\"")
  | .arrayE t len exprs =>
    let st := push .other st
    let isSpec := match t with | .param _ con _ _ => isSpecCon con | _ => false
    let targ := match t with
      | .param _ _ (a :: _) _ => typeName a
      | _ => "<<IndexError>>"
    if len == 0 then
      (pop st, if !isSpec then ind st.ident ++ o "emptyArray<" ++ [(Tag.ty, targ)] ++ o ">()"
               else ind st.ident ++ [(Tag.ty, targ)] ++ o "Array(0)")
    else
      let old := st.ident
      let r := visitL { st with ident := 0 } exprs
      let st2 := { r.1 with ident := old }
      (pop st2, if !isSpec then ind st2.ident ++ o "arrayOf<" ++ [(Tag.ty, targ)] ++ o ">(" ++ joinD ", " r.2 ++ o ")"
                else ind st2.ident ++ [(Tag.ty, asciiLower targ)] ++ o "ArrayOf(" ++ joinD ", " r.2 ++ o ")")
  | .variable name => let st := push .other st; (pop st, ind st.ident ++ [(Tag.name, name)])
  | .binop kind l r op =>
    -- visit_equality_expr (not on the stack itself) wraps visit_binary_op
    let prev := st.cast
    let st := if kind == "equality" then { st with cast := true } else st
    let st := push .other st
    let old := st.ident
    let ra := visit { st with ident := 0 } l
    let rb := visit ra.1 r
    let st3 := pop { rb.1 with ident := old }
    let st4 := if kind == "equality" then { st3 with cast := prev } else st3
    (st4, ind old ++ o "(" ++ ra.2 ++ o " " ++ [(Tag.op, op)] ++ o " " ++ rb.2 ++ o ")")
  | .cond cnd tb fb _ =>
    let st := push .other st
    let old := st.ident
    let rc := visit { st with ident := st.ident + 2 } cnd
    let rt := visit rc.1 tb
    let rf := visit rt.1 fb
    let st3 := rf.1
    let res := ind old ++ o "(if (" ++ dropChars st3.ident rc.2 ++ o ")\n" ++ rt.2 ++ o "\n" ++ ind old ++
      o "else\n" ++ rf.2 ++ o ")"
    (pop { st3 with ident := old }, res)
  | .isE e t isNot =>
    let st := push .other st
    let old := st.ident
    let r := visit { st with ident := 0 } e
    (pop { r.1 with ident := old },
      ind old ++ r.2 ++ o " " ++ [(Tag.op, if isNot then "!is" else "is")] ++ o " " ++ [(Tag.ty, attrName t)])
  | .newE t args canInfer =>
    let st := push .other st
    let old := st.ident
    let r := visitL { st with ident := 0 } args
    let st2 := { r.1 with ident := old }
    (pop st2, ind st2.ident ++ [(Tag.newT (!canInfer), if canInfer then attrName t else typeName t)] ++
      o "(" ++ joinD ", " r.2 ++ o ")")
  | .fieldAccess e field =>
    let st := push .other st
    let old := st.ident
    let r := visit { st with ident := 0 } e
    let st2 := { r.1 with ident := old }
    (pop st2, ind st2.ident ++ recvDoc e r.2 ++ o "." ++ [(Tag.name, field)])
  | .call func args receiver targs canInfer _ =>
    let st := push .other st
    let old := st.ident
    let rr := visitO { st with ident := 0 } receiver
    let ra := visitL rr.1 args
    let st3 := { ra.1 with ident := old }
    let ta : Doc := if !canInfer && !targs.isEmpty then
        [(Tag.targs func, "<" ++ ",".intercalate (targs.map typeName) ++ ">")] else []
    (pop st3, match receiver, rr.2 with
     | some rcv, d :: _ =>
        ind st3.ident ++ recvDoc rcv d ++ o "." ++ [(Tag.name, func)] ++ ta ++ o "(" ++ joinD ", " ra.2 ++ o ")"
     | _, _ => ind st3.ident ++ [(Tag.name, func)] ++ ta ++ o "(" ++ joinD ", " ra.2 ++ o ")")
  | .assign name expr receiver =>
    let st := push .other st
    let old := st.ident
    let prev := st.cast
    let st0 := { st with cast := true, ident := 0 }
    let rr := visitO st0 receiver
    let re := visit rr.1 expr
    let res := match receiver, rr.2 with
      | some rcv, d :: _ => ind old ++ recvDoc rcv d ++ o "." ++ [(Tag.name, name)] ++ o " = " ++ re.2
      | _, _ => ind old ++ [(Tag.name, name)] ++ o " = " ++ re.2
    (pop { re.1 with ident := old, cast := prev }, res)
/-- `for c in children: c.accept(self)` then `pop_children_res(children)` -/
def visitL (st : St) : List Node → St × List Doc
  | [] => (st, [])
  | x :: xs =>
    let r1 := visit st x
    let r2 := visitL r1.1 xs
    (r2.1, r1.2 :: r2.2)
def visitO (st : St) : Option Node → St × List Doc
  | none => (st, [])
  | some x => let r := visit st x; (r.1, [r.2])
def visitOL (st : St) : Option (List Node) → St × List Doc
  | none => (st, [])
  | some xs => visitL st xs
end

/-! ## `visit_program` and the translator object -/

/-- `KotlinTranslator(package)` right after construction -/
def initObj (package : Option String) : Obj := { package := package }

def programClasses (p : Program) : List Node := p.decls.filter isClassDecl

def packageLine (package : Option String) : String :=
  match package with
  | some s => if s != "" then "package " ++ s ++ "\n" else ""
  | none => ""

/-- the state and doc of `visit_program` (the package line is one layout piece):
    `self.context = node.context`, then the children -/
def programDoc (ob : Obj) (p : Program) : St × Doc :=
  let r := visitL { ob.st with context := programClasses p } p.decls
  (r.1, o (packageLine ob.package) ++ joinD "\n\n" r.2)

/-- `visit_program`: `self.context = …`, children, `self.program = …` -/
def visitProgram (ob : Obj) (p : Program) : Obj :=
  let r := programDoc ob p
  { ob with st := r.1, program := some (flatten r.2) }

/-- `utils.translate_program(translator, p)`: `translator.visit(p); translator.result()` -/
def translate (ob : Obj) (p : Program) : Obj × String :=
  let ob1 := visitProgram ob p
  (ob1, ob1.program.getD "")

/-- the translator after translating the programs `ps` in turn -/
def after (ob : Obj) (ps : List Program) : Obj := ps.foldl visitProgram ob

def text (ob : Obj) (p : Program) : String := (translate ob p).2

def kotlinDoc (package : Option String) (p : Program) : Doc := (programDoc (initObj package) p).2

/-! ## The declaration inventory, computed from the IR alone (document order) -/

/-- tags that stand for a declaration or an annotation the program carries -/
def isDeclTag : Tag → Bool
  | .classD _ | .tparamD _ | .fieldD _ | .funcD _ | .paramD _ | .varD _ | .superT
  | .varAnnot _ | .retAnnot _ | .targs _ | .newT _ => true
  | _ => false

def declTags (d : Doc) : List Tag := (d.map (·.1)).filter isDeclTag

def tparamTags (tps : List Ty) : List Tag := tps.map fun t => Tag.tparamD (tparamName t)

mutual
def inv : Node → List Tag
  | .block body _ => invL body
  | .superInst _ args => Tag.superT :: invOL args
  | .classDecl name _ _ fields supers funcs tparams =>
      Tag.classD name :: (tparamTags tparams ++ (invL fields ++ (invL supers ++ invL funcs)))
  | .varDecl name expr _ varType _ =>
      Tag.varD name :: ((if varType.isSome then [Tag.varAnnot name] else []) ++ inv expr)
  | .callArg expr _ => inv expr
  | .fieldDecl name _ _ _ _ => [Tag.fieldD name]
  | .paramDecl name _ _ dflt => Tag.paramD name :: invO dflt
  | .funcDecl name params retType _ body _ _ tparams _ =>
      Tag.funcD name :: (tparamTags tparams ++ (invL params ++
        ((if retType.isSome then [Tag.retAnnot name] else []) ++ invO body)))
  | .lambda _ params _ body _ => invL params ++ inv body
  | .funcRef _ receiver _ => invO receiver
  | .arrayE _ len exprs => if len == 0 then [] else invL exprs
  | .binop _ l r _ => inv l ++ inv r
  | .cond c t f _ => inv c ++ (inv t ++ inv f)
  | .isE e _ _ => inv e
  | .newE _ args canInfer => Tag.newT (!canInfer) :: invL args
  | .fieldAccess e _ => inv e
  | .call func args receiver targs canInfer _ =>
      invO receiver ++ ((if !canInfer && !targs.isEmpty then [Tag.targs func] else []) ++ invL args)
  | .assign _ expr receiver => invO receiver ++ inv expr
  | .bottom _ | .intC _ _ | .realC _ _ | .boolC _ | .charC _ | .stringC _ | .variable _ => []
def invL : List Node → List Tag
  | [] => []
  | x :: xs => inv x ++ invL xs
def invO : Option Node → List Tag
  | none => []
  | some x => inv x
def invOL : Option (List Node) → List Tag
  | none => []
  | some xs => invL xs
end

def inventory (p : Program) : List Tag := invL p.decls

end Heph.TransKotlin
