import Heph.Model.IR
import Heph.Model.Inst
import Heph.Spec.Subtyping
/-!
# C17: the generation switches — decision functions and the program-level predicate

Decision functions (exact models of the draw logic):

* `drawBool r p`        — `utils.random.bool(prob)` = `self.r.random() < prob`.  The draw of
  `Random.random()` is the rational `r.num / r.den` with `r.num < r.den` (CPython draws
  `k / 2^53`), the probability is the rational `p.num / p.den` (`float.as_integer_ratio()` of
  `cfg.prob.*`; `0` when the switch is set).  `num/den < pn/pd` is decided over `Nat` by cross
  multiplication, so no `Float` occurs anywhere.
* `genTypeParamFlags`   — per type parameter of `Generator.gen_type_params`: the candidate list
  of the declared variance and whether a bound is generated.
* `funcGenTypeParams` / `funcTypeParamFlags` — `gen_func_decl`: whether `gen_type_params` is
  called at all (`random.bool(cfg.prob.parameterized_functions)`) — always with
  `with_variance=False`.
* `argVariance` is in `Model/Inst.lean`.

Program-level predicate: `switchesOK cfg lang p` looks at **every** type occurrence of every
node of the program (`Node.types`), at **every** sub-term of such a type (`Ty.subterms`: arguments,
bounds, stored supertypes, the constructor and its parameters) and at every declaration.
-/
namespace Heph
namespace Switches
open Ty

/-! ## draws -/

/-- one result of `Random.random()`: the rational `num/den ∈ [0,1)` -/
structure Draw where
  num : Nat
  den : Nat
deriving Repr, DecidableEq

/-- `Random.random()` returns a value in `[0, 1)` -/
def Draw.Valid (r : Draw) : Prop := r.num < r.den

/-- a probability `num/den` (`den > 0`) -/
structure Prob where
  num : Nat
  den : Nat
deriving Repr, DecidableEq

def Prob.Valid (p : Prob) : Prop := 0 < p.den

/-- `utils.random.bool(prob)`: `random() < prob` -/
def drawBool (r : Draw) (p : Prob) : Bool := decide (r.num * p.den < p.num * r.den)

/-- the default `prob=0.5` of `utils.random.bool` -/
def half : Prob := ⟨1, 2⟩

/-- the four command-line switches (`src/args.py` 188-196): `true` = `--disable-…` given -/
structure Cfg where
  noUseSite : Bool        -- cfg.dis.use_site_variance
  noContra : Bool         -- cfg.dis.use_site_contravariance
  noBounded : Bool        -- cfg.prob.bounded_type_parameters = 0
  noParamFuncs : Bool     -- cfg.prob.parameterized_functions = 0
deriving Repr, DecidableEq

def Cfg.dis (c : Cfg) : Inst.Dis := ⟨c.noUseSite, c.noContra⟩

/-- `cfg.prob.bounded_type_parameters` as set by `args.py` (default 0.5) -/
def Cfg.pBounded (c : Cfg) : Prob := if c.noBounded then ⟨0, 1⟩ else ⟨1, 2⟩
/-- `cfg.prob.parameterized_functions` as set by `args.py`
    (default 0.3 = 5404319552844595 / 2^54 as a double) -/
def Cfg.pParamFuncs (c : Cfg) : Prob :=
  if c.noParamFuncs then ⟨0, 1⟩ else ⟨5404319552844595, 18014398509481984⟩

/-- `with_variance=self.language in ['kotlin', 'scala']` (generator.py 383, 2887, 2896) -/
def langHasDeclVariance (lang : String) : Bool := lang == "kotlin" || lang == "scala"

/-- `gen_type_params`, one iteration of the loop: `rVar` is the draw of
    `with_variance and ut.random.bool()` (consumed only when `with_variance`), `rBound` the draw
    of `ut.random.bool(cfg.prob.bounded_type_parameters)`.  Result: the candidate list of the
    declared variance (`variance = None` becomes `Invariant` in `TypeParameter.__init__`;
    otherwise `random.choice([Invariant, Covariant, Contravariant])`) and "a bound is generated". -/
def genTypeParamFlags (withVariance : Bool) (pBounded : Prob) (rVar rBound : Draw) : List Nat × Bool :=
  (if withVariance && drawBool rVar half then [0, 1, 2] else [0], drawBool rBound pBounded)

/-- `gen_func_decl` (248-266): is `gen_type_params` called, and with which `with_variance`?
    `nested` = `nested_function`, `given` = `type_params is not None`,
    `r` = the draw of `ut.random.bool(prob=cfg.prob.parameterized_functions)` -/
def funcGenTypeParams (nested given : Bool) (pFunc : Prob) (r : Draw) : Option Bool :=
  if nested then none
  else if given then none
  else if drawBool r pFunc then some false else none

/-- flags of the type parameters a function declaration generates for itself -/
def funcTypeParamFlags (nested given : Bool) (pFunc pBounded : Prob) (r : Draw)
    (draws : List (Draw × Draw)) : List (List Nat × Bool) :=
  match funcGenTypeParams nested given pFunc r with
  | none => []
  | some wv => draws.map fun d => genTypeParamFlags wv pBounded d.1 d.2

/-! ## every node, every type occurrence -/

mutual
/-- all sub-nodes of a node (itself included) -/
def subnodes : Node → List Node
  | .block b f => .block b f :: subnodesL b
  | .superInst t a => .superInst t a :: subnodesOL a
  | .classDecl nm ct fin fs ss fns tps =>
      .classDecl nm ct fin fs ss fns tps :: (subnodesL fs ++ (subnodesL ss ++ subnodesL fns))
  | .varDecl nm e fin vt it => .varDecl nm e fin vt it :: subnodes e
  | .callArg e nm => .callArg e nm :: subnodes e
  | .paramDecl nm t va d => .paramDecl nm t va d :: subnodesO d
  | .funcDecl nm ps rt it b fin ov tps ft =>
      .funcDecl nm ps rt it b fin ov tps ft :: (subnodesL ps ++ subnodesO b)
  | .lambda nm ps rt b sg => .lambda nm ps rt b sg :: (subnodesL ps ++ subnodes b)
  | .funcRef f r sg => .funcRef f r sg :: subnodesO r
  | .arrayE t n es => .arrayE t n es :: subnodesL es
  | .isE e t neg => .isE e t neg :: subnodes e
  | .binop k l r op => .binop k l r op :: (subnodes l ++ subnodes r)
  | .cond c t f ty => .cond c t f ty :: (subnodes c ++ (subnodes t ++ subnodes f))
  | .newE t a ci => .newE t a ci :: subnodesL a
  | .fieldAccess e f => .fieldAccess e f :: subnodes e
  | .call f a r ta ci rc => .call f a r ta ci rc :: (subnodesL a ++ subnodesO r)
  | .assign nm e r => .assign nm e r :: (subnodes e ++ subnodesO r)
  | n => [n]
def subnodesL : List Node → List Node
  | [] => []
  | x :: xs => subnodes x ++ subnodesL xs
def subnodesO : Option Node → List Node
  | none => []
  | some x => subnodes x
def subnodesOL : Option (List Node) → List Node
  | none => []
  | some l => subnodesL l
end

/-- the immediate child nodes of a node -/
def children : Node → List Node
  | .block b _ => b
  | .superInst _ a => (a.getD [])
  | .classDecl _ _ _ fs ss fns _ => fs ++ (ss ++ fns)
  | .varDecl _ e _ _ _ => [e]
  | .callArg e _ => [e]
  | .paramDecl _ _ _ d => d.toList
  | .funcDecl _ ps _ _ b _ _ _ _ => ps ++ b.toList
  | .lambda _ ps _ b _ => ps ++ [b]
  | .funcRef _ r _ => r.toList
  | .arrayE _ _ es => es
  | .isE e _ _ => [e]
  | .binop _ l r _ => [l, r]
  | .cond c t f _ => [c, t, f]
  | .newE _ a _ => a
  | .fieldAccess e _ => [e]
  | .call _ a r _ _ _ => a ++ r.toList
  | .assign _ e r => e :: r.toList
  | _ => []

/-- the types written directly in one node (one entry per type-valued attribute of the AST
    class; `harness/export_ast.py` exports exactly these) -/
def nodeTypes : Node → List Ty
  | .superInst t _ => [t]
  | .classDecl _ _ _ _ _ _ tps => tps
  | .varDecl _ _ _ vt it => vt.toList ++ it.toList
  | .fieldDecl _ t _ _ _ => [t]
  | .paramDecl _ t _ _ => [t]
  | .funcDecl _ _ rt it _ _ _ tps _ => rt.toList ++ (it.toList ++ tps)
  | .lambda _ _ rt _ sg => rt.toList ++ sg.toList
  | .funcRef _ _ sg => sg.toList
  | .bottom t => t.toList
  | .intC _ t => t.toList
  | .realC _ t => t.toList
  | .arrayE t _ _ => [t]
  | .isE _ t _ => [t]
  | .cond _ _ _ ty => ty.toList
  | .newE t _ _ => [t]
  | .call _ _ _ ta _ _ => ta
  | _ => []

/-- every node of the program -/
def progNodes (p : Program) : List Node := subnodesL p.decls

/-- every type occurrence of the program -/
def progTypes (p : Program) : List Ty := (progNodes p).flatMap nodeTypes

/-! ## the predicate -/

/-- what the switches say about one sub-term of a type occurrence -/
def tyLocalOK (cfg : Cfg) : Ty → Bool
  | wild v _ => !cfg.noUseSite && !(cfg.noContra && v == 2)
  | tparam _ _ bd => !cfg.noBounded || bd.isNone
  | _ => true

/-- what the switches (and the language) say about one declaration -/
def declLocalOK (cfg : Cfg) (lang : String) : Node → Bool
  | .classDecl _ _ _ _ _ _ tps => langHasDeclVariance lang || tps.all fun t => variance t == 0
  | .funcDecl _ _ _ _ _ _ _ tps _ => (!cfg.noParamFuncs || tps.isEmpty) && tps.all fun t => variance t == 0
  | _ => true

/-- all sub-terms of one type occurrence respect the switches -/
def tyOK (cfg : Cfg) (t : Ty) : Bool := (subterms t).all (tyLocalOK cfg)

def nodeOK (cfg : Cfg) (lang : String) (n : Node) : Bool :=
  declLocalOK cfg lang n && (nodeTypes n).all (tyOK cfg)

/-- **the C17 predicate** -/
def switchesOK (cfg : Cfg) (lang : String) (p : Program) : Bool :=
  (progNodes p).all (nodeOK cfg lang)

end Switches
end Heph
