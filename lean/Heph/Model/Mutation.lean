import Heph.Model.IR
import Heph.Model.Graph
/-!
# Model of the two mutations (`src/transformations/type_erasure.py`, `type_overwriting.py`)
and of the feasibility test of `src/analysis/type_dependency_analysis.py`

Three parts.

1. **Program diff** on the by-value IR (`Heph.Node`).  A node carries at most one *slot*, the
   fields a mutation may touch: `varDecl` (declared type, recorded type), `funcDecl` (declared
   return type, recorded type), `newE` (instantiated type, `can_infer_type_args`), `call`
   (explicit type arguments, `can_infer_type_args`).  `mapN F π n` rewrites every slot of `n`
   with `F` (which sees the path of the node), `slotsN` lists the slots in preorder.
   `eraseAt S p` is the *effect* of type erasure at the sites `S`; `erasureDiff before after`
   recomputes the candidate sites and accepts iff `eraseAt` of them reproduces `after`
   **structurally** (`progEq`, a hand-written structural equality, proved lawful in
   `Proofs/MutationEq.lean`).  `overwriteDiff` does the same for the one-site overwrite.
   A path lists the steps `(child group, index)` from the node UP to the root (innermost first).

2. **Type graph** as data: nodes (kind, `node_id`, `parent_id`, `.t`, the type-variable
   assignment of a constructor call) numbered by the harness, the dict `node ↦ [Edge]` in
   insertion order with `(target, declared?)`.  `removeDeclared` is step 1 of
   `is_combination_feasible` (`_handle_declaration_node`, `_handle_type_inst_call_node`, with
   their `KeyError`s), `verify` is step 2 (through `Heph.Graph.dfs`), `prefilter`/`pick` replay
   `TypeErasure.visit_func_decl` including the cumulative pre-filter on the shared graph.

3. `pyStr` (every `__str__` of `src/ir/types.py` and of the language built-ins),
   `errorMessage`, `unrelated`.
-/
namespace Heph.Mut
open Heph

/-! ## structural equality (Python's `==` on types is `Ty.beq`, which is coarser) -/

mutual
def tyEq : Ty → Ty → Bool
  | .builtin c n nt p ss, .builtin c' n' nt' p' ss' =>
      c == c' && n == n' && nt == nt' && p == p' && tyEqL ss ss'
  | .simple n ss, .simple n' ss' => n == n' && tyEqL ss ss'
  | .tparam n v b, .tparam n' v' b' => n == n' && v == v' && tyEqO b b'
  | .wild v b, .wild v' b' => v == v' && tyEqO b b'
  | .tcon c n ps ss, .tcon c' n' ps' ss' => c == c' && n == n' && tyEqL ps ps' && tyEqL ss ss'
  | .param n con as ss, .param n' con' as' ss' =>
      n == n' && tyEq con con' && tyEqL as as' && tyEqL ss ss'
  | .nothing, .nothing => true
  | .ext c, .ext c' => c == c'
  | _, _ => false
def tyEqL : List Ty → List Ty → Bool
  | [], [] => true
  | x :: xs, y :: ys => tyEq x y && tyEqL xs ys
  | _, _ => false
def tyEqO : Option Ty → Option Ty → Bool
  | none, none => true
  | some x, some y => tyEq x y
  | _, _ => false
end

def optStrEq : Option String → Option String → Bool
  | none, none => true
  | some a, some b => a == b
  | _, _ => false

mutual
def nodeEq : Node → Node → Bool
  | .block b f, .block b' f' => nodeEqL b b' && f == f'
  | .superInst t a, .superInst t' a' => tyEq t t' && nodeEqOL a a'
  | .classDecl n c fin fs ss fn tp, .classDecl n' c' fin' fs' ss' fn' tp' =>
      n == n' && c == c' && fin == fin' && nodeEqL fs fs' && nodeEqL ss ss' && nodeEqL fn fn' &&
      tyEqL tp tp'
  | .varDecl n e fin vt inf, .varDecl n' e' fin' vt' inf' =>
      n == n' && nodeEq e e' && fin == fin' && tyEqO vt vt' && tyEqO inf inf'
  | .callArg e n, .callArg e' n' => nodeEq e e' && optStrEq n n'
  | .fieldDecl n t fin co ov, .fieldDecl n' t' fin' co' ov' =>
      n == n' && tyEq t t' && fin == fin' && co == co' && ov == ov'
  | .paramDecl n t va d, .paramDecl n' t' va' d' => n == n' && tyEq t t' && va == va' && nodeEqO d d'
  | .funcDecl n ps rt inf b fin ov tp ft, .funcDecl n' ps' rt' inf' b' fin' ov' tp' ft' =>
      n == n' && nodeEqL ps ps' && tyEqO rt rt' && tyEqO inf inf' && nodeEqO b b' && fin == fin' &&
      ov == ov' && tyEqL tp tp' && ft == ft'
  | .lambda n ps rt b sg, .lambda n' ps' rt' b' sg' =>
      n == n' && nodeEqL ps ps' && tyEqO rt rt' && nodeEq b b' && tyEqO sg sg'
  | .funcRef f r sg, .funcRef f' r' sg' => f == f' && nodeEqO r r' && tyEqO sg sg'
  | .bottom t, .bottom t' => tyEqO t t'
  | .intC l t, .intC l' t' => l == l' && tyEqO t t'
  | .realC l t, .realC l' t' => l == l' && tyEqO t t'
  | .boolC l, .boolC l' => l == l'
  | .charC l, .charC l' => l == l'
  | .stringC l, .stringC l' => l == l'
  | .arrayE t n es, .arrayE t' n' es' => tyEq t t' && n == n' && nodeEqL es es'
  | .variable n, .variable n' => n == n'
  | .isE e t nt, .isE e' t' nt' => nodeEq e e' && tyEq t t' && nt == nt'
  | .binop k l r o, .binop k' l' r' o' => k == k' && nodeEq l l' && nodeEq r r' && o == o'
  | .cond c t f ty, .cond c' t' f' ty' => nodeEq c c' && nodeEq t t' && nodeEq f f' && tyEqO ty ty'
  | .newE t a ci, .newE t' a' ci' => tyEq t t' && nodeEqL a a' && ci == ci'
  | .fieldAccess e f, .fieldAccess e' f' => nodeEq e e' && f == f'
  | .call f a r ta ci rc, .call f' a' r' ta' ci' rc' =>
      f == f' && nodeEqL a a' && nodeEqO r r' && tyEqL ta ta' && ci == ci' && rc == rc'
  | .assign n e r, .assign n' e' r' => n == n' && nodeEq e e' && nodeEqO r r'
  | _, _ => false
def nodeEqL : List Node → List Node → Bool
  | [], [] => true
  | x :: xs, y :: ys => nodeEq x y && nodeEqL xs ys
  | _, _ => false
def nodeEqO : Option Node → Option Node → Bool
  | none, none => true
  | some x, some y => nodeEq x y
  | _, _ => false
def nodeEqOL : Option (List Node) → Option (List Node) → Bool
  | none, none => true
  | some x, some y => nodeEqL x y
  | _, _ => false
end

def ctxEq (a b : CtxEntry) : Bool := a.ns == b.ns && a.kind == b.kind && a.name == b.name

def ctxEqL : List CtxEntry → List CtxEntry → Bool
  | [], [] => true
  | x :: xs, y :: ys => ctxEq x y && ctxEqL xs ys
  | _, _ => false

/-- structural equality of two exported programs -/
def progEq (p q : Program) : Bool :=
  p.lang == q.lang && nodeEqL p.decls q.decls && ctxEqL p.context q.context

/-! ## slots, paths, sites -/

/-- one step of a path: (child group of the parent constructor, index inside the group) -/
abbrev Step := Nat × Nat
/-- innermost step first -/
abbrev Path := List Step

inductive Slot where
  | var (varType inferred : Option Ty)
  | func (retType inferred : Option Ty)
  | new (t : Ty) (canInfer : Bool)
  | call (targs : List Ty) (canInfer : Bool)
deriving Repr, Inhabited

def slotEq : Slot → Slot → Bool
  | .var a b, .var a' b' => tyEqO a a' && tyEqO b b'
  | .func a b, .func a' b' => tyEqO a a' && tyEqO b b'
  | .new t c, .new t' c' => tyEq t t' && c == c'
  | .call t c, .call t' c' => tyEqL t t' && c == c'
  | _, _ => false

/-- a rewriting of slots; each component sees the path of the node -/
structure SlotFn where
  var : Path → Option Ty → Option Ty → Option Ty × Option Ty
  func : Path → Option Ty → Option Ty → Option Ty × Option Ty
  new : Path → Ty → Bool → Ty × Bool
  call : Path → List Ty → Bool → List Ty × Bool

def SlotFn.id : SlotFn := ⟨fun _ a b => (a, b), fun _ a b => (a, b), fun _ a b => (a, b), fun _ a b => (a, b)⟩

def SlotFn.comp (G F : SlotFn) : SlotFn :=
  ⟨fun π a b => G.var π (F.var π a b).1 (F.var π a b).2,
   fun π a b => G.func π (F.func π a b).1 (F.func π a b).2,
   fun π a b => G.new π (F.new π a b).1 (F.new π a b).2,
   fun π a b => G.call π (F.call π a b).1 (F.call π a b).2⟩

def SlotFn.app (F : SlotFn) (π : Path) : Slot → Slot
  | .var a b => .var (F.var π a b).1 (F.var π a b).2
  | .func a b => .func (F.func π a b).1 (F.func π a b).2
  | .new a b => .new (F.new π a b).1 (F.new π a b).2
  | .call a b => .call (F.call π a b).1 (F.call π a b).2

mutual
/-- rewrite every slot of the tree; `π` is the path of the node -/
def mapN (F : SlotFn) : Path → Node → Node
  | π, .block b f => .block (mapL F π 0 0 b) f
  | π, .superInst t a => .superInst t (mapOL F π a)
  | π, .classDecl n c fin fs ss fn tp =>
      .classDecl n c fin (mapL F π 0 0 fs) (mapL F π 1 0 ss) (mapL F π 2 0 fn) tp
  | π, .varDecl n e fin vt inf =>
      .varDecl n (mapN F ((0, 0) :: π) e) fin (F.var π vt inf).1 (F.var π vt inf).2
  | π, .callArg e n => .callArg (mapN F ((0, 0) :: π) e) n
  | _, .fieldDecl n t fin co ov => .fieldDecl n t fin co ov
  | π, .paramDecl n t va d => .paramDecl n t va (mapO F π 0 d)
  | π, .funcDecl n ps rt inf b fin ov tp ft =>
      .funcDecl n (mapL F π 0 0 ps) (F.func π rt inf).1 (F.func π rt inf).2 (mapO F π 1 b) fin ov tp ft
  | π, .lambda n ps rt b sg => .lambda n (mapL F π 0 0 ps) rt (mapN F ((1, 0) :: π) b) sg
  | π, .funcRef f r sg => .funcRef f (mapO F π 0 r) sg
  | _, .bottom t => .bottom t
  | _, .intC l t => .intC l t
  | _, .realC l t => .realC l t
  | _, .boolC l => .boolC l
  | _, .charC l => .charC l
  | _, .stringC l => .stringC l
  | π, .arrayE t n es => .arrayE t n (mapL F π 0 0 es)
  | _, .variable n => .variable n
  | π, .isE e t nt => .isE (mapN F ((0, 0) :: π) e) t nt
  | π, .binop k l r o => .binop k (mapN F ((0, 0) :: π) l) (mapN F ((1, 0) :: π) r) o
  | π, .cond c t f ty =>
      .cond (mapN F ((0, 0) :: π) c) (mapN F ((1, 0) :: π) t) (mapN F ((2, 0) :: π) f) ty
  | π, .newE t a ci => .newE (F.new π t ci).1 (mapL F π 0 0 a) (F.new π t ci).2
  | π, .fieldAccess e f => .fieldAccess (mapN F ((0, 0) :: π) e) f
  | π, .call f a r ta ci rc =>
      .call f (mapL F π 0 0 a) (mapO F π 1 r) (F.call π ta ci).1 (F.call π ta ci).2 rc
  | π, .assign n e r => .assign n (mapN F ((0, 0) :: π) e) (mapO F π 1 r)
/-- the children of group `g`, starting at index `i` -/
def mapL (F : SlotFn) : Path → Nat → Nat → List Node → List Node
  | _, _, _, [] => []
  | π, g, i, x :: xs => mapN F ((g, i) :: π) x :: mapL F π g (i + 1) xs
def mapO (F : SlotFn) : Path → Nat → Option Node → Option Node
  | _, _, none => none
  | π, g, some x => some (mapN F ((g, 0) :: π) x)
def mapOL (F : SlotFn) : Path → Option (List Node) → Option (List Node)
  | _, none => none
  | π, some l => some (mapL F π 0 0 l)
end

mutual
/-- the slots of the tree with their paths, in preorder -/
def slotsN : Path → Node → List (Path × Slot)
  | π, .block b _ => slotsL π 0 0 b
  | π, .superInst _ a => slotsOL π a
  | π, .classDecl _ _ _ fs ss fn _ => slotsL π 0 0 fs ++ (slotsL π 1 0 ss ++ slotsL π 2 0 fn)
  | π, .varDecl _ e _ vt inf => (π, .var vt inf) :: slotsN ((0, 0) :: π) e
  | π, .callArg e _ => slotsN ((0, 0) :: π) e
  | _, .fieldDecl .. => []
  | π, .paramDecl _ _ _ d => slotsO π 0 d
  | π, .funcDecl _ ps rt inf b _ _ _ _ => (π, .func rt inf) :: (slotsL π 0 0 ps ++ slotsO π 1 b)
  | π, .lambda _ ps _ b _ => slotsL π 0 0 ps ++ slotsN ((1, 0) :: π) b
  | π, .funcRef _ r _ => slotsO π 0 r
  | _, .bottom _ => []
  | _, .intC .. => []
  | _, .realC .. => []
  | _, .boolC _ => []
  | _, .charC _ => []
  | _, .stringC _ => []
  | π, .arrayE _ _ es => slotsL π 0 0 es
  | _, .variable _ => []
  | π, .isE e _ _ => slotsN ((0, 0) :: π) e
  | π, .binop _ l r _ => slotsN ((0, 0) :: π) l ++ slotsN ((1, 0) :: π) r
  | π, .cond c t f _ => slotsN ((0, 0) :: π) c ++ (slotsN ((1, 0) :: π) t ++ slotsN ((2, 0) :: π) f)
  | π, .newE t a ci => (π, .new t ci) :: slotsL π 0 0 a
  | π, .fieldAccess e _ => slotsN ((0, 0) :: π) e
  | π, .call _ a r ta ci _ => (π, .call ta ci) :: (slotsL π 0 0 a ++ slotsO π 1 r)
  | π, .assign _ e r => slotsN ((0, 0) :: π) e ++ slotsO π 1 r
def slotsL : Path → Nat → Nat → List Node → List (Path × Slot)
  | _, _, _, [] => []
  | π, g, i, x :: xs => slotsN ((g, i) :: π) x ++ slotsL π g (i + 1) xs
def slotsO : Path → Nat → Option Node → List (Path × Slot)
  | _, _, none => []
  | π, g, some x => slotsN ((g, 0) :: π) x
def slotsOL : Path → Option (List Node) → List (Path × Slot)
  | _, none => []
  | π, some l => slotsL π 0 0 l
end

def mapProg (F : SlotFn) (p : Program) : Program := { p with decls := mapL F [] 0 0 p.decls }
def slots (p : Program) : List (Path × Slot) := slotsL [] 0 0 p.decls

/-- which field of the node at a path -/
inductive Field where
  | varType | retType | newInfer | callInfer
  | newArg (i : Nat) | callArg (i : Nat)
deriving DecidableEq, Repr, Inhabited

structure Site where
  path : Path
  field : Field
deriving DecidableEq, Repr, Inhabited

/-! ## type erasure: effect and diff -/

/-- the effect of `omit_type()` / `can_infer_type_args = True` at the sites `S` -/
def eraseFn (S : List Site) : SlotFn where
  var := fun π vt inf => (if (⟨π, .varType⟩ : Site) ∈ S then none else vt, inf)
  func := fun π rt inf => (if (⟨π, .retType⟩ : Site) ∈ S then none else rt, inf)
  new := fun π t ci => (t, ci || decide ((⟨π, .newInfer⟩ : Site) ∈ S))
  call := fun π ta ci => (ta, ci || decide ((⟨π, .callInfer⟩ : Site) ∈ S))

def eraseAt (S : List Site) (p : Program) : Program := mapProg (eraseFn S) p

/-- forgets exactly the fields erasure may touch -/
def blankFn : SlotFn where
  var := fun _ _ inf => (none, inf)
  func := fun _ _ inf => (none, inf)
  new := fun _ t _ => (t, true)
  call := fun _ ta _ => (ta, true)

/-- the program with declared variable types, declared return types and the
    `can_infer_type_args` flags forgotten: names, modifiers, node shapes, every other type
    and the recorded `inferred` types are kept -/
def skeleton (p : Program) : Program := mapProg blankFn p

/-- a slot where erasure has something to remove, and the field it removes -/
def omitField : Slot → Option Field
  | .var (some _) _ => some .varType
  | .func (some _) _ => some .retType
  | .new t false => if t.isParam then some .newInfer else none
  | .call (_ :: _) false => some .callInfer
  | _ => none

/-- the slot looks erased -/
def erasedLike : Slot → Bool
  | .var none _ => true
  | .func none _ => true
  | .new _ true => true
  | .call _ true => true
  | _ => false

/-- every site at which erasure could remove something -/
def omittableSites (p : Program) : List Site :=
  (slots p).filterMap fun (π, s) => (omitField s).map fun f => ⟨π, f⟩

/-- candidate sites: omittable before, erased after (positions paired in preorder) -/
def candSites (sp sq : List (Path × Slot)) : List Site :=
  (sp.zip sq).filterMap fun (a, b) =>
    match omitField a.2 with
    | some f => if erasedLike b.2 then some ⟨a.1, f⟩ else none
    | none => none

/-- `some S` iff `after` is `before` with exactly the declared types / explicit type-argument
    lists at `S` removed, and nothing else changed -/
def erasureDiff (before after : Program) : Option (List Site) :=
  let S := candSites (slots before) (slots after)
  if progEq (eraseAt S before) after then some S else none

/-! ## type overwriting: effect and diff -/

def setArg (args : List Ty) (i : Nat) (new : Ty) : List Ty := args.set i new

/-- `n.t.type_args[i] = ir_type` -/
def setTypeArg (t : Ty) (i : Nat) (new : Ty) : Ty :=
  match t with
  | .param n con as ss => .param n con (setArg as i new) ss
  | t => t

/-- the effect of the mutation at one site: `var_type = inferred_type = ir_type`,
    `ret_type = inferred_type = ir_type`, or one type argument replaced -/
def overwriteFn (site : Site) (new : Ty) : SlotFn where
  var := fun π vt inf => if π = site.path ∧ site.field = .varType then (some new, some new) else (vt, inf)
  func := fun π rt inf => if π = site.path ∧ site.field = .retType then (some new, some new) else (rt, inf)
  new := fun π t ci =>
    match site.field with
    | .newArg i => if π = site.path then (setTypeArg t i new, ci) else (t, ci)
    | _ => (t, ci)
  call := fun π ta ci =>
    match site.field with
    | .callArg i => if π = site.path then (setArg ta i new, ci) else (ta, ci)
    | _ => (ta, ci)

def overwriteAt (site : Site) (new : Ty) (p : Program) : Program := mapProg (overwriteFn site new) p

/-- the indices at which two argument lists differ (`none`: different lengths) -/
def argDiffs : List Ty → List Ty → Nat → Option (List (Nat × Ty × Ty))
  | [], [], _ => some []
  | x :: xs, y :: ys, i =>
      match argDiffs xs ys (i + 1) with
      | none => none
      | some r => if tyEq x y then some r else some ((i, x, y) :: r)
  | _, _, _ => none

/-- is the change of one slot a permitted overwrite?  field, old type, new type -/
def classify : Slot → Slot → Option (Field × Ty × Ty)
  | .var _ (some old), .var (some n1) (some n2) =>
      if tyEq n1 n2 && !tyEq old n1 then some (.varType, old, n1) else none
  | .func _ (some old), .func (some n1) (some n2) =>
      if tyEq n1 n2 && !tyEq old n1 then some (.retType, old, n1) else none
  | .new (.param _ _ as _) _, .new (.param _ _ as' _) _ =>
      match argDiffs as as' 0 with
      | some [(i, o, n)] => some (.newArg i, o, n)
      | _ => none
  | .call ta _, .call ta' _ =>
      match argDiffs ta ta' 0 with
      | some [(i, o, n)] => some (.callArg i, o, n)
      | _ => none
  | _, _ => none

inductive OwDiff where
  | none
  | one (site : Site) (old new : Ty)
  | more
deriving Repr, Inhabited

/-- the slot pairs that differ -/
def slotDiffs (sp sq : List (Path × Slot)) : List ((Path × Slot) × (Path × Slot)) :=
  (sp.zip sq).filter fun (a, b) => !slotEq a.2 b.2

def overwriteDiff (before after : Program) : OwDiff :=
  match slotDiffs (slots before) (slots after) with
  | [] => if progEq before after then .none else .more
  | [(a, b)] =>
      (match classify a.2 b.2 with
       | some (f, old, new) =>
           if progEq (overwriteAt ⟨a.1, f⟩ new before) after then .one ⟨a.1, f⟩ old new else .more
       | none => .more)
  | _ => .more

/-- the old type a permitted overwrite replaces in a slot -/
def slotOld : Field → Slot → Option Ty
  | .varType, .var _ inf => inf
  | .retType, .func _ inf => inf
  | .newArg i, .new (.param _ _ as _) _ => as[i]?
  | .callArg i, .call ta _ => ta[i]?
  | _, _ => none

/-! ## the type graph -/

inductive TGKind where
  | typeN | declN | instCall | instDecl | tvar | other
deriving DecidableEq, Repr, Inhabited

/-- the value of an attribute that should hold a type -/
inductive TRef where
  | ty (t : Ty)
  | none
  | other           -- some object that is not a type (the `FunctionCall` of a generic call)
deriving Repr, Inhabited

/-- Python `a == b` for such values (`None == None`; a non-type object equals nothing here) -/
def TRef.pyEq : TRef → TRef → Bool
  | .ty a, .ty b => Ty.beq a b
  | .none, .none => true
  | _, _ => false

structure TGNode where
  kind : TGKind
  nodeId : String
  /-- `TypeNode.parent_id` -/
  parentId : Option String := none
  /-- `.t` of the node; for a declaration node `decl.get_type()` -/
  t : TRef := .none
  /-- constructor calls: the items of `t.get_type_variable_assignments()` -/
  assign : List (Ty × Ty) := []
deriving Repr, Inhabited

/-- the dict `node ↦ [Edge]` in insertion order; an edge is (target, declared?) -/
abbrev Edges := List (Nat × List (Nat × Bool))

inductive FErr where
  | keyError | assertionError | attributeError | fuel
deriving DecidableEq, Repr, Inhabited

def lookup (g : Edges) (k : Nat) : Option (List (Nat × Bool)) :=
  match g.find? (·.1 == k) with
  | some p => some p.2
  | none => none

/-- `graph[k] = v` -/
def setKey (g : Edges) (k : Nat) (v : List (Nat × Bool)) : Edges :=
  if g.any (·.1 == k) then g.map fun p => if p.1 == k then (k, v) else p else g ++ [(k, v)]

def nodeAt (nodes : List TGNode) (i : Nat) : TGNode := nodes.getD i { kind := .other, nodeId := "?" }

def kindOf (nodes : List TGNode) (i : Nat) : TGKind := (nodeAt nodes i).kind

/-- the graph `dfs` walks: targets only -/
def toGraph (g : Edges) : Graph.Graph := g.map fun p => (p.1, p.2.map (·.1))

/-- `_handle_declaration_node`: the loop over the edges of the node -/
def handleDeclLoop (nodes : List TGNode) :
    List (Nat × Bool) → Edges → List (Nat × Bool) → Except FErr (Edges × List (Nat × Bool))
  | [], g, acc => .ok (g, acc)
  | e :: es, g, acc =>
    if !e.2 then handleDeclLoop nodes es g (acc ++ [e])
    else if kindOf nodes e.1 == .instDecl then
      match lookup g e.1 with
      | none => .error .keyError
      | some tvs =>
        let g1 := tvs.foldl (fun g tv => setKey g tv.1 []) g
        handleDeclLoop nodes es (setKey g1 e.1 []) acc
    else handleDeclLoop nodes es g acc

def handleDecl (nodes : List TGNode) (g : Edges) (n : Nat) : Except FErr Edges :=
  match lookup g n with
  | none => .error .keyError
  | some edges =>
    match handleDeclLoop nodes edges g [] with
    | .error e => .error e
    | .ok (g', newEdges) => .ok (setKey g' n newEdges)

/-- `_handle_type_inst_call_node`: the loop over the type variables of the call -/
def handleInstLoop : List (Nat × Bool) → Edges → Except FErr Edges
  | [], g => .ok g
  | tv :: tvs, g =>
    match lookup g tv.1 with
    | none => .error .keyError
    | some es => handleInstLoop tvs (setKey g tv.1 (es.filter fun e => !e.2))

def handleInst (g : Edges) (n : Nat) : Except FErr Edges :=
  match lookup g n with
  | none => .error .keyError
  | some tvs => handleInstLoop tvs g

/-- step 1 of `is_combination_feasible` -/
def removeDeclared (nodes : List TGNode) : Edges → List Nat → Except FErr Edges
  | g, [] => .ok g
  | g, n :: ns =>
    match lookup g n with
    | none => .error .assertionError
    | some _ =>
      match kindOf nodes n with
      | .declN =>
        (match handleDecl nodes g n with
         | .error e => .error e
         | .ok g' => removeDeclared nodes g' ns)
      | .instCall =>
        (match handleInst g n with
         | .error e => .error e
         | .ok g' => removeDeclared nodes g' ns)
      | _ => removeDeclared nodes g ns

/-- `isinstance(n, (TypeNode, TypeConstructorInstantiationCallNode, TypeConstructorInstantiationDeclNode))` -/
def typeCarrying (k : TGKind) : Bool := k == .typeN || k == .instCall || k == .instDecl

/-- a reached node that makes an omitted declaration infeasible -/
def badFor (nodes : List TGNode) (d n : Nat) : Bool :=
  typeCarrying (kindOf nodes n) && !((nodeAt nodes n).t.pyEq (nodeAt nodes d).t)

/-- first verification loop: every omitted declaration reaches only nodes of its own type -/
def verifyDecls (nodes : List TGNode) (g : Edges) : List Nat → Except FErr Bool
  | [] => .ok true
  | d :: ds =>
    if kindOf nodes d == .declN then
      match Graph.dfs (toGraph g) d with
      | none => .error .fuel
      | some reach => if reach.any (badFor nodes d) then .ok false else verifyDecls nodes g ds
    else verifyDecls nodes g ds

def removedIds (nodes : List TGNode) (c : List Nat) : List String :=
  (c.filter fun n => kindOf nodes n == .declN).map fun n => (nodeAt nodes n).nodeId

/-- `type_assignments[type_var.target.t]` -/
def assigned (nodes : List TGNode) (c tv : Nat) : Except FErr Ty :=
  let tn := nodeAt nodes tv
  if tn.kind == .declN then .error .attributeError
  else match tn.t with
    | .ty k =>
      (match (nodeAt nodes c).assign.find? (fun p => Ty.beq p.1 k) with
       | some p => .ok p.2
       | none => .error .keyError)
    | _ => .error .keyError

/-- a reached `TypeNode` that justifies an omitted type argument -/
def goodFor (nodes : List TGNode) (removed : List String) (a : Ty) (n : Nat) : Bool :=
  let nd := nodeAt nodes n
  nd.kind == .typeN && nd.t.pyEq (.ty a) &&
    (match nd.parentId with
     | some pid => pid == "" || !removed.contains pid
     | none => true)

/-- the loop over the type variables of one omitted constructor call -/
def verifyInstLoop (nodes : List TGNode) (g : Edges) (removed : List String) (c : Nat) :
    List (Nat × Bool) → Except FErr Bool
  | [] => .ok true
  | tv :: tvs =>
    match assigned nodes c tv.1 with
    | .error e => .error e
    | .ok a =>
      match Graph.dfs (toGraph g) tv.1 with
      | none => .error .fuel
      | some reach =>
        if reach.any (goodFor nodes removed a) then verifyInstLoop nodes g removed c tvs else .ok false

/-- second verification loop -/
def verifyInsts (nodes : List TGNode) (g : Edges) (removed : List String) : List Nat → Except FErr Bool
  | [] => .ok true
  | c :: cs =>
    if kindOf nodes c == .instCall then
      match lookup g c with
      | none => .error .keyError
      | some tvs =>
        match verifyInstLoop nodes g removed c tvs with
        | .ok true => verifyInsts nodes g removed cs
        | r => r
    else verifyInsts nodes g removed cs

/-- step 2 of `is_combination_feasible` on the graph left by step 1 -/
def verify (nodes : List TGNode) (g : Edges) (c : List Nat) : Except FErr Bool :=
  match verifyDecls nodes g c with
  | .ok true => verifyInsts nodes g (removedIds nodes c) c
  | r => r

/-- `is_combination_feasible(type_graph, combination)`: the answer and the graph it leaves -/
def feasibleG (nodes : List TGNode) (g : Edges) (c : List Nat) : Except FErr (Bool × Edges) :=
  match removeDeclared nodes g c with
  | .error e => .error e
  | .ok g' =>
    match verify nodes g' c with
    | .error e => .error e
    | .ok b => .ok (b, g')

def feasible (nodes : List TGNode) (g : Edges) (c : List Nat) : Except FErr Bool :=
  match feasibleG nodes g c with
  | .error e => .error e
  | .ok r => .ok r.1

/-- the pre-filter of `TypeErasure.visit_func_decl`: the single-node tests run on the SHARED
    graph, so each test sees the declared edges of all earlier candidates already removed
    (feasible or not).  Returns the graph every later `copy(type_graph)` starts from, the
    nodes kept, and the answers in order. -/
def prefilter (nodes : List TGNode) :
    Edges → List Nat → List Nat → List Bool → Except FErr (Edges × List Nat × List Bool)
  | g, [], kept, answers => .ok (g, kept, answers)
  | g, n :: ns, kept, answers =>
    match feasibleG nodes g [n] with
    | .error e => .error e
    | .ok (b, g') => prefilter nodes g' ns (if b then kept ++ [n] else kept) (answers ++ [b])

/-! ## the enumeration of combinations -/

/-- `itertools.combinations(xs, r)` -/
def combos {α : Type} : Nat → List α → List (List α)
  | 0, _ => [[]]
  | _ + 1, [] => []
  | r + 1, x :: xs => (combos r xs).map (x :: ·) ++ combos (r + 1) xs

/-- `chain.from_iterable(combinations(xs, r) for r in range(r0, 0, -1))` -/
def combosFrom {α : Type} : Nat → List α → List (List α)
  | 0, _ => []
  | r + 1, xs => combos (r + 1) xs ++ combosFrom r xs

def allCombos {α : Type} (xs : List α) : List (List α) := combosFrom xs.length xs

inductive SRes (α : Type) where
  | found (c : List α) (asked : Nat)
  | next (budget : Nat) (asked : Nat)   -- enumeration exhausted so far
  | cutoff (asked : Nat)                -- `i > max_combinations`
  | err (e : FErr)
deriving Repr

/-- the reference search: first element of an explicit list that tests true, asking at most
    `budget` elements -/
def firstOk {α : Type} (p : List α → Except FErr Bool) : List (List α) → Nat → Nat → SRes α
  | [], b, k => .next b k
  | _ :: _, 0, k => .cutoff k
  | c :: cs, b + 1, k =>
    match p c with
    | .error e => .err e
    | .ok true => .found c (k + 1)
    | .ok false => firstOk p cs b (k + 1)

/-- the same search over `combos r xs` (each prefixed by `acc` reversed) without building the list -/
def searchR {α : Type} (p : List α → Except FErr Bool) : Nat → List α → List α → Nat → Nat → SRes α
  | 0, _, acc, b, k =>
    (match b with
     | 0 => .cutoff k
     | b + 1 =>
       match p acc.reverse with
       | .error e => .err e
       | .ok true => .found acc.reverse (k + 1)
       | .ok false => .next b (k + 1))
  | _ + 1, [], _, b, k => .next b k
  | r + 1, x :: xs, acc, b, k =>
    match searchR p r xs (x :: acc) b k with
    | .next b' k' => searchR p (r + 1) xs acc b' k'
    | res => res

/-- sizes `r0, r0-1, …, 1` -/
def searchFrom {α : Type} (p : List α → Except FErr Bool) (xs : List α) : Nat → Nat → Nat → SRes α
  | 0, b, k => .next b k
  | r + 1, b, k =>
    match searchR p (r + 1) xs [] b k with
    | .next b' k' => searchFrom p xs r b' k'
    | res => res

/-- the number of combinations the loop may test: `if max and i > max: break` -/
def budgetOf (max n : Nat) : Nat := if max == 0 then 2 ^ n else max + 1

structure PickRes where
  kept : List Nat
  singles : List Bool
  chosen : Option (List Nat)
  asked : Nat
  cutoff : Bool
deriving Repr

/-- `TypeErasure.visit_func_decl` after the analysis: pre-filter, then the first feasible
    combination, largest first -/
def pick (nodes : List TGNode) (g : Edges) (omittable : List Nat) (max : Nat) : Except FErr PickRes :=
  match prefilter nodes g omittable [] [] with
  | .error e => .error e
  | .ok (g', kept, singles) =>
    match searchFrom (feasible nodes g') kept kept.length (budgetOf max kept.length) 0 with
    | .err e => .error e
    | .found c k => .ok ⟨kept, singles, some c, k, false⟩
    | .next _ k => .ok ⟨kept, singles, none, k, false⟩
    | .cutoff k => .ok ⟨kept, singles, none, k, true⟩

/-! ## `str()` of types, the error message, unrelatedness -/

def hasSub (s sub : String) : Bool := (s.splitOn sub).length > 1

/-- the `__str__` of the language's builtin base class; `bn` maps `str(type(t))` to `t.name` -/
def builtinStr (bn : List (String × String)) (cls name : String) (prim : Bool) : String :=
  let nm := if prim then (match bn.find? (·.1 == cls) with | some p => p.2 | none => name) else name
  if hasSub cls "java_types" then
    if prim then nm.toLower ++ "(java-primitive)" else nm ++ "(java-builtin)"
  else if hasSub cls "groovy_types" then
    if prim then nm.toLower ++ "(groovy-primitive)" else nm ++ "(groovy-builtin)"
  else if hasSub cls "kotlin_types" then nm ++ "(kotlin-builtin)"
  else if hasSub cls "scala_types" then nm ++ "(scala-builtin)"
  else nm ++ "(builtin)"

mutual
/-- `str(t)` -/
def pyStr (bn : List (String × String)) : Ty → String
  | .builtin cls nm _ prim _ => builtinStr bn cls nm prim
  | .simple nm ss => nm ++ (match ss with | [] => "" | _ => " <: (" ++ pyStrL bn ss ++ ")")
  | .tparam nm var bd => Ty.tparamStr (.tparam nm var bd)
  | .wild var bd =>
      (match bd with
       | none => "*"
       | some b => (if var != 0 then Ty.varStr var ++ " " else "") ++ Ty.getName b)
  | .tcon _ nm ps ss =>
      nm ++ "<" ++ pyStrL bn ps ++ "> " ++ (match ss with | [] => "" | _ => " <:") ++ " " ++ pyStrL bn ss
  | .param nm _ as _ => nm ++ "<" ++ pyStrL bn as ++ ">"
  | .nothing => "Nothing"
  | .ext cls => cls
/-- `', '.join(map(str, ts))` -/
def pyStrL (bn : List (String × String)) : List Ty → String
  | [] => ""
  | [x] => pyStr bn x
  | x :: y :: xs => pyStr bn x ++ ", " ++ pyStrL bn (y :: xs)
end

/-- `"{} expected but {} found in node {}".format(str(old_type), str(ir_type), n.node_id)` -/
def errorMessage (bn : List (String × String)) (old new : Ty) (nodeId : String) : String :=
  pyStr bn old ++ " expected but " ++ pyStr bn new ++ " found in node " ++ nodeId

def errorMessageOK (bn : List (String × String)) (old new : Ty) (nodeId msg : String) : Bool :=
  msg == errorMessage bn old new nodeId

/-- neither a subtype nor assignable, in either direction (an exception of the real test
    counts as "related": it is reported) -/
def unrelated (extra : List (String × String)) (a b : Ty) : Bool :=
  Ty.isSubtype a b == .no && Ty.isSubtype b a == .no &&
  Ty.isAssignable extra a b == .no && Ty.isAssignable extra b a == .no

end Heph.Mut
