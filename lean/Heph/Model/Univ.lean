import Heph.Model.Types
import Heph.Model.Subst
import Heph.Spec.Subtyping
/-!
# The universe of types of one program (C01)

`Asg U` (like `SubT U`) is relative to a universe `U` of types.  For a program the universe is
`goodU B`: the types all of whose built-in nodes are — structurally, supertypes included — one
of the built-ins `B` of the language (the exported `bt_factory` table).  In such a universe a
built-in class has exactly one declaration, so `==` (which compares classes only) cannot
conflate a type with a foreign copy that stores other supertypes.  `goodB` is the executable
test the checker applies to every type it compares; the universe is closed under immediate
sub-terms and under `substitute_type` (`Proofs/CheckUniv.lean`).
-/
namespace Heph
namespace Ty

mutual
/-- structural equality (not the IR's `==`) -/
def seq : Ty → Ty → Bool
  | builtin c n nt p ss, builtin c' n' nt' p' ss' => c == c' && n == n' && nt == nt' && p == p' && seqL ss ss'
  | simple n ss, simple n' ss' => n == n' && seqL ss ss'
  | tparam n v b, tparam n' v' b' => n == n' && v == v' && seqO b b'
  | wild v b, wild v' b' => v == v' && seqO b b'
  | tcon c n ps ss, tcon c' n' ps' ss' => c == c' && n == n' && seqL ps ps' && seqL ss ss'
  | param n con as ss, param n' con' as' ss' => n == n' && seq con con' && seqL as as' && seqL ss ss'
  | nothing, nothing => true
  | ext c, ext c' => c == c'
  | _, _ => false
def seqL : List Ty → List Ty → Bool
  | [], [] => true
  | x :: xs, y :: ys => seq x y && seqL xs ys
  | _, _ => false
def seqO : Option Ty → Option Ty → Bool
  | none, none => true
  | some x, some y => seq x y
  | _, _ => false
end

/-- a node is fine when it is not a built-in, or is one of the table -/
def nodeOK (B : List Ty) (y : Ty) : Bool := !y.isBuiltin || B.any (fun b => seq b y)

/-- every built-in node of `x` belongs to the table `B` -/
def goodB (B : List Ty) (x : Ty) : Bool := (subterms x).all (nodeOK B)

/-- the universe of the types over the built-ins `B` -/
def goodU (B : List Ty) : Ty → Prop := fun x => goodB B x = true

/-- the table itself lies in the universe (checked once per program) -/
def tableOK (B : List Ty) : Bool := B.all (goodB B)

end Ty
end Heph
