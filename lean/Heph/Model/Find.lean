import Heph.Model.Types
import Heph.Model.Subst
import Heph.Model.SubD
/-!
# Model of the type searches of `src/ir/type_utils.py` (C09)

`_find_types` (behind `find_subtypes` / `find_supertypes`) and the exclusion step of
`find_irrelevant_type`, branch by branch:

* `subLoop` — the loop over `types` of the subtype direction (`etype == selected_type` is
  skipped, `selected_type.is_subtype(etype)` decides; exceptions of `is_subtype` propagate);
* the supertype direction starts from `etype.get_supertypes()` (`Ty.closure`);
* for an instantiation the result of `_construct_related_types` is added.  That function draws
  random numbers: it is an **input** of the model (`related`), recorded from the real call.
  `findTypesNominal` is the model without it (what the search finds in the class hierarchy);
* `include_self`: `t_set.add(etype)` / `t_set.discard(etype)`;
* the `bound` filter of the supertype direction (`st.is_subtype(bound)`);
* `concrete_only`: `to_type` replaces a bare constructor by *some* instantiation (random in the
  code): `concretize inst` is parametric in the instantiation function.

Python sets are lists without `==`-duplicates that keep the first inserted representative
(`addTy`); results are compared as sets.

The result checkers `subtypesOK` / `irrelevantOK` are the executable statement of the property
for one answer of the (randomised) real functions; they judge with the declarative decider
`Ty.isSubD` (`Model/SubD.lean`, sound for `Asg`), **not** with the model of the code's
`is_subtype`.
-/
namespace Heph
namespace Find
open Ty

/-- result of a search: the list, or the exception `is_subtype` raised, or fuel exhaustion of
    the subtype model (never with its top-level fuel on regular types) -/
inductive FR (α : Type) | ok (a : α) | typeError | attrError | fuel
deriving Repr

def FR.ofRes {α} (r : Res) (yes no : FR α) : FR α :=
  match r with
  | .yes => yes | .no => no | .typeError => .typeError | .attrError => .attrError | .fuel => .fuel

/-- `s.add(x)` -/
def addTy (xs : List Ty) (x : Ty) : List Ty := if memBeq x xs then xs else xs ++ [x]

/-- `s.discard(x)` -/
def discardTy (xs : List Ty) (x : Ty) : List Ty := xs.filter fun e => !(beq e x)

/-- `set(l)` -/
def toSet (l : List Ty) : List Ty := l.foldl addTy []

/-- the loop over `types` of the subtype direction of `_find_types` -/
def subLoop (etype : Ty) : List Ty → List Ty → FR (List Ty)
  | [], acc => .ok acc
  | c :: cs, acc =>
    if beq etype c then subLoop etype cs acc
    else match isSubtype c etype with
      | .yes => subLoop etype cs (addTy acc c)
      | .no => subLoop etype cs acc
      | .typeError => .typeError
      | .attrError => .attrError
      | .fuel => .fuel

/-- the set comprehension `{st for st in t_set if st.is_subtype(bound)}` -/
def boundFilter (bound : Ty) : List Ty → FR (List Ty)
  | [] => .ok []
  | st :: rest =>
    match isSubtype st bound with
    | .yes => (match boundFilter bound rest with
        | .ok r => .ok (st :: r)
        | e => e)
    | .no => boundFilter bound rest
    | .typeError => .typeError
    | .attrError => .attrError
    | .fuel => .fuel

def FR.bind {α β} (x : FR α) (f : α → FR β) : FR β :=
  match x with
  | .ok a => f a | .typeError => .typeError | .attrError => .attrError | .fuel => .fuel

/-- the set the search starts from: the loop over `types`, or `etype.get_supertypes()` -/
def startSet (etype : Ty) (types : List Ty) (getSub : Bool) : FR (List Ty) :=
  if getSub then subLoop etype types [] else .ok (toSet (closure etype))

/-- `if isinstance(etype, ParameterizedType): t_set.add(_construct_related_types(…))` -/
def withRelated (etype : Ty) (related : Option Ty) (s0 : List Ty) : List Ty :=
  match related with
  | some r => if etype.isParam then addTy s0 r else s0
  | none => s0

/-- `t_set.add(etype)` / `t_set.discard(etype)` -/
def withSelf (includeSelf : Bool) (etype : Ty) (s1 : List Ty) : List Ty :=
  if includeSelf then addTy s1 etype else discardTy s1 etype

/-- the greatest-bound filter of the supertype direction -/
def finish (getSub : Bool) (bound : Option Ty) (s2 : List Ty) : FR (List Ty) :=
  match getSub, bound with
  | false, some b => boundFilter b s2
  | _, _ => .ok s2

/-- `_find_types(etype, types, get_subtypes, include_self, bound, concrete_only=False)`;
    `related` is the value `_construct_related_types` returned (asked for exactly when `etype`
    is an instantiation) -/
def findTypes (etype : Ty) (types : List Ty) (getSub includeSelf : Bool) (bound : Option Ty)
    (related : Option Ty) : FR (List Ty) :=
  (startSet etype types getSub).bind fun s0 =>
    finish getSub bound (withSelf includeSelf etype (withRelated etype related s0))

/-- the search without the randomised construction of a related instantiation -/
def findTypesNominal (etype : Ty) (types : List Ty) (getSub includeSelf : Bool)
    (bound : Option Ty) : FR (List Ty) :=
  findTypes etype types getSub includeSelf bound none

/-- `[to_type(t, types) for t in t_set]` with `inst` = the instantiation `to_type` draws -/
def concretize (inst : Ty → Ty) (l : List Ty) : List Ty :=
  l.map fun t => if t.isTCon then inst t else t

/-! ## the exclusion step of `find_irrelevant_type` -/

/-- `available_types = [t for t in types if t not in relevant_types]` -/
def availTypes (types relevant : List Ty) : List Ty :=
  types.filter fun t => !(memBeq t relevant)

/-- which `find_irrelevant_type` is modelled: the code as found (`asIs`), or with the repair of
    `fixes/C09-find-irrelevant-type.diff` (`repaired`: the top type and the constructors of
    generic subclasses of the query are not candidates) -/
inductive Variant | asIs | repaired
deriving Repr, DecidableEq

/-- the variant `/repo` implements (the harness checks this against the tree) -/
def Variant.current : Variant := .repaired

/-- `available_types` of the repaired code: `t not in relevant_types and t != any and
    not (t.is_type_constructor() and t.is_subtype(etype))`, left to right -/
def availRepaired (anyT etype : Ty) (relevant : List Ty) : List Ty → FR (List Ty)
  | [] => .ok []
  | t :: ts =>
    if memBeq t relevant || beq t anyT then availRepaired anyT etype relevant ts
    else if t.isTCon then
      match isSubtype t etype with
      | .yes => availRepaired anyT etype relevant ts
      | .no => (match availRepaired anyT etype relevant ts with
          | .ok r => .ok (t :: r)
          | e => e)
      | .typeError => .typeError
      | .attrError => .attrError
      | .fuel => .fuel
    else match availRepaired anyT etype relevant ts with
      | .ok r => .ok (t :: r)
      | e => e

def availTypesV (v : Variant) (anyT etype : Ty) (types relevant : List Ty) : FR (List Ty) :=
  match v with
  | .asIs => .ok (availTypes types relevant)
  | .repaired => availRepaired anyT etype relevant types

/-- the target the answer must be irrelevant to: the type, or for a type variable with a
    bound other than the top type, that bound (`etype = etype.bound`) -/
def irrTarget (anyT : Ty) (etype : Ty) : Ty :=
  match etype with
  | tparam _ _ (some b) => if beq b anyT then etype else b
  | _ => etype

/-- does the function take the early exit `choose_type(types, only_regular=True)`? -/
def irrEarly (anyT : Ty) (etype : Ty) : Bool :=
  match etype with
  | tparam _ _ none => true
  | tparam _ _ (some b) => beq b anyT
  | _ => false

/-- `find_irrelevant_type` restricted to candidates that are not type constructors: the
    candidates it may answer with (`random.choice(available_types)`); `sups`/`subs` are the
    (concrete) lists `find_supertypes`/`find_subtypes` returned -/
def irrelevantNominal (anyT : Ty) (etype : Ty) (types sups subs : List Ty) : List Ty :=
  if beq etype anyT then []
  else (availTypes types (sups ++ subs)).filter fun t => !t.isTCon

/-! ## `_find_candidate_type_args`: the candidate arguments of one position of a related instantiation

The function asks `_find_types` (concrete_only, include_self) for the types related to the
argument — in the requested direction for a covariant parameter, in the opposite direction for a
contravariant one, not at all for an invariant one — and, when the argument is a use-site
projection, for the types related to the projection's bound (`out`: same direction, also wrapped
into `out` projections; `in`: opposite direction).  The answers of those nested searches are
**inputs** of the model (recorded from the real calls, `selfAns` / `projAns`); what is modelled
is *which* searches are made, in which direction, and how the candidate list is put together.
`base` is the argument after `_replace_type_argument` (also recorded). -/

/-- direction of the `_find_types` call for the argument itself; `none`: no call (invariant
    parameter or `ignore_variance`), the candidate is the argument -/
def candDirSelf (pvar : Nat) (getSub ignoreVar : Bool) : Option Bool :=
  if pvar == 0 || ignoreVar then none
  else if pvar == 1 then some getSub
  else some (!getSub)

/-- the `_find_types` call for the bound of a use-site projection: (bound, direction) -/
def candDirProj (base : Ty) (getSub ignoreVar : Bool) : Option (Ty × Bool) :=
  if ignoreVar then none
  else match base with
    | wild 1 (some bd) => some (bd, getSub)
    | wild 2 (some bd) => some (bd, !getSub)
    | _ => none

/-- the `_find_types` calls of one invocation, in order: (etype, get_subtypes) -/
def candidateCalls (pvar : Nat) (base : Ty) (getSub ignoreVar : Bool) : List (Ty × Bool) :=
  (match candDirSelf pvar getSub ignoreVar with
   | some d => [(base, d)]
   | none => []) ++
  (match candDirProj base getSub ignoreVar with
   | some c => [c]
   | none => [])

/-- the candidate list, given the answers of the two calls -/
def candidateArgs (pvar : Nat) (base : Ty) (getSub ignoreVar : Bool) (selfAns projAns : List Ty) :
    List Ty :=
  let tArgs := match candDirSelf pvar getSub ignoreVar with
    | some _ => selfAns
    | none => [base]
  match candDirProj base getSub ignoreVar with
  | none => tArgs
  | some _ =>
    match base with
    | wild 1 _ => tArgs ++ (projAns ++ projAns.map fun t => wild 1 (some t))
    | _ => tArgs ++ projAns

/-! ## `get_irrelevant_parameterized_type` (the constructor has an entry in `type_args_map`) -/

/-- the new argument list: position-wise the drawn replacement — for an invariant parameter the
    type `random.choice` drew, else the answer of the nested `find_irrelevant_type` (`none`: the
    old argument stays) -/
def irrNewArgs : List Ty → List (Option Ty) → List Ty
  | _ :: as, some c :: cs => c :: irrNewArgs as cs
  | a :: as, none :: cs => a :: irrNewArgs as cs
  | as, [] => as
  | [], _ :: _ => []

/-- `if new_type_args == type_args: return None; return etype.new(new_type_args)` -/
def irrelevantParam (con : Ty) (typeArgs : List Ty) (choices : List (Option Ty)) : Option Ty :=
  let new := irrNewArgs typeArgs choices
  if beqL new typeArgs then none else some (tconNew con new)

/-! ## result checkers (the property, for one answer) -/

/-- the fuel the checkers give the decider.  A constant: the size-based fuel of `isSubDTop`
    walks the types as trees, which is exponential in the nesting of stored supertypes; every
    step of a derivation the decider finds costs one unit (one per skipped stored supertype). -/
def judgeFuel : Nat := 64

/-- the judge of the checkers: the declarative decider with `judgeFuel` -/
def subJ (B : List Ty) (s t : Ty) : Bool := isSubD B judgeFuel s t

/-- one returned type: on the right side of the query in the declarative relation, and not a
    bare constructor when concrete types were requested -/
def resultOK (B : List Ty) (getSub concreteOnly : Bool) (etype r : Ty) : Bool :=
  (if getSub then subJ B r etype else subJ B etype r) && (!concreteOnly || !r.isTCon)

/-- is the inclusion of the query itself demanded to be exactly `includeSelf`?  Not when the
    query is a bare constructor that `concrete_only` instantiates, and not when the greatest
    bound of the supertype search excludes the query itself -/
def selfDemanded (B : List Ty) (getSub concreteOnly : Bool) (bound : Option Ty) (etype : Ty) : Bool :=
  !(concreteOnly && etype.isTCon) &&
  (match getSub, bound with
   | false, some b => subJ B etype b
   | _, _ => true)

/-- the answer of `find_subtypes` (`getSub`) / `find_supertypes` satisfies the property -/
def subtypesOK (B : List Ty) (getSub includeSelf concreteOnly : Bool) (bound : Option Ty)
    (etype : Ty) (rs : List Ty) : Bool :=
  rs.all (resultOK B getSub concreteOnly etype) &&
  (!selfDemanded B getSub concreteOnly bound etype || memBeq etype rs == includeSelf)

/-- the indices of the returned types that fail `resultOK` (what the harness reports) -/
def badResults (B : List Ty) (getSub concreteOnly : Bool) (etype : Ty) (rs : List Ty) : List Nat :=
  (List.range rs.length).filter fun i =>
    match rs[i]? with
    | some r => !resultOK B getSub concreteOnly etype r
    | none => false

/-- the answer of `find_irrelevant_type` satisfies the property: nothing for the top type;
    otherwise neither below nor above the target (the type; for a bounded type variable its
    bound), and a usable type (never a bare constructor) -/
def irrelevantOK (B : List Ty) (anyT : Ty) (etype : Ty) (r : Option Ty) : Bool :=
  if beq etype anyT then r.isNone
  else match r with
    | none => true
    | some x =>
      let tgt := irrTarget anyT etype
      !x.isTCon && !(subJ B x tgt) && !(subJ B tgt x)

end Find
end Heph
