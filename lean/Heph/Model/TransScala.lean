import Heph.Model.TransKotlin
import Heph.Model.Subst
/-!
# Model of `src/translators/scala.py` (ScalaTranslator), state threaded as Python mutates it

`visit : St → Node → St × Doc`, built exactly like the Kotlin model (`Model/TransKotlin.lean`), whose
generic pieces are re-used: the tagged documents (`Tag`, `Doc`, `flatten`, `joinD`, `dropChars`),
and the record of the translator object's mutable attributes.  `ScalaTranslator.__init__` /
`_reset_state` assign exactly the attributes `KotlinTranslator`'s do (`_children_res`, `ident`,
`is_unit`, `is_lambda`, `_cast_integers`, `_nodes_stack = [None]`, `context`; `program`, `package` by
`BaseTranslator.__init__`), so `St` / `Obj` are the Kotlin model's records.  Every `{ st with … }`
below is one Python assignment `self.x = …` at the place where the Python method makes it —
including the one that is never undone (`visit_super_instantiation`: `self.ident = 0`).
`_children_res` is modelled by return values (every `visit_*` method appends exactly one text on
every path; `pop_children_res(children)` is the list of the children's results), `_nodes_stack`
(decorator `append_to`) by a list of `Frame`s holding what `visit_func_ref` reads from the stacked
nodes: "is a Block", "is a Lambda / FunctionDeclaration, with this `ret_type`".

Oddities of the code that are modelled as they are:
* `visit_block` does not save `ident`; statements other than the last are not indented by the block,
  the last one is (in addition to its own indentation); `return ` is printed in function blocks that
  are neither Unit nor inside a lambda, and the closing brace follows `ident` spaces.
* `visit_is` ignores `operator.is_not` (`!is` prints as `.isInstanceOf[…]`).
* `visit_func_call` without a receiver splits `func` at its last `.` and prints the two halves
  WITHOUT the dot (`a.b` → ``a`b`(…)``).
* `visit_new` prints `new` BEFORE the indentation; `New(Any)` is `1.asInstanceOf[Any]` (the arguments
  are visited all the same).
* `visit_lambda` prints no indentation of its own; `visit_func_ref` prints `val _y = ` inside a block
  whose parent on the node stack is a function / lambda with `ret_type == Unit`.
* `visit_integer_constant` casts only when `_cast_integers` (no parentheses around negative literals).
* `visit_conditional` cuts `self.ident` characters off the text of the condition (`dropChars`).
* the class-header test `if type_parameters_res:` is a test on the joined TEXT of the type parameters;
  every `visit_type_param` text contains ` <: `, so it is the test "there are type parameters"
  (lemma `typeParamStr_ne_empty` in `Proofs/TransScalaState.lean`).  `if body_res:` (function
  declarations) is kept as a test on the text.

`x == sc.Unit`, `x == sc.Any` and the look-ups in the `{sc.Long: …}` dicts are class comparisons
(`Builtin.__eq__` / `__hash__` look at the class only; every other `__eq__` of `types.py` answers
`False` for a `Builtin` operand): `isCls`.

Not modelled: exceptions.  `get_type_name` of a wildcard without bound (AttributeError in Python)
yields the marker text `<<None>>`; `type_args[0]` of an empty / missing argument list yields
`<<IndexError>>`; `has_type_variables()` of `tp.Nothing` (NotImplementedError) reads `False`; a type
parameter list entry that is not a `TypeParameter` (no visitor: Exception) prints `<<NoVisitor>>`.
-/
namespace Heph.TransScala
open Heph
open Heph.TransKotlin (Tag Piece Doc flatten o sp ind joinD dropChars isCls attrName Frame St Obj push pop
  isBottom isBlock classPrefix isClassDecl className programClasses packageLine initObj tparamName
  isDeclTag declTags tparamTags)

/-! ## `scala_types` as far as the translator looks at them -/

def clsUnit := "<class 'src.ir.scala_types.UnitType'>"
def clsAny := "<class 'src.ir.scala_types.AnyType'>"
def clsLong := "<class 'src.ir.scala_types.LongType'>"
def clsShort := "<class 'src.ir.scala_types.ShortType'>"
def clsByte := "<class 'src.ir.scala_types.ByteType'>"
def clsNumber := "<class 'src.ir.scala_types.NumberType'>"
def clsFloat := "<class 'src.ir.scala_types.FloatType'>"

/-- `ScalaTranslator.filename`, `incorrect_filename` (`get_filename()`, `get_incorrect_filename()`) -/
def filename := "program.scala"
def incorrectFilename := "incorrect.scala"

/-- `x == sc.Unit` (also for `x = None`) -/
def isUnitT (t : Option Ty) : Bool := match t with | some x => isCls x clsUnit | none => false

/-! ## Types -/

mutual
/-- `get_type_name(t)` -/
def typeName : Ty → String
  | .wild _ none => "<<None>>"
  | .wild _ (some t) => typeName t        -- `get_bound_rec()` walks nested wildcards, then `get_type_name`
  | .param nm _ args _ => nm ++ "[" ++ typeArgs args ++ "]"
  | .builtin _ nm _ _ _ => nm
  | .simple nm _ => nm
  | .tparam nm _ _ => nm
  | .tcon _ nm _ _ => nm
  | .nothing => "Nothing"
  | .ext c => c
/-- `", ".join(type_arg2str(ta) for ta in args)` -/
def typeArgs : List Ty → String
  | [] => ""
  | [x] => typeArg x
  | x :: y :: r => typeArg x ++ ", " ++ typeArgs (y :: r)
/-- `type_arg2str` -/
def typeArg : Ty → String
  | .wild var bd =>
      if var == 0 then "?"
      else (if var == 1 then "? <: " else "? >: ") ++
        (match bd with | some x => typeName x | none => "<<None>>")
  | .param nm _ args _ => nm ++ "[" ++ typeArgs args ++ "]"
  | .builtin _ nm _ _ _ => nm
  | .simple nm _ => nm
  | .tparam nm _ _ => nm
  | .tcon _ nm _ _ => nm
  | .nothing => "Nothing"
  | .ext c => c
end

/-- `visit_type_param`: `{variance}{name} <: {bound}` (`sc.Any.name` without a bound) -/
def typeParamStr : Ty → String
  | .tparam nm var bd =>
      (if var != 0 then (if var == 1 then "+" else "-") else "") ++ nm ++ " <: " ++
        (match bd with | some x => typeName x | none => "Any")
  | _ => "<<NoVisitor>>"

def tparamDoc (t : Ty) : Doc := [(Tag.tparamD (tparamName t), typeParamStr t)]

/-- `t.type_args[0]` printed by `get_type_name` -/
def firstArgName : Ty → String
  | .param _ _ (a :: _) _ => typeName a
  | _ => "<<IndexError>>"

/-- `t.type_args[0].has_type_variables()` / `.is_type_var()` -/
def firstArgHasTV : Ty → Bool
  | .param _ _ (a :: _) _ => Ty.hasTV a
  | _ => false
def firstArgIsTVar : Ty → Bool
  | .param _ _ (a :: _) _ => Ty.isTVar a
  | _ => false

/-! ## helpers of single visit methods -/

/-- the suffix dict of `visit_integer_constant` -/
def intSuffix (t : Option Ty) : String :=
  match t with
  | some x => if isCls x clsLong then ".toLong" else if isCls x clsShort then ".toShort"
              else if isCls x clsByte then ".toByte" else if isCls x clsNumber then ".asInstanceOf[Number]" else ""
  | none => ""

/-- `node.get_class_prefix().replace("interface", "trait")` -/
def scalaClassPrefix (ctype : Nat) : String :=
  if ctype == 0 then "class" else if ctype == 1 then "trait" else "abstract class"

/-- `isinstance(x, (ast.FunctionReference, ast.Lambda))` -/
def isFunRefOrLambda : Node → Bool | .funcRef .. => true | .lambda .. => true | _ => false

/-- operand of `visit_binary_op`: `"({})".format(text)` for a function reference / lambda -/
def operandDoc (x : Node) (d : Doc) : Doc := if isFunRefOrLambda x then o "(" ++ d ++ o ")" else d

/-- receiver text of calls / assignments: `'({})'.format(r)` for a bottom constant -/
def recvDoc (rcv : Node) (d : Doc) : Doc := if isBottom rcv then o "(" ++ d ++ o ")" else d

/-- `s.rsplit(".", 1)`: `none` when `s` has no dot (one segment), else the text before and after the LAST dot -/
def rsplitDot (s : String) : Option (String × String) :=
  let rev := s.toList.reverse
  let after := rev.takeWhile (· != '.')
  if after.length == rev.length then none
  else some (String.ofList (rev.drop (after.length + 1)).reverse, String.ofList after.reverse)

/-! ## the visit methods -/

mutual
def visit (st : St) : Node → St × Doc
  | .block body isFunc =>
    let st := push .block st
    let isUnit := st.isUnit
    let isLambda := st.isLambda
    let r := visitL { st with isUnit := false, isLambda := false } body
    let st1 := r.1
    let rs := r.2
    let init := rs.dropLast
    let res := o "{\n" ++ joinD ";\n" init
    let res := if !init.isEmpty then res ++ o ";\n" else res
    let ret := if isFunc && !isUnit && !isLambda then "return " else ""
    let res := match rs.getLast? with
      | some last => res ++ ind st1.ident ++ o ret ++ last ++ o ";\n" ++ ind st1.ident
      | none => res ++ ind st1.ident ++ o ret ++ o ";\n" ++ ind st1.ident
    let res := res ++ o "}"
    (pop { st1 with isUnit := isUnit, isLambda := isLambda }, res)
  | .superInst t args =>
    let st := push .other st
    let st0 := { st with ident := 0 }
    let r := visitOL st0 args
    (pop r.1, match args with
     | none => [(Tag.superT, typeName t)]
     | some _ => [(Tag.superT, typeName t)] ++ o "(" ++ joinD ", " r.2 ++ o ")")
  | .classDecl name ctype isFinal fields supers funcs tparams =>
    let st := push .other st
    let old := st.ident
    let r1 := visitL { st with ident := st.ident + 2 } fields
    let r2 := visitL r1.1 supers
    let r3 := visitL r2.1 funcs
    let st3 := r3.1
    let fr := r1.2
    let sr := r2.2
    let fnr := r3.2
    let tpr := tparams.map tparamDoc       -- `visit_type_param` (touches `_nodes_stack` only, pushed and popped)
    let res := ind old ++ [(Tag.classD name,
      (if !isFinal || ctype == 1 then "open " else "") ++ scalaClassPrefix ctype ++ " " ++ name)]
    let res := if !tpr.isEmpty then res ++ o "[" ++ joinD ", " tpr ++ o "]" else res
    let res := if !fr.isEmpty then res ++ o "(" ++ joinD ", " fr ++ o ")" else res
    let res := if !sr.isEmpty then res ++ o " extends " ++ joinD ", " sr else res
    let res := if !fnr.isEmpty then res ++ o " {\n" ++ joinD "\n\n" fnr ++ o "\n" ++ ind old ++ o "}" else res
    (pop { st3 with ident := old }, res)
  | .varDecl name expr isFinal varType _ =>
    let st := push .other st
    let old := st.ident
    let pre := ind st.ident
    let st0 := { st with ident := 0 }
    let prev := st0.cast
    let st0 := if varType.isNone then { st0 with cast := true } else st0
    let r := visit st0 expr
    let res := pre ++ [(Tag.varD name, (if isFinal then "val " else "var ") ++ name)] ++
      (match varType with | some t => [(Tag.varAnnot name, ": " ++ typeName t)] | none => []) ++ o " = " ++ r.2
    (pop { r.1 with ident := old, cast := prev }, res)
  | .callArg expr name =>
    let st := push .other st
    let old := st.ident
    let r := visit { st with ident := 0 } expr
    let st2 := { r.1 with ident := old }
    (pop st2, match name with
      | some nm => if nm != "" then [(Tag.name, nm)] ++ o " = " ++ r.2 else r.2
      | none => r.2)
  | .fieldDecl name t isFinal canOverride override =>
    let st := push .other st
    (pop st, [(Tag.fieldD name, (if !canOverride then "final " else "") ++ (if override then "override " else "") ++
      (if isFinal then "val " else "var ") ++ name ++ ": " ++ typeName t)])
  | .paramDecl name t vararg dflt =>
    let st := push .other st
    let old := st.ident
    let r := visitO { st with ident := 0 } dflt
    let st2 := { r.1 with ident := old }
    let pt := match vararg, t with
      | true, .param _ _ (a :: _) _ => typeName a
      | true, .param _ _ [] _ => "<<IndexError>>"
      | _, _ => typeName t
    let res := [(Tag.paramD name, name ++ ": " ++ pt ++ (if vararg then "*" else ""))]
    let res := match r.2 with | d :: _ => res ++ o " = " ++ d | [] => res
    (pop st2, res)
  | .funcDecl name params retType inferred body isFinal override tparams ftype =>
    let st := push (.fn retType) st
    let old := st.ident
    let st0 := { st with ident := st.ident + 2 }
    let prevUnit := st0.isUnit
    let st0 := { st0 with isUnit := isUnitT inferred }
    let prevC := st0.cast
    let isExpr := !isBlock body
    let st0 := if isExpr then { st0 with cast := true } else st0
    let r1 := visitL st0 params
    let pr := r1.2
    let tpr := tparams.map tparamDoc
    let r2 := visitO r1.1 body
    let bodyDoc := match r2.2 with | b :: _ => b | [] => []
    let pre := (if isFinal && ftype == 0 then "final " else "") ++ (if override then "override " else "")
    let res := ind old ++ [(Tag.funcD name, pre ++ "def " ++ name)] ++
      (if !tpr.isEmpty then o "[" ++ joinD ", " tpr ++ o "]" else []) ++
      o "(" ++ joinD ", " pr ++ o ")"
    let res := match retType with | some t => res ++ [(Tag.retAnnot name, ": " ++ typeName t)] | none => res
    let res := if flatten bodyDoc != "" then res ++ o " =\n" ++ bodyDoc else res ++ bodyDoc
    (pop { r2.1 with ident := old, isUnit := prevUnit, cast := prevC }, res)
  | .lambda _ params retType body _ =>
    let st := push (.fn retType) st
    let old := st.ident
    let isExpr := !isBlock (some body)
    let st0 := { st with ident := if isExpr then 0 else st.ident + 2 }
    let prevUnit := st0.isUnit
    let prevLambda := st0.isLambda
    let st0 := { st0 with isUnit := isUnitT retType, isLambda := true }
    let prevC := st0.cast
    let st0 := if isExpr then { st0 with cast := true } else st0
    let r1 := visitL st0 params
    let r2 := visit r1.1 body
    let st3 := { r2.1 with ident := old }
    let res := o "(" ++ joinD ", " r1.2 ++ o ") => " ++ r2.2 ++
      (match retType with | some t => [(Tag.lamRet, ": " ++ typeName t)] | none => [])
    (pop { st3 with isUnit := prevUnit, isLambda := prevLambda, cast := prevC }, res)
  | .funcRef func receiver _ =>
    let st := push .other st
    -- `inside_block_unit_function()`: `_nodes_stack[-2]` is a Block, `[-3]` a function / lambda returning Unit
    let parent := st.stack.getD 1 Frame.none
    let grand := st.stack.getD 2 Frame.none
    let insideBlockUnit := match parent, grand with | .block, .fn rt => isUnitT rt | _, _ => false
    let old := st.ident
    let r := visitO { st with ident := 0 } receiver
    let st2 := { r.1 with ident := old }
    (pop st2, ind st2.ident ++ o (if insideBlockUnit then "val _y = " else "") ++
      (match r.2 with | d :: _ => d ++ o "." | [] => []) ++ [(Tag.name, func)] ++ o " _")
  | .bottom t =>
    let st := push .other st
    (pop st, ind st.ident ++ (match t with
      | some x => o "???.asInstanceOf[" ++ [(Tag.ty, typeName x)] ++ o "]"
      | none => o "???"))
  | .intC lit t =>
    let st := push .other st
    (pop st,
      if !st.cast then ind st.ident ++ [(Tag.lit, lit)]
      else ind st.ident ++ [(Tag.lit, lit)] ++ o (intSuffix t))
  | .realC lit t =>
    let st := push .other st
    let suffix := match t with | some x => if isCls x clsFloat then "f" else "" | none => ""
    (pop st, ind st.ident ++ [(Tag.lit, lit)] ++ o suffix)
  | .boolC lit => let st := push .other st; (pop st, ind st.ident ++ [(Tag.lit, lit)])
  | .charC lit => let st := push .other st; (pop st, ind st.ident ++ o "'" ++ [(Tag.lit, lit)] ++ o "'")
  | .stringC lit => let st := push .other st; (pop st, ind st.ident ++ o "\"" ++ [(Tag.lit, lit)] ++ o "\"")
  | .arrayE t len exprs =>
    let st := push .other st
    if len == 0 then
      (pop st, if firstArgHasTV t
               then ind st.ident ++ o "Array[Any]().asInstanceOf[Array[" ++ [(Tag.ty, firstArgName t)] ++ o "]]"
               else ind st.ident ++ o "Array[" ++ [(Tag.ty, firstArgName t)] ++ o "]()")
    else
      let old := st.ident
      let r := visitL { st with ident := 0 } exprs
      let st2 := { r.1 with ident := old }
      (pop st2, ind st2.ident ++ o "Array[" ++ [(Tag.ty, if firstArgIsTVar t then "Any" else firstArgName t)] ++
        o "](" ++ joinD ", " r.2 ++ o ")" ++
        (if firstArgIsTVar t then o ".asInstanceOf[Array[" ++ [(Tag.ty, firstArgName t)] ++ o "]]" else []))
  | .variable name => let st := push .other st; (pop st, ind st.ident ++ [(Tag.name, name)])
  | .binop _ l r op =>
    -- visit_logical_expr / visit_equality_expr / visit_comparison_expr / visit_arith_expr all call visit_binary_op
    let st := push .other st
    let old := st.ident
    let ra := visit { st with ident := 0 } l
    let rb := visit ra.1 r
    (pop { rb.1 with ident := old },
      ind old ++ o "(" ++ operandDoc l ra.2 ++ o " " ++ [(Tag.op, op)] ++ o " " ++ operandDoc r rb.2 ++ o ")")
  | .cond cnd tb fb _ =>
    let st := push .other st
    let old := st.ident
    let rc := visit { st with ident := st.ident + 2 } cnd
    let rt := visit rc.1 tb
    let rf := visit rt.1 fb
    let st3 := rf.1
    let res := ind old ++ o "(if (" ++ dropChars st3.ident rc.2 ++ o ") then\n" ++ rt.2 ++ o "\n" ++ ind old ++
      o "else\n" ++ rf.2 ++ o ")"
    (pop { st3 with ident := old }, res)
  | .isE e t _ =>
    let st := push .other st
    let old := st.ident
    let r := visit { st with ident := 0 } e
    (pop { r.1 with ident := old },
      ind old ++ r.2 ++ o "." ++ [(Tag.op, "isInstanceOf")] ++ o "[" ++ [(Tag.ty, typeName t)] ++ o "]")
  | .newE t args canInfer =>
    let st := push .other st
    let old := st.ident
    let r := visitL { st with ident := 0 } args
    let st2 := { r.1 with ident := old }
    (pop st2,
      if isCls t clsAny then ind st2.ident ++ [(Tag.newT (!canInfer), "1.asInstanceOf[Any]")]
      else o "new " ++ ind st2.ident ++ [(Tag.newT (!canInfer), if canInfer then attrName t else typeName t)] ++
        o "(" ++ joinD ", " r.2 ++ o ")")
  | .fieldAccess e field =>
    let st := push .other st
    let old := st.ident
    let r := visit { st with ident := 0 } e
    let st2 := { r.1 with ident := old }
    (pop st2, ind st2.ident ++ recvDoc e r.2 ++ o "." ++ [(Tag.name, field)])
  | .call func args receiver targs canInfer _ =>
    let st := push .other st
    let old := st.ident
    let rr := visitO { st with ident := 0 } receiver
    let ra := visitL rr.1 args
    let st3 := { ra.1 with ident := old }
    let ta : Doc := if !canInfer && !targs.isEmpty then
        [(Tag.targs func, "[" ++ ",".intercalate (targs.map typeName) ++ "]")] else []
    (pop st3, match receiver, rr.2 with
     | some rcv, d :: _ =>
        ind st3.ident ++ recvDoc rcv d ++ o "." ++ o "`" ++ [(Tag.name, func)] ++ o "`" ++ ta ++
          o "(" ++ joinD ", " ra.2 ++ o ")"
     | _, _ =>
        (match rsplitDot func with
         | none => ind st3.ident ++ o "`" ++ [(Tag.name, func)] ++ o "`" ++ ta ++ o "(" ++ joinD ", " ra.2 ++ o ")"
         | some (qual, fn) =>
            ind st3.ident ++ [(Tag.name, qual)] ++ o "`" ++ [(Tag.name, fn)] ++ o "`" ++ ta ++
              o "(" ++ joinD ", " ra.2 ++ o ")"))
  | .assign name expr receiver =>
    let st := push .other st
    let old := st.ident
    let prev := st.cast
    let st0 := { st with cast := true, ident := 0 }
    let rr := visitO st0 receiver
    let re := visit rr.1 expr
    let res := match receiver, rr.2 with
      | some rcv, d :: _ => ind old ++ recvDoc rcv d ++ o "." ++ [(Tag.name, name)] ++ o " = " ++ re.2
      | _, _ => ind old ++ [(Tag.name, name)] ++ o " = " ++ re.2
    (pop { re.1 with ident := old, cast := prev }, res)
/-- `for c in children: c.accept(self)` then `pop_children_res(children)` -/
def visitL (st : St) : List Node → St × List Doc
  | [] => (st, [])
  | x :: xs =>
    let r1 := visit st x
    let r2 := visitL r1.1 xs
    (r2.1, r1.2 :: r2.2)
def visitO (st : St) : Option Node → St × List Doc
  | none => (st, [])
  | some x => let r := visit st x; (r.1, [r.2])
def visitOL (st : St) : Option (List Node) → St × List Doc
  | none => (st, [])
  | some xs => visitL st xs
end

/-! ## `visit_program`, `_reset_state` and the translator object -/

/-- the state and doc of `visit_program` (the package line is one layout piece):
    `self.context = node.context`, then the children -/
def programDoc (ob : Obj) (p : Program) : St × Doc :=
  let r := visitL { ob.st with context := programClasses p } p.decls
  (r.1, o (packageLine ob.package) ++ joinD "\n\n" r.2)

/-- `visit_program`: `self.context = …`, children, `self.program = …` -/
def visitProgram (ob : Obj) (p : Program) : Obj :=
  let r := programDoc ob p
  { ob with st := r.1, program := some (flatten r.2) }

/-- `_reset_state()` (defined by the class, called by nobody): every attribute of `St` back to its
    `__init__` value; `program`, `package` untouched -/
def resetState (ob : Obj) : Obj := { ob with st := {} }

/-- `utils.translate_program(translator, p)`: `translator.visit(p); translator.result()` -/
def translate (ob : Obj) (p : Program) : Obj × String :=
  let ob1 := visitProgram ob p
  (ob1, ob1.program.getD "")

/-- the translator after translating the programs `ps` in turn -/
def after (ob : Obj) (ps : List Program) : Obj := ps.foldl visitProgram ob

def text (ob : Obj) (p : Program) : String := (translate ob p).2

def scalaDoc (package : Option String) (p : Program) : Doc := (programDoc (initObj package) p).2

/-! ## The declaration inventory, computed from the IR alone (document order) -/

mutual
def inv : Node → List Tag
  | .block body _ => invL body
  | .superInst _ args => Tag.superT :: invOL args
  | .classDecl name _ _ fields supers funcs tparams =>
      Tag.classD name :: (tparamTags tparams ++ (invL fields ++ (invL supers ++ invL funcs)))
  | .varDecl name expr _ varType _ =>
      Tag.varD name :: ((if varType.isSome then [Tag.varAnnot name] else []) ++ inv expr)
  | .callArg expr _ => inv expr
  | .fieldDecl name _ _ _ _ => [Tag.fieldD name]
  | .paramDecl name _ _ dflt => Tag.paramD name :: invO dflt
  | .funcDecl name params retType _ body _ _ tparams _ =>
      Tag.funcD name :: (tparamTags tparams ++ (invL params ++
        ((if retType.isSome then [Tag.retAnnot name] else []) ++ invO body)))
  | .lambda _ params _ body _ => invL params ++ inv body
  | .funcRef _ receiver _ => invO receiver
  | .arrayE _ len exprs => if len == 0 then [] else invL exprs
  | .binop _ l r _ => inv l ++ inv r
  | .cond c t f _ => inv c ++ (inv t ++ inv f)
  | .isE e _ _ => inv e
  | .newE t args canInfer => Tag.newT (!canInfer) :: (if isCls t clsAny then [] else invL args)
  | .fieldAccess e _ => inv e
  | .call func args receiver targs canInfer _ =>
      invO receiver ++ ((if !canInfer && !targs.isEmpty then [Tag.targs func] else []) ++ invL args)
  | .assign _ expr receiver => invO receiver ++ inv expr
  | .bottom _ | .intC _ _ | .realC _ _ | .boolC _ | .charC _ | .stringC _ | .variable _ => []
def invL : List Node → List Tag
  | [] => []
  | x :: xs => inv x ++ invL xs
def invO : Option Node → List Tag
  | none => []
  | some x => inv x
def invOL : Option (List Node) → List Tag
  | none => []
  | some xs => invL xs
end

/-- what the printed text declares: `New(Any)` prints `1.asInstanceOf[Any]` and drops its arguments,
    so declarations inside them (lambda parameters) are not printed -/
def inventory (p : Program) : List Tag := invL p.decls

end Heph.TransScala
