import Heph.Model.Subst
import Heph.Model.SubD2
/-!
# Model of the leaf functions of the instantiation helpers (`src/ir/type_utils.py`)

* `argVariance`     — `_get_type_arg_variance(t_param, variance_choices, other_type_params)`
* `availableTypes`  — `_get_available_types(type_constructor, types, only_regular, primitives)`
* `updateBoundRec`  — `update_type_var_bound_rec(t_param, t, t_args, indexes, type_var_map)`

Randomness is an explicit candidate list (DESIGN section 3): `argVariance` returns the list
`variances` that `utils.random.choice` is applied to (the early `return tp.Invariant` is the
one-element list `[0]`).  Variances are `Variance.value`: 0 invariant, 1 covariant,
2 contravariant.  The answers `tpa.has_bound_of(t_param)` of the later type parameters are an
input (`has_bound_of` belongs to `types.py`), as are the two switches `cfg.dis.*`.
-/
namespace Heph
namespace Inst
open Ty Ty.D2

/-- the Python dict `variance_choices : {TypeParameter: (can_variant, can_contravariant)}` -/
abbrev VChoices := List (Ty × (Bool × Bool))

/-- `variance_choices.get(t_param, (True, True))` -/
def VChoices.get (vc : VChoices) (k : Ty) : Bool × Bool :=
  match vc.find? (fun p => beq p.1 k) with
  | some p => p.2
  | none => (true, true)

/-- `variance_choices[k] = v` -/
def VChoices.set (vc : VChoices) (k : Ty) (v : Bool × Bool) : VChoices :=
  if vc.any (fun p => beq p.1 k) then vc.map (fun p => if beq p.1 k then (p.1, v) else p)
  else vc ++ [(k, v)]

/-- `cfg.dis` : a `true` field means the feature is *disabled* -/
structure Dis where
  useSiteVariance : Bool
  useSiteContravariance : Bool
deriving Repr, DecidableEq

/-- the decision table of `_get_type_arg_variance` over the facts it looks at: the declared
    variance `dv` of the parameter, `ch = none` for `variance_choices is None` and
    `some (can_variant, can_contravariant)` for the looked-up entry, `inBound` for
    `any(tpa.has_bound_of(t_param) for tpa in other_type_params)` -/
def argVarianceCore (dis : Dis) (dv : Nat) (ch : Option (Bool × Bool)) (inBound : Bool) : List Nat :=
  match ch with
  | none => [0]
  | some ch =>
    if inBound then [0]
    else
      let canVariant := if dis.useSiteVariance then false else ch.1
      let canContra := if dis.useSiteVariance then false else ch.2
      let covariance : List Nat := if canVariant then [1] else []
      let contravariance : List Nat := if canContra && !dis.useSiteContravariance then [2] else []
      if dv == 0 then [0] ++ covariance ++ contravariance
      else if dv == 1 then [0] ++ covariance
      else [0] ++ contravariance

/-- `_get_type_arg_variance`: the candidate list the result is drawn from.
    `vc = none` is `variance_choices is None`; `later` are the answers
    `tpa.has_bound_of(t_param)` for `tpa in other_type_params`. -/
def argVariance (dis : Dis) (tparam : Ty) (vc : Option VChoices) (later : List Bool) : List Nat :=
  argVarianceCore dis (variance tparam) (vc.map fun m => m.get tparam) (later.any id)

/-! ## `TypeParameter.has_bound_of` (the question `_get_type_arg_variance` asks of the later parameters) -/

mutual
/-- `_enclosed_type_variables(t)` of `types.py` (since /repo 4a31e42; before that fix
    `has_bound_of` called `get_type_variables(None)`, whose values `get_bound_rec(None)` could raise
    `AttributeError`): the type variables in the arguments / the wildcard bound.  The result type
    keeps the error monad of the earlier model; no branch raises any more. -/
def typeVarKeys : Ty → TR (List Ty)
  | param _ _ args _ => typeVarKeysL args
  | wild _ (some b) =>
      (match b with
       | wild _ bb => typeVarKeys (wild 0 bb)
       | tparam nm v bd => .ok [tparam nm v bd]
       | param _ _ args _ => typeVarKeysL args
       | _ => .ok [])
  | _ => .ok []
def typeVarKeysL : List Ty → TR (List Ty)
  | [] => .ok []
  | a :: as =>
      (match a with
       | tparam nm v bd => TR.ok [tparam nm v bd]
       | param _ _ args _ => typeVarKeysL args
       | wild v bd => typeVarKeys (wild v bd)
       | _ => TR.ok []).bind fun ks => (typeVarKeysL as).bind fun ks' => .ok (ks ++ ks')
end

/-- `self.has_bound_of(other)` -/
def hasBoundOf (self other : Ty) : TR Bool :=
  match self with
  | tparam _ _ (some bound) =>
      if beq bound other then .ok true
      else match bound with
        | param .. => (typeVarKeys bound).bind fun ks => .ok (memBeq other ks)
        | wild .. => (typeVarKeys bound).bind fun ks => .ok (memBeq other ks)
        | _ => .ok false
  | _ => .ok false

/-- `any(tpa.has_bound_of(t_param) for tpa in other_type_params)`: left to right, stops at the
    first `True`, an exception before that propagates -/
def anyBoundOf (tparam : Ty) : List Ty → TR Bool
  | [] => .ok false
  | q :: qs => (hasBoundOf q tparam).bind fun b => if b then .ok true else anyBoundOf tparam qs

/-- `_get_type_arg_variance` with the real `other_type_params` -/
def argVarianceP (dis : Dis) (tparam : Ty) (vc : Option VChoices) (others : List Ty) : TR (List Nat) :=
  (anyBoundOf tparam others).bind fun b => .ok (argVariance dis tparam vc [b])

/-! ## `_get_available_types` -/

/-- an element of the list `types`: a type (with the answer of `box_type()` when the object has
    that attribute — it belongs to `java_types.py`/`groovy_types.py`) or an `ast.ClassDeclaration`
    (its `class_type`: 0 regular, 1 interface, 2 abstract; and its `get_type()`) -/
inductive Item
  | ty (t : Ty) (box : Option Ty)
  | cls (classType : Nat) (t : Ty)
deriving Repr

/-- the Array test: `isinstance(ptype, (TypeParameter, ParameterizedType, TypeConstructor))` -/
def forbiddenInArray : Item → Bool
  | .ty t _ => t.isTVar || t.isParam || t.isTCon
  | .cls .. => false

/-- one iteration of the loop: `none` = `continue` -/
def availableStep (isArray primitives : Bool) (it : Item) : Option Item :=
  if isArray && forbiddenInArray it then none
  else match it with
    | .cls ct t => if ct != 0 then none else some (.cls ct t)
    | .ty t box =>
        if t.isTCon then none
        else if !primitives then (match box with | some b => some (.ty b none) | none => some (.ty t none))
        else some (.ty t box)

/-- `_get_available_types(type_constructor, types, only_regular, primitives)`;
    `conName = none` is `type_constructor is None` -/
def availableTypes (conName : Option String) (types : List Item) (onlyRegular primitives : Bool) : List Item :=
  if !onlyRegular then types
  else types.filterMap (availableStep (conName == some "Array") primitives)

/-! ## `update_type_var_bound_rec` -/

inductive UBR
  | ok (targs : List Ty) (m : TMap)
  | assertionError
  | indexError
  | subError (r : Res)
deriving Repr

/-- `indexes[k]` -/
def idxGet (idx : List (Ty × Nat)) (k : Ty) : Option Nat := (idx.find? fun p => beq p.1 k).map (·.2)

/-- `update_type_var_bound_rec(t_param, t, t_args, indexes, type_var_map)`: the two mutated
    containers are returned -/
def updateBoundRec : Ty → Ty → List Ty → List (Ty × Nat) → TMap → UBR
  | tparam _ _ (some bound), t, targs, idx, m =>
      if !bound.isTVar then .ok targs m
      else match m.get bound with
        | none => .assertionError          -- KeyError, then `assert bound in type_var_map` fails
        | some cur =>
          (match isSubtype t cur with
           | .yes => updateBoundRec bound t targs idx m
           | .no =>
             (match idxGet idx bound with
              | none => updateBoundRec bound t targs idx m   -- KeyError of `indexes[bound]`; the assertion holds
              | some i =>
                  if i < targs.length then updateBoundRec bound t (targs.set i t) idx (m.set bound t)
                  else .indexError)
           | e => .subError e)
  | _, _, targs, _, m => .ok targs m

/-- the type variables along the bound chain of a type parameter (`T3 : T2 : T1` ↦ `[T2, T1]`) -/
def boundChain : Ty → List Ty
  | tparam _ _ (some bound) => if bound.isTVar then bound :: boundChain bound else []
  | _ => []

/-! ## the variance choices `instantiate_type_constructor` really passes on -/

/-- the two overrides at the head of `instantiate_type_constructor` -/
def effectiveChoices (conName : String) (params : List Ty) (vc : Option VChoices)
    (enablePecs disableVarianceFunctions disableVariance : Bool) : Option VChoices :=
  let isFun := conName.startsWith "Function"
  let vc1 : Option VChoices :=
    if enablePecs && isFun then
      match params.reverse with
      | [] => vc       -- IndexError in Python: a Function constructor without parameters does not exist
      | last :: restRev =>
          some ((restRev.reverse.foldl (fun m p => VChoices.set m p (false, true)) []).set last (true, false))
    else vc
  if disableVariance || (disableVarianceFunctions && isFun) then
    some (params.foldl (fun m p => VChoices.set m p (false, false)) [])
  else vc1

/-! ## the result checker `instOK` -/

/-- what is compared with the bound: the bound of a bounded projection, else the argument -/
def argCore : Ty → Ty
  | wild _ (some b) => b
  | t => t

/-- the argument `a` respects the substituted bound `b'` (`top` is the language's top type, to
    which no nominal chain leads from a type variable).  When `b'` is itself a projection
    (`I : L` with `L ↦ in Number`) the argument must be below the projection's bound — the
    reading the code's comments give. -/
def withinD (top a b' : Ty) : Bool :=
  match asProj a with
  | some (_, none) => true
  | _ =>
    match asProj b' with
    | some (_, none) => true
    | some (_, some y) => beq y top || isSubDTop (argCore a) y
    | none => beq b' top || isSubDTop (argCore a) b'

structure InstIn where
  params : List Ty
  /-- the caller's `type_var_map` (`[]` for `None`) -/
  pre : TMap
  /-- the variance choices `_compute_type_variable_assignments` receives -/
  vc : Option VChoices
  dis : Dis
  top : Ty

mutual
/-- the type variables that occur in a type (as the type itself, as arguments, inside projections) -/
def tvarsOf : Ty → List Ty
  | tparam nm v bd => [tparam nm v bd]
  | wild _ (some b) => tvarsOf b
  | param _ _ args _ => tvarsOfL args
  | _ => []
def tvarsOfL : List Ty → List Ty
  | [] => []
  | x :: xs => tvarsOf x ++ tvarsOfL xs
end

/-- the caller's requests respect the declared bounds *among themselves*: a requested assignment
    for `q : B` is within `B` under the requests, whenever all parameters that `B` mentions are
    requested too.  The property speaks about requests that are "consistent with the bounds";
    for inconsistent requests `instOK` only checks the shape of the result. -/
def preConsistent (I : InstIn) : Bool :=
  I.params.all fun q =>
    match I.pre.get q, boundOf q with
    | some t, some b =>
        !((tvarsOf b).all fun v => !memBeq v I.params || (I.pre.get v).isSome) ||
        withinD I.top t (substituteType b I.pre)
    | _, _ => true

/-- a pre-assigned parameter `q` whose bound chain reaches `p` may overwrite `p`'s argument
    (`update_type_var_bound_rec`: `if not t.is_subtype(current_t): type_var_map[bound] = t`) — but
    only when `q`'s request is not already below `p`'s own request in the code's own subtype test
    (`isSubtype`, the model of `Type.is_subtype`): a request for `p` that the requests below it
    respect is consistent with the bounds and must be kept.  A projection requested for `q` is
    rewritten before the test (`t = t.bound`, `tp.Nothing`), so the exemption stays unconditional
    for it, as it does when `p` itself carries no request. -/
def overridable (I : InstIn) (p : Ty) : Bool :=
  I.params.any fun q =>
    match I.pre.get q with
    | none => false
    | some tq =>
      memBeq p (boundChain q) &&
      (match I.pre.get p with
       | some tp => tq.isWild || isSubtype tq tp != .yes
       | none => true)

/-- is the projection `wild v _` permitted at parameter `p` (`others` = the later parameters)? -/
def projAllowed (I : InstIn) (p : Ty) (others : List Ty) (v : Nat) : Bool :=
  match argVarianceP I.dis p I.vc others with
  | .ok cands => v != 0 && cands.contains v
  | _ => false

/-- `a` is the type `t`, a projection of it, or — `t` being a projection — its bound -/
def isOrWraps (a t : Ty) : Bool :=
  beq a t || beq a (argCore t) || (match a with
    | wild _ (some x) => beq x t && !t.isWild
    | _ => false)

/-- the assignments the caller requested for parameters whose bound is `p` -/
def requestsBelow (I : InstIn) (p : Ty) : List Ty :=
  I.pre.filterMap fun kv =>
    match boundOf kv.1 with
    | some b => if beq b p then some kv.2 else none
    | none => none

/-- the assignments the caller requested for parameters whose bound chain reaches `p`
    (`update_type_var_bound_rec` propagates them upwards) -/
def requestsAbove (I : InstIn) (p : Ty) : List Ty :=
  I.params.filterMap fun q =>
    match I.pre.get q with
    | some t => if memBeq p (boundChain q) then some t else none
    | none => none

/-- the argument stems from the caller's own assignments: it is the assignment requested for `p`
    (possibly wrapped in a projection, or the bound of a requested projection), or the
    assignment requested for a parameter whose bound is `p` (`class A<T1, T2 : T1>`, `T2 ↦ String`
    requested, so `T1 ↦ String`) or whose bound chain reaches `p`.  Whether such an argument
    respects `p`'s own bound is the caller's business ("when they are consistent with the bounds"). -/
def requestedBy (I : InstIn) (p a : Ty) : Bool :=
  (match I.pre.get p with
   | some t => isOrWraps a t
   | none => (requestsBelow I p).any fun v => isOrWraps a v) ||
  (requestsAbove I p).any fun v => isOrWraps a v

/-- a projection the helper did not decide on: the caller's own request for `p`, for a parameter
    below `p` or above it in a bound chain, or the verbatim copy of the assignment of `p`'s bound
    (`T2 : T1`, `T1 ↦ out S` gives `T2 ↦ out S`, see the comments in the code) -/
def exemptProjection (I : InstIn) (σ : TMap) (p a : Ty) : Bool :=
  (match I.pre.get p with
   | some t => beq a t
   | none => (requestsBelow I p).any fun t => beq a t) ||
  ((requestsAbove I p).any fun t => beq a t) ||
  (match boundOf p with
   | some b => b.isTVar && (match σ.get b with | some s => beq a s | none => false)
   | none => false)

/-- the checks for one parameter `p` (with the later parameters `others`) and its argument `a`
    under the final assignment `σ` -/
def instOK1 (I : InstIn) (σ : TMap) (p : Ty) (others : List Ty) (a : Ty) : Bool :=
  (requestedBy I p a ||
    -- no primitive, no bare constructor
    ((!a.isPrim && !a.isTCon && !(argCore a).isPrim && !(argCore a).isTCon) &&
    -- within the declared bound under σ
    (match boundOf p with
     | none => true
     | some b => withinD I.top a (substituteType b σ)))) &&
  -- a requested assignment is kept, at most wrapped in a permitted projection
  (match I.pre.get p with
   | none => true
   | some t =>
       overridable I p || beq a t ||
       (match a with
        | wild v (some x) => beq x t && !t.isWild && projAllowed I p others v
        | _ => false)) &&
  -- projections only where permitted
  (match a with
   | wild v bd => exemptProjection I σ p a || (bd.isSome && projAllowed I p others v)
   | _ => true)

def instOKL (I : InstIn) (σ : TMap) : List Ty → Bool
  | [] => true
  | p :: ps =>
      (match σ.get p with
       | none => false
       | some a => instOK1 I σ p ps a) && instOKL I σ ps

/-- **`instOK`**: `σ` is the returned `type_var_map`, `targs` the returned argument list
    (`none` for `instantiate_parameterized_function`, which returns only the map) -/
def instOK (I : InstIn) (σ : TMap) (targs : Option (List Ty)) : Bool :=
  (match targs with
   | none => true
   | some as => as.length == I.params.length && beqL as (I.params.filterMap σ.get)) &&
  I.params.all (fun p => (σ.get p).isSome) &&
  (!preConsistent I || instOKL I σ I.params)

end Inst
end Heph
