import Heph.Model.Subst
/-!
# Model of the leaf functions of the instantiation helpers (`src/ir/type_utils.py`)

* `argVariance`     — `_get_type_arg_variance(t_param, variance_choices, other_type_params)`
* `availableTypes`  — `_get_available_types(type_constructor, types, only_regular, primitives)`
* `updateBoundRec`  — `update_type_var_bound_rec(t_param, t, t_args, indexes, type_var_map)`

Randomness is an explicit candidate list (DESIGN section 3): `argVariance` returns the list
`variances` that `utils.random.choice` is applied to (the early `return tp.Invariant` is the
one-element list `[0]`).  Variances are `Variance.value`: 0 invariant, 1 covariant,
2 contravariant.  The answers `tpa.has_bound_of(t_param)` of the later type parameters are an
input (`has_bound_of` belongs to `types.py`), as are the two switches `cfg.dis.*`.
-/
namespace Heph
namespace Inst
open Ty

/-- the Python dict `variance_choices : {TypeParameter: (can_variant, can_contravariant)}` -/
abbrev VChoices := List (Ty × (Bool × Bool))

/-- `variance_choices.get(t_param, (True, True))` -/
def VChoices.get (vc : VChoices) (k : Ty) : Bool × Bool :=
  match vc.find? (fun p => beq p.1 k) with
  | some p => p.2
  | none => (true, true)

/-- `variance_choices[k] = v` -/
def VChoices.set (vc : VChoices) (k : Ty) (v : Bool × Bool) : VChoices :=
  if vc.any (fun p => beq p.1 k) then vc.map (fun p => if beq p.1 k then (p.1, v) else p)
  else vc ++ [(k, v)]

/-- `cfg.dis` : a `true` field means the feature is *disabled* -/
structure Dis where
  useSiteVariance : Bool
  useSiteContravariance : Bool
deriving Repr, DecidableEq

/-- the decision table of `_get_type_arg_variance` over the facts it looks at: the declared
    variance `dv` of the parameter, `ch = none` for `variance_choices is None` and
    `some (can_variant, can_contravariant)` for the looked-up entry, `inBound` for
    `any(tpa.has_bound_of(t_param) for tpa in other_type_params)` -/
def argVarianceCore (dis : Dis) (dv : Nat) (ch : Option (Bool × Bool)) (inBound : Bool) : List Nat :=
  match ch with
  | none => [0]
  | some ch =>
    if inBound then [0]
    else
      let canVariant := if dis.useSiteVariance then false else ch.1
      let canContra := if dis.useSiteVariance then false else ch.2
      let covariance : List Nat := if canVariant then [1] else []
      let contravariance : List Nat := if canContra && !dis.useSiteContravariance then [2] else []
      if dv == 0 then [0] ++ covariance ++ contravariance
      else if dv == 1 then [0] ++ covariance
      else [0] ++ contravariance

/-- `_get_type_arg_variance`: the candidate list the result is drawn from.
    `vc = none` is `variance_choices is None`; `later` are the answers
    `tpa.has_bound_of(t_param)` for `tpa in other_type_params`. -/
def argVariance (dis : Dis) (tparam : Ty) (vc : Option VChoices) (later : List Bool) : List Nat :=
  argVarianceCore dis (variance tparam) (vc.map fun m => m.get tparam) (later.any id)

end Inst
end Heph
