import Heph.Model.Closed
/-!
# `captureCheck` — javac's reading of "visible from a lambda": captured locals are effectively final

`Spec/Scope.Resolves` carries the GENERATOR's rule (`_inside_java_lambda`): inside a Java lambda or nested function
(both are printed as lambdas) a local of an enclosing function body may be referenced only if it is declared `final`
(or is a parameter), and nothing outside the lambda is assigned.  javac enforces less: a captured local must be
*effectively final* — declared final, or never the target of an assignment anywhere — and an assignment inside a
lambda to a local of an enclosing body is always an error ("local variables referenced from a lambda expression must
be final or effectively final").

This file states javac's reading declaratively (`CapturesOK`: a bounded statement over the sites of
`Spec/Scope.programSites`, whose environments already split the visible locals into those declared since the innermost
lambda / nested function was entered (`inner`) and those of enclosing bodies (`outer`, `VarRes.captured`) — for Java
only, see `Env.enterFun`) and gives the checker `captureCheck` the harness runs.  `Proofs/CaptureSound` shows that the
checker decides the statement and that the generator's rule implies javac's (`closed_capturesOK`).

Effective finality is judged by NAME (`assignedNames`: the targets of the unqualified assignments of the whole
program): identifiers of a generated program are drawn from the word pool without replacement (`word_fresh`), and
`Closed` requires distinct names per scope; on a program that re-uses a name in two functions the judgement is
stricter than javac's, never laxer.

Core Lean only (the driver imports this file).
-/
namespace Heph.Capture
open Heph Heph.Scope

/-- the targets of the unqualified assignments at the given sites -/
def assignedNames : List Site → List String
  | [] => []
  | s :: ss => match s.use with
    | .assign x none => x :: assignedNames ss
    | _ => assignedNames ss

/-- effectively final (javac §4.12.4 on this IR): declared `final`, or never assigned; parameters are never assigned
    in this IR but are held to the same condition; a smart-cast re-binding is a `final` variable -/
def EffFinal (assigned : List String) : Node → Prop
  | .varDecl nm _ isFinal _ _ => isFinal = true ∨ nm ∉ assigned
  | .paramDecl nm .. => nm ∉ assigned
  | _ => True

instance (assigned : List String) (d : Node) : Decidable (EffFinal assigned d) := by
  unfold EffFinal; split <;> exact inferInstance

/-- what a reference of the unqualified name `x` at `env` captures: if the innermost visible declaration lies
    outside the innermost Java lambda / nested function, it is effectively final -/
def RefOK (assigned : List String) (env : Env) (x : String) : Prop :=
  ∀ r, (visibleVars env x).head? = some r → r.captured = true → EffFinal assigned r.decl

instance (assigned : List String) (env : Env) (x : String) : Decidable (RefOK assigned env x) := by
  unfold RefOK
  cases h : (visibleVars env x).head? with
  | none => exact isTrue (fun r hr => by cases hr)
  | some r0 =>
    exact if hc : r0.captured = true → EffFinal assigned r0.decl
      then isTrue (fun r hr => by cases hr; exact hc)
      else isFalse (fun hall => hc (hall r0 rfl))

/-- the obligation of one site.  A reference (`variable`), a call through a function-typed variable (no function of
    that name is visible: the callee is the variable) and an unqualified assignment are the three ways this IR names a
    local. -/
def CaptureOK (assigned : List String) (env : Env) : Use → Prop
  | .var x => RefOK assigned env x
  | .call f _ none => (visibleFuncs env f).isEmpty = true → RefOK assigned env f
  | .assign x none => ∀ r, (visibleVars env x).head? = some r → r.captured = false
  | _ => True

instance (assigned : List String) (env : Env) (u : Use) : Decidable (CaptureOK assigned env u) := by
  unfold CaptureOK
  split
  · exact inferInstance
  · exact inferInstance
  · next x =>
    cases h : (visibleVars env x).head? with
    | none => exact isTrue (fun r hr => by cases hr)
    | some r0 =>
      exact if hc : r0.captured = false
        then isTrue (fun r hr => by cases hr; exact hc)
        else isFalse (fun hall => hc (hall r0 rfl))
  · exact isTrue trivial

/-- javac's capture rule for a whole program (vacuous unless `p.lang = "java"`: only then `Env.enterFun` moves
    declarations to `outer`) -/
def CapturesOK (p : Program) : Prop :=
  ∀ s ∈ programSites p, CaptureOK (assignedNames (programSites p)) s.env s.use

def captureReason (env : Env) : Use → String
  | .var x => "java-lambda-reads-reassigned-local:" ++ x
  | .call f _ _ => "java-lambda-calls-reassigned-local:" ++ f
  | .assign x _ => let _ := env; "java-lambda-assigns-captured-local:" ++ x
  | _ => "?"

/-- the first site that breaks the capture rule -/
def captureCheck (p : Program) : CheckResult :=
  let ss := programSites p
  let assigned := assignedNames ss
  match ss.find? fun s => !decide (CaptureOK assigned s.env s.use) with
  | none => .ok
  | some s => .error s.path (captureReason s.env s.use)

/-- evidence: number of references / assignments that cross a lambda boundary -/
def capturedUses (p : Program) : Nat × Nat :=
  (programSites p).foldl (fun (acc : Nat × Nat) s =>
    match s.use with
    | .var x => match (visibleVars s.env x).head? with
      | some r => if r.captured then (acc.1 + 1, acc.2) else acc
      | none => acc
    | .assign x none => match (visibleVars s.env x).head? with
      | some r => if r.captured then (acc.1, acc.2 + 1) else acc
      | none => acc
    | _ => acc) (0, 0)

end Heph.Capture
