import Heph.Model.GenFuncRef
/-!
# Decision points `_get_matching_class_decls`, `_get_matching_class`, `_gen_matching_class`,
# `_get_matching_objects`, `_get_matching_function_declarations`: the receiver and the
# type-variable map chosen for a field / function whose type must fit an expected type

```
def _get_matching_class_decls(self, etype, subtype, attr_name, signature=False):
    class_decls = []
    for c in self.context.get_classes(self.namespace).values():
        for attr in self._get_class_attributes(c, attr_name):
            attr_type = attr.get_type()
            if not attr_type: continue
            if attr_type == self.bt_factory.get_void_type(): continue
            if attr.name == self.namespace[-1] and signature: continue
            is_comb, type_var_map = self._is_signature_compatible(attr, etype, signature, subtype)
            if not is_comb: continue
            class_decls.append((c, type_var_map, attr))
    return class_decls
```
`_is_signature_compatible` computes a type-variable map with `unify_types` (C10) and answers
`_is_sigtype_compatible(attr, etype, type_var_map, check_signature, subtype)` — or `(False, None)`
straight away when a signature is checked and the arities differ, a component does not unify, or
two components bind one type variable differently.  The map (`none` for the early `(False, None)`)
is an input of this model, the answer is computed.

```
# _gen_matching_class, after the class `cls` is generated and instantiated (random) to params_map
for attr in getattr(cls, attr_name):
    if not self._is_sigtype_compatible(attr, etype, params_map, signature, False): continue
    ...
    return gu.AttrAccessInfo(cls_type, params_map, attr, func_type_var_map)
return None
```

Every function of this family returns (receiver, attribute declaration, type-variable maps); the
caller types the attribute by `substitute_type(attr.get_type(), maps)`.  `matchedOK` is the
condition the code itself decides with `_is_sigtype_compatible`; the harness evaluates it on every
returned triple under the maps *as returned* (after the random instantiations).
-/
namespace Heph
namespace Check
open Heph.Ty

/-- the condition under which a returned (attribute, map) is usable at `etype` -/
def matchedOK (extra : List (String × String)) (a : AttrSig) (etype : Ty) (m : TMap)
    (checkSig sub : Bool) (mode : AttrMode) : Bool :=
  sigtypeCompatible extra a etype m checkSig sub mode == .yes

/-- the three `continue`s before `_is_signature_compatible` (an attribute without a type is not
    exported: `hasTy = false`) -/
def classAttrReached (void : Ty) (signature : Bool) (self : String) (hasTy : Bool) (a : AttrSig) : Bool :=
  hasTy && !(beq a.ty void) && !(a.name == self && signature)

/-- the attributes of one class: `maps` are the type-variable maps `_is_signature_compatible`
    computed, consumed in order by the attributes that reach it; `none` when they run out -/
def classDeclsOf (extra : List (String × String)) (void etype : Ty) (sub signature : Bool) (self cname : String) :
    List (Bool × AttrSig) → List (Option TMap) → Option (List (String × AttrSig × TMap) × List (Option TMap))
  | [], maps => some ([], maps)
  | (hasTy, a) :: rest, maps =>
      if classAttrReached void signature self hasTy a then
        match maps with
        | [] => none
        | m :: maps' =>
            (classDeclsOf extra void etype sub signature self cname rest maps').map fun (out, left) =>
              (match m with
               | some m => if matchedOK extra a etype m signature sub .whole then (cname, a, m) :: out else out
               | none => out, left)
      else classDeclsOf extra void etype sub signature self cname rest maps

/-- `_get_matching_class_decls`: the list `_get_matching_class` draws from -/
def matchingClassDecls (extra : List (String × String)) (void etype : Ty) (sub signature : Bool) (self : String) :
    List (String × List (Bool × AttrSig)) → List (Option TMap) → Option (List (String × AttrSig × TMap))
  | [], _ => some []
  | (cname, attrs) :: rest, maps =>
      match classDeclsOf extra void etype sub signature self cname attrs maps with
      | none => none
      | some (out, left) =>
          (matchingClassDecls extra void etype sub signature self rest left).map fun more => out ++ more

/-- `_gen_matching_class`: the first attribute of the generated class that fits under the
    instantiation's map (`subtype` is `False` here) -/
def firstCompatible (attrs : List AttrSig) (etype : Ty) (m : TMap) (signature : Bool) : Option AttrSig :=
  attrs.find? fun a => matchedOK [] a etype m signature false .whole

end Check
end Heph
