import Heph.Model.Types
/-!
# Decision point `gen_variable`: which variables in scope may stand at a position of type `τ`

```
variables = self.context.get_vars(self.namespace).values()
if self._inside_java_lambda:
    variables = list(filter(lambda v: (getattr(v, 'is_final', False) or v not in
                                       self.context.get_vars(self.namespace[:-1]).values()), variables))
if subtype: fun = lambda v, t: v.get_type().is_assignable(t)
else:       fun = lambda v, t: v.get_type() == t
variables = [v for v in variables if fun(v, etype)]
if not variables:
    return self.generate_expr(etype, only_leaves=only_leaves, subtype=subtype, exclude_var=True)
varia = ut.random.choice([v.name for v in variables])
return ast.Variable(varia)
```
The random choice is not modelled: the model computes the list the choice is made from, and the
correspondence is a refinement (the returned variable is a member of the list; the fall-back
branch is taken exactly when the list is empty).
-/
namespace Heph
namespace Check
open Heph.Ty

/-- a variable in scope, as `gen_variable` sees it: its name, its type, `getattr(v, 'is_final',
    False)`, and whether it is also among the variables of the enclosing namespace -/
structure VarInfo where
  name : String
  ty : Ty
  final : Bool
  outer : Bool
deriving Inhabited

/-- the two filters of `gen_variable` (`extra`: the regenerated numeric-widening table of
    `is_assignable`, `sub` = `subtype`, `jl` = `_inside_java_lambda`) -/
def genVarKeeps (extra : List (String × String)) (τ : Ty) (sub jl : Bool) (v : VarInfo) : Bool :=
  (!jl || v.final || !v.outer) &&
    (if sub then isAssignable extra v.ty τ == .yes else beq v.ty τ)

/-- the list `random.choice` draws from -/
def genVariableCandidates (extra : List (String × String)) (vars : List VarInfo) (τ : Ty) (sub jl : Bool) :
    List VarInfo :=
  vars.filter (genVarKeeps extra τ sub jl)

/-- what `gen_variable` did: returned `Variable(name)` drawn from the list, or fell back to
    `generate_expr(..., exclude_var=True)` -/
inductive GenVarOut where
  | variable (name : String)
  | fallback
deriving Inhabited

/-- the refinement the harness checks on every recorded call -/
def genVariableRefines (extra : List (String × String)) (vars : List VarInfo) (τ : Ty) (sub jl : Bool) :
    GenVarOut → Bool
  | .variable n => (genVariableCandidates extra vars τ sub jl).any fun v => v.name == n
  | .fallback => (genVariableCandidates extra vars τ sub jl).isEmpty

end Check
end Heph
