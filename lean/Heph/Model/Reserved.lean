import Heph.Model.Pool
import Heph.Generated.Keywords
/-!
# Reserved-word collisions of the identifier pool, evaluated on the regenerated tables

`reservedCollisions fixed`: every (language, word, identifier) such that the word — one of
`Keywords.collisionWords`, the entries of the word file equal to some keyword up to case — survives
`remove_reserved_words(language)` in the variant `fixed` and some mode of `gen_identifier` turns it into a
keyword of that language.  `tableClean fixed` = there is none.  The harness computes the same list on the real
code over the WHOLE word file (`check_C05.reserved_stream`) and compares.

Core Lean only.
-/
namespace Heph.Pool
open Heph.Keywords

def reservedCollisions (fixed : Bool) : List (String × String × String) :=
  languages.flatMap fun l => (removeReservedVariant fixed collisionWords (keywordsOf l)).flatMap fun w =>
    (Mode.all.filter fun m => (keywordsOf l).contains (genIdentifier m w)).map fun m => (l, w, genIdentifier m w)

/-- the decidable check on the regenerated tables: the colliding words that survive the removal yield no keyword -/
def tableClean (fixed : Bool) : Bool :=
  languages.all fun l => (removeReservedVariant fixed collisionWords (keywordsOf l)).all fun w =>
    Mode.all.all fun m => !(keywordsOf l).contains (genIdentifier m w)

/-- `remove_reserved_words` in an explicitly chosen variant -/
def Pool.removeReservedWordsV (p : Pool) (fixed : Bool) (kw : List String) : Pool :=
  { initial := removeReservedVariant fixed p.initial kw, words := removeReservedVariant fixed p.words kw }

end Heph.Pool
