import Heph.Model.Types
import Heph.Model.Subst
/-!
# Model of `unify_types` (`src/ir/type_utils.py`, lines 1014–1133)

`unify_types(t1, t2, factory, same_type)` matches the *pattern* `t2` against the *target* `t1`
and returns a dict `{TypeParameter: Type}` (empty = "not unifiable").  The model follows the
code branch by branch:

* `same_type and type(t1) != type(t2)` → `{}` (`pyClass`);
* supertype mode: while `t1.name != t2.name` and `t2` is not a type variable, continue with
  `t1.supertypes[-1]` (`{}` when there is none);
* the three type-variable cases with `get_bound_rec` and the code's own `is_subtype`;
* `t1` not an instantiation → `{}`; `t1.t_constructor != t2.t_constructor` → `{}`
  (`AttributeError` when `t2` has no constructor);
* the argument loop with `_update_type_var_map` (an existing *falsy* value — `None`, the bound of
  a star projection — counts as absent), the recursive call on a parameterized bound, the
  recursive call on a parameterized argument.

The result map may hold `None` as a value (`unify(A<*>, A<out T>) = {T: None}`), hence
`UMap = List (Ty × Option Ty)` in dict insertion order.

`Variant.asIs` is the code of the unchanged tree, `Variant.repaired` the code after
`fixes/C10-unify-projections.diff`; the variant is read in ONE clearly marked place
(`unwrapProj`, search `REPAIR`).  `Variant.current` says which one `unify` is: after the fix is
committed, switch that single definition and the hypotheses of `Props/C10.lean` become `True`.

Exceptions are result tags.  Recursion is on fuel (`unifyFuel`, adequacy in
`Proofs/UnifyFuel.lean`); every soundness theorem holds for every fuel.
-/
namespace Heph
namespace Unify
open Heph.Ty

inductive Variant | asIs | repaired
deriving DecidableEq, Repr, Inhabited

/-- THE switch: which code `unify` stands for -/
def Variant.current : Variant := .repaired

/-- the dict under construction / returned: values may be `None` -/
abbrev UMap := List (Ty × Option Ty)

/-- `m.get(k)` (`none` = key absent) -/
def UMap.get (m : UMap) (k : Ty) : Option (Option Ty) :=
  (m.find? fun p => beq p.1 k).map (·.2)

/-- `m[k] = v`: an existing key object stays, its value is replaced -/
def UMap.set (m : UMap) (k : Ty) (v : Option Ty) : UMap :=
  if m.any (fun p => beq p.1 k) then m.map (fun p => if beq p.1 k then (p.1, v) else p)
  else m ++ [(k, v)]

/-- `_update_type_var_map(m, k, v)`: `none` is the answer `False` (conflict) -/
def updateMap (m : UMap) (k : Ty) (v : Option Ty) : Option UMap :=
  match m.get k with
  | some (some old) => if beqO (some old) v then some (m.set k v) else none
  | _ => some (m.set k v)

/-- `any(not _update_type_var_map(m, k, v) for k, v in res.items())`, `none` = some update failed -/
def mergeMap (m : UMap) : UMap → Option UMap
  | [] => some m
  | (k, v) :: rest => match updateMap m k v with
      | none => none
      | some m' => mergeMap m' rest

/-- results: the dict, or the exception raised, or the model's fuel running out -/
inductive UR
  | ok (m : UMap) | attrError | typeError | indexError | notImpl
  | kfuel   -- `isSubtype` / `getBoundRec` ran out of *their* fuel (never on regular types, C06/C07)
  | fuel    -- the fuel of `unifyF` itself ran out (never with `unifyFuel`, `Proofs/UnifyFuel.lean`)
deriving Repr, Inhabited

/-- `type(t)` as far as `type(t1) != type(t2)` can tell -/
def pyClass : Ty → String
  | builtin cls _ _ _ _ => cls
  | simple _ _ => "SimpleClassifier"
  | tparam .. => "TypeParameter"
  | wild .. => "WildCardType"
  | tcon cls _ _ _ => cls
  | param .. => "ParameterizedType"
  | nothing => "NothingType"
  | ext cls => cls

/-- the attribute `t.name`; `bn` maps the class of a built-in to its `name` where that differs
    from `get_name()` (Java primitives: `name = "Integer"`, `get_name() = "int"`) -/
def pyName (bn : List (String × String)) : Ty → String
  | builtin cls nm _ _ _ => ((bn.find? fun p => p.1 == cls).map (·.2)).getD nm
  | simple nm _ => nm
  | tparam nm _ _ => nm
  | wild .. => "*"
  | tcon _ nm _ _ => nm
  | param nm _ _ _ => nm
  | nothing => "Nothing"
  | ext cls => cls

/-- `WildCardType.variance.value` -/
def wildVar : Ty → Nat | wild v _ => v | _ => 0

mutual
/-- `t.has_type_variables()` with the `NotImplementedError` of `Type` (`none`) for the classes
    that do not override it (`NothingType`, `Function`, …); `any(...)` short-circuits -/
def hasTVE : Ty → Option Bool
  | builtin .. => some false
  | simple .. => some false
  | tparam .. => some true
  | tcon .. => some true
  | wild _ none => some false
  | wild _ (some b) => hasTVE b
  | param _ _ args _ => hasTVEL args
  | nothing => none
  | ext _ => none
def hasTVEL : List Ty → Option Bool
  | [] => some false
  | x :: xs => match hasTVE x with
      | none => none
      | some true => some true
      | some false => hasTVEL xs
end

def ofRes (r : Res) (yes no : UR) : UR :=
  match r with
  | .yes => yes | .no => no | .typeError => .typeError | .attrError => .attrError | .fuel => .kfuel

/-- the block `if is_type_var2:` -/
def varFinal (fac : Option Ty) (t1 t2 : Ty) : UR :=
  match getBoundRec t2 fac with
  | .ok none => .ok [(t2, some t1)]
  | .ok (some b) => ofRes (isSubtype t1 b) (.ok [(t2, some t1)]) (.ok [])
  | .attrError => .attrError
  | .fuel => .kfuel

/-- the two blocks `if is_type_var and is_type_var2:` / `if is_type_var2:` (`t2` a type variable) -/
def varCase (fac : Option Ty) (t1 t2 : Ty) : UR :=
  if t1.isTVar then
    match getBoundRec t1 fac with
    | .attrError => .attrError
    | .fuel => .kfuel
    | .ok b1 =>
      match getBoundRec t2 fac with
      | .attrError => .attrError
      | .fuel => .kfuel
      | .ok none => .ok [(t2, some t1)]
      | .ok (some b2) =>
        match b1 with
        | none => varFinal fac t1 t2
        | some b1' => ofRes (isSubtype b1' b2) (.ok [(t2, some t1)]) (varFinal fac t1 t2)
  else varFinal fac t1 t2

/-- outcome of looking at one pair of arguments before the type-variable analysis -/
inductive Unwrapped
  | stop                                    -- `return {}`
  | skip                                    -- `continue` (repaired code only)
  | go (a : Option Ty) (b : Option Ty)      -- go on with these two (possibly `None`) values

/-- the head of the loop body: wildcard against non-wildcard, then unwrapping two wildcards.
    **REPAIR**: the repaired code compares the variances of the two projections first and treats
    a bound-less projection as unifiable only with another bound-less one. -/
def unwrapProj (v : Variant) (a b : Ty) : Unwrapped :=
  if b.isWild && !a.isWild then .stop
  else if b.isWild then
    match v with
    | .asIs => .go (boundOf a) (boundOf b)
    | .repaired =>
        if wildVar a != wildVar b then .stop
        else match boundOf a, boundOf b with
          | none, none => .skip
          | some a', some b' => .go (some a') (some b')
          | _, _ => .stop
  else .go (some a) (some b)

mutual
/-- `unify_types(t1, t2, factory, same_type)` with fuel -/
def unifyF : Nat → Variant → List (String × String) → Option Ty → Bool → Ty → Ty → UR
  | 0, _, _, _, _, _, _ => .fuel
  | f+1, v, bn, fac, st, t1, t2 =>
    if st && pyClass t1 != pyClass t2 then .ok []
    else if !st && pyName bn t1 != pyName bn t2 && !t2.isTVar then
      match (sups t1).getLast? with
      | none => .ok []
      | some s => unifyF f v bn fac st s t2
    else if t2.isTVar then varCase fac t1 t2
    else
      match t1 with
      | param _ con as _ =>
          (match t2 with
           | param _ con' bs _ =>
               if !(beq con con') then .ok [] else unifyArgs f v bn fac as bs []
           | _ => .attrError)
      | _ => .ok []
/-- the loop over `t1.type_args`; `m` is `type_var_map` so far -/
def unifyArgs : Nat → Variant → List (String × String) → Option Ty → List Ty → List Ty → UMap → UR
  | 0, _, _, _, _, _, _ => .fuel
  | _+1, _, _, _, [], _, m => .ok m
  | _+1, _, _, _, _ :: _, [], _ => .indexError
  | f+1, v, bn, fac, a :: as, b :: bs, m =>
    match unwrapProj v a b with
    | .stop => .ok []
    | .skip => unifyArgs f v bn fac as bs m
    | .go _ none => .attrError                       -- `None.has_type_variables()`
    | .go a' (some b2) =>
      match hasTVE b2 with
      | none => .notImpl
      | some false => if beqO a' (some b2) then unifyArgs f v bn fac as bs m else .ok []
      | some true =>
        match b2 with
        | tparam _ _ (some bd) =>
            (match a' with
             | none => .attrError                    -- `None.is_subtype(...)`
             | some a1 =>
               ofRes (isSubtype a1 bd)
                 (match updateMap m b2 a' with
                  | none => .ok []
                  | some m' => unifyArgs f v bn fac as bs m')
                 (if bd.isParam && a1.isParam then
                    match unifyF f v bn fac true a1 bd with
                    | .ok res =>
                        if res.isEmpty then .ok []
                        else (match mergeMap m res with
                              | none => .ok []
                              | some m' => unifyArgs f v bn fac as bs m')
                    | e => e
                  else .ok []))
        | tparam _ _ none =>
            (match updateMap m b2 a' with
             | none => .ok []
             | some m' => unifyArgs f v bn fac as bs m')
        | param .. =>
            (match a' with
             | some a1 =>
               if a1.isParam then
                 match unifyF f v bn fac true a1 b2 with
                 | .ok res =>
                     if res.isEmpty then .ok []
                     else (match mergeMap m res with
                           | none => .ok []
                           | some m' => unifyArgs f v bn fac as bs m')
                 | e => e
               else .ok []
             | none => .ok [])
        | _ => .ok []
end

/-- fuel that always suffices (`Proofs/UnifyFuel.lean`) -/
def unifyFuel (t1 t2 : Ty) : Nat := size t1 + size t2 + 1

/-- `unify_types(t1, t2, factory, same_type)` of variant `v` -/
def unifyV (v : Variant) (bn : List (String × String)) (fac : Option Ty) (st : Bool) (t1 t2 : Ty) : UR :=
  unifyF (unifyFuel t1 t2) v bn fac st t1 t2

/-- `unify_types` of the tree the framework is checked against -/
def unify (bn : List (String × String)) (fac : Option Ty) (st : Bool) (t1 t2 : Ty) : UR :=
  unifyV Variant.current bn fac st t1 t2

/-- the result as a substitution, when no value is `None` -/
def UMap.toTMap? : UMap → Option TMap
  | [] => some []
  | (k, some v) :: rest => (UMap.toTMap? rest).map fun r => (k, v) :: r
  | (_, none) :: _ => none

end Unify
end Heph
