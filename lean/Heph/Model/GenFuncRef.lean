import Heph.Model.Subst
import Heph.Model.GenVar
/-!
# Decision points `_is_sigtype_compatible`, `_gen_func_call_ref`, `_gen_func_ref`:
# which declarations / variables of function type may be referenced where a type is expected

```
def _is_sigtype_compatible(self, attr, etype, type_var_map, check_signature, subtype,
                           get_attr_type=lambda x, y: tp.substitute_type(x.get_type(), y)):
    attr_type = get_attr_type(attr, type_var_map)
    if not check_signature:
        if subtype:
            return attr_type.is_assignable(etype)
        return attr_type == etype
    param_types = [tp.substitute_type(p.get_type(), type_var_map) for p in attr.params]
    sig = tp.ParameterizedType(self.bt_factory.get_function_type(len(attr.params)),
                               param_types + [attr_type])
    return etype == sig
```
The only other `get_attr_type` the generator passes (`_get_matching_objects`) is
`substitute_type(x.get_type(), y).type_args[-1] if not signature and func_ref else
substitute_type(x.get_type(), y)`: the two modes `whole` / `lastArg`.

```
# _gen_func_call_ref(etype, only_leaves, subtype)
variables = self.context.get_vars(self.namespace).values()
if self._inside_java_lambda: variables = <final or local to the lambda>
for var in variables:
    var_type = var.get_type()
    if not getattr(var_type, 'is_function_type', lambda: False)(): continue
    ret_type = var_type.type_args[-1]
    if (subtype and ret_type.is_assignable(etype)) or ret_type == etype:
        refs.append((var_type, var.name, None))
if not refs:
    objs = self._get_matching_objects(etype, subtype, 'fields', signature=False, func_ref=True)
    refs = [(tp.substitute_type(obj.attr_decl.get_type(), obj.receiver_inst),
             obj.attr_decl.name, obj.receiver_expr) for obj in objs]
if not refs: return None
signature, name, receiver = ut.random.choice(refs)
for param_type in signature.type_args[:-1]:
    ... self.generate_expr(param_type, ...)
return ast.FunctionCall(name, args, receiver=receiver, is_ref_call=True)
```
The random choice is an input: the model computes the list it draws from and, for the drawn
reference, the expected types of the arguments.
-/
namespace Heph
namespace Check
open Heph.Ty

/-- `t.type_args` (of a `ParameterizedType`; `AttributeError` elsewhere is `none` in `lastArg`) -/
def typeArgs : Ty → List Ty | param _ _ as _ => as | _ => []

/-- `getattr(t, 'is_function_type', lambda: False)()`: `Type.is_function_type` is `False`,
    `ParameterizedType.is_function_type` is `self.t_constructor.name.startswith('Function')` -/
def isFunctionType : Ty → Bool
  | param _ con _ _ => "Function".toList.isPrefixOf (conName con).toList
  | _ => false

/-- a field or function declaration as the matching code reads it: `name`, `get_type()` (a
    function's return type), the parameter types, and — read only when a signature is checked —
    `bt_factory.get_function_type(len(params))` -/
structure AttrSig where
  name : String
  ty : Ty
  params : List Ty
  fnCon : Ty
deriving Inhabited

/-- the two `get_attr_type` functions of the generator -/
inductive AttrMode | whole | lastArg
deriving BEq, DecidableEq, Inhabited

/-- `get_attr_type(attr, type_var_map)`; `none` = `IndexError` / `AttributeError` of `type_args[-1]` -/
def attrTypeOf (mode : AttrMode) (a : AttrSig) (m : TMap) : Option Ty :=
  match mode with
  | .whole => some (substituteType a.ty m)
  | .lastArg => (typeArgs (substituteType a.ty m)).getLast?

/-- the signature type `_is_sigtype_compatible` builds: `Function_n<params[m]..., attr_type>` -/
def sigOf (a : AttrSig) (m : TMap) (attrTy : Ty) : Ty :=
  mkP a.fnCon (a.params.map (fun p => substituteType p m) ++ [attrTy])

/-- `_is_sigtype_compatible(attr, etype, type_var_map, check_signature, subtype, get_attr_type)` -/
def sigtypeCompatible (extra : List (String × String)) (a : AttrSig) (etype : Ty) (m : TMap)
    (checkSig sub : Bool) (mode : AttrMode) : Res :=
  match attrTypeOf mode a m with
  | none => .attrError
  | some aty =>
      if !checkSig then
        if sub then isAssignable extra aty etype else Res.ofBool (beq aty etype)
      else Res.ofBool (beq etype (sigOf a m aty))

/-! ## `_gen_func_call_ref` -/

/-- the filter of the loop over the variables in scope -/
def funcCallRefKeeps (extra : List (String × String)) (etype : Ty) (sub jl : Bool) (v : VarInfo) : Bool :=
  (!jl || v.final || !v.outer) && isFunctionType v.ty &&
    (match (typeArgs v.ty).getLast? with
     | none => false
     | some ret => (sub && isAssignable extra ret etype == .yes) || beq ret etype)

/-- a reference `random.choice` may draw: `(signature, name, receiver is None)` -/
structure FuncRefCand where
  sig : Ty
  name : String
  noReceiver : Bool
deriving Inhabited

/-- an object returned by `_get_matching_objects`, as `_gen_func_call_ref` reads it:
    `attr_decl.get_type()`, `attr_decl.name`, `receiver_inst` -/
structure MatchedObj where
  attrTy : Ty
  name : String
  inst : TMap
deriving Inhabited

/-- first stage: the variables of function type in scope -/
def funcCallRefVars (extra : List (String × String)) (vars : List VarInfo) (etype : Ty) (sub jl : Bool) :
    List FuncRefCand :=
  (vars.filter (funcCallRefKeeps extra etype sub jl)).map fun v => ⟨v.ty, v.name, true⟩

/-- the list `random.choice` draws from; `objs` = what `_get_matching_objects` returned (read
    only when no variable qualifies) -/
def funcCallRefCandidates (extra : List (String × String)) (vars : List VarInfo) (objs : List MatchedObj)
    (etype : Ty) (sub jl : Bool) : List FuncRefCand :=
  let refs := funcCallRefVars extra vars etype sub jl
  if refs.isEmpty then objs.map fun o => ⟨substituteType o.attrTy o.inst, o.name, false⟩ else refs

/-- what `_gen_func_call_ref` did: `None`, or a reference call to `name` whose arguments were
    generated at the expected types `argTys` -/
inductive FuncCallRefOut where
  | none
  | call (name : String) (noReceiver : Bool) (argTys : List Ty)
deriving Inhabited

/-- the refinement checked on every recorded call: `None` exactly when there is nothing to draw
    from, otherwise the call is to a member of the list and its arguments are generated at
    `signature.type_args[:-1]` of that member (`same`: the comparison of exported types, the
    driver passes structural equality) -/
def funcCallRefRefines (same : List Ty → List Ty → Bool) (extra : List (String × String))
    (vars : List VarInfo) (objs : List MatchedObj) (etype : Ty) (sub jl : Bool) : FuncCallRefOut → Bool
  | .none => (funcCallRefCandidates extra vars objs etype sub jl).isEmpty
  | .call n nr argTys =>
      (funcCallRefCandidates extra vars objs etype sub jl).any fun c =>
        c.name == n && c.noReceiver == nr && same (typeArgs c.sig).dropLast argTys

/-! ## `_gen_func_ref`

```
funcs = self._get_matching_function_declarations(etype, False, signature=True)
for func in funcs:
    if func.attr_decl.name == self.namespace[-1]: continue
    refs.append(ast.FunctionReference(func.attr_decl.name, func.receiver_expr, etype))
if refs: return ut.random.choice(refs)
```
-/

/-- the references offered for the signature `etype`: the matching declarations that are not the
    function being generated -/
def funcRefCandidates (funcs : List AttrSig) (self : String) : List AttrSig :=
  funcs.filter fun f => f.name != self

end Check
end Heph
