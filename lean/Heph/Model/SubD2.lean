import Heph.Model.Subst
/-!
# `isSubD`: a small executable *declarative* subtype decider (specification side of C08)

It judges "argument within bound" for the instantiation helpers.  Unlike the model of the
code's `is_subtype` (`Ty.isSub`) it is reflexive on type variables (through `==`), follows
bound chains of type variables, identifies a primitive with its box (`==` does), knows the
bottom types, walks the stored supertypes, and compares instantiations of one constructor
argument by argument (declaration-site variance, use-site projections, star contains
everything).  It is proved sound w.r.t. `SubT U` for **every** fuel in
`Proofs/SubD2Sound.lean` (`isSubD_sound`); it is only ever used to *accept*: a `false` answer
(also when the fuel runs out) makes the checker flag the case, which is then triaged.

Written for C08 (the decider of C01 lives in another clone and targets another relation).
-/
namespace Heph
namespace Ty
namespace D2

/-- the languages' bottom built-ins and the `Nothing` classifier -/
def isBottomTy : Ty → Bool
  | nothing => true
  | builtin _ _ nt _ _ => nt
  | _ => false

/-- `some (variance, bound)` for a use-site projection, `none` for every other type -/
def asProj : Ty → Option (Nat × Option Ty)
  | wild v bd => some (v, bd)
  | _ => none

mutual
def isSubD : Nat → Ty → Ty → Bool
  | 0, _, _ => false
  | f+1, s, t =>
    beq s t || beq t s || isBottomTy s ||
    (match s with
     | tparam _ _ (some bd) => isSubD f bd t
     | _ => false) ||
    (match asProj s, asProj t with
     | some (vs, some sb), some (vt, some ob) => vs == 1 && vt == 1 && isSubD f sb ob
     | _, _ => false) ||
    anySubD f (sups s) t ||
    (match s, t with
     | param _ con as _, param _ con' bs _ => beq con con' && argsD f (conParams con) as bs
     | _, _ => false)
/-- some stored supertype is below `t` -/
def anySubD : Nat → List Ty → Ty → Bool
  | 0, _, _ => false
  | _+1, [], _ => false
  | f+1, u :: us, t => isSubD f u t || anySubD f us t
/-- the arguments `as` are contained in `bs`, position by position (equal lengths required) -/
def argsD : Nat → List Ty → List Ty → List Ty → Bool
  | 0, _, _, _ => false
  | _+1, [], [], [] => true
  | f+1, tp :: tps, a :: as, b :: bs => argD f tp a b && argsD f tps as bs
  | _+1, _, _, _ => false
/-- `a` is contained in `b` at type parameter `tp` -/
def argD : Nat → Ty → Ty → Ty → Bool
  | 0, _, _, _ => false
  | f+1, tp, a, b =>
    beq a b ||
    (match asProj a, asProj b with
     | some (va, some x), some (vb, some y) =>
         (va == 1 && vb == 1 && isSubD f x y) || (va == 2 && vb == 2 && isSubD f y x)
     | some (_, none), _ => false
     | _, some (_, none) => true
     | some (va, some x), none =>
         (va == 1 && variance tp == 1 && isSubD f x b) || (va == 2 && variance tp == 2 && isSubD f b x)
     | none, some (vb, some y) => (vb == 1 && isSubD f a y) || (vb == 2 && isSubD f y a)
     | none, none => (variance tp == 1 && isSubD f a b) || (variance tp == 2 && isSubD f b a))
end

/-- fuel used at top level: generous w.r.t. the sizes of the two types -/
def subDFuel (s t : Ty) : Nat := 4 * (size s + size t) + 16

def isSubDTop (s t : Ty) : Bool := isSubD (subDFuel s t) s t

end D2
end Ty
end Heph
