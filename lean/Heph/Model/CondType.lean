import Heph.Model.Types
/-!
# Decision point `gen_conditional`: the recorded type of a generated `Conditional`

```
cond_type = functools.reduce(lambda acc, x: acc if x.is_subtype(acc) else x,
                             [true_type, false_type], tmp_t)
```
`true_type`, `false_type`, `tmp_t` are three independent draws from the subtypes of the expected
type.  `condType sub tmp t f` is that fold for an arbitrary subtype test `sub`.
-/
namespace Heph
namespace Check

/-- the fold of `gen_conditional` -/
def condType {α : Type} (sub : α → α → Bool) (tmp t f : α) : α :=
  [t, f].foldl (fun acc x => if sub x acc then acc else x) tmp

/-- the fold with the model of the code's `is_subtype` -/
def condTypeTy (tmp t f : Ty) : Ty := condType (fun x acc => Ty.isSubtype x acc == .yes) tmp t f

end Check
end Heph
