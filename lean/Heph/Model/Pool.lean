/-!
# The identifier pool of `src/utils.py` (`RandomUtils`) and `gen_identifier`

* `RandomUtils.WORDS` / `INITIAL_WORDS` are Python sets of words; here lists read as sets
  (`word` removes *every* occurrence of the drawn word, so no invariant on duplicates is needed).
* `word()` is `r.choice(tuple(WORDS))` followed by `WORDS.remove(word)`.  Which element `choice`
  picks depends on the generator state and on the iteration order of the set; the model takes
  the chosen word as input (the harness records what the real `word()` returned and feeds it
  back) and answers `none` if that word is not in the pool — a real run never does that.
* `remove_reserved_words(language)` is a set difference with the keyword file of the
  language: **case-sensitive**, `removeReserved`.  `removeReservedFixed` is the proposed repair
  (`fixes/C05-reserved-words.diff`): a word goes if it equals a keyword up to case.
  `codeIsFixed` is THE switch: `removeReservedCurrent` names the variant the code currently
  implements; the correspondence check and `Props/C05.identifier_not_reserved` are stated about it.
* `gen_identifier(None | 'lower' | 'capitalize')` is `word()`, `word().lower()`,
  `word().capitalize()`.  `lower`/`capitalize` model `str.lower`/`str.capitalize` on ASCII
  (`Char.toLower`/`Char.toUpper`); the word file is pure `[a-z]+` (checked by
  `harness/regen_c05.py` on every run and recorded in `Generated/Keywords.lean`).
* `caps(length, blacklist)` re-samples until the result is not in the blacklist; the model
  takes the successive samples as input.

Core Lean only.
-/
namespace Heph.Pool

def lower (w : String) : String := String.ofList (w.toList.map Char.toLower)

/-- `str.capitalize`: first character upper-cased, the rest lower-cased -/
def capitalize (w : String) : String :=
  match w.toList with
  | [] => ""
  | c :: cs => String.ofList (c.toUpper :: cs.map Char.toLower)

inductive Mode | plain | lower | capitalize
deriving Repr, DecidableEq, Inhabited

def Mode.all : List Mode := [.plain, .lower, .capitalize]

/-- `gen_identifier(ident_type)` applied to the word that `word()` returned -/
def genIdentifier : Mode → String → String
  | .plain, w => w
  | .lower, w => lower w
  | .capitalize, w => capitalize w

/-- the class attributes `INITIAL_WORDS`, `WORDS` of `RandomUtils` -/
structure Pool where
  initial : List String
  words : List String
deriving Repr, Inhabited

/-- `reset_word_pool` -/
def Pool.reset (p : Pool) : Pool := { p with words := p.initial }

/-- `word()` when `r.choice` picks `choice` -/
def Pool.word (p : Pool) (choice : String) : Option (String × Pool) :=
  if choice ∈ p.words then some (choice, { p with words := p.words.filter (· != choice) }) else none

/-- a history of draws -/
def Pool.draws (p : Pool) : List String → Option (List String × Pool)
  | [] => some ([], p)
  | c :: cs => match p.word c with
    | none => none
    | some (w, p') => match p'.draws cs with
      | none => none
      | some (ws, p'') => some (w :: ws, p'')

/-- set difference, case-sensitive: what `remove_reserved_words` does -/
def removeReserved (pool kw : List String) : List String := pool.filter fun w => !kw.contains w

/-- the repair: a word is dropped if it equals a keyword up to (ASCII) case -/
def removeReservedFixed (pool kw : List String) : List String :=
  pool.filter fun w => !(kw.map lower).contains (lower w)

/-- both variants under one name -/
def removeReservedVariant (fixed : Bool) : List String → List String → List String :=
  if fixed then removeReservedFixed else removeReserved

/-- **THE SWITCH** (the only definition to change): does the code under test implement the repaired
    removal?  `false` = `/repo` as it is (case-sensitive set difference).  After applying
    `fixes/C05-reserved-words.diff` to `/repo` set it to `true`: the correspondence check
    (`check_C05`, stream "pool") then matches the repaired code, and
    `Props/C05.identifier_not_reserved_status` turns into the statement that the full property holds. -/
def codeIsFixed : Bool := true

/-- the variant the code under test implements -/
def removeReservedCurrent : List String → List String → List String := removeReservedVariant codeIsFixed

/-- `remove_reserved_words(language)` with the keyword set `kw` of the language -/
def Pool.removeReservedWords (p : Pool) (kw : List String) : Pool :=
  { initial := removeReservedCurrent p.initial kw, words := removeReservedCurrent p.words kw }

/-- `caps(length, blacklist)`: `samples` are the successive results of
    `''.join(r.sample(ascii_uppercase, length))`; `none` = the loop has not ended yet -/
def caps (samples blacklist : List String) : Option String := samples.find? fun s => !blacklist.contains s

end Heph.Pool
