import Heph.Model.Types
/-!
# The declarative subtype relation of the IR (specification side of C06)

`SubT s t` is the relation *induced by the class hierarchy, declaration-site variance, use-site
projections and type-parameter bounds*:

* equality is the IR's own (`beq`: a primitive and its box are the same built-in class);
* `Nothing` (the classifier and the languages' bottom built-ins) is below everything;
* a nominal step goes to a stored supertype (for an instantiation these are the declared
  supertypes under the substitution of C07 — that is what `TypeConstructor.new` stores);
* two instantiations of the same constructor are related when every argument is *contained*
  in the corresponding one (`Cont`), by declaration-site variance or by a use-site projection
  of the target (Kotlin specification, "type containment"); a star projection contains
  everything;
* a type variable is below its bound; two covariant projections compare by their bounds;
* reflexivity (through `beq`) and transitivity are explicit.

`wf` is the decidable well-formedness the soundness theorem assumes: variances are 0/1/2 and a
bounded use-site projection never contradicts the declaration-site variance of its parameter.
-/
namespace Heph
namespace Ty

mutual
inductive SubT : Ty → Ty → Prop
  | refl {s t} : beq s t = true → SubT s t
  | reflR {s t} : beq t s = true → SubT s t
  | trans {s u t} : SubT s u → SubT u t → SubT s t
  | bot {t} : SubT nothing t
  | botBuiltin {c nm p ss t} : SubT (builtin c nm true p ss) t
  | nominal {s u} : u ∈ sups s → SubT s u
  | tvar {nm v bd} : SubT (tparam nm v (some bd)) bd
  | projOut {sb ob} : SubT sb ob → SubT (wild 1 (some sb)) (wild 1 (some ob))
  | args {nm con as ss nm' con' bs ss'} :
      beq con con' = true → ContL (conParams con) as bs →
      SubT (param nm con as ss) (param nm' con' bs ss')
/-- per-position containment along the `zip` of parameters and the two argument lists -/
inductive ContL : List Ty → List Ty → List Ty → Prop
  | stop {tps as bs} : tps = [] ∨ as = [] ∨ bs = [] → ContL tps as bs
  | cons {tp tps a as b bs} : Cont tp a b → ContL tps as bs → ContL (tp :: tps) (a :: as) (b :: bs)
/-- `Cont tp a b`: argument `a` is contained in argument `b` at type parameter `tp` -/
inductive Cont : Ty → Ty → Ty → Prop
  | same {tp a b} : beq a b = true → Cont tp a b
  | declCo {tp a b} : variance tp = 1 → isWild a = false → isWild b = false → SubT a b → Cont tp a b
  | declContra {tp a b} : variance tp = 2 → isWild a = false → isWild b = false → SubT b a → Cont tp a b
  | useOut {tp a bd} : isWild a = false → SubT a bd → Cont tp a (wild 1 (some bd))
  | useIn {tp a bd} : isWild a = false → SubT bd a → Cont tp a (wild 2 (some bd))
  | outOut {tp bd bd'} : SubT bd bd' → Cont tp (wild 1 (some bd)) (wild 1 (some bd'))
  | inIn {tp bd bd'} : SubT bd' bd → Cont tp (wild 2 (some bd)) (wild 2 (some bd'))
  | star {tp a v} : (isWild a = false ∨ (boundOf a).isSome) → Cont tp a (wild v none)
  /-- a projection that agrees with the declared variance of its position is the type itself -/
  | projDeclCo {tp bd b} : variance tp = 1 → isWild b = false → SubT bd b → Cont tp (wild 1 (some bd)) b
  | projDeclContra {tp bd b} : variance tp = 2 → isWild b = false → SubT b bd → Cont tp (wild 2 (some bd)) b
end

/-- a bounded projection in argument position agrees with the declared variance of the parameter -/
def projOK : List Ty → List Ty → Bool
  | tp :: tps, a :: as =>
      (match a with
       | wild v (some _) => (variance tp == 0 || variance tp == v) && (v == 1 || v == 2)
       | _ => true) && variance tp ≤ 2 && projOK tps as
  | _, _ => true

mutual
/-- decidable well-formedness assumed by the soundness theorem -/
def wf : Ty → Bool
  | builtin _ _ _ _ ss => wfL ss
  | simple _ ss => wfL ss
  | tparam _ v bd => decide (v ≤ 2) && wfO bd
  | wild v bd => decide (v ≤ 2) && wfO bd
  | tcon _ _ ps ss => wfL ps && wfL ss
  | param _ con as ss => wf con && wfL as && wfL ss && projOK (conParams con) as
  | nothing => true
  | ext _ => true
def wfL : List Ty → Bool
  | [] => true
  | x :: xs => wf x && wfL xs
def wfO : Option Ty → Bool
  | none => true
  | some x => wf x
end

end Ty
end Heph
