import Heph.Model.Types
/-!
# The declarative subtype relation of the IR (specification side of C06)

`SubT s t` is the relation *induced by the class hierarchy, declaration-site variance, use-site
projections and type-parameter bounds*:

* equality is the IR's own (`beq`: a primitive and its box are the same built-in class);
* `Nothing` (the classifier and the languages' bottom built-ins) is below everything;
* a nominal step goes to a stored supertype (for an instantiation these are the declared
  supertypes under the substitution of C07 — that is what `TypeConstructor.new` stores);
* two instantiations of the same constructor are related when every argument is *contained*
  in the corresponding one (`Cont`), by declaration-site variance or by a use-site projection
  of the target (Kotlin specification, "type containment"); a star projection contains
  everything;
* a type variable is below its bound; two covariant projections compare by their bounds;
* reflexivity (through `beq`) and transitivity are explicit.

The relation is relative to a *universe* `U` of types (the types that can be written over the
class table at hand: `U` is closed under immediate sub-terms, `ClosedU`): the middle type of a
`trans` step must belong to `U`.  Without this restriction the relation would be trivial,
because `beq` identifies every two built-ins of the same class whatever their supertypes are:
through a foreign copy `Any'` of `Any` whose stored supertype is `String`, one would derive
`A ≤ A' ≤ Any' ≤ String` for every class `A : Any`.  In the universe of one class table, equal
classes have equal supertypes (that is what "completed class table" means) and the relation is
the intended one.  `univ [s, t]` is the least universe that contains `s` and `t`.

`wf` is the decidable well-formedness the soundness theorem assumes: variances are 0/1/2 and a
bounded use-site projection never contradicts the declaration-site variance of its parameter.
-/
namespace Heph
namespace Ty

/-- immediate sub-terms of a type -/
def children : Ty → List Ty
  | builtin _ _ _ _ ss => ss
  | simple _ ss => ss
  | tparam _ _ bd => bd.toList
  | wild _ bd => bd.toList
  | tcon _ _ ps ss => ps ++ ss
  | param _ con as ss => con :: (as ++ ss)
  | _ => []

/-- a universe of types: closed under immediate sub-terms -/
def ClosedU (U : Ty → Prop) : Prop := ∀ x, U x → ∀ y ∈ children x, U y

mutual
/-- all sub-terms of a type (itself included) -/
def subterms : Ty → List Ty
  | builtin c nm nt p ss => builtin c nm nt p ss :: subtermsL ss
  | simple nm ss => simple nm ss :: subtermsL ss
  | tparam nm v bd => tparam nm v bd :: subtermsO bd
  | wild v bd => wild v bd :: subtermsO bd
  | tcon c nm ps ss => tcon c nm ps ss :: (subtermsL ps ++ subtermsL ss)
  | param nm con as ss => param nm con as ss :: (subterms con ++ (subtermsL as ++ subtermsL ss))
  | t => [t]
def subtermsL : List Ty → List Ty
  | [] => []
  | x :: xs => subterms x ++ subtermsL xs
def subtermsO : Option Ty → List Ty
  | none => []
  | some x => subterms x
end

/-- the least universe containing the types `ts` -/
def univ (ts : List Ty) : Ty → Prop := fun x => x ∈ subtermsL ts

/-- a universe is *consistent* when `==` on its members is structural equality: one class, one
    declaration (same name ⇒ same type parameters and supertypes).  True of the types written
    over one completed class table as long as a primitive and its box (which are `==`) do not
    both occur. Not needed for soundness; it is the hypothesis of exactness statements. -/
def Consistent (U : Ty → Prop) : Prop := ∀ x y, U x → U y → beq x y = true → x = y

mutual
inductive SubT (U : Ty → Prop) : Ty → Ty → Prop
  | refl {s t} : beq s t = true → SubT U s t
  | reflR {s t} : beq t s = true → SubT U s t
  | trans {s u t} : U u → SubT U s u → SubT U u t → SubT U s t
  | bot {t} : SubT U nothing t
  | botBuiltin {c nm p ss t} : SubT U (builtin c nm true p ss) t
  | nominal {s u} : u ∈ sups s → SubT U s u
  | tvar {nm v bd} : SubT U (tparam nm v (some bd)) bd
  | projOut {sb ob} : SubT U sb ob → SubT U (wild 1 (some sb)) (wild 1 (some ob))
  | args {nm con as ss nm' con' bs ss'} :
      beq con con' = true → ContL U (conParams con) as bs →
      SubT U (param nm con as ss) (param nm' con' bs ss')
/-- per-position containment along the `zip` of parameters and the two argument lists -/
inductive ContL (U : Ty → Prop) : List Ty → List Ty → List Ty → Prop
  | stop {tps as bs} : tps = [] ∨ as = [] ∨ bs = [] → ContL U tps as bs
  | cons {tp tps a as b bs} : Cont U tp a b → ContL U tps as bs → ContL U (tp :: tps) (a :: as) (b :: bs)
/-- `Cont U tp a b`: argument `a` is contained in argument `b` at type parameter `tp` -/
inductive Cont (U : Ty → Prop) : Ty → Ty → Ty → Prop
  | same {tp a b} : beq a b = true → Cont U tp a b
  | declCo {tp a b} : variance tp = 1 → isWild a = false → isWild b = false → SubT U a b → Cont U tp a b
  | declContra {tp a b} : variance tp = 2 → isWild a = false → isWild b = false → SubT U b a → Cont U tp a b
  | useOut {tp a bd} : isWild a = false → SubT U a bd → Cont U tp a (wild 1 (some bd))
  | useIn {tp a bd} : isWild a = false → SubT U bd a → Cont U tp a (wild 2 (some bd))
  | outOut {tp bd bd'} : SubT U bd bd' → Cont U tp (wild 1 (some bd)) (wild 1 (some bd'))
  | inIn {tp bd bd'} : SubT U bd' bd → Cont U tp (wild 2 (some bd)) (wild 2 (some bd'))
  | star {tp a v} : (isWild a = false ∨ (boundOf a).isSome) → Cont U tp a (wild v none)
  /-- a projection that agrees with the declared variance of its position is the type itself -/
  | projDeclCo {tp bd b} : variance tp = 1 → isWild b = false → SubT U bd b → Cont U tp (wild 1 (some bd)) b
  | projDeclContra {tp bd b} : variance tp = 2 → isWild b = false → SubT U b bd → Cont U tp (wild 2 (some bd)) b
end

/-- a bounded projection in argument position agrees with the declared variance of the parameter -/
def projOK : List Ty → List Ty → Bool
  | tp :: tps, a :: as =>
      (match a with
       | wild v (some _) => (variance tp == 0 || variance tp == v) && (v == 1 || v == 2)
       | _ => true) && variance tp ≤ 2 && projOK tps as
  | _, _ => true

mutual
/-- decidable well-formedness assumed by the soundness theorem -/
def wf : Ty → Bool
  | builtin _ _ _ _ ss => wfL ss
  | simple _ ss => wfL ss
  | tparam _ v bd => decide (v ≤ 2) && wfO bd
  | wild v bd => decide (v ≤ 2) && wfO bd
  | tcon _ _ ps ss => wfL ps && wfL ss
  | param _ con as ss => wf con && wfL as && wfL ss && projOK (conParams con) as
  | nothing => true
  | ext _ => true
def wfL : List Ty → Bool
  | [] => true
  | x :: xs => wf x && wfL xs
def wfO : Option Ty → Bool
  | none => true
  | some x => wf x
end

end Ty
end Heph
