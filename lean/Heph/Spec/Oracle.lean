import Heph.Model.Oracle
/-!
# The decision table of C15, stated declaratively

A program of a compiled batch is *faulty* iff the tool itself failed on it, or the compiler
crashed on the batch, or a file expected to compile is among the files the compiler reported
an error for, or a file expected to be rejected is not.  Nothing here mentions the loops of
`check_oracle`.
-/
namespace Heph.Oracle

/-- a file expected to compile was rejected -/
def Prog.correctRejected (o : Outcome) (p : Prog) : Bool :=
  p.files.any fun f => f.2 && o.isFailed f.1

/-- the program has a variant that is expected to be rejected -/
def Prog.hasIncorrect (p : Prog) : Bool := p.files.any fun f => !f.2

/-- a file expected to be rejected was accepted -/
def Prog.incorrectAccepted (o : Outcome) (p : Prog) : Bool :=
  p.files.any fun f => !f.2 && !o.isFailed f.1

/-- the decision table -/
def faulty (o : Outcome) (p : Prog) : Bool :=
  p.toolFailed || o.crash.isSome || p.correctRejected o || (p.hasIncorrect && p.incorrectAccepted o)

/-- a fault of the compiler (there is a test case to save) -/
def compilerFault (o : Outcome) (p : Prog) : Bool := !p.toolFailed && faulty o p

/-- the message a reported fault carries, for a program as `gen_program` produces it
    (`files = [(c, true)]` or `[(c, true), (i, false)]`) -/
def expectedMsg (o : Outcome) (p : Prog) : Option String :=
  if p.toolFailed then p.err
  else match o.crash with
    | some m => some m
    | none =>
      match p.files with
      | [(c, true)] => some (joinLines (o.msgs c))
      | [(c, true), (i, false)] =>
        match o.isFailed c, o.isFailed i with
        | true, true => some (joinLines (o.msgs c))
        | false, false => p.err.map (snbc ++ ·)
        | true, false => p.err.map fun e => joinLines (o.msgs c) ++ "\n" ++ (snbc ++ e)
        | false, true => none
      | _ => none

/-- `stats['programs']` as `gen_program` builds it -/
def GenShape (p : Prog) : Prop :=
  (∃ c, p.files = [(c, true)]) ∨ (∃ c i, p.files = [(c, true), (i, false)] ∧ p.err.isSome)

/-- what `_run` guarantees when it calls `check_oracle`: the batch directory exists, every
    program the tool did not fail on has its staging copy `tmp/<pid>`, no test case has been
    saved under a pid of the batch, pids are distinct (keys of a dict), and a program with an
    ill-typed variant carries the description of the injected error -/
structure Staged (b : Batch) (fs : FS) : Prop where
  dir : Path.batch b.dir ∈ fs
  tmp : ∀ p ∈ b.progs, p.toolFailed = false → Path.tmp p.pid ∈ fs
  fresh : ∀ p ∈ b.progs, Path.saved p.pid ∉ fs
  nodup : (b.progs.map (·.pid)).Nodup
  inj : ∀ p ∈ b.progs, p.toolFailed = false → p.hasIncorrect = true → p.err.isSome = true

end Heph.Oracle
