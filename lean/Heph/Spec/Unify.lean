import Heph.Model.Unify
import Heph.Spec.Subtyping
/-!
# Specification side of C10: what it means that an assignment unifies a pattern with a target

`Matches strict σ t p` — *applying `σ` to the pattern `p` yields the target `t` up to variables
`σ` leaves open, and at every open position the target's component satisfies the variable's
bound under `σ`*:

* `ground`: nothing to substitute in `p`, and `t == p` (the IR's equality);
* `var`: `p` is a type variable that `σ` assigns, and the assigned type `== t`;
* `openVar`: `p` is a bounded type variable left open; the target's component (an instantiation)
  satisfies the bound under `σ`, i.e. it matches the (parameterized) bound recursively.  With
  `strict = true` the variable must really be unassigned by `σ` (the property as stated); with
  `strict = false` an assigned variable may also count as open at some position;
* `app`: two instantiations of the same constructor whose arguments match position-wise
  (`MatchesL` follows the loop over the target's arguments; the two lists have the same length
  for all types built by `ParameterizedType.__init__`, which asserts it);
* arguments (`MatchesArg`): equal projections/arguments without variables, two projections of the
  **same variance** whose bounds match, or a non-projection pattern argument that matches.

`IsUnifier st σ t p`: `Matches true` for `t` itself (`same_type`), or for some `t'` in the chain
of last supertypes of `t` (supertype mode).  `BoundsOK`, `Functional` as in the property.

The hypotheses under which the *unchanged* `unify_types` is sound are Boolean functions that
follow the recursion of the function (`allMetF`): `SameProjection` (whenever the loop meets two
projections their variances agree), `NoStar` (… both have a bound).  For the repaired variant
they are not needed (`hypOf .repaired = fun _ _ => true`).
-/
namespace Heph
namespace Unify
open Heph.Ty

mutual
inductive Matches (strict : Bool) (σ : UMap) : Ty → Ty → Prop
  | ground {t p} : hasTV p = false → beq t p = true → Matches strict σ t p
  | var {t p v} : isTVar p = true → σ.get p = some (some v) → beq v t = true → Matches strict σ t p
  | openVar {t nm vr b} : (strict = true → σ.get (tparam nm vr (some b)) = none) →
      isParam b = true → isParam t = true → Matches strict σ t b →
      Matches strict σ t (tparam nm vr (some b))
  | app {nm con as ss nm' con' bs ss'} : beq con con' = true → MatchesL strict σ as bs →
      Matches strict σ (param nm con as ss) (param nm' con' bs ss')
inductive MatchesL (strict : Bool) (σ : UMap) : List Ty → List Ty → Prop
  | nil {bs} : MatchesL strict σ [] bs
  | cons {a as b bs} : MatchesArg strict σ a b → MatchesL strict σ as bs →
      MatchesL strict σ (a :: as) (b :: bs)
inductive MatchesArg (strict : Bool) (σ : UMap) : Ty → Ty → Prop
  | same {a b} : hasTV b = false → beq a b = true → MatchesArg strict σ a b
  | proj {v a b} : Matches strict σ a b → MatchesArg strict σ (wild v (some a)) (wild v (some b))
  | plain {a b} : isWild b = false → Matches strict σ a b → MatchesArg strict σ a b
end

/-- `t'` is `t` (`same_type`) or an element of the chain `t, t.supertypes[-1], …` -/
inductive LastSup : Bool → Ty → Ty → Prop
  | here {st t} : LastSup st t t
  | up {t s t'} : (sups t).getLast? = some s → LastSup false s t' → LastSup false t t'

/-- **the unifier property** (strict = the property as stated) -/
def IsUnifierG (strict : Bool) (st : Bool) (σ : UMap) (t p : Ty) : Prop :=
  ∃ t', LastSup st t t' ∧ Matches strict σ t' p

abbrev IsUnifier := IsUnifierG true
/-- the weaker reading: a variable that `σ` assigns may still be treated as open at a position
    where the target's component matches its bound -/
abbrev IsUnifierW := IsUnifierG false

/-- `v` satisfies the bound `b`: declaratively a subtype, or a type variable whose own
    (recursive, variable-free) bound is one -/
def SatBound (U : Ty → Prop) (fac : Option Ty) (v b : Ty) : Prop :=
  SubT U v b ∨ (isTVar v = true ∧ ∃ bv, getBoundRec v fac = .ok (some bv) ∧ SubT U bv b)

/-- the type assigned to `k` satisfies `k`'s bound (its declared bound, or its recursive
    variable-free bound `get_bound_rec`, whichever the code consulted) -/
def BoundOK1 (U : Ty → Prop) (fac : Option Ty) (k v : Ty) : Prop :=
  boundOf k = none ∨ getBoundRec k fac = .ok none ∨
  ∃ b, (boundOf k = some b ∨ getBoundRec k fac = .ok (some b)) ∧ SatBound U fac v b

def BoundsOK (U : Ty → Prop) (fac : Option Ty) (σ : UMap) : Prop :=
  ∀ k v, (k, some v) ∈ σ → BoundOK1 U fac k v

/-- no variable is given two types: the keys are pairwise different for `==` -/
def Functional (σ : UMap) : Prop := σ.Pairwise fun a b => beq a.1 b.1 = false

/-- every variable is bound to a type (no `None` values) -/
def AllSome (σ : UMap) : Prop := ∀ e ∈ σ, e.2.isSome = true

/-- no assigned variable has a parameterized bound (then an open position is really open) -/
def OpenStable (σ : UMap) : Prop := ∀ e ∈ σ, ∀ b, boundOf e.1 = some b → isParam b = false

/-! ## the hypotheses for the unchanged tree, following the recursion of `unify_types` -/

/-- the pair the loop goes on with after unwrapping two projections (`none`: it stops) -/
def unwrapPair (a b : Ty) : Option (Ty × Ty) :=
  if isWild b then
    (if isWild a then
      (match boundOf a, boundOf b with
       | some a1, some b1 => some (a1, b1)
       | _, _ => none)
     else none)
  else some (a, b)

/-- the recursive call the loop may make on an (unwrapped) pair -/
def recPair (a1 b2 : Ty) : Option (Ty × Ty) :=
  match b2 with
  | tparam _ _ (some bd) => some (a1, bd)
  | param nm con xs ss => some (a1, param nm con xs ss)
  | _ => none

mutual
/-- `chk a b` holds of every pair of arguments `(a, b)` that `unify_types(t, p)` may compare
    (an over-approximation that ignores early exits; same fuel discipline as `unifyF`) -/
def allMetF : Nat → (Ty → Ty → Bool) → Ty → Ty → Bool
  | 0, _, _, _ => true
  | f+1, chk, t, p =>
      (match (sups t).getLast? with
       | some s => allMetF f chk s p
       | none => true) &&
      (match t, p with
       | param _ _ as _, param _ _ bs _ => allMetL f chk as bs
       | _, _ => true)
def allMetL : Nat → (Ty → Ty → Bool) → List Ty → List Ty → Bool
  | 0, _, _, _ => true
  | f+1, chk, a :: as, b :: bs =>
      chk a b &&
      (match (unwrapPair a b).bind (fun q => recPair q.1 q.2) with
       | some q => allMetF f chk q.1 q.2
       | none => true) &&
      allMetL f chk as bs
  | _+1, _, _, _ => true
end

/-- two projections met by the loop have the same variance -/
def chkVariance (a b : Ty) : Bool := !(isWild a && isWild b) || wildVar a == wildVar b
/-- two projections met by the loop both have a bound -/
def chkStar (a b : Ty) : Bool := !(isWild a && isWild b) || ((boundOf a).isSome && (boundOf b).isSome)

def SameProjection (t p : Ty) : Prop := allMetF (unifyFuel t p) chkVariance t p = true
def NoStar (t p : Ty) : Prop := allMetF (unifyFuel t p) chkStar t p = true

/-- what a variant needs checked at every pair of arguments it meets -/
def hypOf : Variant → Ty → Ty → Bool
  | .asIs => fun a b => chkVariance a b && chkStar a b
  | .repaired => fun _ _ => true

/-- the hypotheses of soundness for a variant, at a given fuel -/
def HypF (v : Variant) (f : Nat) (t p : Ty) : Prop := allMetF f (hypOf v) t p = true

/-- the universe the statement is relative to: closed under sub-terms, `==` is structural
    equality on it (one class, one declaration; a primitive and its box do not both occur),
    its members are regular and well-formed, and it contains the variable-free recursive bounds
    `get_bound_rec` computes for its variables -/
structure UnivOK (U : Ty → Prop) (fac : Option Ty) : Prop where
  closed : ClosedU U
  consistent : Consistent U
  regular : ∀ x, U x → Heph.Ty.wf x = true
  refl : ∀ x, U x → beq x x = true
  boundRec : ∀ k b, U k → getBoundRec k fac = .ok (some b) → U b

end Unify
end Heph
