import Heph.Model.Graph
/-!
# Declarative definitions for the graph queries of `src/graph_utils.py` (C19)

Nothing here is executable and nothing refers to worklists, fuel or visiting order: these are
the textbook notions the queries are supposed to compute.  Only `Graph`, `keys`, `adj` and
`WFG` of the model are used (`adj g v` is `graph[v]` for a key and `[]` otherwise).
-/
namespace Heph.Graph

instance (g : Graph) : Decidable (WFG g) := inferInstanceAs (Decidable (keys g).Nodup)

/-- reachability through key vertices: the reflexive–transitive closure of
    "`c` is a neighbour of `b` and `c` is a key of the graph" (what the key-only `visited`
    map of `reachable` can see). -/
inductive Reach (g : Graph) : Nat → Nat → Prop
  | refl (v : Nat) : Reach g v v
  | step {a b c : Nat} : Reach g a b → c ∈ adj g b → c ∈ keys g → Reach g a c

/-- reachability in one or more steps, through arbitrary targets (`dfs` also enters
    targets that are not keys). -/
inductive ReachAny (g : Graph) : Nat → Nat → Prop
  | one {a b : Nat} : b ∈ adj g a → ReachAny g a b
  | step {a b c : Nat} : ReachAny g a b → c ∈ adj g b → ReachAny g a c

/-- one undirected step to a key vertex -/
def Sym (g : Graph) (a b : Nat) : Prop :=
  (b ∈ adj g a ∧ b ∈ keys g) ∨ (a ∈ adj g b ∧ b ∈ keys g)

/-- weak connectivity over key vertices, as `connected` sees it -/
inductive Conn (g : Graph) : Nat → Nat → Prop
  | refl (v : Nat) : Conn g v v
  | step {a b c : Nat} : Conn g a b → Sym g b c → Conn g a c

/-- reachable in one direction or the other (`bi_reachable`) -/
def BiReach (g : Graph) (a b : Nat) : Prop :=
  (a ∈ keys g ∧ Reach g a b) ∨ (b ∈ keys g ∧ Reach g b a)

/-- a non-empty list of vertices, each the neighbour of the one before -/
def IsPath (g : Graph) : List Nat → Prop
  | [] => False
  | [_] => True
  | a :: b :: rest => b ∈ adj g a ∧ IsPath g (b :: rest)

/-- a simple path from `s`: a path starting at `s`, without repeated vertices, all of whose
    vertices except possibly the last are keys (`find_all_paths` stops at a vertex that is
    not a key; as `adj` is empty off the keys this last clause follows from `IsPath`, see
    `Heph.Graph.IsPath.dropLast_keys`). -/
def SimplePath (g : Graph) (s : Nat) (p : List Nat) : Prop :=
  p.head? = some s ∧ IsPath g p ∧ p.Nodup ∧ ∀ x ∈ p.dropLast, x ∈ keys g

/-- a maximal simple path from `s`: not a proper prefix of another simple path from `s` -/
def MaximalPath (g : Graph) (s : Nat) (p : List Nat) : Prop :=
  SimplePath g s p ∧ ∀ q, SimplePath g s q → p <+: q → q = p

/-- `x` is a source of `v`: a key without any predecessor from which `v` is reachable -/
def IsSourceOf (g : Graph) (v x : Nat) : Prop :=
  x ∈ keys g ∧ (∀ y ∈ keys g, x ∉ adj g y) ∧ Reach g x v

/-- every adjacency list is duplicate-free (needed only for "no path is listed twice") -/
def AdjNodup (g : Graph) : Prop := ∀ v, (adj g v).Nodup

end Heph.Graph
