import Heph.Model.Diag
/-! # Output grammars assumed by C14 (DESIGN.md, Appendix B)

The compiler output for a batch is a sequence of *items*: error diagnostics, warnings, free
lines (notes, preambles) and summary lines. `render c` prints them the way compiler `c` does,
every line newline-terminated. `WFItem c` is the decidable well-formedness the theorems assume:
file names over the alphabet the tool generates, positions are decimal numbers, and the lines
that are not an error header contain neither the tell-tale of an error header of that compiler
(`key c`) nor anything its crash pattern fires on (`lineCrash c`).

`expected c is` is the ground truth: the (file, captured message) pairs of the error items in
order; `groupByFile` is the declarative grouping (files in order of first error, each with
exactly its messages in order).

Only javac's grammar is validated against the real tool (harness); for kotlinc, groovyc and
scalac the grammar is an assumption. Core Lean only (the driver links this file). -/
namespace Heph.Diag

inductive Item
  /-- an error diagnostic. `col` is printed by kotlinc and scalac only; for scalac `msg` is the
  text between `-- ` and `Error:` (e.g. `[E007] Type Mismatch `) and `pad + 1` dashes end the
  header; `detail` are the lines that follow the header (quoted source, carets, `symbol:` …) -/
  | error (file line col msg : List Char) (pad : Nat) (detail : List (List Char))
  | warning (file line col msg : List Char) (pad : Nat) (detail : List (List Char))
  /-- any other line (`Note: …`, a preamble such as groovyc's `…startup failed:`) -/
  | note (text : List Char)
  /-- the closing count (`3 errors`) -/
  | summary (count : List Char)
  deriving DecidableEq, Repr

def ext : Compiler → List Char
  | .javac => "java".toList
  | .kotlinc => "kt".toList
  | .groovyc => "groovy".toList
  | .scalac => "scala".toList

def dashes (pad : Nat) : List Char := List.replicate (pad + 1) '-'

def errorHeader (c : Compiler) (file line col msg : List Char) (pad : Nat) : List Char :=
  match c with
  | .javac => file ++ ':' :: (line ++ ": error: ".toList ++ msg)
  | .kotlinc => file ++ ':' :: (line ++ ':' :: (col ++ ": error: ".toList ++ msg))
  | .groovyc => file ++ ':' :: (' ' :: line ++ ": ".toList ++ msg)
  | .scalac => "-- ".toList ++ (msg ++ ("Error: ".toList ++ (file ++ ':' :: (line ++ ':' :: (col ++ ' ' :: dashes pad)))))

def warningHeader (c : Compiler) (file line col msg : List Char) (pad : Nat) : List Char :=
  match c with
  | .javac => file ++ ':' :: (line ++ ": warning: ".toList ++ msg)
  | .kotlinc => file ++ ':' :: (line ++ ':' :: (col ++ ": warning: ".toList ++ msg))
  | .groovyc => "warning: ".toList ++ msg
  | .scalac => "-- ".toList ++ (msg ++ ("Warning: ".toList ++ (file ++ ':' :: (line ++ ':' :: (col ++ ' ' :: dashes pad)))))

def summaryLines (c : Compiler) (count : List Char) : List (List Char) :=
  match c with
  | .javac => [count ++ (if count == ['1'] then " error".toList else " errors".toList)]
  | .kotlinc => []
  | .groovyc => [count ++ (if count == ['1'] then " error".toList else " errors".toList), []]
  | .scalac => [count ++ (if count == ['1'] then " error found".toList else " errors found".toList)]

/-- the lines of one item (groovyc ends an error block with an empty line) -/
def itemLines (c : Compiler) : Item → List (List Char)
  | .error f l col m pad det =>
    errorHeader c f l col m pad :: (det ++ (if c = .groovyc then [[]] else []))
  | .warning f l col m pad det => warningHeader c f l col m pad :: det
  | .note t => [t]
  | .summary n => summaryLines c n

def unlines (ls : List (List Char)) : List Char := ls.flatMap (· ++ ['\n'])

def render (c : Compiler) (is : List Item) : List Char := unlines (is.flatMap (itemLines c))

/-! ## well-formedness -/

def hasInfix (pat : List Char) : List Char → Bool
  | [] => pat.isEmpty
  | c :: tl => pat.isPrefixOf (c :: tl) || hasInfix pat tl

/-- a piece of text every error header of the compiler contains -/
def key : Compiler → List Char
  | .javac => " error:".toList
  | .kotlinc => " error:".toList
  | .groovyc => "groovy:".toList
  | .scalac => "Error: ".toList

/-- the line can make the crash pattern fire. For kotlinc, groovyc, scalac and the as-is javac
pattern: the line alone does (it contains the marker). For the repaired javac pattern
`(java\.lang.*)\n([ \t]+at .*)` a crash needs a line containing `java.lang` FOLLOWED by a frame
line; the clause asked of every line is only that it is not such a frame line (does not start
with blanks and `at `), so messages and quoted source lines may contain `java.lang` freely. -/
def lineCrashV (v : JavaCrashVariant) (c : Compiler) (l : List Char) : Bool :=
  match c, v with
  | .javac, .framed => frameLine l
  | _, _ => crashSearchV v c (l ++ ['\n']) || (c == .groovyc && stackOverflowSearch (l ++ ['\n']))

def lineCrash (c : Compiler) (l : List Char) : Bool := lineCrashV javaCrashVariant c l

/-- a line that is neither an error header nor a crash marker -/
def textOK (c : Compiler) (l : List Char) : Bool :=
  !l.contains '\n' && !hasInfix (key c) l && !lineCrash c l

def digitsOK (d : List Char) : Bool := !d.isEmpty && d.all Char.isDigit

/-- `stem.ext` with a non-empty stem over `[a-zA-Z0-9/_]` -/
def fileOK (c : Compiler) (f : List Char) : Bool :=
  let e := '.' :: ext c
  let stem := f.take (f.length - e.length)
  !stem.isEmpty && stem.all isClsJ && f.drop (f.length - e.length) == e

def detailOK (c : Compiler) (det : List (List Char)) : Bool :=
  match c with
  | .javac | .kotlinc => det.all (textOK c)
  | .groovyc => det.all fun d => !d.isEmpty && !d.contains '\n' && !lineCrash c d
  | .scalac => det.all (textOK c) && (match det with
      | [] => false
      | d :: _ => d.head? != some '-')

def wfItem (c : Compiler) : Item → Bool
  | .error f l col m pad det =>
    fileOK c f && digitsOK l && (digitsOK col || c == .javac || c == .groovyc)
      && !m.contains '\n' && !lineCrash c (errorHeader c f l col m pad) && detailOK c det
  | .warning f l col m pad det => c != .groovyc && (warningHeader c f l col m pad :: det).all (textOK c)
  | .note t => textOK c t
  | .summary n => (summaryLines c n).all (textOK c)

def WFItem (c : Compiler) (i : Item) : Prop := wfItem c i = true

instance (c : Compiler) (i : Item) : Decidable (WFItem c i) := by unfold WFItem; infer_instance

/-! ## the file names the tool produces

`tempfile.mkdtemp()` gives `/tmp/tmp` + 8 characters of `[a-z0-9_]`; `hephaestus.py` adds
`src/<package>/<file>` with `<package>` a word of `src/resources/words` (lower-case letters)
and `<file>` the translator's fixed name. -/

def mainName : Compiler → List Char
  | .javac => "Main.java".toList
  | .kotlinc => "program.kt".toList
  | .groovyc => "Main.groovy".toList
  | .scalac => "program.scala".toList

def isTmpChar (c : Char) : Bool := c.isLower || c.isDigit || c == '_'

def toolPath (c : Compiler) (tmp pkg : List Char) : List Char :=
  "/tmp/tmp".toList ++ (tmp ++ ("/src/".toList ++ (pkg ++ '/' :: mainName c)))

def ToolNames (tmp pkg : List Char) : Prop :=
  tmp.length = 8 ∧ tmp.all isTmpChar = true ∧ pkg ≠ [] ∧ pkg.all Char.isLower = true

/-! ## ground truth -/

/-- what group 2 of the pattern captures for an error item (`restText`: everything printed
after the item; only scalac's `[^-]+` can run into it) -/
def captured (c : Compiler) (line msg : List Char) (det : List (List Char)) (restText : List Char) :
    List Char :=
  match c with
  | .javac => line ++ ": error: ".toList ++ msg
  | .kotlinc => msg.dropWhile (· == ' ')
  | .groovyc => ' ' :: line ++ ": ".toList ++ msg ++ det.flatMap ('\n' :: ·)
  | .scalac => (unlines det ++ restText).takeWhile (· != '-')

/-- the error diagnostics of a batch output, in order -/
def expected (c : Compiler) : List Item → List (List Char × List Char)
  | [] => []
  | .error f l _ m _ det :: rest => (f, captured c l m det (render c rest)) :: expected c rest
  | _ :: rest => expected c rest

/-- the keys in order of first occurrence -/
def firstOccs : List (List Char) → List (List Char)
  | [] => []
  | f :: fs => f :: (firstOccs fs).filter (· != f)

def msgsOf (f : List Char) (es : List (List Char × List Char)) : List (List Char) :=
  (es.filter (·.1 == f)).map (·.2)

/-- every file that has an error, once, in order of its first error, with exactly its messages -/
def groupByFile (es : List (List Char × List Char)) : Failed :=
  (firstOccs (es.map (·.1))).map fun f => (f, msgsOf f es)

def lookupFailed (f : List Char) (fl : Failed) : List (List Char) :=
  match fl.find? (·.1 == f) with
  | some p => p.2
  | none => []

/-! ## a compiler-internal stack trace -/

structure Trace where
  /-- the first line that carries the marker, e.g. `java.lang.AssertionError: …` -/
  head : List Char
  /-- `\tat com.sun.tools.javac…` -/
  frames : List (List Char)
  deriving Repr

def Trace.lines (t : Trace) : List (List Char) := t.head :: t.frames

def renderTrace : Option Trace → List Char
  | none => []
  | some t => unlines t.lines

/-- the trace, alone, makes the compiler's `CRASH_REGEX` fire (for the repaired javac pattern:
the head line names `java.lang…` and the first frame is `<blanks>at …`) -/
def WFTrace (c : Compiler) (t : Trace) : Prop :=
  crashSearch c (unlines t.lines) = true

/-- exact batch-level condition for the repaired javac pattern: some line containing
`java.lang` is directly followed by a frame line -/
def framePairs : List (List Char) → Bool
  | l1 :: l2 :: rest => (hasInfix "java.lang".toList l1 && frameLine l2) || framePairs (l2 :: rest)
  | _ => false

end Heph.Diag
