/-!
# Bracket balance of a text (specification side of C12 `balanced`)

A stack machine over the characters: `(`, `[`, `{` are pushed, a closing bracket must match the top of
the stack, every other character is skipped (angle brackets are not tracked: `<` and `>` are also
comparison operators).  Core Lean only.
-/
namespace Heph.Brackets

/-- one step of the bracket machine: opening brackets are pushed, a closing bracket must match the top -/
def step (stk : List Char) (c : Char) : Option (List Char) :=
  if c = '(' ∨ c = '[' ∨ c = '{' then some (c :: stk)
  else if c = ')' then (match stk with | '(' :: r => some r | _ => none)
  else if c = ']' then (match stk with | '[' :: r => some r | _ => none)
  else if c = '}' then (match stk with | '{' :: r => some r | _ => none)
  else some stk

def run : List Char → List Char → Option (List Char)
  | stk, [] => some stk
  | stk, c :: cs => match step stk c with | some s => run s cs | none => none

/-- `()`, `[]`, `{}` are properly nested in `s` -/
def Balanced (s : String) : Prop := run [] s.toList = some []
instance (s : String) : Decidable (Balanced s) := by unfold Balanced; infer_instance

/-- a text that leaves every bracket stack as it found it -/
def Neutral (s : String) : Prop := ∀ stk, run stk s.toList = some stk


end Heph.Brackets
