import Heph.Model.Check
import Heph.Spec.Assignable
/-!
# The declarative typing judgement `WT` (specification side of C01)

A program is well-typed when every typed position carries an expression whose type is
*declaratively* assignable (`Asg`, `Spec/Assignable.lean`) to the type expected there, every
explicit type argument is within the bound of its parameter, and every class meets its
inheritance obligations.

The positions are enumerated by the structurally recursive walk `obs` over `Heph.Node`
(`Model/Check.lean`): one obligation per position, tagged with the kind of position.  The
judgement reads each obligation declaratively:

* `asg a e` holds when the expression has a type `a` (`synth`: the IR is explicitly typed, so
  the type of an expression is a function of the expression and the declarations in scope —
  `Model/Env.lean`), both types belong to the universe of the program's language
  (`goodU`: every built-in node is one of the language's built-ins) and `Asg` relates them,
  a declared projection denoting its bound (`deproj`, rule 4);
* `holds b` is a structural side condition (a name resolves, arities agree, the superclass is
  not final, an inherited abstract function is implemented, an overriding parameter has the
  substituted overridden type …), stated as a Boolean fact about the program.

`WTN Γ π n exp tag` is the judgement for one node standing at a position of expected type
`exp`; its clauses — the positions of the property — are exposed as `↔` theorems in
`Props/C01.lean` (`wt_varDecl`, `wt_cond`, `wt_new`, `wt_call_args`, …): they are what one
would write as the rules of an inductive judgement.  `WT lt p` is the judgement for a program.
The executable checker decides the same obligations with `isSubD`; `check_sound` shows that
acceptance implies `WT`.
-/
namespace Heph
namespace Check
open Heph.Ty

/-- declarative assignability of a value of type `a` to a position of type `e` -/
def AsgP (lt : LangTypes) (a e : Ty) : Prop :=
  goodU lt.builtins (deproj lt a) ∧ goodU lt.builtins (deproj lt e) ∧
    Asg (goodU lt.builtins) (deproj lt a) (deproj lt e)

def Judg.Holds (lt : LangTypes) : Judg → Prop
  | .asg (some a) e => AsgP lt a e
  | .asg none _ => False
  | .holds b => b = true

/-- node `n`, standing at a position of expected type `exp`, is well-typed in scope `Γ` -/
def WTN (Γ : Env) (π : List String) (n : Node) (exp : Option Ty) (tag : String) : Prop :=
  ∀ o ∈ obs Γ π n exp tag, o.j.Holds Γ.lt

/-- the children `as`, paired with the expected types `ps`, are well-typed -/
def WTZip (Γ : Env) (π : List String) (i : Nat) (as : List Node) (ps : List (Option Ty × String)) : Prop :=
  ∀ o ∈ obsZip Γ π i as ps, o.j.Holds Γ.lt

/-- the statements of a block are well-typed, the last one at the expected type -/
def WTBlock (Γ : Env) (π : List String) (i : Nat) (ss : List Node) (exp : Option Ty) (tag : String) : Prop :=
  ∀ o ∈ obsBlock Γ π i ss exp tag, o.j.Holds Γ.lt

/-- **the program is well-typed** -/
def WT (lt : LangTypes) (p : Program) : Prop :=
  ∀ o ∈ progObs lt p, o.j.Holds lt

end Check
end Heph
