import Heph.Model.TransScala
/-!
# What a Scala translation must contain, computed from the IR alone (specification side of C12)

`sem n` is the list of *non-layout* pieces (declarations with the modifiers Scala expresses,
super-class clauses, bounds, the type annotations the program carries, explicit type-argument lists,
literals, operators, name references, printed types) that the translation of node `n` must contain,
in print order — a function of the IR only, no translator state.  Core Lean only: the driver answers
`trans.scala.sem` with it.  Deviations from a language-independent reading of the IR, all taken from
`scala.py`: `New(Any)` is one piece `1.asInstanceOf[Any]` and its arguments are not printed; `is` and
`!is` are both the operator piece `isInstanceOf`; an unqualified call `a.b(…)` without receiver is the
two name pieces `a`, `b`; an array of a type variable prints the element type twice (`Any` and the
cast); the return type of a lambda follows its body.
-/
namespace Heph.TransScala
open Heph
open Heph.TransKotlin (Tag Piece Doc isCls attrName isBlock tparamName)

/-! ## the pieces the program calls for -/

def tparamPieces (tps : List Ty) : Doc := tps.map fun t => (Tag.tparamD (tparamName t), typeParamStr t)

def classHead (name : String) (ctype : Nat) (isFinal : Bool) : String :=
  (if !isFinal || ctype == 1 then "open " else "") ++ scalaClassPrefix ctype ++ " " ++ name

def funcHead (name : String) (isFinal override : Bool) (ftype : Nat) : String :=
  (if isFinal && ftype == 0 then "final " else "") ++ (if override then "override " else "") ++ "def " ++ name

def fieldText (name : String) (t : Ty) (isFinal canOverride override : Bool) : String :=
  (if !canOverride then "final " else "") ++ (if override then "override " else "") ++
    (if isFinal then "val " else "var ") ++ name ++ ": " ++ typeName t

def paramText (name : String) (t : Ty) (vararg : Bool) : String :=
  name ++ ": " ++
    (match vararg, t with
      | true, .param _ _ (a :: _) _ => typeName a
      | true, .param _ _ [] _ => "<<IndexError>>"
      | _, _ => typeName t) ++ (if vararg then "*" else "")

/-- the name pieces of a call: `func`, or the two halves of `func` around its last dot when there is no receiver -/
def callNames (func : String) (hasReceiver : Bool) : Doc :=
  if hasReceiver then [(Tag.name, func)]
  else match rsplitDot func with
    | none => [(Tag.name, func)]
    | some (qual, fn) => [(Tag.name, qual), (Tag.name, fn)]

def targsPieces (func : String) (targs : List Ty) (canInfer : Bool) : Doc :=
  if !canInfer && !targs.isEmpty then [(Tag.targs func, "[" ++ ",".intercalate (targs.map typeName) ++ "]")] else []

/-- the type pieces of an array expression -/
def arrayTys (t : Ty) (len : Nat) : Doc :=
  if len == 0 then [(Tag.ty, firstArgName t)]
  else [(Tag.ty, if firstArgIsTVar t then "Any" else firstArgName t)]
def arrayCast (t : Ty) : Doc := if firstArgIsTVar t then [(Tag.ty, firstArgName t)] else []

mutual
def sem : Node → Doc
  | .block body _ => semL body
  | .superInst t args => (Tag.superT, typeName t) :: semOL args
  | .classDecl name ctype isFinal fields supers funcs tparams =>
      (Tag.classD name, classHead name ctype isFinal) ::
        (tparamPieces tparams ++ (semL fields ++ (semL supers ++ semL funcs)))
  | .varDecl name expr isFinal varType _ =>
      (Tag.varD name, (if isFinal then "val " else "var ") ++ name) ::
        ((match varType with | some t => [(Tag.varAnnot name, ": " ++ typeName t)] | none => []) ++ sem expr)
  | .callArg expr name =>
      (match name with
        | some nm => if nm != "" then [(Tag.name, nm)] else []
        | none => []) ++ sem expr
  | .fieldDecl name t isFinal canOverride override =>
      [(Tag.fieldD name, fieldText name t isFinal canOverride override)]
  | .paramDecl name t vararg dflt => (Tag.paramD name, paramText name t vararg) :: semO dflt
  | .funcDecl name params retType _ body isFinal override tparams ftype =>
      (Tag.funcD name, funcHead name isFinal override ftype) ::
        (tparamPieces tparams ++ (semL params ++
          ((match retType with | some t => [(Tag.retAnnot name, ": " ++ typeName t)] | none => []) ++ semO body)))
  | .lambda _ params retType body _ =>
      semL params ++ (sem body ++ (match retType with | some t => [(Tag.lamRet, ": " ++ typeName t)] | none => []))
  | .funcRef func receiver _ => semO receiver ++ [(Tag.name, func)]
  | .bottom t => (match t with | some x => [(Tag.ty, typeName x)] | none => [])
  | .intC lit _ => [(Tag.lit, lit)]
  | .realC lit _ => [(Tag.lit, lit)]
  | .boolC lit => [(Tag.lit, lit)]
  | .charC lit => [(Tag.lit, lit)]
  | .stringC lit => [(Tag.lit, lit)]
  | .arrayE t len exprs =>
      if len == 0 then arrayTys t len else arrayTys t len ++ (semL exprs ++ arrayCast t)
  | .variable name => [(Tag.name, name)]
  | .binop _ l r op => sem l ++ ((Tag.op, op) :: sem r)
  | .cond c t f _ => sem c ++ (sem t ++ sem f)
  | .isE e t _ => sem e ++ [(Tag.op, "isInstanceOf"), (Tag.ty, typeName t)]
  | .newE t args canInfer =>
      if isCls t clsAny then [(Tag.newT (!canInfer), "1.asInstanceOf[Any]")]
      else (Tag.newT (!canInfer), if canInfer then attrName t else typeName t) :: semL args
  | .fieldAccess e field => sem e ++ [(Tag.name, field)]
  | .call func args receiver targs canInfer _ =>
      semO receiver ++ (callNames func receiver.isSome ++ (targsPieces func targs canInfer ++ semL args))
  | .assign name expr receiver => semO receiver ++ ((Tag.name, name) :: sem expr)
def semL : List Node → Doc
  | [] => []
  | x :: xs => sem x ++ semL xs
def semO : Option Node → Doc
  | none => []
  | some x => sem x
def semOL : Option (List Node) → Doc
  | none => []
  | some xs => semL xs
end

/-- what the program calls for: the non-layout pieces of all top-level declarations -/
def semProgram (p : Program) : Doc := semL p.decls

/-! ## conditions whose text starts with the indentation -/

/-- expression kinds whose text starts with `" " * self.ident`: all expressions except lambdas (no
    indentation of their own) and `new` (`new` is printed before the indentation) -/
def indLed : Node → Bool
  | .block .. | .superInst .. | .callArg .. | .fieldDecl .. | .paramDecl .. | .lambda .. | .newE ..
  | .classDecl .. | .varDecl .. | .funcDecl .. => false
  | _ => true

mutual
/-- `okAt true n`: every conditional inside `n` (that is printed) has an `indLed` condition;
    `okAt false n` holds always -/
def okAt (s : Bool) : Node → Bool
  | .block body _ => okAtL s body
  | .superInst _ args => okAtOL s args
  | .classDecl _ _ _ fields supers funcs _ => okAtL s fields && (okAtL s supers && okAtL s funcs)
  | .varDecl _ expr _ _ _ => okAt s expr
  | .callArg expr _ => okAt s expr
  | .paramDecl _ _ _ dflt => okAtO s dflt
  | .funcDecl _ params _ _ body _ _ _ _ => okAtL s params && okAtO s body
  | .lambda _ params _ body _ => okAtL s params && okAt s body
  | .funcRef _ receiver _ => okAtO s receiver
  | .arrayE _ _ exprs => okAtL s exprs
  | .binop _ l r _ => okAt s l && okAt s r
  | .cond c t f _ => (!s || indLed c) && (okAt s c && (okAt s t && okAt s f))
  | .isE e _ _ => okAt s e
  | .newE _ args _ => okAtL s args
  | .fieldAccess e _ => okAt s e
  | .call _ args receiver _ _ _ => okAtO s receiver && okAtL s args
  | .assign _ expr receiver => okAtO s receiver && okAt s expr
  | .fieldDecl .. | .bottom _ | .intC _ _ | .realC _ _ | .boolC _ | .charC _ | .stringC _ | .variable _ => true
def okAtL (s : Bool) : List Node → Bool
  | [] => true
  | x :: xs => okAt s x && okAtL s xs
def okAtO (s : Bool) : Option Node → Bool
  | none => true
  | some x => okAt s x
def okAtOL (s : Bool) : Option (List Node) → Bool
  | none => true
  | some xs => okAtL s xs
end

/-- the hypothesis of the text-level theorems -/
def condOK (p : Program) : Bool := okAtL true p.decls

/-! ## which node calls for which piece -/

/-- the pieces a node contributes itself (without those of its children) -/
def own : Node → Doc
  | .block _ _ => []
  | .superInst t _ => [(Tag.superT, typeName t)]
  | .classDecl name ctype isFinal _ _ _ tparams => (Tag.classD name, classHead name ctype isFinal) :: tparamPieces tparams
  | .varDecl name _ isFinal varType _ =>
      (Tag.varD name, (if isFinal then "val " else "var ") ++ name) ::
        (match varType with | some t => [(Tag.varAnnot name, ": " ++ typeName t)] | none => [])
  | .callArg _ name => (match name with | some nm => if nm != "" then [(Tag.name, nm)] else [] | none => [])
  | .fieldDecl name t isFinal canOverride override => [(Tag.fieldD name, fieldText name t isFinal canOverride override)]
  | .paramDecl name t vararg _ => [(Tag.paramD name, paramText name t vararg)]
  | .funcDecl name _ retType _ _ isFinal override tparams ftype =>
      (Tag.funcD name, funcHead name isFinal override ftype) ::
        (tparamPieces tparams ++
          (match retType with | some t => [(Tag.retAnnot name, ": " ++ typeName t)] | none => []))
  | .lambda _ _ retType _ _ => (match retType with | some t => [(Tag.lamRet, ": " ++ typeName t)] | none => [])
  | .funcRef func _ _ => [(Tag.name, func)]
  | .bottom t => (match t with | some x => [(Tag.ty, typeName x)] | none => [])
  | .intC lit _ => [(Tag.lit, lit)]
  | .realC lit _ => [(Tag.lit, lit)]
  | .boolC lit => [(Tag.lit, lit)]
  | .charC lit => [(Tag.lit, lit)]
  | .stringC lit => [(Tag.lit, lit)]
  | .arrayE t len _ => if len == 0 then arrayTys t len else arrayTys t len ++ arrayCast t
  | .variable name => [(Tag.name, name)]
  | .binop _ _ _ op => [(Tag.op, op)]
  | .cond .. => []
  | .isE _ t _ => [(Tag.op, "isInstanceOf"), (Tag.ty, typeName t)]
  | .newE t _ canInfer =>
      if isCls t clsAny then [(Tag.newT (!canInfer), "1.asInstanceOf[Any]")]
      else [(Tag.newT (!canInfer), if canInfer then attrName t else typeName t)]
  | .fieldAccess _ field => [(Tag.name, field)]
  | .call func _ receiver targs canInfer _ => callNames func receiver.isSome ++ targsPieces func targs canInfer
  | .assign name _ _ => [(Tag.name, name)]

mutual
/-- the node and all nodes below it whose text the translator prints (the arguments of `New(Any)` are
    visited but their text is dropped) -/
def printed : Node → List Node
  | .block body f => .block body f :: printedL body
  | .superInst t args => .superInst t args :: printedOL args
  | .classDecl a b c fields supers funcs tp =>
      .classDecl a b c fields supers funcs tp :: (printedL fields ++ (printedL supers ++ printedL funcs))
  | .varDecl a e b c d => .varDecl a e b c d :: printed e
  | .callArg e a => .callArg e a :: printed e
  | .fieldDecl a b c d e => [.fieldDecl a b c d e]
  | .paramDecl a b c dflt => .paramDecl a b c dflt :: printedO dflt
  | .funcDecl a params b c body d e f g => .funcDecl a params b c body d e f g :: (printedL params ++ printedO body)
  | .lambda a params b body c => .lambda a params b body c :: (printedL params ++ printed body)
  | .funcRef a receiver b => .funcRef a receiver b :: printedO receiver
  | .bottom t => [.bottom t]
  | .intC a b => [.intC a b]
  | .realC a b => [.realC a b]
  | .boolC a => [.boolC a]
  | .charC a => [.charC a]
  | .stringC a => [.stringC a]
  | .arrayE t len exprs => .arrayE t len exprs :: (if len == 0 then [] else printedL exprs)
  | .variable a => [.variable a]
  | .binop a l r b => .binop a l r b :: (printed l ++ printed r)
  | .cond c t f a => .cond c t f a :: (printed c ++ (printed t ++ printed f))
  | .isE e a b => .isE e a b :: printed e
  | .newE a args b => .newE a args b :: (if isCls a clsAny then [] else printedL args)
  | .fieldAccess e a => .fieldAccess e a :: printed e
  | .call a args receiver b c d => .call a args receiver b c d :: (printedO receiver ++ printedL args)
  | .assign a expr receiver => .assign a expr receiver :: (printedO receiver ++ printed expr)
def printedL : List Node → List Node
  | [] => []
  | x :: xs => printed x ++ printedL xs
def printedO : Option Node → List Node
  | none => []
  | some x => printed x
def printedOL : Option (List Node) → List Node
  | none => []
  | some xs => printedL xs
end

end Heph.TransScala
