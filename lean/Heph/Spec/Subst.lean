import Heph.Model.Subst
/-!
# Specification side of C07: substitution on syntax, occurrence of type variables

`substS σ t` replaces the type variables bound by `σ` *everywhere in the syntax of `t`*:
in arguments, in wildcard bounds, in the bounds of type variables that stay, and — through
`instS` — in the supertypes an instantiation of a generic class inherits from the class's
declaration, transitively up the hierarchy.  Unlike the code it has no `cond`: nothing is
ever skipped.

`mentionsTV t` says that a type variable (or a bare type constructor) occurs anywhere in `t`,
including inside the stored supertypes of nested instantiations.
-/
namespace Heph
namespace Ty

mutual
/-- substitution on syntax (no `cond`, nothing skipped) -/
def substS : TMap → Ty → Ty
  | σ, param _ con args _ =>
      let args' := substSL σ args
      param (conName con) (instConS con (TMap.mk (conParams con) args')) args'
        (conSups (instConS con (TMap.mk (conParams con) args')))
  | σ, wild v (some b) => wild v (some (substS σ b))
  | σ, tparam nm v (some b) =>
      (match σ.get (tparam nm v (some b)) with
       | some r => r
       | none => tparam nm v (some (substS σ b)))
  | σ, t => (match σ.get t with | some r => r | none => t)
def substSL : TMap → List Ty → List Ty
  | _, [] => []
  | σ, x :: xs => substS σ x :: substSL σ xs
/-- the constructor of an instance: declared supertypes under the instance's own map -/
def instConS : Ty → TMap → Ty
  | tcon cls nm ps ss, σ => tcon cls nm ps (instSupsS ss σ)
  | t, _ => t
def instSupsS : List Ty → TMap → List Ty
  | [], _ => []
  | param nm con args ss :: rest, σ => substS σ (param nm con args ss) :: instSupsS rest σ
  | t :: rest, σ => t :: instSupsS rest σ
end

mutual
/-- a type variable or bare constructor occurs somewhere in the type, its arguments, bounds,
    or the supertypes stored in it -/
def mentionsTV : Ty → Bool
  | builtin _ _ _ _ ss => mentionsTVL ss
  | simple _ ss => mentionsTVL ss
  | tparam .. => true
  | tcon .. => true
  | wild _ b => mentionsTVO b
  | param _ _ args ss => mentionsTVL args || mentionsTVL ss
  | nothing => false
  | ext _ => false
def mentionsTVL : List Ty → Bool
  | [] => false
  | x :: xs => mentionsTV x || mentionsTVL xs
def mentionsTVO : Option Ty → Bool
  | none => false
  | some x => mentionsTV x
end

/-! ## Well-scopedness, well-formedness and consistency (hypotheses of the C07 theorems) -/

mutual
/-- every type variable that `substS` can reach in the type — in arguments, wildcard bounds and
    (through the constructors of nested instantiations) in the declared supertypes of the
    classes involved — is `==` to a member of `ps` resp. to a parameter of the class that
    declares the supertype; no bare type constructor occurs as a type; every instantiation
    has at least as many arguments as its constructor has parameters (Python asserts
    equality); supertypes that are not parameterized (and are therefore never touched by
    instantiation) mention no type variable at all -/
def tvarsWithin (ps : List Ty) : Ty → Bool
  | builtin _ _ _ _ ss => !mentionsTVL ss
  | simple _ ss => !mentionsTVL ss
  | tparam nm v b => memBeq (tparam nm v b) ps
  | wild _ b => tvarsWithinO ps b
  | tcon .. => false
  | param _ con args _ =>
      tvarsWithinL ps args && closedCon con && decide ((conParams con).length ≤ args.length)
  | nothing => true
  | ext _ => true
termination_by structural t => t
def tvarsWithinL (ps : List Ty) : List Ty → Bool
  | [] => true
  | x :: xs => tvarsWithin ps x && tvarsWithinL ps xs
termination_by structural t => t
def tvarsWithinO (ps : List Ty) : Option Ty → Bool
  | none => true
  | some x => tvarsWithin ps x
termination_by structural t => t
/-- a class declaration whose supertypes only mention the class's own type parameters
    (and so on up the hierarchy) -/
def closedCon : Ty → Bool
  | tcon _ _ cps css => supsWithin cps css
  | _ => true
termination_by structural t => t
def supsWithin (cps : List Ty) : List Ty → Bool
  | [] => true
  | param nm con args ss :: rest => tvarsWithin cps (param nm con args ss) && supsWithin cps rest
  | t :: rest => !mentionsTV t && supsWithin cps rest
termination_by structural t => t
end

/-- `t.t_constructor` / `t.type_args` of an instantiation -/
def conOf : Ty → Ty | param _ c _ _ => c | t => t
def argsOf : Ty → List Ty | param _ _ as _ => as | _ => []

/-- `SuperInst c as c' as'`: going by the class declarations alone, the instance `c'<as'>` lies
    above the instance `c<as>` (reflexive-transitive): if `c'` declares the supertype `c''<bs>`
    then `c''<bs[parameters of c' ↦ as']>` lies above as well -/
inductive SuperInst (c : Ty) (as : List Ty) : Ty → List Ty → Prop
  | refl : SuperInst c as c as
  | step {c' : Ty} {as' : List Ty} {nm : String} {c'' : Ty} {bs ss : List Ty} :
      SuperInst c as c' as' → param nm c'' bs ss ∈ conSups c' →
      SuperInst c as c'' (substSL (TMap.mk (conParams c') as') bs)

/-- the map binds every type variable that is `==` to a member of `ps` -/
def TMap.covers (σ : TMap) (ps : List Ty) : Prop :=
  ∀ x, memBeq x ps = true → (σ.get x).isSome = true

/-- forget the supertypes list recorded in a (copied) constructor -/
def stripCon : Ty → Ty
  | tcon cls nm ps _ => tcon cls nm ps []
  | t => t

mutual
/-- the type with the supertypes lists recorded inside the copied constructors of all its
    instantiation nodes forgotten (`==` never reads them) -/
def strip : Ty → Ty
  | tparam nm v b => tparam nm v (stripO b)
  | wild v b => wild v (stripO b)
  | param nm con args ss => param nm (stripCon con) (stripL args) (stripL ss)
  | t => t
termination_by structural t => t
def stripL : List Ty → List Ty
  | [] => []
  | x :: xs => strip x :: stripL xs
termination_by structural t => t
def stripO : Option Ty → Option Ty
  | none => none
  | some x => some (strip x)
termination_by structural t => t
end

mutual
/-- every instantiation node that `==` looks at has a type constructor as its constructor
    (otherwise `ParameterizedType.__eq__` is not even reflexive in the model) -/
def wf : Ty → Bool
  | simple _ ss => wfL ss
  | tparam _ _ b => wfO b
  | wild _ b => wfO b
  | param _ con args ss =>
      wfL ss && wfL args && (match con with | tcon _ _ ps _ => wfL ps | _ => false)
  | _ => true
termination_by structural t => t
def wfL : List Ty → Bool
  | [] => true
  | x :: xs => wf x && wfL xs
termination_by structural t => t
def wfO : Option Ty → Bool
  | none => true
  | some x => wf x
termination_by structural t => t
end

mutual
/-- the supertypes stored in every instantiation node (reachable through arguments and bounds)
    are what instantiating its constructor at its arguments computes, up to the supertypes
    lists recorded in copied constructors; the node's name is its constructor's name -/
def Consistent : Ty → Prop
  | tparam _ _ b => ConsistentO b
  | wild _ b => ConsistentO b
  | param nm con args ss =>
      nm = conName con ∧ ConsistentL args ∧
      stripL (performSubstL (conSups con) (TMap.mk (conParams con) args)) = stripL ss
  | _ => True
termination_by structural t => t
def ConsistentL : List Ty → Prop
  | [] => True
  | x :: xs => Consistent x ∧ ConsistentL xs
termination_by structural t => t
def ConsistentO : Option Ty → Prop
  | none => True
  | some x => Consistent x
termination_by structural t => t
end

end Ty
end Heph
