import Heph.Model.Subst
/-!
# Specification side of C07: substitution on syntax, occurrence of type variables

`substS σ t` replaces the type variables bound by `σ` *everywhere in the syntax of `t`*:
in arguments, in wildcard bounds, in the bounds of type variables that stay, and — through
`instS` — in the supertypes an instantiation of a generic class inherits from the class's
declaration, transitively up the hierarchy.  Unlike the code it has no `cond`: nothing is
ever skipped.

`mentionsTV t` says that a type variable (or a bare type constructor) occurs anywhere in `t`,
including inside the stored supertypes of nested instantiations.
-/
namespace Heph
namespace Ty

mutual
/-- substitution on syntax (no `cond`, nothing skipped) -/
def substS : TMap → Ty → Ty
  | σ, param _ con args _ =>
      let args' := substSL σ args
      param (conName con) (instConS con (TMap.mk (conParams con) args')) args'
        (conSups (instConS con (TMap.mk (conParams con) args')))
  | σ, wild v (some b) => wild v (some (substS σ b))
  | σ, tparam nm v (some b) =>
      (match σ.get (tparam nm v (some b)) with
       | some r => r
       | none => tparam nm v (some (substS σ b)))
  | σ, t => (match σ.get t with | some r => r | none => t)
def substSL : TMap → List Ty → List Ty
  | _, [] => []
  | σ, x :: xs => substS σ x :: substSL σ xs
/-- the constructor of an instance: declared supertypes under the instance's own map -/
def instConS : Ty → TMap → Ty
  | tcon cls nm ps ss, σ => tcon cls nm ps (instSupsS ss σ)
  | t, _ => t
def instSupsS : List Ty → TMap → List Ty
  | [], _ => []
  | param nm con args ss :: rest, σ => substS σ (param nm con args ss) :: instSupsS rest σ
  | t :: rest, σ => t :: instSupsS rest σ
end

mutual
/-- a type variable or bare constructor occurs somewhere in the type, its arguments, bounds,
    or the supertypes stored in it -/
def mentionsTV : Ty → Bool
  | builtin _ _ _ _ ss => mentionsTVL ss
  | simple _ ss => mentionsTVL ss
  | tparam .. => true
  | tcon .. => true
  | wild _ b => mentionsTVO b
  | param _ _ args ss => mentionsTVL args || mentionsTVL ss
  | nothing => false
  | ext _ => false
def mentionsTVL : List Ty → Bool
  | [] => false
  | x :: xs => mentionsTV x || mentionsTVL xs
def mentionsTVO : Option Ty → Bool
  | none => false
  | some x => mentionsTV x
end

end Ty
end Heph
