import Heph.Model.Mutation
import Heph.Spec.Graph
/-!
# Declarative side of the two mutations (C03, C04)

Nothing here is executable.  `ErasedSlot` says how type erasure may change the fields of one
node; `OverwrittenSlot` says what a one-site overwrite does to the node it hits; `DeclsOK` /
`InstsOK` restate the criterion of `is_combination_feasible` (step 2) with the textbook
reachability `Heph.Graph.ReachAny` instead of a traversal.
-/
namespace Heph.Mut
open Heph Heph.Graph

/-- what erasure may do to the mutable fields of one node: the recorded (`inferred`) type, the
    instantiated type and the explicit type arguments stay; a declared type stays or is
    removed; a `can_infer_type_args` flag stays or becomes `True` -/
def ErasedSlot : Slot → Slot → Prop
  | .var vt inf, .var vt' inf' => inf' = inf ∧ (vt' = vt ∨ vt' = none)
  | .func rt inf, .func rt' inf' => inf' = inf ∧ (rt' = rt ∨ rt' = none)
  | .new t ci, .new t' ci' => t' = t ∧ (ci' = ci ∨ ci' = true)
  | .call ta ci, .call ta' ci' => ta' = ta ∧ (ci' = ci ∨ ci' = true)
  | _, _ => False

/-- the fields of the node hit by an overwrite of `field` with `new`: the declared AND the
    recorded type of a variable / function become `new`; one type argument of the instantiated
    type / of the explicit type-argument list becomes `new`; the flags stay -/
def OverwrittenSlot (field : Field) (new : Ty) : Slot → Slot → Prop
  | .var _ _, .var vt' inf' => field = .varType ∧ vt' = some new ∧ inf' = some new
  | .func _ _, .func rt' inf' => field = .retType ∧ rt' = some new ∧ inf' = some new
  | .new t ci, .new t' ci' => ∃ i, field = .newArg i ∧ t' = setTypeArg t i new ∧ ci' = ci
  | .call ta ci, .call ta' ci' => ∃ i, field = .callArg i ∧ ta' = setArg ta i new ∧ ci' = ci
  | _, _ => False

/-- every omitted declaration reaches (in one or more steps) only type-carrying nodes of its
    own type -/
def DeclsOK (nodes : List TGNode) (g : Edges) (c : List Nat) : Prop :=
  ∀ d ∈ c, kindOf nodes d = .declN →
    ∀ n, n ≠ d → ReachAny (toGraph g) d n → badFor nodes d n = false

/-- every type variable of an omitted constructor call has an assigned type and reaches a
    `TypeNode` of that type whose parent is not an omitted declaration -/
def InstsOK (nodes : List TGNode) (g : Edges) (c : List Nat) : Prop :=
  ∀ ci ∈ c, kindOf nodes ci = .instCall →
    ∃ tvs, lookup g ci = some tvs ∧
      ∀ tv ∈ tvs, ∃ a, assigned nodes ci tv.1 = .ok a ∧
        ∃ n, n ≠ tv.1 ∧ ReachAny (toGraph g) tv.1 n ∧ goodFor nodes (removedIds nodes c) a n = true

end Heph.Mut
