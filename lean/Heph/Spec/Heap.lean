/-!
# A small heap semantics for the mutation half of C07 / C11

Python objects live at addresses (indices of the heap list).  The statement forms that occur
in the instantiation/substitution functions are allocation (a constructor call, `deepcopy`,
`copy`, a list display) and a write to a field or list slot of an object.  A *call* is the list
of statements it executes.  `FreshWrites base ss` says that every write of the call targets an
object allocated during the call (address `≥ base`, the heap size when the call started).
-/
namespace Heph.Heap

abbrev Addr := Nat

/-- an object: field name ↦ value (an address or a scalar, both `Nat`) -/
abbrev Obj := List (String × Nat)

abbrev Heap := List Obj

inductive Stmt
  | alloc (o : Obj)
  | write (a : Addr) (field : String) (v : Nat)
deriving Repr

def setField (o : Obj) (f : String) (v : Nat) : Obj :=
  if o.any (·.1 == f) then o.map (fun p => if p.1 == f then (f, v) else p) else o ++ [(f, v)]

def exec (h : Heap) : Stmt → Heap
  | .alloc o => h ++ [o]
  | .write a f v => h.modify a (fun o => setField o f v)

def run (h : Heap) (ss : List Stmt) : Heap := ss.foldl exec h

def FreshWrites (base : Nat) (ss : List Stmt) : Prop :=
  ∀ s ∈ ss, match s with
    | .write a _ _ => base ≤ a
    | .alloc _ => True

/-- a history of calls; each call's statements may depend on the heap it starts from -/
def runCalls (h : Heap) : List (Heap → List Stmt) → Heap
  | [] => h
  | c :: cs => runCalls (run h (c h)) cs

end Heph.Heap
