import Heph.Model.Scope
/-!
# C05 — what it means for a program to be closed and to respect scoping and mutability

`Closed p kw` : at every name-use site of `p` — enumerated by `sites`, which walks the whole
program (lambdas, nested functions, both branches of conditionals, default values, super
constructor calls) and records with each site the environment visible *at that point* — the use
`Resolves`:

* a variable reference denotes a local or parameter declared earlier in the same or an enclosing
  block, a field of the enclosing class or one of its superclasses, or a top-level variable; a
  Java lambda (or nested function) only captures parameters and `final` locals;
* a call / function reference denotes a function visible by that name (nested function, method
  of the enclosing class hierarchy, top-level function) or, with a receiver, a method of the
  receiver's class or one of its superclasses, whose parameters admit the arguments
  (`Admits`: positional prefix, named arguments, defaults, varargs); a variable or field of
  function type may be called with as many arguments as the type has parameters;
* a field access denotes a field of the receiver's class or a superclass;
* `new` names a declared *regular* class (not an interface or abstract class) with one argument
  per field and one type argument per type parameter, or a built-in without arguments;
* an assignment targets a `var` local / top-level variable / non-final field — never something
  captured by a Java lambda;
* every type variable mentioned in a type is bound by an enclosing class or function;
* identifiers declared in one scope are pairwise distinct and none is in the keyword table `kw`.

Scoping rules are the way `sites` builds environments: a block extends the environment
declaration by declaration (a variable is visible after its initialiser, a nested function in
its own body), parameters are visible in the body (default values are evaluated outside),
class members everywhere in the class, top-level declarations everywhere; a smart-cast branch
`if (x is T) …` re-binds `x` with type `T`.  All propositions are decidable by construction
(bounded quantifiers over declaration lists), which is what `Model/Closed.closedCheck` runs.

Core Lean only (the driver imports this file).
-/
namespace Heph.Scope
open Heph

/-- the kinds of name use (and of declaration-side obligations) -/
inductive Use where
  | var (name : String)
  | call (func : String) (args : List Node) (recv : Option Node)
  | funcRef (func : String) (recv : Option Node)
  | field (e : Node) (field : String)
  | new (t : Ty) (nargs : Nat)
  | super (t : Ty) (nargs : Option Nat)
  | assign (name : String) (recv : Option Node)
  | type (t : Ty)
  | ident (name : String)
  | distinct (what : String) (names : List String)
deriving Inhabited

structure Site where
  path : String
  env : Env
  use : Use
deriving Inhabited

def typeSites (env : Env) (path : String) (ts : List Ty) : List Site :=
  ts.map fun t => ⟨path, env, .type t⟩

def optTypeSites (env : Env) (path : String) : Option Ty → List Site
  | some t => [⟨path, env, .type t⟩]
  | none => []

/-- sites of a list of type parameters: distinct names, bounds (which may mention every parameter of the list) -/
def tparamSites (env : Env) (path : String) (tps : List Ty) : List Site :=
  ⟨path, env, .distinct "type-parameter" (tps.map tparamName)⟩ ::
    typeSites (env.withTVars tps) (path ++ "/bound") (tps.filterMap tparamBound)

def localDeclNames (body : List Node) : List String :=
  (body.filter isLocalDecl).map declName

mutual
/-- all sites of a node under the environment visible where the node stands -/
def sites (env : Env) (path : String) : Node → List Site
  | .block body _ =>
      ⟨path, env, .distinct "local" (localDeclNames body)⟩ :: sitesBlock env path body
  | .superInst t args =>
      ⟨path ++ "/super", env, .type t⟩ :: ⟨path ++ "/super", env, .super t (args.map List.length)⟩ ::
        (match args with | some as => sitesL env (path ++ "/super") as | none => [])
  | .classDecl name ctype fin fields supers funcs tps =>
      let p := path ++ "/class:" ++ name
      let env1 := { env.withTVars tps with cls := some (.classDecl name ctype fin fields supers funcs tps) }
      ⟨p, env, .ident name⟩ :: tparamSites env p tps
        ++ [⟨p, env, .distinct "field" (fields.map declName)⟩, ⟨p, env, .distinct "method" (funcs.map declName)⟩]
        ++ sitesL env1 p fields ++ sitesL env1 p supers ++ sitesL env1 p funcs
  | .varDecl name e _ vt _ =>
      let p := path ++ "/var:" ++ name
      ⟨p, env, .ident name⟩ :: optTypeSites env p vt ++ sites env p e
  | .callArg e _ => sites env path e
  | .fieldDecl name t _ _ _ =>
      [⟨path ++ "/field:" ++ name, env, .ident name⟩, ⟨path ++ "/field:" ++ name, env, .type t⟩]
  | .paramDecl name t _ dflt =>
      let p := path ++ "/param:" ++ name
      ⟨p, env, .ident name⟩ :: ⟨p, env, .type t⟩ :: sitesO env p dflt
  | .funcDecl name params ret _ body _ _ tps _ =>
      let p := path ++ "/func:" ++ name
      let env1 := env.withTVars tps
      ⟨p, env, .ident name⟩ :: tparamSites env p tps ++ optTypeSites env1 (p ++ "/ret") ret
        ++ ⟨p, env, .distinct "parameter" (params.map declName)⟩ :: sitesL env1 p params
        ++ sitesO (env1.enterFun params) p body
  | .lambda _ params ret body sig =>
      let p := path ++ "/lambda"
      optTypeSites env p sig ++ optTypeSites env p ret
        ++ ⟨p, env, .distinct "parameter" (params.map declName)⟩ :: sitesL env p params
        ++ sites (env.enterFun params) p body
  | .funcRef f recv sig =>
      optTypeSites env (path ++ "/funcref") sig ++ sitesO env (path ++ "/funcref") recv
        ++ [⟨path ++ "/funcref:" ++ f, env, .funcRef f recv⟩]
  | .bottom t => optTypeSites env (path ++ "/bottom") t
  | .intC _ t => optTypeSites env (path ++ "/int") t
  | .realC _ t => optTypeSites env (path ++ "/real") t
  | .boolC _ => []
  | .charC _ => []
  | .stringC _ => []
  | .arrayE t _ es => ⟨path ++ "/array", env, .type t⟩ :: sitesL env (path ++ "/array") es
  | .variable x => [⟨path ++ "/variable:" ++ x, env, .var x⟩]
  | .isE e t _ => ⟨path ++ "/is", env, .type t⟩ :: sites env (path ++ "/is") e
  | .binop _ l r _ => sites env (path ++ "/binop") l ++ sites env (path ++ "/binop") r
  | .cond c tb fb _ =>
      -- a smart cast `x is T` re-binds `x` (as a final variable of type `T`) in the true branch
      let envT := match c with
        | .isE (.variable x) t false => env.push (.varDecl x (.bottom none) true (some t) none)
        | _ => env
      sites env (path ++ "/cond") c ++ sites envT (path ++ "/true") tb ++ sites env (path ++ "/false") fb
  | .newE t args _ =>
      ⟨path ++ "/new", env, .type t⟩ :: sitesL env (path ++ "/new") args
        ++ [⟨path ++ "/new", env, .new t args.length⟩]
  | .fieldAccess e f =>
      sites env (path ++ "/fieldaccess") e ++ [⟨path ++ "/fieldaccess:" ++ f, env, .field e f⟩]
  | .call f args recv targs _ _ =>
      let p := path ++ "/call:" ++ f
      sitesL env p args ++ sitesO env p recv ++ typeSites env p targs ++ [⟨p, env, .call f args recv⟩]
  | .assign x e recv =>
      let p := path ++ "/assign:" ++ x
      sites env p e ++ sitesO env p recv ++ [⟨p, env, .assign x recv⟩]
def sitesL (env : Env) (path : String) : List Node → List Site
  | [] => []
  | n :: ns => sites env path n ++ sitesL env path ns
def sitesO (env : Env) (path : String) : Option Node → List Site
  | none => []
  | some n => sites env path n
/-- the statements of a block, threading the environment: a variable becomes visible after its
    initialiser, a nested function already in its own body -/
def sitesBlock (env : Env) (path : String) : List Node → List Site
  | [] => []
  | s :: rest =>
      if isFuncDecl s then sites (env.push s) path s ++ sitesBlock (env.push s) path rest
      else sites env path s ++ sitesBlock (if isVarDecl s then env.push s else env) path rest
end

def initialEnv (p : Program) : Env := { lang := p.lang, tops := p.decls }

/-- every site of a program -/
def programSites (p : Program) : List Site :=
  ⟨"", initialEnv p, .distinct "top-level" (p.decls.map declName)⟩ :: sitesL (initialEnv p) "" p.decls

/-! ## `Resolves` -/

def posArgs (args : List Node) : List Node := args.takeWhile fun a => (argName a).isNone
def namedArgs (args : List Node) : List Node := args.dropWhile fun a => (argName a).isNone

/-- the parameters admit the arguments: positional arguments bind parameters in order (more
    than there are parameters only if one is a vararg), the remaining arguments are all named, with
    distinct names of parameters not bound positionally, and every parameter left unbound has a
    default value or is a vararg -/
def Admits (params args : List Node) : Prop :=
  let npos := (posArgs args).length
  let named := (namedArgs args).map argName
  let rest := params.drop npos
  (∀ n ∈ named, n ≠ none) ∧ named.Nodup
  ∧ (npos ≤ params.length ∨ ∃ p ∈ params, paramVararg p = true)
  ∧ (∀ n ∈ named, ∃ p ∈ rest, some (paramName p) = n)
  ∧ (∀ p ∈ rest, some (paramName p) ∈ named ∨ paramHasDefault p = true ∨ paramVararg p = true)

instance (params args : List Node) : Decidable (Admits params args) := by
  unfold Admits; exact inferInstance

/-- a variable reference resolves: the innermost visible declaration of that name exists, and
    if it lies outside the innermost Java lambda it is capturable -/
def ResolvesVar (env : Env) (x : String) : Prop :=
  ∃ r, (visibleVars env x).head? = some r ∧ (r.captured = true → isCapturable r.decl = true)

/-- the functions a call/reference with this receiver can denote -/
def candidateFuncs (env : Env) (f : String) : Option Node → List (Node × TMap)
  | none => visibleFuncs env f
  | some r => memberFuncs env.tops (staticType env r) f

/-- the function-typed variable/field a reference call with this receiver can denote -/
def candidateRefType (env : Env) (f : String) : Option Node → Option Ty
  | none => match (visibleVars env f).head? with
    | some r => if r.captured && !isCapturable r.decl then none else r.ty
    | none => none
  | some r => match (memberFields env.tops (staticType env r) f).head? with
    | some fm => (declTy fm.1).map (substTy fm.2)
    | none => none

def ResolvesCall (env : Env) (f : String) (args : List Node) (recv : Option Node) : Prop :=
  (∃ fm ∈ candidateFuncs env f recv, Admits (funcParams fm.1) args)
  ∨ funArity (candidateRefType env f recv) = some args.length

def ResolvesFuncRef (env : Env) (f : String) (recv : Option Node) : Prop :=
  ∃ fm, fm ∈ candidateFuncs env f recv

def ResolvesField (env : Env) (e : Node) (f : String) : Prop :=
  ∃ fm, fm ∈ memberFields env.tops (staticType env e) f

def ResolvesNew (env : Env) (t : Ty) (nargs : Nat) : Prop :=
  match t with
  | .builtin .. => nargs = 0
  | .simple name _ =>
      ∃ c ∈ env.tops, isClassDecl c = true ∧ declName c = name ∧ classKind c = 0
        ∧ (classFields c).length = nargs ∧ (classTParams c).length = 0
  | .param name _ targs _ =>
      ∃ c ∈ env.tops, isClassDecl c = true ∧ declName c = name ∧ classKind c = 0
        ∧ (classFields c).length = nargs ∧ (classTParams c).length = targs.length
  | _ => False

/-- a superclass instantiation names a declared class; a constructor call passes one argument per field -/
def ResolvesSuper (env : Env) (t : Ty) (nargs : Option Nat) : Prop :=
  ∃ c ∈ env.tops, isClassDecl c = true ∧ some (declName c) = tyClassName t
    ∧ (nargs = none ∨ nargs = some (classFields c).length)

/-- an assignment targets a non-final variable or field (most derived declaration of the field),
    and never a local captured by a Java lambda -/
def ResolvesAssign (env : Env) (x : String) : Option Node → Prop
  | none => ∃ r, (visibleVars env x).head? = some r ∧ isAssignable r.decl = true ∧ r.captured = false
  | some recv => ∃ fm, (memberFields env.tops (staticType env recv) x).head? = some fm ∧ isAssignable fm.1 = true

def TypeVarsBound (env : Env) (t : Ty) : Prop := ∀ v ∈ tyVars t, v ∈ env.tvs

def Resolves (kw : List String) (env : Env) : Use → Prop
  | .var x => ResolvesVar env x
  | .call f args recv => ResolvesCall env f args recv
  | .funcRef f recv => ResolvesFuncRef env f recv
  | .field e f => ResolvesField env e f
  | .new t n => ResolvesNew env t n
  | .super t n => ResolvesSuper env t n
  | .assign x recv => ResolvesAssign env x recv
  | .type t => TypeVarsBound env t
  | .ident name => name ∉ kw
  | .distinct _ names => names.Nodup

/-- C05 for one program and one keyword table -/
def Closed (p : Program) (kw : List String) : Prop :=
  ∀ s ∈ programSites p, Resolves kw s.env s.use

end Heph.Scope
