import Heph.Model.Types
import Heph.Model.Subst
import Heph.Spec.Subtyping
/-!
# Declarative assignability (specification side of C01)

`Asg U s t` — "a value of type `s` may flow into a position of type `t`" — is the declarative
closure the generator relies on when it *composes* judgements (`find_subtypes`, then
`is_assignable`, then a boxed copy …).  It is **not** the answer of the code's `is_assignable`
(calibration rule 1 of DESIGN, Block B).  It contains every rule of `SubT`
(`Spec/Subtyping.lean`; see `Proofs/CheckSubD.lean`, `SubT.toAsg`) and adds

* `top`: every type is below the top type of the language (`Object`/`Any`: a class declared
  without a superclass carries *no* stored supertype in the IR);
* `box`: a primitive and its box are one type (they are `==`), so a primitive inherits the
  supertypes stored in its box — the box must be a type of the universe;
* `tvarTop`/`tvar`: a type variable is reflexive (through `==`), below its bound, and below
  whatever its bound is below;
* containment `AsgArg`: the rules of `Cont`, plus `outTop` (everything is contained in
  `out Top`) and `starOut` (a star projection is contained in `out B` when the *declared*
  bound of the parameter, after substituting the other arguments, is below `B`:
  star = `out` declared bound).

As `SubT`, the relation is relative to a universe `U` of types (the middle type of a `trans`
step belongs to `U`).
-/
namespace Heph
namespace Ty

/-- the top type of a language: the built-in `Object` (Java, Groovy) / `Any` (Kotlin, Scala),
    which stores no supertype -/
def isTop : Ty → Bool
  | builtin _ nm nt p ss => (nm == "Object" || nm == "Any") && !nt && !p && ss.isEmpty
  | _ => false

mutual
inductive Asg (U : Ty → Prop) : Ty → Ty → Prop
  | refl {s t} : beq s t = true → Asg U s t
  | reflR {s t} : beq t s = true → Asg U s t
  | trans {s u t} : U u → Asg U s u → Asg U u t → Asg U s t
  | bot {t} : Asg U nothing t
  | botBuiltin {c nm p ss t} : Asg U (builtin c nm true p ss) t
  | top {s t} : isTop t = true → Asg U s t
  | nominal {s u} : u ∈ sups s → Asg U s u
  | tvar {nm v bd} : Asg U (tparam nm v (some bd)) bd
  | projOut {sb ob} : Asg U sb ob → Asg U (wild 1 (some sb)) (wild 1 (some ob))
  | args {nm con as ss nm' con' bs ss'} :
      beq con con' = true → AsgArgs U (TMap.mk (conParams con) as) (conParams con) as bs →
      Asg U (param nm con as ss) (param nm' con' bs ss')
/-- per-position containment along the `zip` of parameters and the two argument lists; `m` is
    the map parameter ↦ argument of the left-hand instantiation -/
inductive AsgArgs (U : Ty → Prop) : TMap → List Ty → List Ty → List Ty → Prop
  | stop {m tps as bs} : tps = [] ∨ as = [] ∨ bs = [] → AsgArgs U m tps as bs
  | cons {m tp tps a as b bs} : AsgArg U m tp a b → AsgArgs U m tps as bs →
      AsgArgs U m (tp :: tps) (a :: as) (b :: bs)
/-- `AsgArg U m tp a b`: argument `a` is contained in argument `b` at type parameter `tp` -/
inductive AsgArg (U : Ty → Prop) : TMap → Ty → Ty → Ty → Prop
  | same {m tp a b} : beq a b = true → AsgArg U m tp a b
  | declCo {m tp a b} : variance tp = 1 → isWild a = false → isWild b = false → Asg U a b → AsgArg U m tp a b
  | declContra {m tp a b} : variance tp = 2 → isWild a = false → isWild b = false → Asg U b a → AsgArg U m tp a b
  | useOut {m tp a bd} : isWild a = false → Asg U a bd → AsgArg U m tp a (wild 1 (some bd))
  | useIn {m tp a bd} : isWild a = false → Asg U bd a → AsgArg U m tp a (wild 2 (some bd))
  | outOut {m tp bd bd'} : Asg U bd bd' → AsgArg U m tp (wild 1 (some bd)) (wild 1 (some bd'))
  | inIn {m tp bd bd'} : Asg U bd' bd → AsgArg U m tp (wild 2 (some bd)) (wild 2 (some bd'))
  | star {m tp a v} : (isWild a = false ∨ (boundOf a).isSome) → AsgArg U m tp a (wild v none)
  | projDeclCo {m tp bd b} : variance tp = 1 → isWild b = false → Asg U bd b → AsgArg U m tp (wild 1 (some bd)) b
  | projDeclContra {m tp bd b} : variance tp = 2 → isWild b = false → Asg U b bd → AsgArg U m tp (wild 2 (some bd)) b
  /-- everything is contained in `out Top` -/
  | outTop {m tp a bd} : isTop bd = true → AsgArg U m tp a (wild 1 (some bd))
  /-- star = `out` declared bound of the parameter (under the other arguments) -/
  | starOut {m nm var dbd v bd} : Asg U (substituteType dbd m) bd →
      AsgArg U m (tparam nm var (some dbd)) (wild v none) (wild 1 (some bd))
end

end Ty
end Heph
