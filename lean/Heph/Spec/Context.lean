import Heph.Model.Context
/-!
# The scoped map that `context.py` is supposed to implement (specification of C16)

Everything here is a function of the *operation history* (`List Op`) alone — no namespace
table, no six maps per namespace, no reverse index.

* `specCurrent ops ns k` — the entries of map `k` of namespace `ns` after the history, as an
  insertion-ordered dictionary: an `add` that writes the map sets the name (a name that is
  present keeps its position, a new or re-added one goes to the end), a `remove` deletes it,
  `remove_namespace` empties the namespace.  `add_func/var/class` write their own map *and*
  the one shared name space `decls`; `remove_func/var/class` delete from both.
* `specLocal ops ns name` — the binding of `name` in exactly `ns`: the most recent `add` of a
  function, variable or class under that name which no later `remove_func/var/class` of that
  name (of whatever kind) and no `remove_namespace` undid.  Types and lambdas never bind.
* `innermost g ns` — generic scoped search: the longest non-empty prefix `p` of `ns` with
  `g p = some _` (characterised declaratively by `innermost_iff` in `Proofs/ContextLookup`).
* `specLookup` — name resolution: the innermost enclosing namespace with a binding that is
  not `None` (a `None` declaration is an artificial node and counts as absent).
-/
namespace Heph.Context

/-- does an operation of entity kind `k'` write map `k`? -/
def writes (k' : EKind) (k : Kind) : Bool := k'.toKind == k || (k'.binds && k == .decls)

/-- effect of one operation on map `k` of namespace `ns` -/
def specStep (ns : Ns) (k : Kind) (acc : Dict) : Op → Dict
  | .add k' ns' nm v => if ns' = ns ∧ writes k' k then aSet acc nm v else acc
  | .remove k' ns' nm => if ns' = ns ∧ writes k' k then aDel acc nm else acc
  | .removeNamespace ns' => if ns' = ns then [] else acc

/-- the entries of map `k` of namespace `ns` after a history, in insertion order -/
def specCurrent (ops : List Op) (ns : Ns) (k : Kind) : Dict := ops.foldl (specStep ns k) []

/-- does the operation (un)bind `name` in the shared `decls` name space of `ns`? -/
def bindsDecl : Op → Ns → String → Option (Option Val)
  | .add k ns nm v, ns', nm' => if ns = ns' ∧ nm = nm' ∧ k.binds then some (some v) else none
  | .remove k ns nm, ns', nm' => if ns = ns' ∧ nm = nm' ∧ k.binds then some none else none
  | .removeNamespace ns, ns', _ => if ns = ns' then some none else none

/-- the binding of `name` in exactly `ns` after a history -/
def specLocal (ops : List Op) (ns : Ns) (name : String) : Option Val :=
  ops.foldl (fun cur op => match bindsDecl op ns name with | some b => b | none => cur) none

/-- scoped search over the *reversed* namespace: the innermost (longest) non-empty prefix with
    `g prefix = some _` -/
def innermostRev {α : Type} (g : Ns → Option α) : List String → Option (Ns × α)
  | [] => none
  | x :: rest =>
    match g (x :: rest).reverse with
    | some a => some ((x :: rest).reverse, a)
    | none => innermostRev g rest

def innermost {α : Type} (g : Ns → Option α) (ns : Ns) : Option (Ns × α) := innermostRev g ns.reverse

/-- a real declaration: bound and not the artificial `None` -/
def realDecl (ops : List Op) (name : String) (ns : Ns) : Option Val :=
  match specLocal ops ns name with
  | some v => if v.truthy then some v else none
  | none => none

/-- name resolution from `ns`: the innermost enclosing namespace that really declares `name` -/
def specLookup (ops : List Op) (ns : Ns) (name : String) : Option (Ns × Val) :=
  innermost (realDecl ops name) ns

/-- a real declaration in a namespace that lies inside `limit` -/
def realDeclIn (ops : List Op) (name : String) (limit : Ns) (p : Ns) : Option Val :=
  if limit ≠ [] ∧ limit <+: p then realDecl ops name p else none

/-- name resolution that does not leave the namespace `limit` -/
def specLookupLimit (ops : List Op) (ns : Ns) (name : String) (limit : Ns) : Option (Ns × Val) :=
  innermost (realDeclIn ops name limit) ns

/-- the enclosing-scope view of map `k` from `ns`, by name -/
def specPathGet (ops : List Op) (ns : Ns) (k : Kind) (name : String) : Option Val :=
  (innermost (fun p => aGet (specCurrent ops p k) name) ns).map (·.2)

end Heph.Context
