import Heph.Model.TransJava
import Heph.Spec.Subtyping
/-!
# Bracket balance of Java texts: the scanner and the (executable) hypotheses of the theorem

* `scan` / `balancedB`: the stack scanner over `( ) { } [ ]` that states the property
  (`Balanced` in `Proofs/TransJavaBal.lean` is `scan [] text = some []`).  The driver runs the very
  same function on the texts the real translator emits.
* `atomsOK`, `envOK`: the hypotheses of `Props/C02.lean : javaText_balanced` as Boolean tests, so
  that the harness can tell for every explored program whether the theorem speaks about it:
  every identifier, literal and operator symbol is free of the six characters, parameter names are
  words, parameters of function declarations are parameter declarations, and every type mentioned
  (supertypes, bounds, constructors and arguments included) has bracket-free names (`tyWF`).
  `envOK` asks the same of every declaration stored in the context.

Core Lean only (the driver imports this file).
-/
namespace Heph.TransJava

/-- the characters whose nesting is stated: `( ) { } [ ]` -/
def isBr (c : Char) : Bool := c == '(' || c == ')' || c == '{' || c == '}' || c == '[' || c == ']'

/-- the closing character an opening one asks for -/
def closerOf (c : Char) : Option Char :=
  if c == '(' then some ')' else if c == '{' then some '}' else if c == '[' then some ']' else none

def isCloser (c : Char) : Bool := c == ')' || c == '}' || c == ']'

/-- bracket scanner: the stack holds the closers that are still expected (head = innermost);
characters that are not brackets are skipped; a closer must be the expected one -/
def scan : List Char → List Char → Option (List Char)
  | st, [] => some st
  | st, c :: cs =>
    match closerOf c with
    | some k => scan (k :: st) cs
    | none =>
      if isCloser c then
        (match st with
         | k :: st' => if k == c then scan st' cs else none
         | [] => none)
      else scan st cs

/-- the scanner's verdict on a text -/
def balancedB (s : String) : Bool := scan [] s.toList == some []

/-! ## the hypotheses, executable -/

/-- none of the six characters occurs -/
def brFreeB (s : String) : Bool := s.toList.all fun c => !isBr c

/-- not empty, no white space -/
def wordB (s : String) : Bool := !s.toList.isEmpty && s.toList.all fun c => !isPyWs c

/-- the names a type node prints are bracket-free -/
def tyNameOK : Ty → Bool
  | .builtin _ nm _ _ _ => brFreeB nm
  | .simple nm _ => brFreeB nm
  | .tparam nm _ _ => brFreeB nm
  | .wild _ _ => true
  | .tcon _ nm _ _ => brFreeB nm
  | .param nm _ _ _ => brFreeB nm
  | .nothing => true
  | .ext c => brFreeB c

/-- every node of the type (arguments, bounds, constructors, supertypes) has bracket-free names -/
def tyWF (t : Ty) : Bool := (Ty.subterms t).all tyNameOK
def tyWFO : Option Ty → Bool | some t => tyWF t | none => true
def tyWFL (ts : List Ty) : Bool := ts.all tyWF

def isParamDecl : Node → Bool | .paramDecl .. => true | _ => false

mutual
/-- the hypotheses on the atoms of a program, for every node kind -/
def atomsOK : Node → Bool
  | .block body _ => atomsOKL body
  | .superInst t args => tyWF t && (match args with | some a => atomsOKL a | none => true)
  | .classDecl name _ _ fields supers funcs tparams =>
      brFreeB name && atomsOKL fields && atomsOKL supers && atomsOKL funcs && tyWFL tparams
  | .varDecl name ex _ vt inferred => brFreeB name && atomsOK ex && tyWFO vt && tyWFO inferred
  | .callArg ex _ => atomsOK ex
  | .fieldDecl name t _ _ _ => brFreeB name && tyWF t
  | .paramDecl name t _ _ => brFreeB name && wordB name && tyWF t
  | .funcDecl name params ret inferred body _ _ tparams _ =>
      brFreeB name && atomsOKL params && params.all isParamDecl && tyWFO ret && tyWFO inferred &&
      (match body with | some b => atomsOK b | none => true) && tyWFL tparams
  | .lambda name params ret body sig =>
      brFreeB name && atomsOKL params && tyWFO ret && atomsOK body && tyWFO sig
  | .funcRef func recv sig =>
      brFreeB func && (match recv with | some r => atomsOK r | none => true) && tyWFO sig
  | .bottom t => tyWFO t
  | .intC lit t => brFreeB lit && tyWFO t
  | .realC lit t => brFreeB lit && tyWFO t
  | .boolC lit => brFreeB lit
  | .charC lit => brFreeB lit
  | .stringC lit => brFreeB lit
  | .arrayE t _ exprs => tyWF t && atomsOKL exprs
  | .variable name => brFreeB name
  | .isE ex t _ => atomsOK ex && tyWF t
  | .binop _ l r op => atomsOK l && atomsOK r && brFreeB op
  | .cond c t f ty => atomsOK c && atomsOK t && atomsOK f && tyWFO ty
  | .newE t args _ => tyWF t && atomsOKL args
  | .fieldAccess ex field => atomsOK ex && brFreeB field
  | .call func args recv targs _ _ =>
      brFreeB func && atomsOKL args && (match recv with | some r => atomsOK r | none => true) && tyWFL targs
  | .assign name ex recv =>
      brFreeB name && atomsOK ex && (match recv with | some r => atomsOK r | none => true)
def atomsOKL : List Node → Bool
  | [] => true
  | x :: xs => atomsOK x && atomsOKL xs
end

/-- every declaration stored in the context has well-formed atoms -/
def envOK (e : Env) : Bool := e.entries.all fun x => match x.val with | some d => atomsOK d | none => true

end Heph.TransJava
