import Heph.Proofs.TransScalaHistory
/-!
# C11 for the Scala translator — translation is a pure function of the program

Model: `Heph.TransScala` (`lean/Heph/Model/TransScala.lean`), a state-threading port of
`src/translators/scala.py`: `visit : St → Node → St × Doc`.  `ScalaTranslator` has exactly the
attributes of `KotlinTranslator` (`ident`, `is_unit`, `is_lambda`, `_cast_integers`, `_nodes_stack`,
`context`; `program`, `package`), so `St` / `Obj` / `Agree` / `leaks` are the Kotlin model's.
`_children_res` is modelled by return values.  The harness compares the model's text byte for byte
with the real `ScalaTranslator` on every explored program (fresh object, after a history, after
`_reset_state()`), the top-level visits from hand-set states, and the state after a history.

What is proved, for ALL programs (any `Node` tree, typed or not):

* `visit_state` — the complete effect of a visit on the translator state: every attribute is back to
  its value before the visit, except that `ident` is left at 0 by a *leaking* node: a super-class
  instantiation (`visit_super_instantiation` assigns `self.ident = 0` and never restores it) or a
  block that (transitively through blocks) has one among its statements (`visit_block` does not save
  `ident`).  `visit_restores_partial`, `class_absorbs_super`, `decl_restores`; the full statement
  `visit_restores` is refuted by `visit_restores_counterexample` (replayed on the real
  `ScalaTranslator` by the harness; the generator never builds such a block).
* `visit_program_state` — the object after `visit_program`, attribute by attribute.
* `program_state_independent` — the text depends on the translator object only through
  `ident, is_unit, is_lambda, _cast_integers, _nodes_stack, package`.
* `history_independent`, `translate_twice`, `history_independent_from` — a translator object that has
  translated any list of programs prints any program exactly as a fresh one does.
* `reset_state_forgets` — after `_reset_state()` (which no code calls) an object prints like a fresh one,
  whatever state it was in.
* `type_param_text_nonempty` — justifies modelling the text test `if type_parameters_res:` of
  `visit_class_decl` / `visit_func_decl` by "there are type parameters".
-/
namespace Heph.Props.C11.Scala
open Heph Heph.TransScala
open Heph.TransKotlin (St Obj initObj leaks leaksL Agree)

/-- the complete effect of one visit on the translator state -/
theorem visit_state (st : St) (n : Node) :
    (visit st n).1 = { st with ident := bif leaks n then 0 else st.ident } :=
  visit_fst n st

/-- everything except `ident` is restored by every visit -/
theorem visit_restores_all_but_ident (st : St) (n : Node) :
    (visit st n).1.isUnit = st.isUnit ∧ (visit st n).1.isLambda = st.isLambda ∧
    (visit st n).1.cast = st.cast ∧ (visit st n).1.stack = st.stack ∧
    (visit st n).1.context = st.context := by
  rw [visit_state]; exact ⟨rfl, rfl, rfl, rfl, rfl⟩

/-- the full-strength statement of the design: every node other than a bare super-class
    instantiation leaves the translator state as it found it -/
def visit_restores : Prop :=
  ∀ (st : St) (n : Node), (∀ t a, n ≠ .superInst t a) → (visit st n).1 = st

/-- proved part: nodes that do not leak (everything except super instantiations and blocks
    containing one).  Missing for the full statement: `visit_block` does not save `ident`. -/
theorem visit_restores_partial (st : St) (n : Node) (h : leaks n = false) : (visit st n).1 = st := by
  rw [visit_state, h]; rfl

/-- a super-class instantiation leaves `ident = 0` (and only that) -/
theorem visit_super_sets_ident (st : St) (t : Ty) (a : Option (List Node)) :
    (visit st (.superInst t a)).1 = { st with ident := 0 } := by
  rw [visit_state]; rfl

/-- a class declaration restores the whole state, although its super-class clause leaks -/
theorem class_absorbs_super (st : St) (name : String) (ctype : Nat) (isFinal : Bool)
    (fields supers funcs : List Node) (tparams : List Ty) :
    (visit st (.classDecl name ctype isFinal fields supers funcs tparams)).1 = st :=
  visit_restores_partial st _ rfl

/-- …and so do all other declarations and all expressions -/
theorem decl_restores (st : St) (n : Node) (h1 : ∀ t a, n ≠ .superInst t a) (h2 : ∀ b f, n ≠ .block b f) :
    (visit st n).1 = st := by
  apply visit_restores_partial
  cases n <;> first | rfl | exact absurd rfl (h1 _ _) | exact absurd rfl (h2 _ _)

def tyAny : Ty := .builtin "<class 'src.ir.scala_types.AnyType'>" "Any" false false []

/-- the code violates the full statement: a block with a super instantiation among its statements,
    visited at `ident = 4`, leaves `ident = 0` -/
theorem visit_restores_counterexample : ¬ visit_restores := by
  intro h
  have := h { ident := 4 } (.block [.superInst tyAny none] false) (by intro t a; exact Node.noConfusion)
  rw [visit_state] at this
  exact absurd (congrArg St.ident this) (by decide)

/-- the text depends on the translator object only through the attributes listed in `Agree` -/
theorem program_state_independent (a b : Obj) (h : Agree a b) (p : Program) : text a p = text b p :=
  text_agree h p

/-- `visit_program` leaves the object as it found it (up to `context`/`program`) whenever it
    started at `ident = 0` or no top-level declaration leaks -/
theorem visit_program_restores (ob : Obj) (p : Program) (h : ob.st.ident = 0 ∨ leaksL p.decls = false) :
    Agree (visitProgram ob p) ob := visitProgram_agree ob p h

/-- the translator object after `visit_program`, exactly: `context` points at the new program (it is never
    reset: the object keeps the last program's context alive), `program` is the text, `ident` is 0 if a
    top-level declaration leaks, everything else — `package` included — is as before -/
theorem visit_program_state (ob : Obj) (p : Program) :
    (visitProgram ob p).st =
      { ob.st with context := TransKotlin.programClasses p, ident := bif leaksL p.decls then 0 else ob.st.ident } ∧
    (visitProgram ob p).program = some (text ob p) ∧ (visitProgram ob p).package = ob.package := by
  refine ⟨(visitProgram_st ob p).1, ?_, (visitProgram_st ob p).2⟩
  simp [text, translate, visitProgram]

/-- translating any list of programs first does not change the text of the next program -/
theorem history_independent (package : Option String) (ps : List Program) (p : Program) :
    text (after (initObj package) ps) p = text (initObj package) p :=
  text_agree (after_agree ps (initObj package) rfl) p

/-- the same translator object twice -/
theorem translate_twice (package : Option String) (p : Program) :
    text (translate (initObj package) p).1 p = text (initObj package) p :=
  history_independent package [p] p

/-- the history may itself follow any history (`after` composes) -/
theorem history_independent_from (ob : Obj) (h : ob.st.ident = 0) (ps : List Program) (p : Program) :
    text (after ob ps) p = text ob p :=
  text_agree (after_agree ps ob h) p

/-- `_reset_state()` makes any object (any state, any history) print like a fresh one -/
theorem reset_state_forgets (ob : Obj) (p : Program) :
    text (resetState ob) p = text (initObj ob.package) p :=
  text_agree (resetState_agree ob) p

/-- every text `visit_type_param` produces is non-empty: the text test `if type_parameters_res:` is the
    test "the declaration has type parameters" -/
theorem type_param_text_nonempty (t : Ty) : typeParamStr t ≠ "" := typeParamStr_ne_empty t

/-! ## non-vacuity: a small concrete program (the harness builds the same program with the real
    classes and compares the text below with the real `ScalaTranslator`'s) -/

def tyInt : Ty := .builtin "<class 'src.ir.scala_types.IntegerType'>" "Int" false false [tyAny]
def tyLong : Ty := .builtin "<class 'src.ir.scala_types.LongType'>" "Long" false false [tyAny]
def tyUnit : Ty := .builtin "<class 'src.ir.scala_types.UnitType'>" "Unit" false false [tyAny]

/-- `open class B(val x: Int)`, `class A[+T <: Any](final override val x: Int) extends B(1) { final def f … }`,
    `def g(): Unit = { val v = 3.toLong; val _y = v.f _; p`q`[Int](v); }` -/
def demo : Program := {
  lang := "scala",
  decls := [
    .classDecl "B" 0 false [.fieldDecl "x" tyInt true true false] [] [] [],
    .classDecl "A" 0 true [.fieldDecl "x" tyInt true false true]
      [.superInst (.simple "B" []) (some [.intC "1" (some tyInt)])]
      [.funcDecl "f" [.paramDecl "a" tyInt false none] (some tyLong) (some tyLong)
         (some (.intC "-2" (some tyLong))) true false [] 0]
      [.tparam "T" 1 none],
    .funcDecl "g" [] (some tyUnit) (some tyUnit)
      (some (.block [.varDecl "v" (.intC "3" (some tyLong)) true none (some tyLong),
                     .funcRef "f" (some (.variable "v")) none,
                     .call "p.q" [.callArg (.variable "v") none] none [tyInt] false false] true))
      true false [] 1],
  context := [] }

/-- visible in the text: member functions of a class with a super-class clause are unindented (the
    leak), a function reference inside the block of a Unit function gets `val _y = `, a qualified
    function name loses its dot -/
example : text (initObj (some "src.pkg")) demo =
    "package src.pkg\nopen class B(val x: Int)\n\nclass A[+T <: Any](final override val x: Int) extends B(1) {\nfinal def f(a: Int): Long =\n  -2.toLong\n}\n\ndef g(): Unit =\n{\n  val v = 3.toLong;\n  val _y = v.f _;\n    p`q`[Int](v);\n  }" := by
  decide +kernel

example : text (after (initObj (some "src.pkg")) [demo, demo]) demo = text (initObj (some "src.pkg")) demo :=
  history_independent _ _ _

example : leaksL demo.decls = false := by decide
example : (visit { ident := 4 } (.block [.superInst tyAny none] false)).1.ident = 0 := by decide
example : Agree (visitProgram (initObj none) demo) (initObj none) := visit_program_restores _ _ (Or.inl rfl)
example : leaks (.block [.superInst tyAny none] false) = true ∧ leaks (.variable "x") = false := by decide
example : (after (initObj (some "p")) [demo]).st.ident = 0 := by decide +kernel   -- hypothesis of `history_independent_from`
example : Agree (resetState { st := { ident := 6, isUnit := true, cast := true }, package := some "p" })
    (initObj (some "p")) := resetState_agree _

end Heph.Props.C11.Scala
