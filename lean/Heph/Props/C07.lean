import Heph.Model.Subst
import Heph.Proofs.Heap
import Heph.Generated.Writes
/-!
# C07 — instantiation substitutes everywhere and mutates nothing

Mutation half (this file, first part): in a by-value functional model "mutates nothing" is true
by construction, so it is stated over a heap semantics and the *regenerated* table of the
writes the Python functions perform (`Heph.Generated.typesWrites`, rebuilt from
`src/ir/types.py` by `harness/regen_c07.py` on every run).
-/
namespace Heph.Props.C07
open Heph Heph.Heap

/-- a write is harmless when the written object was allocated by the running call -/
def writeOK (prov : String) : Bool := prov == "fresh" || prov == "owned" || prov == "selfCtor"

/-- every attribute/item write and every mutating method call in the instantiation and
    substitution functions of `types.py` targets an object allocated during the same call
    (regenerated table; a new in-place write breaks this obligation by name) -/
theorem writes_table_fresh :
    Generated.typesWrites.all (fun w => writeOK w.2.2.2.2) = true := by decide

/-- all the functions the table is about still exist in the source -/
theorem writes_table_complete : Generated.typesWritesMissing = [] := by decide

/-- a call whose every write targets an object allocated during the call leaves every
    pre-existing object unchanged -/
theorem writes_fresh (h : Heap) (ss : List Stmt) (hf : FreshWrites h.length ss) :
    ∀ a, a < h.length → (run h ss)[a]? = h[a]? :=
  run_preserves ss h h.length (Nat.le_refl _) hf

/-- … hence, over any history of such calls, every object that existed at some point keeps its
    by-value meaning forever (earlier instantiations keep their meaning) -/
theorem instances_stable (cs : List (Heap → List Stmt))
    (hcs : ∀ c ∈ cs, ∀ h : Heap, FreshWrites h.length (c h)) :
    ∀ (h : Heap) a, a < h.length → (runCalls h cs)[a]? = h[a]? := by
  induction cs with
  | nil => intro h a _; rfl
  | cons c cs ih =>
    intro h a ha
    have hc := hcs c (by simp) h
    have h1 := run_preserves (c h) h h.length (Nat.le_refl _) hc a ha
    have hlen := run_length_ge h (c h)
    have h2 := ih (fun c' hc' => hcs c' (by simp [hc'])) (run h (c h)) a (by omega)
    simp only [runCalls]
    rw [h2, h1]

/-- non-vacuity: a call that allocates a copy and writes only into the copy -/
example : FreshWrites 1 [Stmt.alloc [("supertypes", 0)], Stmt.write 1 "supertypes" 7] := by
  intro s hs
  simp at hs
  rcases hs with rfl | rfl <;> simp

end Heph.Props.C07
