import Heph.Model.Subst
import Heph.Proofs.Heap
import Heph.Generated.Writes
import Heph.Proofs.SubstWitness
import Heph.Proofs.SubstClosure
/-!
# C07 — instantiation substitutes everywhere and mutates nothing

Substitution half (second part of this file): the code's `_get_type_substitution` /
`perform_type_substitution` / `TypeConstructor.new` (model `Heph/Model/Subst.lean`) against
substitution on syntax (`Heph/Spec/Subst.lean`), for all types (structural induction, no bound
on size).  Hypotheses that the code really needs are named and shown necessary by
counterexamples: `tvarsWithin` / `closedCon` (every type variable reachable by the substitution
is bound; declared supertypes only mention the class's own parameters), `wf` and `Consistent`.

Mutation half (this file, first part): in a by-value functional model "mutates nothing" is true
by construction, so it is stated over a heap semantics and the *regenerated* table of the
writes the Python functions perform (`Heph.Generated.typesWrites`, rebuilt from
`src/ir/types.py` by `harness/regen_c07.py` on every run).
-/
namespace Heph.Props.C07
open Heph Heph.Heap

/-- a write is harmless when the written object was allocated by the running call -/
def writeOK (prov : String) : Bool := prov == "fresh" || prov == "owned" || prov == "selfCtor"

/-- every attribute/item write and every mutating method call in the instantiation and
    substitution functions of `types.py` targets an object allocated during the same call
    (regenerated table; a new in-place write breaks this obligation by name) -/
theorem writes_table_fresh :
    Generated.typesWrites.all (fun w => writeOK w.2.2.2.2) = true := by decide

/-- all the functions the table is about still exist in the source -/
theorem writes_table_complete : Generated.typesWritesMissing = [] := by decide

/-- a call whose every write targets an object allocated during the call leaves every
    pre-existing object unchanged -/
theorem writes_fresh (h : Heap) (ss : List Stmt) (hf : FreshWrites h.length ss) :
    ∀ a, a < h.length → (run h ss)[a]? = h[a]? :=
  run_preserves ss h h.length (Nat.le_refl _) hf

/-- … hence, over any history of such calls, every object that existed at some point keeps its
    by-value meaning forever (earlier instantiations keep their meaning) -/
theorem instances_stable (cs : List (Heap → List Stmt))
    (hcs : ∀ c ∈ cs, ∀ h : Heap, FreshWrites h.length (c h)) :
    ∀ (h : Heap) a, a < h.length → (runCalls h cs)[a]? = h[a]? := by
  induction cs with
  | nil => intro h a _; rfl
  | cons c cs ih =>
    intro h a ha
    have hc := hcs c (by simp) h
    have h1 := run_preserves (c h) h h.length (Nat.le_refl _) hc a ha
    have hlen := run_length_ge h (c h)
    have h2 := ih (fun c' hc' => hcs c' (by simp [hc'])) (run h (c h)) a (by omega)
    simp only [runCalls]
    rw [h2, h1]

/-- non-vacuity: a call that allocates a copy and writes only into the copy -/
example : FreshWrites 1 [Stmt.alloc [("supertypes", 0)], Stmt.write 1 "supertypes" 7] := by
  intro s hs
  simp at hs
  rcases hs with rfl | rfl <;> simp

/-! ## Substitution half -/

open Heph.Ty Heph.C07W

/-! ### 1. the code's substitution is substitution on syntax -/

/-- full statement: whenever all replacements are type-variable free, the code's substitution
    (with either `cond`) is the syntactic one.  **False** of the code, see
    `getSubst_eq_substS_counterexample`: an *argument* of an instantiation node that keeps a type
    variable (one the map does not bind) makes `perform_type_substitution` skip that variable
    in the declared supertypes, because the inner call uses the default `cond`. -/
def getSubst_eq_substS : Prop :=
  ∀ (t : Ty) (σ : TMap) (dflt : Bool), (∀ p ∈ σ, hasTV p.2 = false) →
    getSubst t σ dflt = substS σ t

/-- proved part: … when moreover the map binds every type variable the substitution can reach
    (`tvarsWithin ps t`, `σ.covers ps`: arguments, wildcard bounds, and — relative to each
    class's own parameters — the declared supertypes of every class involved).  Holds for both
    values of the `cond` flag. -/
theorem getSubst_eq_substS_partial (t : Ty) (σ : TMap) (dflt : Bool) (ps : List Ty)
    (hσ : ∀ p ∈ σ, hasTV p.2 = false) (hc : σ.covers ps) (ht : tvarsWithin ps t = true) :
    getSubst t σ dflt = substS σ t :=
  getSubst_eq t σ ps dflt hσ hc ht

/-- in particular `substitute_type(t, σ)` is the syntactic substitution -/
theorem substituteType_eq_substS (t : Ty) (σ : TMap) (ps : List Ty)
    (hσ : ∀ p ∈ σ, hasTV p.2 = false) (hc : σ.covers ps) (ht : tvarsWithin ps t = true) :
    substituteType t σ = substS σ t :=
  getSubst_eq t σ ps false hσ hc ht

/-- the same for argument lists (`substitute_type_args`) -/
theorem getSubstL_eq_substSL (l : List Ty) (σ : TMap) (dflt : Bool) (ps : List Ty)
    (hσ : ∀ p ∈ σ, hasTV p.2 = false) (hc : σ.covers ps) (hl : tvarsWithinL ps l = true) :
    getSubstL l σ dflt = substSL σ l :=
  getSubstL_eq l σ ps dflt hσ hc hl

/-- the same for `perform_type_substitution` on a closed class declaration -/
theorem performSubst_eq_instConS (con : Ty) (m : TMap)
    (hm : ∀ p ∈ m, hasTV p.2 = false) (hc : m.covers (conParams con))
    (hcl : closedCon con = true) : performSubst con m = instConS con m := by
  cases con with
  | tcon cls nm ps ss =>
    simp only [performSubst, instConS]
    rw [performSubstL_eq ss m ps hm hc hcl]
  | _ => simp [performSubst, instConS]

/-- key sub-lemma: the map `{param: arg}` built by the code has type-variable-free values when
    the arguments are type-variable free, so a value returned by `type_map.get` is -/
theorem mk_get_tvfree (ks vs : List Ty) (h : hasTVL vs = false) (k r : Ty)
    (hg : (TMap.mk ks vs).get k = some r) : hasTV r = false :=
  TMap.get_pres (hasTV · = false) (TMap.mk_pres (hasTV · = false) ks vs (hasTVL_false_mem h)) hg

/-- … and it binds every variable `==` to a parameter (when there are enough arguments) -/
theorem mk_covers (ks vs : List Ty) (h : ks.length ≤ vs.length) : (TMap.mk ks vs).covers ks :=
  TMap.mk_covers ks vs h

/-- witness: `substitute_type(Foo<Y>, {})` for `class Foo<X> : Base<Lst<X>>`, `Y` a type variable
    that the (empty) map does not bind: the code answers a `Foo<Y>` whose supertype is
    `Base<Lst<X>>` (the inner map `{X: Y}` is skipped, `Y` has type variables); substitution on
    syntax says `Base<Lst<Y>>` -/
theorem getSubst_eq_substS_counterexample : ¬ getSubst_eq_substS := by
  intro h
  have := h (tconNew fooC [tY]) [] false (by simp)
  revert this
  decide

/-- non-vacuity of the hypotheses: `Foo<X>` under `{X ↦ String}` -/
example : (∀ p ∈ TMap.mk [tX] [strT], hasTV p.2 = false) ∧ (TMap.mk [tX] [strT]).covers [tX] ∧
    tvarsWithin [tX] (tconNew fooC [tX]) = true ∧
    getSubst (tconNew fooC [tX]) (TMap.mk [tX] [strT]) true ≠ tconNew fooC [tX] :=
  ⟨by decide, TMap.mk_covers _ _ (by decide), by decide, by decide⟩

/-! ### 2. supertypes of an instance -/

/-- full statement: the supertypes of `con.new(args)` for type-variable-free `args` are the
    declared supertypes under the syntactic substitution `{parameter ↦ argument}`.  **False** for
    class declarations whose supertypes mention a type variable that is not a parameter of the
    class (`new_supertypes_counterexample`). -/
def new_supertypes : Prop :=
  ∀ (con : Ty) (args : List Ty), hasTVL args = false →
    (tconNew con args).sups = conSups (instConS con (TMap.mk (conParams con) args))

/-- proved part: for a *closed* class declaration (`closedCon`: its declared supertypes, and
    those of the classes they instantiate, only mention the declaring class's own parameters)
    and at least as many arguments as parameters (Python asserts equality) -/
theorem new_supertypes_partial (con : Ty) (args : List Ty) (h : hasTVL args = false)
    (hcl : closedCon con = true) (hlen : (conParams con).length ≤ args.length) :
    (tconNew con args).sups = conSups (instConS con (TMap.mk (conParams con) args)) := by
  rw [conSups_instConS]
  exact tconNew_sups_eq con args h hcl hlen

/-- the same, element by element: each declared parameterized supertype is replaced by its
    substitution instance, every other declared supertype is kept -/
theorem new_supertypes_map (con : Ty) (args : List Ty) (h : hasTVL args = false)
    (hcl : closedCon con = true) (hlen : (conParams con).length ≤ args.length) :
    (tconNew con args).sups =
      (conSups con).map
        (fun d => if d.isParam then substS (TMap.mk (conParams con) args) d else d) := by
  rw [tconNew_sups_eq con args h hcl hlen, instSupsS_eq_map]

/-- witness: `class Root<T>`, `class Base<T> : Root<T>`, `class Bad<X> : Base<Y>` (`Y` is not a
    parameter of `Bad`): `Bad.new([String]).supertypes[0]` is a `Base<Y>` whose own supertype is
    `Root<T>` (the map `{T: Y}` is skipped); substitution on syntax says `Root<Y>` -/
theorem new_supertypes_counterexample : ¬ new_supertypes := by
  intro h
  have := h badC [strT] (by decide)
  revert this
  decide

/-- transitively up the hierarchy: every parameterized supertype `s` of the instance is the
    substitution instance of a declared supertype `c<as>`; its arguments are the substituted
    arguments `as'`, again type-variable free; its class `c` is again closed; and the supertypes
    stored in `s` are those of the instance `c.new(as')`, i.e. `c`'s declared supertypes under
    `{parameters of c ↦ as'}` — so the statement applies again to `s`, at every depth -/
theorem new_supertypes_transitive (con : Ty) (args : List Ty) (h : hasTVL args = false)
    (hcl : closedCon con = true) (hlen : (conParams con).length ≤ args.length) :
    ∀ s ∈ (tconNew con args).sups, s.isParam = true →
      ∃ nm c as ss, param nm c as ss ∈ conSups con ∧
        s = substS (TMap.mk (conParams con) args) (param nm c as ss) ∧
        argsOf s = substSL (TMap.mk (conParams con) args) as ∧
        hasTVL (argsOf s) = false ∧ closedCon c = true ∧
        (conParams c).length ≤ (argsOf s).length ∧
        s.sups = (tconNew c (argsOf s)).sups ∧
        s.sups = conSups (instConS c (TMap.mk (conParams c) (argsOf s))) := by
  intro s hs hp
  rw [tconNew_sups_eq con args h hcl hlen] at hs
  obtain ⟨nm, c, as, ss, hd, rfl⟩ := mem_instSupsS_param hs hp
  have hm := TMap.mk_pres (hasTV · = false) (conParams con) args (hasTVL_false_mem h)
  have hcov := TMap.mk_covers (conParams con) args hlen
  have hw := supsWithin_mem (closedCon_supsWithin con hcl) hd
  have hw' := hw
  simp only [tvarsWithin, Bool.and_eq_true, decide_eq_true_eq] at hw'
  obtain ⟨⟨ha, hc⟩, hl⟩ := hw'
  have htv := hasTVL_substSL _ hm _ hcov as ha
  have hl' : (conParams c).length ≤ (substSL (TMap.mk (conParams con) args) as).length := by
    rw [length_substSL]; exact hl
  refine ⟨nm, c, as, ss, hd, rfl, ?_, ?_, hc, ?_, ?_, ?_⟩
  · simp only [substS, argsOf]
  · simpa only [substS, argsOf] using htv
  · simpa only [substS, argsOf] using hl'
  · simp only [substS, argsOf]
    rw [new_supertypes_partial c _ htv hc hl']
    rfl
  · simp only [substS, argsOf, sups]

/-- at every depth: every instance `c'<as'>` that the class declarations put above `con<args>`
    (`SuperInst`, the reflexive-transitive closure of "declares the supertype … under the
    instance's own map") is present in `get_supertypes()` of `con.new(args)` as a node of class
    `c'` with exactly the arguments `as'` (type-variable free) and, as its stored supertypes,
    `c'`'s declared supertypes under `{parameters of c' ↦ as'}` -/
theorem new_supertypes_closure (con : Ty) (args : List Ty) (h : hasTVL args = false)
    (hcl : closedCon con = true) (hlen : (conParams con).length ≤ args.length)
    (c' : Ty) (as' : List Ty) (hsi : SuperInst con args c' as') :
    hasTVL as' = false ∧ closedCon c' = true ∧ (conParams c').length ≤ as'.length ∧
    ∃ u ∈ closure (tconNew con args), u.isParam = true ∧ stripCon (conOf u) = stripCon c' ∧
      argsOf u = as' ∧ u.sups = conSups (instConS c' (TMap.mk (conParams c') as')) :=
  superInst_mem_closure con args h hcl hlen hsi

/-- `Root<Lst<String>>` lies above `Foo<String>` (two declaration steps) -/
example : SuperInst fooC [strT] rootC [tconNew lstC [strT]] := by
  have h1 : SuperInst fooC [strT] baseC [tconNew lstC [strT]] :=
    SuperInst.step (c' := fooC) (as' := [strT]) (nm := "Base") (c'' := baseC)
      (bs := [tconNew lstC [tX]]) (ss := (tconNew baseC [tconNew lstC [tX]]).sups)
      SuperInst.refl (by decide)
  exact SuperInst.step (c' := baseC) (as' := [tconNew lstC [strT]]) (nm := "Root") (c'' := rootC)
      (bs := [tT]) (ss := []) h1 (by decide)

/-- `Foo<String>`: its supertype is `Base<Lst<String>>`, whose supertype is `Root<Lst<String>>` -/
example : closedCon fooC = true ∧ hasTVL [strT] = false ∧
    (tconNew fooC [strT]).sups =
      [param "Base" (instConS baseC (TMap.mk [tT] [tconNew lstC [strT]])) [tconNew lstC [strT]]
        [param "Root" rootC [tconNew lstC [strT]] []]] := by decide

/-- bounded parameter as a key, wildcard bound: `Box<String, Lst<String>>` has supertypes
    `Base<Lst<String>>` and `Root<Base<out String>>` -/
example : closedCon boxC = true ∧
    ((tconNew boxC [strT, tconNew lstC [strT]]).sups.map getName) =
      ["Base<Lst<String>>", "Root<Base<*>>"] ∧
    ((tconNew boxC [strT, tconNew lstC [strT]]).sups.map argsOf) =
      [[tconNew lstC [strT]],
       [param "Base" (instConS baseC (TMap.mk [tT] [wild 1 (some strT)])) [wild 1 (some strT)]
          [param "Root" rootC [wild 1 (some strT)] []]]] := by decide

/-- why `hasTVL args = false` is needed: with an argument that contains a type variable the code
    skips the declared supertypes (`Foo<Y>` keeps the supertype `Base<Lst<X>>`), so the code's
    substitution with the default `cond` differs from the syntactic one -/
example : closedCon fooC = true ∧
    (tconNew fooC [tY]).sups ≠ conSups (instConS fooC (TMap.mk (conParams fooC) [tY])) ∧
    (tconNew fooC [tY]).sups = conSups fooC ∧
    getSubst (tconNew fooC [tX]) (TMap.mk [tX] [tY]) true ≠
      substS (TMap.mk [tX] [tY]) (tconNew fooC [tX]) := by decide

/-! ### 3. the definition is kept -/

/-- the constructor recorded in the instance is the definition itself: same parameters and the
    definition's own (unsubstituted) supertypes -/
theorem new_keeps_definition (con : Ty) (args : List Ty) :
    conOf (tconNew con args) = con ∧
    conSups (conOf (tconNew con args)) = conSups con ∧
    conParams (conOf (tconNew con args)) = conParams con := by
  rw [tconNew_eq]; simp only [conOf, and_self]

/-- the instance's arguments are the given ones -/
theorem new_args (con : Ty) (args : List Ty) : argsOf (tconNew con args) = args := by
  rw [tconNew_eq]; simp only [argsOf]

example : conOf (tconNew fooC [strT]) = fooC ∧ (tconNew fooC [strT]).sups ≠ conSups fooC := by
  decide

/-! ### 4. the empty map -/

/-- full statement of reflexivity of `==`.  False in the model for an instantiation node whose
    constructor is not a type constructor (not constructible in Python). -/
def beq_refl : Prop := ∀ t : Ty, beq t t = true

/-- `==` is reflexive on well-formed types -/
theorem beq_refl_partial (t : Ty) (h : wf t = true) : beq t t = true := beq_refl_of_wf t h

theorem beq_refl_counterexample : ¬ beq_refl := by
  intro h
  have := h (param "P" nothing [] [])
  revert this
  decide

/-- `==` is symmetric -/
theorem beq_symmetric (a b : Ty) (h : beq a b = true) : beq b a = true := beq_symm a b h

/-- `==` is transitive (needed for bounded type parameters as dictionary keys) -/
theorem beq_transitive (a b c : Ty) (h1 : beq a b = true) (h2 : beq b c = true) :
    beq a c = true := beq_trans a b c h1 h2

/-- full statement: substituting with an empty map returns an `==` type.  **False**
    (`subst_empty_counterexample`): `substitute_type` recomputes the supertypes of every
    instantiation node from its constructor's declaration, so a node whose stored supertypes are
    not what instantiation computes comes back different. -/
def subst_empty : Prop := ∀ t : Ty, beq (substituteType t []) t = true

/-- on a consistent type the result is the same type up to the supertypes lists recorded in
    copied constructors (which `==` never reads) -/
theorem subst_empty_strip (t : Ty) (hc : Consistent t) :
    strip (substituteType t []) = strip t :=
  strip_getSubst_nil t false hc

/-- proved part: on a well-formed, consistent type the result is `==` to the type, in both
    directions -/
theorem subst_empty_partial (t : Ty) (hw : wf t = true) (hc : Consistent t) :
    beq (substituteType t []) t = true ∧ beq t (substituteType t []) = true := by
  have h := beq_of_strip_eq t (substituteType t []) hw (subst_empty_strip t hc).symm
  exact ⟨beq_symm _ _ h, h⟩

/-- witness: `t = ParameterizedType(Foo, [String])` built directly (not through `new`) for
    `class Foo<X> : Base<Lst<X>>`: its stored supertypes are the declared `[Base<Lst<X>>]`;
    `substitute_type(t, {})` has supertypes `[Base<Lst<String>>]`, and `__eq__` compares them -/
theorem subst_empty_counterexample : ¬ subst_empty := by
  intro h
  have := h (mkP fooC [strT])
  revert this
  decide

/-- every result of `new` is consistent when its arguments are … -/
theorem new_consistent (con : Ty) (args : List Ty) (ha : ConsistentL args) :
    Consistent (tconNew con args) := tconNew_consistent con args ha

/-- … so non-trivial well-formed consistent types exist: `Foo<Lst<String>>` -/
example : wf (tconNew fooC [tconNew lstC [strT]]) = true ∧
    Consistent (tconNew fooC [tconNew lstC [strT]]) ∧
    (tconNew fooC [tconNew lstC [strT]]).sups ≠ [] :=
  ⟨by decide,
   tconNew_consistent _ _ ⟨tconNew_consistent _ _ ⟨trivial, trivial⟩, trivial⟩,
   by decide⟩

/-- the directly built `Foo<String>` of the counterexample is well-formed, so it is
    consistency that fails there -/
example : wf (mkP fooC [strT]) = true ∧ ¬ Consistent (mkP fooC [strT]) := by
  refine ⟨by decide, ?_⟩
  intro hc
  have := (subst_empty_partial _ (by decide) hc).1
  revert this
  decide

/-! ### 5. ground substitution, nested everywhere -/

/-- substituting types without type variables for all type variables leaves no type variable
    anywhere: not in nested arguments, wildcard bounds, bounds of other parameters, nor in the
    supertypes (at any depth) of the instantiations that occur -/
theorem subst_ground_tvfree (ps : List Ty) (t : Ty) (σ : TMap)
    (ht : tvarsWithin ps t = true) (hc : σ.covers ps)
    (hσ : ∀ p ∈ σ, mentionsTV p.2 = false) : mentionsTV (substS σ t) = false :=
  mentionsTV_substS t σ ps hσ hc ht

/-- for the map the code builds from parameters and arguments: instantiating the parameters `ps`
    with arguments free of type variables in a type whose variables are within `ps` -/
theorem subst_ground_tvfree_mk (ps vs : List Ty) (t : Ty) (hlen : ps.length ≤ vs.length)
    (hv : mentionsTVL vs = false) (ht : tvarsWithin ps t = true) :
    mentionsTV (substS (TMap.mk ps vs) t) = false :=
  mentionsTV_substS t _ ps (TMap.mk_pres (mentionsTV · = false) _ _ (mentionsTVL_false_mem hv))
    (TMap.mk_covers ps vs hlen) ht

/-- the same with Python's own notion `has_type_variables()` for the replacements and the
    result -/
theorem subst_ground_hasTV (ps : List Ty) (t : Ty) (σ : TMap) (dflt : Bool)
    (ht : tvarsWithin ps t = true) (hc : σ.covers ps)
    (hσ : ∀ p ∈ σ, hasTV p.2 = false) :
    hasTV (substS σ t) = false ∧ hasTV (getSubst t σ dflt) = false := by
  rw [getSubst_eq t σ ps dflt hσ hc ht]
  exact ⟨hasTV_substS σ hσ ps hc t ht, hasTV_substS σ hσ ps hc t ht⟩

/-- `σ.covers ps` follows from `σ` binding the members of `ps` themselves -/
theorem covers_of_get (σ : TMap) (ps : List Ty) (h : ∀ p ∈ ps, (σ.get p).isSome = true) :
    σ.covers ps := TMap.covers_of_get h

/-- the same about the code (`substitute_type` and `_get_type_substitution` with the default
    `cond`) -/
theorem subst_ground_tvfree_code (ps : List Ty) (t : Ty) (σ : TMap) (dflt : Bool)
    (ht : tvarsWithin ps t = true) (hc : σ.covers ps)
    (hσ : ∀ p ∈ σ, mentionsTV p.2 = false) :
    mentionsTV (getSubst t σ dflt) = false ∧ hasTV (getSubst t σ dflt) = false := by
  have hσ' : ∀ p ∈ σ, hasTV p.2 = false := fun p hp => hasTV_of_mentionsTV _ (hσ p hp)
  rw [getSubst_eq t σ ps dflt hσ' hc ht]
  have := mentionsTV_substS t σ ps hσ hc ht
  exact ⟨this, hasTV_of_mentionsTV _ this⟩

/-- nested everywhere / transitively: all supertypes of an instance of a closed class at
    arguments without type variables are free of type variables at every depth (`mentionsTV`
    looks into arguments, bounds and the stored supertypes of every nested instantiation) -/
theorem subst_nested (con : Ty) (args : List Ty) (h : mentionsTVL args = false)
    (hcl : closedCon con = true) (hlen : (conParams con).length ≤ args.length) :
    mentionsTVL (tconNew con args).sups = false := by
  rw [tconNew_sups_eq con args (hasTVL_of_mentionsTVL args h) hcl hlen]
  exact mentionsTVL_instSupsS _ _ (conParams con)
    (TMap.mk_pres (mentionsTV · = false) _ _ (mentionsTVL_false_mem h))
    (TMap.mk_covers _ _ hlen) (closedCon_supsWithin con hcl)

/-- the shape of the code's substitution: it descends into arguments, wildcard bounds and the
    bound of a type variable that stays -/
theorem subst_nested_shape (σ : TMap) (dflt : Bool) (nm : String) (v : Nat) (b con : Ty)
    (args ss : List Ty) :
    getSubst (wild v (some b)) σ dflt = wild v (some (getSubst b σ dflt)) ∧
    (σ.get (tparam nm v (some b)) = none →
      getSubst (tparam nm v (some b)) σ dflt = tparam nm v (some (getSubst b σ dflt))) ∧
    argsOf (getSubst (param nm con args ss) σ dflt) = getSubstL args σ dflt := by
  refine ⟨by simp only [getSubst], ?_, by simp only [getSubst, mkP, argsOf]⟩
  intro h
  simp only [getSubst, h]

example : tvarsWithin [tX, tZ] (tconNew boxC [tX, tZ]) = true ∧
    mentionsTV (tconNew boxC [tX, tZ]) = true ∧
    mentionsTV (substS (TMap.mk [tX, tZ] [strT, tconNew lstC [strT]]) (tconNew boxC [tX, tZ]))
      = false := by decide

example : mentionsTVL (tconNew boxC [strT, tconNew lstC [intT]]).sups = false := by decide

end Heph.Props.C07
