import Heph.Proofs.DepthBound
import Heph.Proofs.DepthErasure
import Heph.Proofs.Processor
import Heph.Generated.Skeleton
/-!
# C18 — the pipeline never fails internally and always terminates (*partial*)

Proved here, over the recursion skeleton REGENERATED from `src/generators/generator.py`
(`Heph.Generated.skeleton`, rebuilt by `harness/regen_c18.py` on every run):

* `nesting_bound` — for ANY skeleton table satisfying the decidable hypothesis `SkeletonOK`, every
  shape a region (function body, lambda body, initialiser …) can produce from `self.depth = d`
  has at most `B sk m d = (cutK·m − d) + 4·maxCnt` raised-counter calls on a path;
  `skeleton_ok` discharges the hypothesis for the regenerated table by `decide`, and
  `bound_generated` evaluates the constants (`2·m − d + 8`).  Removing a `self.depth += 1`, the
  leaf rule of `get_generators`, or the `max_depth * 2` cut of `gen_new` from the source changes the
  table so that `skeleton_ok` no longer checks.
* `combinations_count`, `erasure_steps` — the power-set walk of `TypeErasure.visit_func_decl`
  offers `2^n − 1` combinations, so one function costs at most
  `n₀ + min (2^n − 1) (max_combinations + 1)` feasibility tests.

* `bound_tight` — the bound is attained up to its additive constant (`2·max_depth` nested constructor
  calls are a shape of the skeleton); `every_increment_needed`, `cut_needed`, `leaf_rule_needed` — the
  hypothesis fails for the table with any raised call path's increment, the cut, or the leaf rule removed.

NOT claimed (DESIGN C18 "partial"): termination of declaration generation
(`_gen_matching_class` ↔ `generate_expr`), wall-clock behaviour, and absence of exceptions — the
last is observed on every explored pipeline run by `harness/check_C18.py`.  The full-strength
nesting statement is false for the skeleton: `height_unbounded`.
-/
namespace Heph.Props.C18
open Heph Heph.Depth

/-- the hypothesis holds for the table read from the current source -/
theorem skeleton_ok : SkeletonOK Generated.skeleton = true := by decide

/-- nesting of one region is bounded, for any table satisfying `SkeletonOK` -/
theorem nesting_bound (sk : Skeleton) (h : SkeletonOK sk = true) (m d : Nat) (ol : Bool) (s : Shape)
    (hs : region sk m d ol s) : s.wdepth ≤ B sk m d := by
  have F := okFacts h
  cases s with
  | leaf => simp [Shape.wdepth]
  | node r ks =>
    obtain ⟨R, hR, _, hk⟩ := hs
    exact (kids_bound F ks R.sites d ol hk).2.2.2 (F.root R hR)

/-- the same for the result of any single `generate_expr` call (void or not, leaves only or not) -/
theorem nesting_bound_expr (sk : Skeleton) (h : SkeletonOK sk = true) (m d : Nat) (ol v : Bool) (s : Shape)
    (hs : admits sk m d ol v s) : s.wdepth ≤ B sk m d := by
  have := admits_bound (okFacts h) s d ol v hs
  have := pot_le sk m d ol v
  unfold B; omega

/-- once the leaf rule applies (`depth ≥ max_depth` or `only_leaves`) the slack is `maxCnt` -/
theorem nesting_bound_leaf (sk : Skeleton) (h : SkeletonOK sk = true) (m d : Nat) (ol : Bool) (s : Shape)
    (hl : leafMode m d ol = true) (hs : admits sk m d ol false s) :
    s.wdepth ≤ (sk.cutK * m - d) + sk.maxCnt := by
  have := admits_bound (okFacts h) s d ol false hs
  simpa [pot, hl] using this

/-- the constants of the current source: cut factor 2, at most 2 raised calls per flattened site -/
theorem bound_generated (m d : Nat) : B Generated.skeleton m d = (2 * m - d) + 8 := by
  have h1 : Generated.skeleton.cutK = 2 := by decide
  have h2 : Generated.skeleton.maxCnt = 2 := by decide
  simp [B, h1, h2]

/-- the bound is largest at the outermost depth: `B sk m 0` bounds every region of a program -/
theorem bound_antitone (sk : Skeleton) (m d d' : Nat) (h : d ≤ d') : B sk m d' ≤ B sk m d := by
  unfold B; omega

/-- on the current source every region of every program has nesting ≤ 2·max_depth + 8 -/
theorem nesting_bound_generated (m d : Nat) (ol : Bool) (s : Shape)
    (hs : region Generated.skeleton m d ol s) : s.wdepth ≤ 2 * m + 8 := by
  have := nesting_bound _ skeleton_ok m d ol s hs
  rw [bound_generated] at this
  omega

/-! ### the full-strength statement fails: edges the code enters without raising the counter -/

/-- all edges counted -/
def chain : Nat → Shape
  | 0 => .leaf
  | n + 1 => .node "gen_func_call" (.cons 0 (chain n) .nil)

mutual
def Shape.height : Shape → Nat
  | .leaf => 0
  | .node _ ks => Kids.height ks
def Kids.height : Kids → Nat
  | .nil => 0
  | .cons _ s r => max (1 + Shape.height s) (Kids.height r)
end

/-- the statement one would like: the HEIGHT of every shape is bounded by some function of the depth -/
def height_bounded (sk : Skeleton) : Prop :=
  ∃ f : Nat → Nat, ∀ m s, admits sk m 0 false false s → Shape.height s ≤ f m

theorem chain_height (n : Nat) : Shape.height (chain n) = n := by
  induction n with
  | zero => rfl
  | succ n ih => simp [chain, Shape.height, Kids.height, ih]; omega

theorem chain_admitted (m : Nat) (hm : 0 < m) (n : Nat) : admits Generated.skeleton m 0 false false (chain n) := by
  induction n with
  | zero => simp [chain, admits]
  | succ n ih =>
    simp only [chain, admits, admitsKids, and_true]
    have hlm : leafMode m 0 false = false := by simp [leafMode]; omega
    refine ⟨Generated.skeleton.gens.head!, by decide, by decide, ?_, ?_⟩
    · simp only [Skeleton.allowed, Bool.false_eq_true, if_false, hlm]
      decide
    · refine ⟨(Generated.skeleton.gens.head!).sites[1]!, by decide, by decide, Or.inr ⟨0, false, by decide, ?_, ?_, ?_⟩⟩
      · intro k hk
        have : cutBound ((Generated.skeleton.gens.head!).sites[1]!) = none := by decide
        rw [this] at hk; cases hk
      · exact ⟨fun _ => rfl, fun h => absurd h (by decide)⟩
      · have : olNext ((Generated.skeleton.gens.head!).sites[1]!).ol false = false := by decide
        rw [this]; exact ih

/-- method-call receivers are generated at the SAME depth (`_gen_func_call`, receiver site): chains
    `a.f().g()…` of any length are shapes of the skeleton — in the code they end with probability 1
    only.  Hence `nesting_bound` counts raised-counter edges, not all edges. -/
theorem height_unbounded : ¬ height_bounded Generated.skeleton := by
  rintro ⟨f, hf⟩
  have := hf 1 (chain (f 1 + 1)) (chain_admitted 1 (by omega) _)
  rw [chain_height] at this
  omega

/-! ### the bound is tight up to its additive constant -/

/-- `new A(new B(…))`, `n` constructor calls nested through constructor arguments -/
def newChain : Nat → Shape
  | 0 => .leaf
  | n + 1 => .node "gen_new" (.cons 1 (newChain n) .nil)

theorem newChain_wdepth (n : Nat) : (newChain n).wdepth = n := by
  induction n with
  | zero => rfl
  | succ n ih => simp [newChain, Shape.wdepth, Kids.wdepth, ih]; omega

theorem newChain_admitted (m : Nat) : ∀ (n d : Nat) (ol : Bool), d + n ≤ 2 * m →
    admits Generated.skeleton m d ol false (newChain n)
  | 0, _, _, _ => by simp [newChain, admits]
  | n + 1, d, ol, h => by
    simp only [newChain, admits, admitsKids, and_true]
    refine ⟨Generated.skeleton.gens[3]!, by decide, by decide, ?_, ?_⟩
    · simp only [Skeleton.allowed, Bool.false_eq_true, if_false]
      split <;> decide
    · refine ⟨(Generated.skeleton.gens[3]!).sites[1]!, by decide, by decide, Or.inr ⟨d + 1, false, ?_, ?_, ?_, ?_⟩⟩
      · have : ((Generated.skeleton.gens[3]!).sites[1]!).off = 1 := by decide
        omega
      · intro k hk
        have : cutBound ((Generated.skeleton.gens[3]!).sites[1]!) = some 2 := by decide
        rw [this] at hk; cases hk; omega
      · exact ⟨fun _ => rfl, fun h => absurd h (by decide)⟩
      · have : olNext ((Generated.skeleton.gens[3]!).sites[1]!).ol ol = ol := by
          have : ((Generated.skeleton.gens[3]!).sites[1]!).ol = "pass" := by decide
          rw [this]; simp [olNext]
        rw [this]
        exact newChain_admitted m n (d + 1) ol (by omega)

/-- from depth 0 a single `generate_expr` call can nest `2·max_depth` raised-counter calls
    (constructor calls down to the cut of `gen_new`): `B = 2·max_depth + 8` is exact up to the `8` -/
theorem bound_tight (m : Nat) : ∃ s, admits Generated.skeleton m 0 false false s ∧ s.wdepth = 2 * m :=
  ⟨newChain (2 * m), newChain_admitted m (2 * m) 0 false (by omega), newChain_wdepth _⟩

/-! ### `SkeletonOK` notices the edits it is meant to notice -/

/-- the table one reads when the sites with call path `path` lose their depth increment -/
def dropIncrement (path : String) (sk : Skeleton) : Skeleton :=
  { sk with gens := sk.gens.map fun g =>
      { g with sites := g.sites.map fun s => if s.path == path then { s with off := 0, cnt := 0 } else s } }

/-- the table one reads when no `gen_bottom` argument carries a depth test -/
def dropCut (sk : Skeleton) : Skeleton :=
  { sk with gens := sk.gens.map fun g => { g with sites := g.sites.map fun s => { s with cut := none } } }

/-- the leaf rule of `get_generators` offering the full list of generators -/
def dropLeafRule (sk : Skeleton) : Skeleton :=
  { sk with dispatch := sk.dispatch.mapIdx fun i b => if i == 1 then (b.1, (sk.dispatch[2]?.getD b).2) else b }

/-- call paths of the current table that run under a raised counter -/
def raisedPaths (sk : Skeleton) : List String :=
  (((sk.gens.map (·.sites)).flatten.filter (fun s => s.cnt != 0)).map (·.path)).eraseDups

/-- removing the depth increment of ANY raised call path of the current source (11 paths: arguments and
    operands of every non-leaf generator and of `gen_new`) falsifies the hypothesis … -/
theorem every_increment_needed :
    (raisedPaths Generated.skeleton).all (fun p => !SkeletonOK (dropIncrement p Generated.skeleton)) = true := by
  decide

/-- … and so do removing the `gen_bottom` cut of `gen_new` and switching the leaf rule off -/
theorem cut_needed : SkeletonOK (dropCut Generated.skeleton) = false := by decide

/-- the table one reads when the guard of the cut exempts `x` (e.g. all built-in types) instead of the primitive
    types of the argument -/
def widenExemption (x : String) (sk : Skeleton) : Skeleton :=
  { sk with gens := sk.gens.map fun g =>
      { g with sites := g.sites.map fun s => if s.cut.isSome then { s with cutExempt := [x] } else s } }

/-- … and so does changing the CONDITION of the cut: exempting every built-in type (arrays and function types
    are built-ins whose values are generated recursively), or guarding the cut by anything that is not
    "the argument type is primitive" -/
theorem cut_condition_needed :
    SkeletonOK (widenExemption "tu.is_builtin(expr_type, self.bt_factory)" Generated.skeleton) = false ∧
    SkeletonOK (widenExemption "?:utils.random.bool()" Generated.skeleton) = false ∧
    SkeletonOK (widenExemption "expr_type.is_primitive()" Generated.skeleton) = true := by decide

theorem leaf_rule_needed : SkeletonOK (dropLeafRule Generated.skeleton) = false := by decide

example : (raisedPaths Generated.skeleton).length = 11 := by decide

/-! ### the erasure search -/

/-- `chain.from_iterable(combinations(nodes, r) for r in range(len(nodes), 0, -1))` enumerates
    `2^n − 1` combinations … -/
theorem combinations_count (l : List α) : (powerWalk l).length = 2 ^ l.length - 1 :=
  length_powerWalk l

/-- … none of them empty, each of the announced size -/
theorem combinations_sizes (l : List α) (r : Nat) (c : List α) (h : c ∈ combinations l r) : c.length = r :=
  length_of_mem_combinations l r c h

theorem combinations_nonempty (l : List α) (c : List α) (h : c ∈ powerWalk l) : c ≠ [] :=
  powerWalk_nonempty l l.length c h

/-- feasibility tests of one function: `n₀` pre-filter tests plus at most
    `min (2^n − 1) (max_combinations + 1)` (`max_combinations = 0` switches the cap off) -/
theorem erasure_steps (n0 n maxComb : Nat) (firstFeasible : Option Nat) :
    erasureTests n0 n maxComb firstFeasible ≤ n0 + (2 ^ n - 1) ∧
    (0 < maxComb → erasureTests n0 n maxComb firstFeasible ≤ n0 + min (2 ^ n - 1) (maxComb + 1)) := by
  have := loopTests_le (2 ^ n - 1) maxComb firstFeasible
  unfold erasureTests
  refine ⟨by omega, fun h => ?_⟩
  have := this.2 h
  omega

/-! ### the per-iteration driver: `ProgramProcessor` and the loops of `hephaestus.py`

`Heph/Model/Processor.lean` models `transform_program` / `can_transform` / `inject_fault` and
`process_cp_transformations` / `process_ncp_transformations` / `gen_program` with the transformers as a
PARAMETER (`Beh P`: any function of the global run number, the iteration, the class, the transformation
number and the program's content — raising, mutating in place, returning a fresh object, reporting
`is_transformed` or not).  The `while proc.can_transform()` loop ends for EVERY such behaviour, because
`transform_program` advances `current_transformation` on every call that returns — also when it returns
`None` for a step that transformed nothing (the loop answers `None` with `continue`). -/
section processor
open Heph.Processor

/-- every call of `transform_program` that returns (a pair or `None`) has advanced the counter by one -/
theorem transform_counter_increases {P : Type} [Inhabited P] (beh : Beh P) (w : World P) (pr : Proc) (a : Nat)
    (x : Option (Nat × String)) (h : (transformProgram beh w pr a).2.2 = .ok x) :
    (transformProgram beh w pr a).2.1.cur = pr.cur + 1 :=
  (transformProgram_advances beh w pr a x h).1

/-- the correctness-preserving loop ends without outside help and performs at most as many steps as
    transformations are left in the schedule — whatever the transformers do, including "never transforms" -/
theorem cp_loop_terminates {P : Type} [Inhabited P] (beh : Beh P) (keepAll : Bool) (fuel : Nat) (w : World P)
    (pr : Proc) (a : Nat) (ps : Option P) (n : Nat) (hf : pr.schedule.length - pr.cur < fuel) :
    (cpLoop transformProgram beh keepAll fuel w pr a ps n).status ≠ .fuel ∧
    (cpLoop transformProgram beh keepAll fuel w pr a ps n).steps ≤ n + (pr.schedule.length - pr.cur) :=
  let h := cpLoop_spec transformProgram transformProgram_advances beh keepAll fuel w pr a ps n hf
  ⟨h.1, h.2.1⟩

/-- … and when no transformer raises, exactly that many, leaving the counter at the end of the schedule -/
theorem cp_loop_steps {P : Type} [Inhabited P] (beh : Beh P) (keepAll : Bool) (fuel : Nat) (w : World P)
    (pr : Proc) (a : Nat) (ps : Option P) (n : Nat) (hf : pr.schedule.length - pr.cur < fuel)
    (hd : (cpLoop transformProgram beh keepAll fuel w pr a ps n).status = .done) :
    (cpLoop transformProgram beh keepAll fuel w pr a ps n).steps = n + (pr.schedule.length - pr.cur) ∧
    (cpLoop transformProgram beh keepAll fuel w pr a ps n).proc.cur = max pr.cur pr.schedule.length :=
  let h := (cpLoop_spec transformProgram transformProgram_advances beh keepAll fuel w pr a ps n hf).2.2 hd
  ⟨h.1, h.2.1⟩

/-- one iteration (`gen_program`) with a schedule of `k` transformations: the fuel the model picks is never
    exhausted and `transform_program` is called at most `k` times -/
theorem gen_program_terminates {P : Type} [Inhabited P] (beh : Beh P) (args : Args) (load : Loader P) (stored : P)
    (gen : Nat → P) (sched : List String) (w : World P) (pid : Nat) :
    (genProgram transformProgram beh args load stored gen (.ok sched) w pid).2.status ≠ .fuel ∧
    (genProgram transformProgram beh args load stored gen (.ok sched) w pid).2.steps ≤ sched.length := by
  simp only [genProgram]
  generalize hw : getProgram args load stored gen w pid = g
  obtain ⟨w1, a⟩ := g
  simp only
  generalize hw2 : (if args.keepAll = true then w1.save (Dest.generator pid) (w1.heap.read a) (w1.heap.read a) else w1) = w2
  have hspec := cpLoop_spec transformProgram transformProgram_advances beh args.keepAll (loopFuel sched) w2
    { pid := pid, schedule := sched } a none 0 (by simp [loopFuel])
  simp only [Nat.sub_zero, Nat.zero_add] at hspec
  generalize hl : cpLoop transformProgram beh args.keepAll (loopFuel sched) w2 { pid := pid, schedule := sched } a none 0 = o at hspec
  have hpc : ∀ st, (processCp transformProgram beh args.keepAll (loopFuel sched) w2 { pid := pid, schedule := sched } a).status = st →
      o.status = st ∧ (processCp transformProgram beh args.keepAll (loopFuel sched) w2 { pid := pid, schedule := sched } a).steps = o.steps := by
    intro st
    unfold processCp
    simp only [hl]
    cases hos : o.status <;> simp [hos]
  generalize hq : processCp transformProgram beh args.keepAll (loopFuel sched) w2 { pid := pid, schedule := sched } a = q at hpc
  have hq1 := hpc q.status rfl
  cases hqs : q.status with
  | done =>
    simp only
    cases args.onlyCP with
    | true => simp; omega
    | false =>
      simp only [Bool.false_eq_true, if_false]
      rcases processNcp beh args.keepAll q.world q.proc a with ⟨w3, pr3, r⟩
      cases r with
      | error e => simp; omega
      | ok v => cases v <;> simp <;> omega
  | failed e => simp; omega
  | raised e => simp; omega
  | fuel =>
    rw [hqs] at hq1
    exact absurd hq1.1 hspec.1

/-- the counter-model: had `transform_program` advanced the counter only for a step that transformed
    something, a scheduled transformer that never transforms would keep the loop running for ever (every
    fuel is exhausted) -/
theorem late_counter_diverges (fuel : Nat) (w : World (List Nat)) (a : Nat) (ps : Option (List Nat)) (n : Nat) :
    (cpLoop transformProgramLate (fun _ _ _ _ p => .ran p none false "") false fuel w
      { pid := 1, schedule := ["TypeErasure"] } a ps n).status = .fuel := by
  induction fuel generalizing w n with
  | zero => rfl
  | succ f ih =>
    unfold cpLoop
    simp only [Proc.canTransform, transformProgramLate, applyTransformation]
    simpa using ih _ _

/-- hypotheses of `cp_loop_terminates` met by a non-trivial value: three scheduled transformations, of which the
    second transforms nothing and the third returns a fresh object; three steps, counter at 3 -/
example :
    let beh : Beh (List Nat) := fun call _ _ _ p =>
      if call = 1 then .ran p none false "" else if call = 2 then .ran p (some (p ++ [2])) true "" else .ran (p ++ [call]) none true ""
    let o := cpLoop transformProgram beh true 4 (freshLoad {} [7]).1 { pid := 1, schedule := ["TypeErasure", "TypeErasure", "TypeErasure"] } 0 none 0
    o.status = .done ∧ o.steps = 3 ∧ o.proc.cur = 3 ∧ o.world.heap.cells = [[7, 0], [7, 0, 2]] := by decide

end processor

/-! ### non-vacuity -/

/-- a shape of the current skeleton with two nested constructor calls below the leaf rule
    (`max_depth = 1`, entered at depth 1): `new A(new B(⊥))` — the inner `new` sits at depth 2 = 2·1,
    its own argument would be at depth 3 > 2 and is cut to the bottom constant -/
example : admits Generated.skeleton 1 1 false false
    (.node "gen_new" (.cons 1 (.node "gen_new" (.cons 1 .leaf .nil)) .nil)) := by
  simp only [admits, admitsKids, and_true]
  refine ⟨Generated.skeleton.gens[3]!, by decide, by decide, by decide, ?_⟩
  refine ⟨(Generated.skeleton.gens[3]!).sites[1]!, by decide, by decide, Or.inr ⟨2, false, by decide, ?_, ?_, ?_⟩⟩
  · intro k hk
    have : cutBound ((Generated.skeleton.gens[3]!).sites[1]!) = some 2 := by decide
    rw [this] at hk; cases hk; decide
  · exact ⟨fun _ => rfl, fun h => absurd h (by decide)⟩
  · exact ⟨Generated.skeleton.gens[3]!, by decide, by decide, by decide,
      (Generated.skeleton.gens[3]!).sites[1]!, by decide, by decide, Or.inl trivial⟩

/-- … and its nesting (2) is within `B 1 1 = 9` -/
example : (Shape.node "gen_new" (.cons 1 (.node "gen_new" (.cons 1 .leaf .nil)) .nil)).wdepth = 2 := by decide

example : (powerWalk [1, 2, 3]) = [[1, 2, 3], [1, 2], [1, 3], [2, 3], [1], [2], [3]] := by decide
example : erasureTests 5 3 500000 none = 12 := by decide
example : erasureTests 5 30 4 none = 10 := by decide

end Heph.Props.C18
