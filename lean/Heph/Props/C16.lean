import Heph.Model.Context
namespace Heph.Props.C16
open Heph.Context

theorem stub_placeholder : run [] = Ctx.empty := rfl

end Heph.Props.C16
