import Heph.Proofs.ContextLookup
import Heph.Proofs.ContextPath
import Heph.Proofs.ContextReverse
import Heph.Proofs.ContextGlob
import Heph.Proofs.ContextRemove
import Heph.Proofs.ContextNsDecls
/-!
# C16 — the symbol table behaves like a scoped map

Model: `Heph/Model/Context.lean` (`Context` of `src/ir/context.py`, tied to the code by
`harness/check_C16.py`).  Specification: `Heph/Spec/Context.lean` (functions of the operation
history alone).  All theorems hold for **every** finite history `ops : List Op` of
`add_*`/`remove_*`/`remove_namespace` calls over the five entity kinds, all namespaces, names
and values (`run ops` = the state after the history, starting from `Context()`).

Reading of the statement that the theorems make precise:
* `decls` is ONE name space shared by functions, variables and classes; types and lambdas never
  bind a name there; `remove_func/var/class` unbind the name whatever kind owns it.
* name resolution (module function `get_decl`) treats a `None` declaration (artificial node)
  as absent.
* the reverse index is keyed by the *value*: "a declaration added in one namespace" has to be
  read as "a value that the history adds at one site only" (`reverse_lookup_partial`); for two
  equal values (equal `TypeParameter`s, or one node registered twice) the literal statement
  fails (`reverse_lookup_counterexample`).
-/
namespace Heph.Props.C16
open Heph.Context

/-! ## current-namespace queries: that namespace's entries, in insertion order -/

/-- every map of every namespace is the insertion-ordered dictionary of the history -/
theorem current_is_insertion_order (ops : List Op) (ns : Ns) (k : Kind) :
    current (run ops) ns k = specCurrent ops ns k := current_run ops ns k

/-- `get_types/funcs/lambdas/vars/classes/declarations(ns, only_current=True, none=…)` -/
theorem get_only_current (ops : List Op) (ns : Ns) (hns : ns ≠ []) (k : Kind) (keepNone : Bool) :
    getDeclarations (run ops) ns k true false keepNone =
      .ok (if keepNone then specCurrent ops ns k else dropNone (specCurrent ops ns k)) := by
  cases ns with
  | nil => exact absurd rfl hns
  | cons r rest => simp [getDeclarations, current_run]

/-- the specification dictionaries are dictionaries: no name twice -/
theorem current_keys_unique (ops : List Op) (ns : Ns) (k : Kind) :
    (aKeys (specCurrent ops ns k)).Nodup := nodup_specCurrent ops ns k

/-- what the insertion order is: adding a name that is present keeps the keys as they are,
    adding an absent name appends it -/
theorem insertion_order_add (ops : List Op) (k' : EKind) (ns : Ns) (nm : String) (v : Val) (k : Kind)
    (hw : writes k' k = true) :
    aKeys (specCurrent (ops ++ [.add k' ns nm v]) ns k) =
      if nm ∈ aKeys (specCurrent ops ns k) then aKeys (specCurrent ops ns k)
      else aKeys (specCurrent ops ns k) ++ [nm] := by
  simp only [specCurrent, List.foldl_append, List.foldl_cons, List.foldl_nil, specStep, hw, and_self,
    if_true, aKeys_aSet]
  split <;> rename_i h <;> simp [h]

/-- … and removing a name deletes exactly it, the others keep their order -/
theorem insertion_order_remove (ops : List Op) (k' : EKind) (ns : Ns) (nm : String) (k : Kind)
    (hw : writes k' k = true) :
    specCurrent (ops ++ [.remove k' ns nm]) ns k = (specCurrent ops ns k).filter (fun e => e.1 ≠ nm) := by
  simp only [specCurrent, List.foldl_append, List.foldl_cons, List.foldl_nil, specStep, hw, and_self,
    if_true, aDel]

/-! ## name resolution -/

/-- the local binding is the most recent one: an `add_func/var/class` binds the name … -/
theorem specLocal_add (ops : List Op) (k : EKind) (ns : Ns) (nm : String) (v : Val) (ns' : Ns) (nm' : String) :
    specLocal (ops ++ [.add k ns nm v]) ns' nm' =
      if ns = ns' ∧ nm = nm' ∧ k.binds = true then some v else specLocal ops ns' nm' := by
  simp only [specLocal, List.foldl_append, List.foldl_cons, List.foldl_nil, bindsDecl]
  by_cases h : ns = ns' ∧ nm = nm' ∧ k.binds = true <;> simp [h]

/-- … a `remove_func/var/class` unbinds it, in that namespace only … -/
theorem specLocal_remove (ops : List Op) (k : EKind) (ns : Ns) (nm : String) (ns' : Ns) (nm' : String) :
    specLocal (ops ++ [.remove k ns nm]) ns' nm' =
      if ns = ns' ∧ nm = nm' ∧ k.binds = true then none else specLocal ops ns' nm' := by
  simp only [specLocal, List.foldl_append, List.foldl_cons, List.foldl_nil, bindsDecl]
  by_cases h : ns = ns' ∧ nm = nm' ∧ k.binds = true <;> simp [h]

/-- … and `remove_namespace` unbinds every name of that namespace only -/
theorem specLocal_removeNamespace (ops : List Op) (ns ns' : Ns) (nm' : String) :
    specLocal (ops ++ [.removeNamespace ns]) ns' nm' = if ns = ns' then none else specLocal ops ns' nm' := by
  simp only [specLocal, List.foldl_append, List.foldl_cons, List.foldl_nil, bindsDecl]
  by_cases h : ns = ns' <;> simp [h]

/-- the method `get_decl` answers the local binding (`None` when there is none) -/
theorem get_decl_method (ops : List Op) (ns : Ns) (name : String) :
    getDeclM (run ops) ns name = (specLocal ops ns name).getD .none := by
  unfold getDeclM
  rw [current_run, specLocal_eq]
  cases aGet (specCurrent ops ns .decls) name <;> rfl

/-- **lookup_refines**: after any history the module function `get_decl` answers the
    specification's name resolution -/
theorem lookup_refines (ops : List Op) (ns : Ns) (name : String) :
    getDecl (run ops) ns name none = specLookup ops ns name := by
  unfold getDecl specLookup innermost
  exact getDeclRev_none ops name ns.reverse

/-- … which is: the innermost enclosing namespace that really declares the name -/
theorem lookup_innermost (ops : List Op) (ns : Ns) (name : String) (p : Ns) (v : Val) :
    specLookup ops ns name = some (p, v) ↔
      p ≠ [] ∧ p <+: ns ∧ specLocal ops p name = some v ∧ v ≠ .none ∧
        ∀ q, p <+: q → q <+: ns → q ≠ p → specLocal ops q name = none ∨ specLocal ops q name = some .none := by
  unfold specLookup
  rw [innermost_iff]
  have hreal : ∀ (q : Ns) (w : Val), realDecl ops name q = some w ↔ specLocal ops q name = some w ∧ w ≠ .none := by
    intro q w
    unfold realDecl
    cases specLocal ops q name with
    | none => simp
    | some u => cases u <;> cases w <;> simp [Val.truthy]
  have hnone : ∀ q : Ns, realDecl ops name q = none ↔
      specLocal ops q name = none ∨ specLocal ops q name = some .none := by
    intro q
    unfold realDecl
    cases specLocal ops q name with
    | none => simp
    | some u => cases u <;> simp [Val.truthy]
  rw [hreal]
  constructor
  · rintro ⟨h1, h2, ⟨h3, h4⟩, h5⟩
    exact ⟨h1, h2, h3, h4, fun q a b d => (hnone q).1 (h5 q a b d)⟩
  · rintro ⟨h1, h2, h3, h4, h5⟩
    exact ⟨h1, h2, ⟨h3, h4⟩, fun q a b d => (hnone q).2 (h5 q a b d)⟩

/-- nothing resolves ↔ no enclosing namespace really declares the name -/
theorem lookup_none (ops : List Op) (ns : Ns) (name : String) :
    getDecl (run ops) ns name none = none ↔ ∀ p, p ≠ [] → p <+: ns → realDecl ops name p = none := by
  rw [lookup_refines]
  exact innermost_eq_none_iff _ _

/-- with a `limit` the search does not leave that namespace -/
theorem lookup_limit_refines (ops : List Op) (ns : Ns) (name : String) (limit : Ns) :
    getDecl (run ops) ns name (some limit) = specLookupLimit ops ns name limit := by
  unfold getDecl specLookupLimit innermost
  exact getDeclRev_limit ops name limit ns.reverse

/-! ## removal is local -/

/-- **remove_local**: `remove_* ns name` changes no entry of another namespace or another name,
    in any map, whatever the state -/
theorem remove_local (c : Ctx) (k : EKind) (ns : Ns) (name : String) (ns' : Ns) (k' : Kind) (name' : String)
    (h : ns' ≠ ns ∨ name' ≠ name) :
    aGet (current (step c (.remove k ns name)) ns' k') name' = aGet (current c ns' k') name' := by
  rw [current_step]
  simp only [specStep]
  split
  · rename_i hc
    rw [aGet_aDel]
    rcases h with h | h
    · exact absurd hc.1.symm h
    · rw [if_neg (fun e => h e.symm)]
  · rfl

/-- other namespaces keep their maps entirely (entries and order) -/
theorem remove_other_namespace (c : Ctx) (k : EKind) (ns : Ns) (name : String) (ns' : Ns) (k' : Kind)
    (h : ns' ≠ ns) : current (step c (.remove k ns name)) ns' k' = current c ns' k' := by
  rw [current_step]
  simp only [specStep]
  rw [if_neg (fun hc => h hc.1.symm)]

/-- the removed name is gone from the kind's map, and — for functions, variables, classes —
    unresolvable in that namespace -/
theorem remove_unresolvable (c : Ctx) (k : EKind) (ns : Ns) (name : String) :
    aGet (current (step c (.remove k ns name)) ns k.toKind) name = none ∧
    (k.binds = true → getDeclM (step c (.remove k ns name)) ns name = .none) := by
  constructor
  · rw [current_step]
    have : writes k k.toKind = true := by cases k <;> rfl
    simp only [specStep, this, and_self, if_true, aGet_aDel]
  · intro hb
    unfold getDeclM
    rw [current_step]
    have : writes k .decls = true := by rw [writes_decls]; exact hb
    simp only [specStep, this, and_self, if_true, aGet_aDel]

/-- after `remove_func/var/class ns name`, resolving `name` from `ns` answers what the enclosing
    namespace resolves: the name is unresolvable *in that namespace only* -/
theorem remove_falls_through (ops : List Op) (k : EKind) (hb : k.binds = true) (ns : Ns) (name : String) :
    getDecl (run (ops ++ [.remove k ns name])) ns name none = getDecl (run ops) ns.dropLast name none := by
  rw [lookup_refines, lookup_refines]
  exact specLookup_remove ops k hb ns name

/-! ## enclosing-scope queries: union along the path, inner entries shadow outer ones -/

/-- by name: the entry of the innermost prefix that has the name -/
theorem path_union_get (ops : List Op) (ns : Ns) (k : Kind) (name : String) :
    aGet (pathUnion (run ops) ns k) name = specPathGet ops ns k name := pathUnion_run_get ops ns k name

/-- **path_union_shadows** -/
theorem path_union_shadows (ops : List Op) (ns : Ns) (k : Kind) (name : String) (v : Val) :
    (name, v) ∈ pathUnion (run ops) ns k ↔
      ∃ pre, pre ≠ [] ∧ pre <+: ns ∧ (name, v) ∈ specCurrent ops pre k ∧
        ∀ pre', pre <+: pre' → pre' <+: ns → pre' ≠ pre → ∀ v', (name, v') ∉ specCurrent ops pre' k := by
  have hN : ∀ p, (aKeys (current (run ops) p k)).Nodup := fun p => nodup_current_run ops p k
  rw [mem_iff_aGet _ (nodup_pathUnion _ _ hN ns), path_union_get]
  unfold specPathGet
  have hnone : ∀ q : Ns, aGet (specCurrent ops q k) name = none ↔ ∀ v', (name, v') ∉ specCurrent ops q k := by
    intro q
    constructor
    · intro h v' hm
      rw [mem_iff_aGet _ (nodup_specCurrent ops q k), h] at hm
      cases hm
    · intro h
      cases hg : aGet (specCurrent ops q k) name with
      | none => rfl
      | some w => exact absurd ((mem_iff_aGet _ (nodup_specCurrent ops q k) _ _).2 hg) (h w)
  constructor
  · intro h
    cases hi : innermost (fun p => aGet (specCurrent ops p k) name) ns with
    | none => rw [hi] at h; cases h
    | some pv =>
      obtain ⟨pre, w⟩ := pv
      rw [hi] at h
      simp only [Option.map_some, Option.some.injEq] at h
      subst h
      obtain ⟨h1, h2, h3, h4⟩ := (innermost_iff _ _ _ _).1 hi
      exact ⟨pre, h1, h2, (mem_iff_aGet _ (nodup_specCurrent ops pre k) _ _).2 h3,
        fun q a b d => (hnone q).1 (h4 q a b d)⟩
  · rintro ⟨pre, h1, h2, h3, h4⟩
    have : innermost (fun p => aGet (specCurrent ops p k) name) ns = some (pre, v) :=
      (innermost_iff _ _ _ _).2 ⟨h1, h2, (mem_iff_aGet _ (nodup_specCurrent ops pre k) _ _).1 h3,
        fun q a b d => (hnone q).2 (h4 q a b d)⟩
    rw [this]; rfl

/-- `get_*(ns)` (neither `only_current` nor `glob`) of a nested namespace is the path union -/
theorem get_path_mode (c : Ctx) (r x : String) (rest : List String) (k : Kind) (keepNone : Bool) :
    getDeclarations c (r :: x :: rest) k false false keepNone =
      .ok (if keepNone then pathUnion c (r :: x :: rest) k else dropNone (pathUnion c (r :: x :: rest) k)) := by
  simp [getDeclarations]

/-! ## global queries -/

/-- **glob_terminates** (fuel adequacy): the worklist of `_get_declarations_glob` is exhausted
    within the fuel the model passes, in every state (so `.fuel` is never answered) -/
theorem glob_terminates (c : Ctx) (root : String) (k : Kind) : (globDecls c root k).isSome = true :=
  globDecls_isSome c root k

/-- hence no `get_*` query ever answers the model's `.fuel` tag -/
theorem get_never_out_of_fuel (c : Ctx) (ns : Ns) (k : Kind) (onlyCurrent glob keepNone : Bool) :
    getDeclarations c ns k onlyCurrent glob keepNone ≠ .fuel := by
  cases ns with
  | nil => simp [getDeclarations]
  | cons r rest =>
    unfold getDeclarations
    cases glob with
    | true =>
      have := glob_terminates c r k
      cases hg : globDecls c r k with
      | none => rw [hg] at this; cases this
      | some d => simp [hg]
    | false =>
      by_cases h : (rest = [] || onlyCurrent) = true <;> simp [h]

/-- the same for the walk of `get_namespaces_decls` -/
theorem namespaces_decls_terminates (c : Ctx) (ns : Ns) (name : String) (k : Kind) (glob : Bool) :
    getNamespacesDecls c ns name k glob ≠ .fuel := by
  unfold getNamespacesDecls
  cases glob with
  | true =>
    cases ns with
    | nil => simp
    | cons r rest =>
      have := nsDeclsWalk_isSome c name k [r]
      simp only [if_true]
      cases h : nsDeclsWalk c name k (walkFuel c false [r]) [[r]] [] with
      | none => rw [h] at this; cases this
      | some l => simp [Res.ofOption]
  | false =>
    by_cases hns : ns = []
    · simp [hns]
    · have := nsDeclsWalk_isSome c name k ns
      simp only [Bool.false_eq_true, if_false, hns]
      cases h : nsDeclsWalk c name k (walkFuel c false ns) [ns] [] with
      | none => rw [h] at this; cases this
      | some l => simp [Res.ofOption]

/-- `get_namespaces_decls` (any fuel): exactly the pairs `(n + (name,), v)` for the namespaces `n`
    reachable from the start through real (non-`None`) functions and classes that have `name ↦ v`
    in the asked map -/
theorem namespaces_decls_collects (c : Ctx) (name : String) (k : Kind) (fuel : Nat) (start : Ns)
    (res : List (Ns × Val)) (h : nsDeclsWalk c name k fuel [start] [] = some res) (x : Ns × Val) :
    x ∈ res ↔ ∃ n v, Reach c false start n ∧ (name, v) ∈ current c n k ∧ x = (n ++ [name], v) := by
  rw [nsDeclsWalk_collects c name k fuel [start] [] res h x]
  simp

/-- **glob_reachable**: the global query collects exactly the names of the namespaces reachable
    from the root through declared functions and classes, each with a value it has in such a
    namespace (for every fuel: a fuel that is too small answers `none`, never a wrong dictionary) -/
theorem glob_reachable (c : Ctx) (k : Kind) (fuel : Nat) (root : String) (d : Dict)
    (h : globWalk c k fuel [[root]] [] = some d) :
    (∀ name, name ∈ aKeys d ↔ ∃ n, Reach c true [root] n ∧ name ∈ aKeys (current c n k)) ∧
    (∀ name v, (name, v) ∈ d → ∃ n, Reach c true [root] n ∧ (name, v) ∈ current c n k) ∧
    (aKeys d).Nodup := by
  obtain ⟨h1, h2⟩ := globWalk_collects c k fuel [[root]] [] d h
  refine ⟨?_, ?_, nodup_globWalk c k fuel _ _ d (by simp [aKeys]) h⟩
  · intro name
    rw [h1]
    simp [aKeys]
  · intro name v hm
    rcases h2 _ hm with h3 | ⟨s, hs, n, hr, hn⟩
    · cases h3
    · simp only [List.mem_singleton] at hs
      subst hs
      exact ⟨n, hr, hn⟩

/-- when no name is declared in two reachable namespaces, the global query is the union -/
theorem glob_reachable_unique (ops : List Op) (k : Kind) (fuel : Nat) (root : String) (d : Dict)
    (h : globWalk (run ops) k fuel [[root]] [] = some d)
    (huniq : ∀ n n' name, Reach (run ops) true [root] n → Reach (run ops) true [root] n' →
      name ∈ aKeys (specCurrent ops n k) → name ∈ aKeys (specCurrent ops n' k) → n = n')
    (name : String) (v : Val) :
    (name, v) ∈ d ↔ ∃ n, Reach (run ops) true [root] n ∧ (name, v) ∈ specCurrent ops n k := by
  obtain ⟨h1, h2, _⟩ := glob_reachable (run ops) k fuel root d h
  constructor
  · intro hm
    obtain ⟨n, hr, hn⟩ := h2 name v hm
    exact ⟨n, hr, current_run ops n k ▸ hn⟩
  · rintro ⟨n, hr, hn⟩
    have hk : name ∈ aKeys d := (h1 name).2 ⟨n, hr, by
      rw [current_run]; exact List.mem_map_of_mem (f := (·.1)) hn⟩
    obtain ⟨e, he, hname⟩ := List.mem_map.1 hk
    obtain ⟨nm', v'⟩ := e
    simp only at hname
    subst hname
    obtain ⟨n', hr', hn'⟩ := h2 nm' v' he
    rw [current_run] at hn'
    have : n = n' := huniq n n' nm' hr hr' (List.mem_map_of_mem (f := (·.1)) hn)
      (List.mem_map_of_mem (f := (·.1)) hn')
    subst this
    have e1 := (mem_iff_aGet _ (nodup_specCurrent ops n k) _ _).1 hn
    have e2 := (mem_iff_aGet _ (nodup_specCurrent ops n k) _ _).1 hn'
    rw [e1] at e2
    cases e2
    exact he

/-! ## reverse lookup -/

/-- right after `add_*(ns, name, v)`, `get_namespace(v)` answers `ns` -/
theorem reverse_lookup_after_add (ops : List Op) (k : EKind) (ns : Ns) (nm : String) (v : Val) :
    getNamespace (run (ops ++ [.add k ns nm v])) v = some ns := by
  simp only [run, List.foldl_append, List.foldl_cons, List.foldl_nil, step]
  exact getNamespace_addK _ k ns nm v

/-- the statement as written in the design (Appendix E): a value that *currently* sits in
    exactly one namespace is reverse-mapped to it.  False: see `reverse_lookup_counterexample`. -/
def reverse_lookup : Prop :=
  ∀ ops v ns, (∀ ns', (∃ k nm, (nm, v) ∈ specCurrent ops ns' k) ↔ ns' = ns) →
    getNamespace (run ops) v = some ns

/-- **reverse_lookup** (the part that holds).  If the history adds the value `v` at one site
    `(k, ns, nm)` only, then as long as `v` is still there — in the map of kind `k` and, for
    functions/variables/classes, also in `decls` — `get_namespace v = ns`.
    What is missing from `reverse_lookup`: values added at several sites (equal type parameters
    in two classes; one node under two names) — there the index answers the *last* add and the
    first removal erases it. -/
theorem reverse_lookup_partial (ops : List Op) (k : EKind) (ns : Ns) (nm : String) (v : Val)
    (honly : ∀ k' ns' nm', Op.add k' ns' nm' v ∈ ops → k' = k ∧ ns' = ns ∧ nm' = nm)
    (hlive : aGet (specCurrent ops ns k.toKind) nm = some v)
    (hdecl : k.binds = true → aGet (specCurrent ops ns .decls) nm = some v) :
    getNamespace (run ops) v = some ns := by
  apply (revInv_run ops k ns nm v honly).rev
  constructor
  · rw [current_run]; exact hlive
  · intro hb; rw [current_run]; exact hdecl hb

/-- the witness the harness replays on the real code: two equal type parameters `T` in the
    classes `A` and `B`; removing `B`'s erases the reverse entry although `A` still declares `T` -/
def reverseWitness : List Op :=
  [.add .types ["g", "A"] "T" (.tparam "T"), .add .types ["g", "B"] "T" (.tparam "T"),
   .remove .types ["g", "B"] "T"]

theorem reverse_lookup_counterexample : ¬ reverse_lookup := by
  intro h
  have h1 := h reverseWitness (.tparam "T") ["g", "A"] ?_
  · revert h1; decide
  · intro ns'
    constructor
    · rintro ⟨k, nm, hm⟩
      by_cases hA : ns' = ["g", "A"]
      · exact hA
      · exfalso
        have hA' : ¬ (["g", "A"] = ns') := fun e => hA e.symm
        by_cases hB : ["g", "B"] = ns'
        · subst hB
          cases k <;> simp [reverseWitness, specCurrent, specStep, writes, EKind.toKind, EKind.binds, aSet, aDel] at hm
        · simp [reverseWitness, specCurrent, specStep, hA', hB] at hm
    · intro e
      subst e
      exact ⟨.types, "T", by decide⟩

/-! ## non-vacuity: a three-level namespace tree with shadowing -/

/-- class `a` in `g`, method `b` in `g.a`; `x` declared at all three levels, `y` innermost only,
    `z` outermost only, `w` an artificial `None` in `g.a` that hides nothing -/
def tree : List Op :=
  [.add .classes ["g"] "a" (.node 2 true), .add .vars ["g"] "x" (.node 10 false),
   .add .vars ["g"] "z" (.node 14 false), .add .vars ["g"] "w" (.node 15 false),
   .add .funcs ["g", "a"] "b" (.node 1 false), .add .vars ["g", "a"] "x" (.node 11 false),
   .add .vars ["g", "a"] "w" .none,
   .add .vars ["g", "a", "b"] "x" (.node 12 false), .add .vars ["g", "a", "b"] "y" (.node 13 false),
   .add .types ["g", "a"] "T" (.tparam "T")]

example : getDecl (run tree) ["g", "a", "b"] "x" none = some (["g", "a", "b"], .node 12 false) := by decide
example : getDecl (run tree) ["g", "a", "b"] "z" none = some (["g"], .node 14 false) := by decide
example : getDecl (run tree) ["g", "a", "b"] "w" none = some (["g"], .node 15 false) := by decide
example : getDecl (run tree) ["g", "a", "b"] "T" none = none := by decide
example : getDecl (run tree) ["g", "a", "b"] "z" (some ["g", "a"]) = none := by decide
example : getDecl (run (tree ++ [.remove .vars ["g", "a", "b"] "x"])) ["g", "a", "b"] "x" none
    = some (["g", "a"], .node 11 false) := by decide
example : specLookup tree ["g", "a", "b"] "x" = some (["g", "a", "b"], .node 12 false) := by decide
example : getDeclarations (run tree) ["g", "a", "b"] .vars false false true
    = .ok [("x", .node 12 false), ("z", .node 14 false), ("w", .none), ("y", .node 13 false)] := by decide
example : getDeclarations (run tree) ["g"] .decls false true false
    = .ok [("a", .node 2 true), ("x", .node 12 false), ("z", .node 14 false), ("b", .node 1 false),
           ("y", .node 13 false)] := by decide
example : getParentClass (run tree) ["g", "a", "b", "x"] = .node 2 true := by decide
example : getNamespace (run tree) (.node 12 false) = some ["g", "a", "b"] := by decide
example : getNamespacesDecls (run tree) ["g"] "x" .vars true
    = .ok [(["g", "x"], .node 10 false), (["g", "a", "x"], .node 11 false),
           (["g", "a", "b", "x"], .node 12 false)] := by decide
/-- the hypotheses of `reverse_lookup_partial` are satisfiable -/
example : getNamespace (run tree) (.node 11 false) = some ["g", "a"] :=
  reverse_lookup_partial tree .vars ["g", "a"] "x" (.node 11 false)
    (by intro k' ns' nm' h; simpa [tree] using h) (by decide) (by decide)
/-- … and so is the uniqueness hypothesis of `glob_reachable_unique` (types: `T` only in `g.a`) -/
example : globDecls (run tree) "g" .types = some [("T", .tparam "T")] := by decide
/-- the reverse-lookup witness: `T` is registered in `g.A` only, yet unmapped -/
example : specCurrent reverseWitness ["g", "A"] .types = [("T", .tparam "T")] ∧
    specCurrent reverseWitness ["g", "B"] .types = [] ∧
    getNamespace (run reverseWitness) (.tparam "T") = none := by decide

end Heph.Props.C16
