import Heph.Proofs.TransGroovyHistory
/-!
# C12 for the Groovy translator — which annotations of the program are printed

Model: `Heph.TransGroovy` (see `Props/C11Groovy.lean`); the text a visit method assembles once its
children are translated is a named function of the model (`varDeclText`, `funcDeclText`,
`callText`, …), and `visit` routes exactly that text (`var_decl_routes`, `call_routes`).

"A declared type / an explicit type argument is printed iff the program carries it", for Groovy:

* variables — `var_annot_local`: outside the global namespace the declaration prints the type
  (`get_type_name(inferred_type)`, which is the declared type: `VariableDeclaration.__init__`
  stores `var_type` there) when `var_type` is set and the keyword `def` when it is not.  The full
  statement `var_annot_iff` is false of the code: a top-level variable is always printed with a
  type, also when the program carries none (`var_annot_iff_counterexample`; the comment in
  `visit_var_decl`: globals are fields of `Main`).
* return types — `ret_annot_method`: a method or top-level function always prints
  `get_type_name(inferred_type)`, whatever `ret_type` is: the text does not depend on `ret_type`
  (so `ret_annot_iff` is refuted: `ret_annot_iff_counterexample`); `ret_annot_closure`: a nested
  function (printed as a closure variable) prints `def` iff `ret_type` is `None` or `void`, else
  `Closure<boxed inferred type>`.
* explicit type arguments of calls — `call_targs_never_printed`: the translation of a call does not
  depend on `type_args` / `can_infer_type_args` at all.
* type arguments of `new` — `new_targs_iff`: `C<>` iff `can_infer_type_args`, else the full type.
-/
namespace Heph.Props.C12.Groovy
open Heph Heph.TransGroovy

theorem append_space_ne_empty (s : String) : (s ++ " " != "") = true := by
  have h : (s ++ " ").length ≠ "".length := by
    rw [String.length_append]; show s.length + 1 ≠ 0; omega
  have : s ++ " " ≠ "" := fun e => h (by rw [e])
  simp [this]

/-- the declaration head a variable prints -/
def varHead (st : St) (isFinal : Bool) (annot : String) : String :=
  sp st.ident ++ (if isFinal then "final " else "") ++ annot

/-- the text `visit` routes for a variable declaration is `varDeclText` of the child's text -/
theorem var_decl_routes (st : St) (o : Out) (name : String) (expr : Node) (isFinal : Bool) (vt inf : Option Ty) :
    ∃ (st1 : St) (o1 : Out) (cr : List Text), st1.ns = st.ns ∧ st1.ident = st.ident ∧ st1.context = st.context ∧
      (visit st o (.varDecl name expr isFinal vt inf)).2 = route .varD st.ns o1 (varDeclText st1 name isFinal vt inf cr) := by
  refine ⟨(visit { push .other st with castNumber := vt.isNone } o expr).1,
    (popRes 1 (visit { push .other st with castNumber := vt.isNone } o expr).2).1,
    (popRes 1 (visit { push .other st with castNumber := vt.isNone } o expr).2).2, ?_, ?_, ?_, ?_⟩
  · rw [visit_fst]; rfl
  · rw [visit_fst]; rfl
  · rw [visit_fst]; rfl
  · simp only [visit, fin, visit_fst, push, pop]

/-- outside the global namespace: the type iff the program carries one, `def` otherwise -/
theorem var_annot_local (st : St) (h : (st.ns == ["global"]) = false) (name : String) (isFinal : Bool)
    (vt inf : Option Ty) (cr : List Text) :
    varDeclText st name isFinal vt inf cr =
      varHead st isFinal (match vt with | some _ => typeNameO inf ++ " " | none => "def ") ++
        mainPrefix st "vars" name ++ name ++ " = " ++ lstrip (at! cr 0) := by
  have h' : st.ns ≠ ["global"] := by simpa using h
  cases vt with
  | none => simp [varDeclText, varHead, h, h']
  | some t => simp [varDeclText, varHead, h, h', append_space_ne_empty]

/-- full statement: a variable without a declared type is printed with `def`, whatever the namespace -/
def var_annot_iff : Prop :=
  ∀ (st : St) (name : String) (isFinal : Bool) (inf : Option Ty) (cr : List Text),
    varDeclText st name isFinal none inf cr =
      varHead st isFinal "def " ++ (if st.ns != ["global"] then mainPrefix st "vars" name else "") ++
        name ++ " = " ++ lstrip (at! cr 0)

def tyObject : Ty := .builtin "<class 'src.ir.groovy_types.ObjectType'>" "Object" false false []
def tyInteger : Ty := .builtin "<class 'src.ir.groovy_types.IntegerType'>" "Integer" false false [tyObject]
def tyVoid : Ty := .builtin "<class 'src.ir.groovy_types.VoidType'>" "void" false false [tyObject]

/-- false at the global namespace: `val v = 1` without a declared type prints `final Integer v = 1` -/
theorem var_annot_iff_counterexample : ¬ var_annot_iff := by
  intro h
  have := h {} "v" true (some tyInteger) ["1"]
  revert this
  decide +kernel

/-- at the global namespace the type is printed whether or not the program carries it -/
theorem var_annot_global (st : St) (h : (st.ns == ["global"]) = true) (name : String) (isFinal : Bool)
    (vt inf : Option Ty) (cr : List Text) :
    varDeclText st name isFinal vt inf cr =
      varHead st isFinal (typeNameO inf ++ " ") ++ name ++ " = " ++ lstrip (at! cr 0) := by
  have h' : st.ns = ["global"] := by simpa using h
  cases vt <;> simp [varDeclText, varHead, h', append_space_ne_empty]

/-- a method / top-level function: the text does not depend on `ret_type` -/
theorem ret_annot_method (st : St) (h : isClosure st = false) (old : Nat) (name : String) (params : List Node)
    (rt rt' inf : Option Ty) (body : Option Node) (isFinal : Bool) (tps : List Ty) (cr : List Text) :
    funcDeclText st old name params rt inf body isFinal tps cr =
      funcDeclText st old name params rt' inf body isFinal tps cr := by
  simp [funcDeclText, h]

/-- full statement: the return type is printed iff the program carries one; read on the text function: a
    function with and without `ret_type` print differently -/
def ret_annot_iff : Prop :=
  ∀ (st : St) (old : Nat) (name : String) (params : List Node) (t : Ty) (inf : Option Ty) (body : Option Node)
    (isFinal : Bool) (tps : List Ty) (cr : List Text),
    funcDeclText st old name params (some t) inf body isFinal tps cr ≠
      funcDeclText st old name params none inf body isFinal tps cr

theorem ret_annot_iff_counterexample : ¬ ret_annot_iff := by
  intro h
  exact h {} 0 "f" [] tyInteger (some tyInteger) none true [] [] (ret_annot_method {} rfl ..)

/-- a nested function is a closure variable: `def` iff `ret_type` is `None` or `void` -/
theorem ret_annot_closure (st : St) (h : isClosure st = true) (old : Nat) (name : String) (params : List Node)
    (rt : Option Ty) (t : Ty) (body : Option Node) (isFinal : Bool) (tps : List Ty) (cr : List Text) :
    ∃ ps b, funcDeclText st old name params rt (some t) body isFinal tps cr =
      identOld st old ++ (if rt.isNone || optIsCls rt clsVoid then "def" else "Closure<" ++ boxedTypeName t ++ ">") ++
        " " ++ name ++ " = { " ++ ps ++ " -> " ++ b ++ "}" := by
  refine ⟨join ", " ((List.range params.length).map fun i => at! cr i), (if body.isSome then last! cr else ""), ?_⟩
  simp only [funcDeclText, h, if_true, boxedTypeNameO]

/-- explicit type arguments of a call are never printed: the whole visit ignores them -/
theorem call_targs_never_printed (st : St) (o : Out) (func : String) (args : List Node) (recv : Option Node)
    (targs : List Ty) (canInfer isRef : Bool) :
    visit st o (.call func args recv targs canInfer isRef) = visit st o (.call func args recv [] true isRef) := by
  simp only [visit]

/-- `new`: `C<>` iff `can_infer_type_args`, else the type with its arguments -/
theorem new_targs_iff (st : St) (o : Out) (t : Ty) (args : List Node) (canInfer : Bool) :
    ∃ (o1 : Out) (as : List Text),
      (visit st o (.newE t args canInfer)).2 =
        route .other st.ns o1 (sp st.ident ++ "new " ++ (if canInfer then attrName t ++ "<>" else typeName t) ++
          "(" ++ join ", " as ++ ")") := by
  refine ⟨(popRes args.length (visitL { push .other st with ident := 0, castNumber := true } o args).2).1,
    (popRes args.length (visitL { push .other st with ident := 0, castNumber := true } o args).2).2, ?_⟩
  simp only [visit, fin, visitL_fst, push, pop]

/-! ## non-vacuity -/

example : varDeclText { ns := ["global", "f"], ident := 4, context := some [] } "v" true none (some tyInteger) ["    1"] = "    final def v = 1" := by
  decide +kernel
example : varDeclText { ns := ["global", "f"], ident := 4, context := some [] } "v" false (some tyInteger) (some tyInteger) ["    1"] =
    "    Integer v = 1" := by decide +kernel
example : varDeclText {} "v" true none (some tyInteger) ["1"] = "final Integer v = 1" := by decide +kernel
example : isClosure { stack := [Tag.other, Tag.classD] } = false := by decide
example : isClosure { stack := [Tag.other, Tag.other, Tag.none] } = true := by decide
example : funcDeclText { stack := [Tag.other, Tag.other], ident := 6 } 4 "f" [] (some tyVoid) (some tyVoid) none true [] [] =
    "    def f = {  -> }" := by decide +kernel

end Heph.Props.C12.Groovy
