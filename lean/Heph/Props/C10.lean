import Heph.Model.Unify
import Heph.Spec.Unify
import Heph.Proofs.UnifySound
import Heph.Proofs.UnifyHyp
import Heph.Proofs.UnifyFuel
import Heph.Proofs.TypesFlat
/-!
# C10 — type unification returns a unifier or nothing

Model: `Heph.Unify.unifyF` / `unifyV` / `unify` (`Model/Unify.lean`, `unify_types` of
`src/ir/type_utils.py`), with the two variants `Variant.asIs` (unchanged tree) and
`Variant.repaired` (`fixes/C10-unify-projections.diff`).  Specification: `IsUnifier`,
`BoundsOK`, `Functional`, `AllSome` (`Spec/Unify.lean`), relative to a universe (`UnivOK`).

* `unifyF_sound_weak`, `unifyF_sound`: for every variant, every fuel, both modes — a non-empty
  result is a unifier (weak reading; strict reading when no assigned variable has a
  parameterized bound, `OpenStable`), every assigned type satisfies the variable's bound, no
  variable is assigned twice, no value is `None`; under the variant's hypothesis `HypF`.
* `hyp_repaired`: the repaired variant needs no hypothesis; `hyp_asIs`: the unchanged tree needs
  `SameProjection` and `NoStar`.
* `unify_sound`: the statement for `unify` (= `Variant.current`); `unifyV_sound_repaired`,
  `unifyV_sound_asIs`.
* `unify_conflict_empty`: when no unifier exists the result is the empty assignment.
* `unify_fuel`: the fuel of `unify` never runs out.
* `unify_counterexample_variance`, `unify_counterexample_star`, `unify_counterexample_star_target`,
  `unify_counterexample_open`: the witnessed exceptions (replayed on the real code by
  `harness/check_C10.py`), and `repaired_on_witnesses`.
-/
namespace Heph.Props.C10
open Heph Heph.Ty Heph.Unify

/-- the hypothesis a variant needs for the pair `(t, p)` at the fuel of `unifyV` -/
def Hyp (v : Variant) (t p : Ty) : Prop := HypF v (unifyFuel t p) t p

/-- **C10, weak reading, every variant and fuel.**  A non-empty result is a unifier of the
    pattern with the target (in supertype mode: with an element of the target's chain of last
    supertypes), every assigned type satisfies the bound of its variable, no variable is
    assigned twice and no variable is bound to `None`. -/
theorem unifyF_sound_weak (U : Ty → Prop) (fac : Option Ty) (hU : UnivOK U fac) (v : Variant)
    (bn : List (String × String)) (f : Nat) (st : Bool) (t p : Ty) (u : UMap) (ut : U t) (up : U p)
    (hyp : HypF v f t p) (h : unifyF f v bn fac st t p = .ok u) (hne : u ≠ []) :
    IsUnifierW st u t p ∧ BoundsOK U fac u ∧ Functional u ∧ AllSome u := by
  obtain ⟨hm, t', hl, hσ⟩ := (sound_all hU v bn f).1 st t p u ut up hyp h hne
  exact ⟨⟨t', hl, hσ u (ExtOK.self hm)⟩, hm.bounds, hm.func, hm.allSome⟩

/-- **C10 as stated** (strict reading): additionally, when no assigned variable has a
    parameterized bound, every position treated as open is left open by the assignment. -/
theorem unifyF_sound (U : Ty → Prop) (fac : Option Ty) (hU : UnivOK U fac) (v : Variant)
    (bn : List (String × String)) (f : Nat) (st : Bool) (t p : Ty) (u : UMap) (ut : U t) (up : U p)
    (hyp : HypF v f t p) (h : unifyF f v bn fac st t p = .ok u) (hne : u ≠ []) (hs : OpenStable u) :
    IsUnifier st u t p ∧ BoundsOK U fac u ∧ Functional u ∧ AllSome u := by
  obtain ⟨⟨t', hl, hm⟩, h2⟩ := unifyF_sound_weak U fac hU v bn f st t p u ut up hyp h hne
  exact ⟨⟨t', hl, matches_strict hs hm⟩, h2⟩

/-- the repaired variant needs no hypothesis -/
theorem hyp_repaired (f : Nat) (t p : Ty) : HypF .repaired f t p := (allMet_true f).1 t p

/-- the unchanged tree needs: projections met have the same variance, and a bound -/
theorem hyp_asIs (t p : Ty) (h1 : SameProjection t p) (h2 : NoStar t p) : Hyp .asIs t p :=
  (allMet_and chkVariance chkStar (unifyFuel t p)).1 t p h1 h2

/-- **C10 for `unify_types` as the framework models the tree** (`Variant.current`): switch that
    one definition to `.repaired` and `Hyp Variant.current t p` is `hyp_repaired`. -/
theorem unify_sound (U : Ty → Prop) (fac : Option Ty) (hU : UnivOK U fac)
    (bn : List (String × String)) (st : Bool) (t p : Ty) (u : UMap) (ut : U t) (up : U p)
    (hyp : Hyp Variant.current t p) (h : unify bn fac st t p = .ok u) (hne : u ≠ [])
    (hs : OpenStable u) :
    IsUnifier st u t p ∧ BoundsOK U fac u ∧ Functional u ∧ AllSome u :=
  unifyF_sound U fac hU Variant.current bn _ st t p u ut up hyp h hne hs

theorem unifyV_sound_repaired (U : Ty → Prop) (fac : Option Ty) (hU : UnivOK U fac)
    (bn : List (String × String)) (st : Bool) (t p : Ty) (u : UMap) (ut : U t) (up : U p)
    (h : unifyV .repaired bn fac st t p = .ok u) (hne : u ≠ []) (hs : OpenStable u) :
    IsUnifier st u t p ∧ BoundsOK U fac u ∧ Functional u ∧ AllSome u :=
  unifyF_sound U fac hU .repaired bn _ st t p u ut up (hyp_repaired _ t p) h hne hs

theorem unifyV_sound_asIs (U : Ty → Prop) (fac : Option Ty) (hU : UnivOK U fac)
    (bn : List (String × String)) (st : Bool) (t p : Ty) (u : UMap) (ut : U t) (up : U p)
    (h1 : SameProjection t p) (h2 : NoStar t p)
    (h : unifyV .asIs bn fac st t p = .ok u) (hne : u ≠ []) (hs : OpenStable u) :
    IsUnifier st u t p ∧ BoundsOK U fac u ∧ Functional u ∧ AllSome u :=
  unifyF_sound U fac hU .asIs bn _ st t p u ut up (hyp_asIs t p h1 h2) h hne hs

/-- **types that cannot be made to match yield the empty assignment**: if no non-empty
    assignment unifies `p` with `t` (not even in the weak reading), the answer is `{}`. -/
theorem unify_conflict_empty (U : Ty → Prop) (fac : Option Ty) (hU : UnivOK U fac) (v : Variant)
    (bn : List (String × String)) (st : Bool) (t p : Ty) (u : UMap) (ut : U t) (up : U p)
    (hyp : Hyp v t p) (hno : ¬ ∃ σ : UMap, σ ≠ [] ∧ IsUnifierW st σ t p ∧ Functional σ)
    (h : unifyV v bn fac st t p = .ok u) : u = [] := by
  apply Classical.byContradiction
  intro hne
  obtain ⟨h1, _, h3, _⟩ := unifyF_sound_weak U fac hU v bn _ st t p u ut up hyp h hne
  exact hno ⟨u, hne, h1, h3⟩

/-- `_update_type_var_map` refuses exactly a second, different type for an assigned variable -/
theorem updateMap_conflict (m : UMap) (k : Ty) (v : Option Ty) :
    updateMap m k v = none ↔ ∃ old, m.get k = some (some old) ∧ beqO (some old) v = false := by
  unfold updateMap
  cases hg : m.get k with
  | none =>
    simp only []
    constructor
    · intro h; cases h
    · rintro ⟨old, h1, _⟩; cases h1
  | some o =>
    cases o with
    | none =>
      simp only []
      constructor
      · intro h; cases h
      · rintro ⟨old, h1, _⟩; cases h1
    | some old =>
      simp only []
      cases hb : beqO (some old) v
      · simp only [Bool.false_eq_true, if_false, true_iff]
        exact ⟨old, rfl, hb⟩
      · simp only [if_true]
        constructor
        · intro h; cases h
        · rintro ⟨old', h1, h2⟩
          cases h1
          rw [hb] at h2
          cases h2

/-- the fuel of `unifyV` never runs out (its own fuel; `kfuel` is the fuel of the kernel
    functions `isSubtype`/`getBoundRec`, adequate on regular types by C06/C07) -/
theorem unify_fuel (v : Variant) (bn : List (String × String)) (fac : Option Ty) (st : Bool)
    (t p : Ty) : ∀ u, unifyV v bn fac st t p = u → (match u with | .fuel => False | _ => True) := by
  intro u h
  have := (fuel_all v bn fac (unifyFuel t p)).1 st t p (by simp [unifyFuel])
  cases u <;> simp_all [unifyV]

/-! ## Witnesses -/

def kAny : Ty := builtin "<class 'src.ir.kotlin_types.AnyType'>" "Any" false false []
def kString : Ty := builtin "<class 'src.ir.kotlin_types.StringType'>" "String" false false [kAny]
def kInt : Ty := builtin "<class 'src.ir.kotlin_types.IntegerType'>" "Int" false false [kAny]
def tcCls : String := "<class 'src.ir.types.TypeConstructor'>"
def conA : Ty := tcon tcCls "A" [tparam "X" 0 none] []
def conP : Ty := tcon tcCls "P" [tparam "X" 0 none, tparam "Y" 0 none] []
def tT : Ty := tparam "T" 0 none
def tX : Ty := tparam "X" 0 none
/-- `A<in String>` -/
def aInString : Ty := tconNew conA [wild 2 (some kString)]
/-- `A<out T>` -/
def aOutT : Ty := tconNew conA [wild 1 (some tT)]
/-- `A<*>` -/
def aStar : Ty := tconNew conA [wild 0 none]
/-- `T : A<X>` -/
def tTB : Ty := tparam "T" 0 (some (tconNew conA [tX]))
/-- `P<A<String>, A<X>>` -/
def pTarget : Ty := tconNew conP [tconNew conA [kString], tconNew conA [tX]]
/-- `P<T, T>` with `T : A<X>` -/
def pPattern : Ty := tconNew conP [tTB, tTB]

def mapEqS : UMap → UMap → Bool
  | [], [] => true
  | (k, v) :: xs, (k', v') :: ys => eqS k k' && eqSO v v' && mapEqS xs ys
  | _, _ => false

/-- the result is the dict `e` (structurally) -/
def isOk (r : UR) (e : UMap) : Bool := match r with | .ok m => mapEqS m e | _ => false
def isAttrError (r : UR) : Bool := match r with | .attrError => true | _ => false

/-- finding 5 (1): projections of opposite variance are unified.
    `unify_types(A<in String>, A<out T>) = {T: String}`; substituting back gives
    `A<out String>`, which is not the target; the hypothesis `SameProjection` fails. -/
theorem unify_counterexample_variance :
    isOk (unifyV .asIs [] (some kAny) true aInString aOutT) [(tT, some kString)] = true ∧
    beq (substituteType aOutT [(tT, kString)]) aInString = false ∧
    allMetF (unifyFuel aInString aOutT) chkVariance aInString aOutT = false := by decide

/-- finding 5 (2): a star projection in the pattern raises `AttributeError` instead of giving
    the empty assignment; the hypothesis `NoStar` fails. -/
theorem unify_counterexample_star :
    isAttrError (unifyV .asIs [] (some kAny) true aStar aStar) = true ∧
    allMetF (unifyFuel aStar aStar) chkStar aStar aStar = false := by decide

/-- … and a star projection in the target binds the variable to `None`:
    `unify_types(A<*>, A<out T>) = {T: None}` -/
theorem unify_counterexample_star_target :
    isOk (unifyV .asIs [] (some kAny) true aStar aOutT) [(tT, none)] = true ∧
    allMetF (unifyFuel aStar aOutT) chkStar aStar aOutT = false := by decide

/-- a bounded variable left open at one position and assigned at another:
    `unify_types(P<A<String>, A<X>>, P<T, T>)` with `T : A<X>` is `{X: String, T: A<X>}` (both
    variants); substituting back gives `P<A<X>, A<X>>`, not the target.  This is why the strict
    reading needs `OpenStable`. -/
theorem unify_counterexample_open :
    isOk (unifyV .asIs [] (some kAny) true pTarget pPattern)
      [(tX, some kString), (tTB, some (tconNew conA [tX]))] = true ∧
    isOk (unifyV .repaired [] (some kAny) true pTarget pPattern)
      [(tX, some kString), (tTB, some (tconNew conA [tX]))] = true ∧
    beq (substituteType pPattern [(tX, kString), (tTB, tconNew conA [tX])]) pTarget = false := by
  decide

/-- the repaired code answers the empty assignment on the three projection witnesses -/
theorem repaired_on_witnesses :
    isOk (unifyV .repaired [] (some kAny) true aInString aOutT) [] = true ∧
    isOk (unifyV .repaired [] (some kAny) true aStar aStar) [] = true ∧
    isOk (unifyV .repaired [] (some kAny) true aStar aOutT) [] = true := by decide

/-- a conflicting repeated variable gives the empty assignment, an agreeing one a unifier -/
theorem repeated_variable :
    isOk (unifyV .asIs [] (some kAny) true (tconNew conP [kString, kInt]) (tconNew conP [tT, tT])) [] = true ∧
    isOk (unifyV .asIs [] (some kAny) true (tconNew conP [kString, kString]) (tconNew conP [tT, tT]))
      [(tT, some kString)] = true := by decide

end Heph.Props.C10
