import Heph.Model.Graph
namespace Heph.Props.C19
open Heph.Graph

theorem existIn_irrefl (x : List Nat) : existIn x x = false := by
  simp [existIn]

end Heph.Props.C19
