import Heph.Proofs.GraphBfs
import Heph.Proofs.GraphDfs
import Heph.Proofs.GraphSrc
import Heph.Proofs.GraphPaths
import Heph.Proofs.GraphLongest
import Heph.Proofs.GraphWalk
import Heph.Proofs.GraphAll
/-!
# C19 — graph queries agree with their textbook definitions

The property theorems about the model `Heph/Model/Graph.lean` of `src/graph_utils.py`; the
declarative notions (`Reach`, `ReachAny`, `Conn`, `BiReach`, `SimplePath`, `MaximalPath`,
`IsSourceOf`, `AdjNodup`) are in `Heph/Spec/Graph.lean`, the helper lemmas (worklist
invariants, fuel adequacy) in `Heph/Proofs/Graph*.lean`.

Every theorem states both the exact characterisation of the answer and that there is an
answer (`some …`/`.ok …`: the fuel of the worklist never runs out).  `WFG g` says that the
keys of the dictionary are distinct (true of every Python `dict`); theorems that hold without
it do not assume it.  Graphs may have cycles, self-loops, isolated keys, duplicate neighbours
and neighbours that are not keys.
-/
namespace Heph.Props.C19
open Heph.Graph

/-- a graph with a cycle `0 → 1 → 0`, a self-loop on `2`, an isolated key `3`, a dangling
    (non-key) target `7` and a duplicate neighbour -/
def demo : Graph := [(0, [1, 2, 1]), (1, [0]), (2, [2, 7]), (3, [])]

/-- the same without the duplicate neighbour -/
def demo2 : Graph := [(0, [1, 2]), (1, [0]), (2, [2, 7]), (3, [])]

/-! ## `reachable` -/

/-- `reachable` always answers, and answers `True` exactly when the start vertex is a key and
    the destination is reachable from it through key vertices. -/
theorem reachable_iff {g : Graph} (hg : WFG g) (s d : Nat) :
    (reachable g s d = some true ↔ s ∈ keys g ∧ Reach g s d) ∧ reachable g s d ≠ none := by
  rcases reachable_correct hg s d with h | h
  · simp [h.1, h.2]
  · simp [h.1, h.2]

example : WFG demo ∧ reachable demo 1 2 = some true ∧ reachable demo 2 0 = some false ∧
    reachable demo 0 7 = some false ∧ reachable demo 7 7 = some false := by decide

/-- the `False` answers of `reachable` (equivalent to `reachable_iff`) -/
theorem reachable_false_iff {g : Graph} (hg : WFG g) (s d : Nat) :
    reachable g s d = some false ↔ ¬ (s ∈ keys g ∧ Reach g s d) := by
  rcases reachable_correct hg s d with h | h
  · simp [h.1, h.2]
  · simp [h.1, h.2]

/-! ## `dfs` -/

/-- `dfs` (the traversal used by the feasibility check of type inference) always answers, with
    exactly the vertices other than the source that can be reached from it in one or more
    steps, through key and non-key targets alike.  Holds for every graph (`WFG` not needed). -/
theorem dfs_spec (g : Graph) (s : Nat) :
    ∃ l, dfs g s = some l ∧ ∀ n, n ∈ l ↔ n ≠ s ∧ ReachAny g s n :=
  dfs_correct g s

example : dfs demo 0 = some [1, 2, 7] ∧ dfs demo 2 = some [7] ∧ dfs demo 7 = some [] := by decide

/-! ## `connected` -/

/-- `connected` always answers, and answers `True` exactly when the start vertex is a key and
    the destination is weakly connected to it. -/
theorem connected_iff {g : Graph} (hg : WFG g) (s d : Nat) :
    (connected g s d = some true ↔ s ∈ keys g ∧ Conn g s d) ∧ connected g s d ≠ none := by
  rcases connected_correct hg s d with h | h
  · simp [h.1, h.2]
  · simp [h.1, h.2]

example : WFG demo ∧ connected demo 2 1 = some true ∧ connected demo 2 3 = some false ∧
    connected demo 2 7 = some false := by decide

/-! ## `find_sources` -/

/-- `find_sources` on a key vertex returns, without duplicates, exactly the keys without
    predecessor from which the vertex is reachable; on a vertex that is not a key it raises
    `KeyError` (and only then). -/
theorem sources_spec {g : Graph} (hg : WFG g) (v : Nat) :
    (v ∈ keys g → ∃ l, findSources g v = .ok l ∧ l.Nodup ∧
      ∀ x, x ∈ l ↔ x ∈ keys g ∧ (∀ y ∈ keys g, x ∉ adj g y) ∧ Reach g x v) ∧
    (findSources g v = .keyError ↔ v ∉ keys g) := by
  refine ⟨findSources_correct hg v, ?_, findSources_keyError g v⟩
  intro h hv
  obtain ⟨l, e, _⟩ := findSources_correct hg v hv
  rw [e] at h; cases h

example : WFG [(0, [1]), (1, [2, 1]), (2, [1]), (4, [2])] ∧
    findSources [(0, [1]), (1, [2, 1]), (2, [1]), (4, [2])] 1 = .ok [4, 0] ∧
    findSources demo 0 = .ok [] ∧ findSources demo 3 = .ok [3] ∧
    findSources demo 7 = .keyError := by decide

/-! ## `find_all_paths` -/

/-- `find_all_paths` always answers, with exactly the simple paths from the start vertex
    (paths without repeated vertex whose non-final vertices are keys); when no adjacency list
    has a duplicate entry, no path is listed twice.  Holds for every graph (`WFG` not needed). -/
theorem allPaths_spec (g : Graph) (s : Nat) :
    ∃ l, findAllPaths g s = some l ∧ (∀ p, p ∈ l ↔ SimplePath g s p) ∧ (AdjNodup g → l.Nodup) :=
  findAllPaths_correct g s

example : findAllPaths demo2 0 = some [[0], [0, 1], [0, 2], [0, 2, 7]] ∧
    findAllPaths demo2 7 = some [[7]] := by decide

example : WFG demo2 ∧ AdjNodup demo2 := by
  refine ⟨by decide, fun v => ?_⟩
  simp only [demo2, adj_cons, adj_nil]
  repeat' split
  all_goals decide

/-- without `AdjNodup` a path can be listed twice (Python does the same) -/
example : findAllPaths demo 0 = some [[0], [0, 1], [0, 2], [0, 2, 7], [0, 1]] := by decide

/-! ## `find_longest_paths` -/

/-- `find_longest_paths` always answers, with exactly the maximal simple paths from the vertex:
    the simple paths that are not a proper prefix of another simple path from it. -/
theorem longestPaths_spec (g : Graph) (s : Nat) :
    ∃ l, findLongestPaths g s = some l ∧ (∀ p, p ∈ l ↔ MaximalPath g s p) ∧
      (AdjNodup g → l.Nodup) :=
  findLongestPaths_correct g s

/-- the same, relative to the answer of `find_all_paths` -/
theorem longestPaths_relative (g : Graph) (s : Nat) :
    ∃ l all, findLongestPaths g s = some l ∧ findAllPaths g s = some all ∧
      ∀ p, p ∈ l ↔ p ∈ all ∧ ∀ q ∈ all, p <+: q → q = p := by
  obtain ⟨l, e, hl, _⟩ := findLongestPaths_correct g s
  obtain ⟨all, e', hall, _⟩ := findAllPaths_correct g s
  refine ⟨l, all, e, e', ?_⟩
  intro p
  rw [hl, hall]
  simp only [MaximalPath, hall]

example : findLongestPaths demo2 0 = some [[0, 1], [0, 2, 7]] ∧
    findLongestPaths demo2 3 = some [[3]] ∧
    findLongestPaths [(0, [1]), (1, [2]), (2, [3]), (3, [])] 0 = some [[0, 1, 2, 3]] := by decide

/-! ## `find_all_reachable` -/

/-- `find_all_reachable` always answers with a set: exactly the vertices lying on a simple
    path from the vertex, that is, the vertex itself and everything reachable from it. -/
theorem allReachable_spec (g : Graph) (s : Nat) :
    ∃ l, findAllReachable g s = some l ∧ l.Nodup ∧
      (∀ x, x ∈ l ↔ ∃ p, SimplePath g s p ∧ x ∈ p) ∧
      (∀ x, x ∈ l ↔ x = s ∨ ReachAny g s x) := by
  obtain ⟨l, e, hn, hl⟩ := findAllReachable_correct g s
  exact ⟨l, e, hn, hl, fun x => (hl x).trans (onSimplePath_iff g s x)⟩

example : findAllReachable demo 0 = some [0, 1, 2, 7] ∧ findAllReachable demo 7 = some [7] := by
  decide

/-! ## `bi_reachable`, `find_all_bi_reachable`, `find_all_connected` -/

/-- `bi_reachable` always answers, and answers `True` exactly when one of the two vertices is
    a key from which the other is reachable. -/
theorem biReachable_iff {g : Graph} (hg : WFG g) (s d : Nat) :
    (biReachable g s d = some true ↔
      (s ∈ keys g ∧ Reach g s d) ∨ (d ∈ keys g ∧ Reach g d s)) ∧ biReachable g s d ≠ none := by
  rcases biReachable_correct hg s d with h | h
  · have := h.2; unfold BiReach at this; simp [h.1, this]
  · have := h.2; unfold BiReach at this; simp [h.1, this]

example : WFG demo ∧ biReachable demo 2 0 = some true ∧ biReachable demo 3 0 = some false := by
  decide

/-- `find_all_bi_reachable` always answers with a set: exactly the keys that reach, or are
    reached from, the vertex. -/
theorem allBiReachable_spec {g : Graph} (hg : WFG g) (v : Nat) :
    ∃ l, findAllBiReachable g v = some l ∧ l.Nodup ∧
      ∀ x, x ∈ l ↔ x ∈ keys g ∧ ((v ∈ keys g ∧ Reach g v x) ∨ (x ∈ keys g ∧ Reach g x v)) :=
  findAllBiReachable_correct hg v

example : WFG demo ∧ findAllBiReachable demo 2 = some [0, 1, 2] ∧
    findAllBiReachable demo 7 = some [] := by decide

/-- `find_all_connected` always answers with a set: exactly the keys weakly connected to the
    vertex (none if the vertex is not a key). -/
theorem allConnected_spec {g : Graph} (hg : WFG g) (v : Nat) :
    ∃ l, findAllConnected g v = some l ∧ l.Nodup ∧
      ∀ x, x ∈ l ↔ x ∈ keys g ∧ v ∈ keys g ∧ Conn g v x :=
  findAllConnected_correct hg v

example : WFG demo ∧ findAllConnected demo 2 = some [0, 1, 2] ∧
    findAllConnected demo 3 = some [3] := by decide

/-! ## `none_reachable`, `none_connected` -/

/-- `none_reachable` always answers, and answers `True` exactly when some key bi-reachable
    from the vertex is bi-reachable with the distinguished node. -/
theorem noneReachable_iff {g : Graph} (hg : WFG g) (v nn : Nat) :
    (noneReachable g v nn = some true ↔ ∃ x ∈ keys g, BiReach g v x ∧ BiReach g x nn) ∧
    noneReachable g v nn ≠ none := by
  rcases noneReachable_correct hg v nn with h | h
  · simp only [h.1, true_iff, ne_eq, reduceCtorEq, not_false_eq_true, and_true]; exact h.2
  · simp only [h.1, ne_eq, reduceCtorEq, not_false_eq_true, and_true, Option.some.injEq,
      Bool.false_eq_true, false_iff]; exact h.2

/-- `none_connected` always answers, and answers the same as `connected`. -/
theorem noneConnected_iff {g : Graph} (hg : WFG g) (v nn : Nat) :
    (noneConnected g v nn = some true ↔ v ∈ keys g ∧ Conn g v nn) ∧
    noneConnected g v nn ≠ none := by
  rcases noneConnected_correct hg v nn with h | h
  · simp [h.1, h.2]
  · simp [h.1, h.2]

example : WFG demo ∧ noneReachable demo 1 2 = some true ∧ noneConnected demo 1 3 = some false := by
  decide

end Heph.Props.C19
