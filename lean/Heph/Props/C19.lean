import Heph.Proofs.GraphBfs
import Heph.Proofs.GraphDfs
import Heph.Proofs.GraphSrc
/-!
# C19 — graph queries agree with their textbook definitions

The property theorems about the model `Heph/Model/Graph.lean` of `src/graph_utils.py`; the
declarative notions (`Reach`, `ReachAny`, `Conn`, `SimplePath`, `MaximalPath`, `IsSourceOf`)
are in `Heph/Spec/Graph.lean`.  Every theorem states both the exact characterisation of the
answer and that the answer exists (the fuel of the worklist never runs out).  `WFG g` says
that the keys of the dictionary are distinct.
-/
namespace Heph.Props.C19
open Heph.Graph

/-- a graph with a cycle `0 → 1 → 0`, a self-loop on `2`, an isolated key `3`, a dangling
    (non-key) target `7` and a duplicate neighbour -/
def demo : Graph := [(0, [1, 2, 1]), (1, [0]), (2, [2, 7]), (3, [])]

theorem demo_wf : WFG demo := by decide

/-- `reachable` always answers, and answers `True` exactly when the start vertex is a key and
    the destination is reachable from it through key vertices. -/
theorem reachable_iff {g : Graph} (hg : WFG g) (s d : Nat) :
    (reachable g s d = some true ↔ s ∈ keys g ∧ Reach g s d) ∧ reachable g s d ≠ none := by
  rcases reachable_correct hg s d with h | h
  · simp [h.1, h.2]
  · simp [h.1, h.2]

example : WFG demo ∧ reachable demo 1 2 = some true ∧ reachable demo 2 0 = some false ∧
    reachable demo 0 7 = some false := by decide

/-- the `False` answers of `reachable` -/
theorem reachable_false_iff {g : Graph} (hg : WFG g) (s d : Nat) :
    reachable g s d = some false ↔ ¬ (s ∈ keys g ∧ Reach g s d) := by
  rcases reachable_correct hg s d with h | h
  · simp [h.1, h.2]
  · simp [h.1, h.2]

/-- `dfs` (the traversal used by the feasibility check of type inference) always answers, with
    exactly the vertices other than the source that can be reached from it in one or more
    steps, through key and non-key targets alike.  (Holds for every graph; `WFG` is not needed.) -/
theorem dfs_spec (g : Graph) (s : Nat) :
    ∃ l, dfs g s = some l ∧ ∀ n, n ∈ l ↔ n ≠ s ∧ ReachAny g s n :=
  dfs_correct g s

example : dfs demo 0 = some [1, 2, 7] ∧ dfs demo 2 = some [7] ∧ dfs demo 7 = some [] := by decide

/-- `connected` always answers, and answers `True` exactly when the start vertex is a key and
    the destination is weakly connected to it. -/
theorem connected_iff {g : Graph} (hg : WFG g) (s d : Nat) :
    (connected g s d = some true ↔ s ∈ keys g ∧ Conn g s d) ∧ connected g s d ≠ none := by
  rcases connected_correct hg s d with h | h
  · simp [h.1, h.2]
  · simp [h.1, h.2]

example : WFG demo ∧ connected demo 2 1 = some true ∧ connected demo 2 3 = some false := by decide

/-- `find_sources` on a key vertex returns, without duplicates, exactly the keys without
    predecessor from which the vertex is reachable; on a vertex that is not a key it raises
    `KeyError`. -/
theorem sources_spec {g : Graph} (hg : WFG g) (v : Nat) :
    (v ∈ keys g → ∃ l, findSources g v = .ok l ∧ l.Nodup ∧
      ∀ x, x ∈ l ↔ x ∈ keys g ∧ (∀ y ∈ keys g, x ∉ adj g y) ∧ Reach g x v) ∧
    (v ∉ keys g → findSources g v = .keyError) :=
  ⟨findSources_correct hg v, findSources_keyError g v⟩

example : findSources [(0, [1]), (1, [2, 1]), (2, [1]), (4, [2])] 1 = .ok [4, 0] ∧
    findSources demo 0 = .ok [] ∧ findSources demo 7 = .keyError := by decide

/-- `bi_reachable` -/
theorem biReachable_iff {g : Graph} (hg : WFG g) (s d : Nat) :
    (biReachable g s d = some true ↔
      (s ∈ keys g ∧ Reach g s d) ∨ (d ∈ keys g ∧ Reach g d s)) ∧ biReachable g s d ≠ none := by
  rcases biReachable_correct hg s d with h | h
  · have := h.2; unfold BiReach at this; simp [h.1, this]
  · have := h.2; unfold BiReach at this; simp [h.1, this]

example : WFG demo ∧ biReachable demo 2 0 = some true ∧ biReachable demo 3 0 = some false := by decide

end Heph.Props.C19
