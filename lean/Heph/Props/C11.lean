import Heph.Proofs.TransKotlinHistory
import Heph.Props.C11Scala
import Heph.Props.C11Groovy
import Heph.Generated.TransWrites
/-!
# C11 — translation is a pure function of the program (Kotlin translator modelled)

Model: `Heph.TransKotlin` (`lean/Heph/Model/TransKotlin.lean`), a state-threading port of
`src/translators/kotlin.py`: `visit : St → Node → St × Doc`, `St` = the attributes the visit
methods assign (`ident`, `is_unit`, `is_lambda`, `_cast_integers`, `_nodes_stack`, `context`),
`Obj` = `St` + `program` + `package`.  `_children_res` is modelled by return values.

What is proved, for ALL programs (any `Node` tree, typed or not):

* `visit_state` — the complete effect of a visit on the translator state: every attribute is back
  to its value before the visit, except that `ident` is left at 0 by a *leaking* node: a
  super-class instantiation (`visit_super_instantiation` assigns `self.ident = 0` and never restores
  it) or a block that (transitively through blocks) has one among its statements (`visit_block` does
  not save `ident`).  Hence `visit_restores_partial` for non-leaking nodes, `class_absorbs_super`
  (a class declaration restores everything although its super-class clause leaks), and
  `visit_restores_counterexample`: the statement "every node other than a bare super instantiation
  restores the state" is false for a block containing one (replayed on the real code by the harness;
  the generator never builds such a block, so the text of generated programs is unaffected).
* `is_sam_never` — `tu.is_sam` answers `False` for every class table: an abstract function of an
  interface is also one of its callable functions, so `len(callable_funcs) > 0 or
  len(abstract_funcs) != 1` always holds.  The SAM branches of the translator are dead code.
* `program_state_independent` — the text depends on the translator object only through
  `ident, is_unit, is_lambda, _cast_integers, _nodes_stack, package` (`Agree`); `context` and
  `program` are overwritten by `visit_program` before they are read.
* `history_independent` — a translator object that has translated any list of programs prints any
  program exactly as a fresh one does; `translate_twice`.

The Scala translator: `Props/C11Scala.lean` (namespace `Heph.Props.C11.Scala`, imported above and audited with this file).
Not modelled here: the Java and Groovy translators (registry `harness/trans_models.py`), exceptions.
The by-value immutability of the *program* is trivial in the model (programs are values) and is
therefore an observation of the harness, together with finding 14.
-/
namespace Heph.Props.C11
open Heph Heph.TransKotlin

/-- the complete effect of one visit on the translator state -/
theorem visit_state (st : St) (n : Node) :
    (visit st n).1 = { st with ident := bif leaks n then 0 else st.ident } :=
  visit_fst n st

/-- everything except `ident` is restored by every visit -/
theorem visit_restores_all_but_ident (st : St) (n : Node) :
    (visit st n).1.isUnit = st.isUnit ∧ (visit st n).1.isLambda = st.isLambda ∧
    (visit st n).1.cast = st.cast ∧ (visit st n).1.stack = st.stack ∧
    (visit st n).1.context = st.context := by
  rw [visit_state]; exact ⟨rfl, rfl, rfl, rfl, rfl⟩

/-- the full-strength statement of the design: every node other than a bare super-class
    instantiation leaves the translator state as it found it -/
def visit_restores : Prop :=
  ∀ (st : St) (n : Node), (∀ t a, n ≠ .superInst t a) → (visit st n).1 = st

/-- proved part: nodes that do not leak (everything except super instantiations and blocks
    containing one).  Missing for the full statement: `visit_block` does not save `ident`. -/
theorem visit_restores_partial (st : St) (n : Node) (h : leaks n = false) : (visit st n).1 = st := by
  rw [visit_state, h]; rfl

/-- a super-class instantiation leaves `ident = 0` (and only that) -/
theorem visit_super_sets_ident (st : St) (t : Ty) (a : Option (List Node)) :
    (visit st (.superInst t a)).1 = { st with ident := 0 } := by
  rw [visit_state]; rfl

/-- a class declaration restores the whole state, although its super-class clause leaks -/
theorem class_absorbs_super (st : St) (name : String) (ctype : Nat) (isFinal : Bool)
    (fields supers funcs : List Node) (tparams : List Ty) :
    (visit st (.classDecl name ctype isFinal fields supers funcs tparams)).1 = st :=
  visit_restores_partial st _ rfl

/-- …and so do all other declarations and all expressions -/
theorem decl_restores (st : St) (n : Node) (h1 : ∀ t a, n ≠ .superInst t a) (h2 : ∀ b f, n ≠ .block b f) :
    (visit st n).1 = st := by
  apply visit_restores_partial
  cases n <;> first | rfl | exact absurd rfl (h1 _ _) | exact absurd rfl (h2 _ _)

def tyAny : Ty := .builtin "<class 'src.ir.kotlin_types.AnyType'>" "Any" false false []

/-- the code violates the full statement: a block with a super instantiation among its statements,
    visited at `ident = 4`, leaves `ident = 0` -/
theorem visit_restores_counterexample : ¬ visit_restores := by
  intro h
  have := h { ident := 4 } (.block [.superInst tyAny none] false) (by intro t a; exact Node.noConfusion)
  rw [visit_state] at this
  exact absurd (congrArg St.ident this) (by decide)

/-- `tu.is_sam` is `False` on every class table, for both ways of calling it -/
theorem is_sam_never (classes : List Node) :
    (∀ c, isSamDecl classes c = false) ∧ (∀ t, isSamType classes t = false) :=
  ⟨isSamDecl_false classes, isSamType_false classes⟩

/-- also without the fuel cut-off: `check_decl` cannot answer `True` -/
theorem check_decl_never_true (fuel : Nat) (classes : List Node) (c : Node) :
    checkDecl fuel classes c ≠ some true := checkDecl_ne_true fuel classes c

/-- the text depends on the translator object only through the attributes listed in `Agree` -/
theorem program_state_independent (a b : Obj) (h : Agree a b) (p : Program) : text a p = text b p :=
  text_agree h p

/-- `visit_program` leaves the object as it found it (up to `context`/`program`) whenever it
    started at `ident = 0` or no top-level declaration leaks -/
theorem visit_program_restores (ob : Obj) (p : Program) (h : ob.st.ident = 0 ∨ leaksL p.decls = false) :
    Agree (visitProgram ob p) ob := visitProgram_agree ob p h

/-- translating any list of programs first does not change the text of the next program -/
theorem history_independent (package : Option String) (ps : List Program) (p : Program) :
    text (after (initObj package) ps) p = text (initObj package) p :=
  text_agree (after_agree ps (initObj package) rfl) p

/-- the same translator object twice -/
theorem translate_twice (package : Option String) (p : Program) :
    text (translate (initObj package) p).1 p = text (initObj package) p :=
  history_independent package [p] p

/-- the history may itself follow any history (`after` composes) -/
theorem history_independent_from (ob : Obj) (h : ob.st.ident = 0) (ps : List Program) (p : Program) :
    text (after ob ps) p = text ob p :=
  text_agree (after_agree ps ob h) p

/-! ## the translators write only their own attributes (table regenerated from `src/translators/*.py`
    by `harness/regen_c11.py` on every run of the check) -/

/-- a store is admissible when its target starts at `self`, or at a local name that the same function
    bound to a freshly constructed translator (`translator = JavaTranslator(…)` in
    `construct_constructor`) -/
def writeOK (w : String × String × Nat × String × String) : Bool :=
  w.2.2.2.1 == "self" ||
  Generated.transLocalCtor.any fun c => c.1 == w.1 && c.2.1 == w.2.1 && c.2.2.2.1 == w.2.2.2.1 && c.2.2.1 ≤ w.2.2.1

/-- every attribute store / item store / `del` in `src/translators` writes an attribute of the
    translator object itself (or of a translator object the function has just constructed), and no
    mutating container method is called on an object reached from a parameter: the translators never
    write into the program, the context or a type -/
theorem translators_write_self_only :
    Generated.transWrites.all writeOK = true ∧ Generated.transMutCalls = [] := by
  constructor <;> decide +kernel

/-- look-up in the regenerated attribute tables -/
def attrsOf (tbl : List (String × List String)) (k : String) : List String :=
  (tbl.find? (·.1 == k)).map (·.2) |>.getD []

/-- the attributes a translation run can change: stored to / mutated anywhere in the class or by the
    module-level decorators of its file, outside `__init__` and `_reset_state` -/
def mutableAttrs (cls file : String) : List String :=
  attrsOf Generated.transSelfMutAttrs cls ++ attrsOf Generated.transSelfMutAttrs (file ++ ":<module>")

/-- the full-strength statement of the design: `__init__` and `_reset_state` assign the same attributes -/
def reset_complete : Prop :=
  ∀ cls ∈ ["JavaTranslator", "GroovyTranslator"],
    attrsOf Generated.transInitAttrs cls = attrsOf Generated.transResetAttrs cls

/-- …is false as written: `__init__` also stores configuration that is never changed afterwards
    (`_generator`; `always_cast_ftypes`, `always_cast_numbers`) -/
theorem reset_complete_counterexample : ¬ reset_complete := by
  intro h; exact absurd (h "JavaTranslator" (by decide)) (by decide +kernel)

/-- what holds and what history independence needs: for the two translators that reset themselves,
    (1) `visit_program` calls `_reset_state`, (2) every attribute that a translation run can change —
    other than `program`, which `visit_program` overwrites itself — is re-initialised by `_reset_state`,
    (3) `_reset_state` assigns nothing that `__init__` does not, and (4) the attributes only `__init__`
    assigns are never stored to afterwards -/
theorem reset_complete_partial :
    ∀ cf ∈ [("JavaTranslator", "java.py"), ("GroovyTranslator", "groovy.py")],
      (Generated.transResetCalls.any fun c => c.1 == cf.2 && c.2.1 == cf.1 ++ ".visit_program") = true ∧
      ((mutableAttrs cf.1 cf.2).all fun a => a == "program" || (attrsOf Generated.transResetAttrs cf.1).contains a) = true ∧
      ((attrsOf Generated.transResetAttrs cf.1).all fun a => (attrsOf Generated.transInitAttrs cf.1).contains a) = true ∧
      ((attrsOf Generated.transInitAttrs cf.1).all fun a =>
          (attrsOf Generated.transResetAttrs cf.1).contains a || !(mutableAttrs cf.1 cf.2).contains a) = true := by
  decide +kernel

/-- Kotlin and Scala have no `_reset_state` call in `visit_program`; there the attributes a run can
    change are exactly the state of the model plus `_children_res`, `program` (Kotlin: theorem
    `visit_state` is about all of them) -/
theorem kotlin_mutable_attrs :
    mutableAttrs "KotlinTranslator" "kotlin.py" =
      ["_cast_integers", "_children_res", "context", "ident", "is_lambda", "is_unit", "program", "_nodes_stack"] ∧
    mutableAttrs "ScalaTranslator" "scala.py" = mutableAttrs "KotlinTranslator" "kotlin.py" := by
  constructor <;> decide +kernel

example : writeOK ("java.py", "JavaTranslator.visit_class_decl.construct_constructor", 468, "translator", "context") = true := by decide
example : writeOK ("java.py", "JavaTranslator.visit_class_decl", 468, "node", "name") = false := by decide

/-! ## non-vacuity: a small concrete program -/

def tyInt : Ty := .builtin "<class 'src.ir.kotlin_types.IntegerType'>" "Int" false false [tyAny]
def tyLong : Ty := .builtin "<class 'src.ir.kotlin_types.LongType'>" "Long" false false [tyAny]

/-- `open class B(open val x: Int)`, `class A<T: Any>(override val x: Int): B(1) { fun f(a: Int): Long = … }`,
    `fun g(): Int { val v = 3 ; return v }` -/
def demo : Program := {
  lang := "kotlin",
  decls := [
    .classDecl "B" 0 false [.fieldDecl "x" tyInt true true false] [] [] [],
    .classDecl "A" 0 true [.fieldDecl "x" tyInt true false true]
      [.superInst (.simple "B" []) (some [.intC "1" (some tyInt)])]
      [.funcDecl "f" [.paramDecl "a" tyInt false none] (some tyLong) (some tyLong)
         (some (.intC "-2" (some tyLong))) true false [] 0]
      [.tparam "T" 0 none],
    .funcDecl "g" [] (some tyInt) (some tyInt)
      (some (.block [.varDecl "v" (.intC "3" (some tyInt)) true none (some tyInt), .variable "v"] true))
      true false [] 1],
  context := [] }

example : text (initObj (some "src.pkg")) demo =
    "package src.pkg\nopen class B(open val x: Int)\n\nclass A<T: Any>(override val x: Int): B(1) {\nfun f(a: Int): Long =\n  (-2).toLong()\n}\n\nfun g(): Int \n{\n  val v = 3\n  return   v\n  }" := by
  decide +kernel

/-- member functions of a class with a super-class clause are printed unindented (the leak is
    visible in the text) — and still the second translation is identical -/
example : text (after (initObj (some "src.pkg")) [demo, demo]) demo = text (initObj (some "src.pkg")) demo :=
  history_independent _ _ _

example : leaksL demo.decls = false := by decide
example : (visit { ident := 4 } (.block [.superInst tyAny none] false)).1.ident = 0 := by decide
example : Agree (visitProgram (initObj none) demo) (initObj none) := visit_program_restores _ _ (Or.inl rfl)

end Heph.Props.C11
