import Heph.Model.Pickle
import Heph.Generated.PickleClasses
import Heph.Proofs.PickleStable
import Heph.Proofs.PickleLoad
import Heph.Proofs.PickleFuel
import Heph.Proofs.Processor
/-!
# C13 — saved programs replay faithfully (partial: the abstract pickle machine)

`src/utils.py` is `pickle.dump` / `pickle.load`.  The theorems here are about the abstract machine
of `Heph/Model/Pickle.lean` (`dump` = the pickler's traversal with its memo, `load` = the unpickler's
VM); `harness/check_C13.py` ties that machine to CPython on every explored program (op-code streams
equal element-wise, rebuilt graphs isomorphic) and judges the property on the real code directly.

Proved for ALL heaps: `load_dump_iso_proved` (loading what was dumped rebuilds an isomorphic graph — a simulation
between the pickler's run and the VM's run on the emitted stream, `Heph/Proofs/PickleLoad*.lean`),
`redump_after_load` (if the pickler visits every cell, the loaded heap has the same size, is again fully visited
and dumps to the SAME op-codes), `redump_same_if_defined` (every heap: if the loaded heap dumps at all, then to the
same op-codes), `redump_stable`, `dump_stable_partial` (equal sizes), `dump_stable_defined` (any sizes, both dumps
defined), `dump_stable_up` (from the smaller heap to the larger), `keys_ready_partial` (the VM with the
hash accounting switched on accepts every dumped stream), `observation_congruence`, `keys_ready_counterexample`.
Stated, not proved: `dump_stable` / `redump_after_load_full` (that DEFINEDNESS of `dump` is independent of
unvisited cells: the fuel is computed from the heap size), `keys_ready` (that the count is 0 under `noKeyCycle`).
-/
namespace Heph.Props.C13
open Heph.Pickle

/-! ## isomorphism of rooted heaps

`Iso h r h' r'` (Heph/Proofs/PickleIso.lean): there is an injective address map `f` relating the roots such
that every related pair of addresses holds objects of the same kind (`ObjRel`: same constructor, equal strings,
same built/bare status) whose children are related IN ORDER.  Its domain is therefore closed under
reachability; sharing and cycles are preserved because `f` is a function and injective. -/

/-- the pickler can traverse the graph: no dangling reference, no empty tuple object, no cycle through
tuples / frozensets only -/
def Dumpable (h : Heap) (r : Val) : Prop := ∃ ops, dump h r = some ops

/-! ## the property at full strength (statements) -/

/-- loading what was dumped rebuilds an isomorphic graph (proved below: `load_dump_iso_proved`) -/
def load_dump_iso : Prop :=
  ∀ (h : Heap) (r : Val) (ops : List Op), dump h r = some ops →
    ∃ h' r', load ops = some (h', r') ∧ Iso h r h' r'

/-- dumping a loaded program again gives the same op-codes, without any proviso (follows from `load_dump_iso`
and the full `dump_stable`; proved below under the proviso that the pickler visits every cell:
`redump_after_load`) -/
def redump_after_load_full : Prop :=
  ∀ (h : Heap) (r : Val) (ops : List Op), dump h r = some ops →
    ∃ h' r', load ops = some (h', r') ∧ dump h' r' = some ops

/-- the op-code stream is invariant under isomorphism; with `load_dump_iso`: dumping a loaded program
again gives the same op-codes -/
def dump_stable : Prop :=
  ∀ (h : Heap) (r : Val) (h' : Heap) (r' : Val), Iso h r h' r' → dump h r = dump h' r'

/-- under the proviso `noKeyCycle`, the unpickler never hashes an instance of a hash-reading class before
its BUILD -/
def keys_ready : Prop :=
  ∀ (hr : String → String → Bool) (h : Heap) (r : Val) (ops : List Op),
    dump h r = some ops → noKeyCycle hr h r = true → unreadyKeys hr ops = some 0

/-- `keys_ready` without its proviso -/
def keys_ready_unconditional : Prop :=
  ∀ (hr : String → String → Bool) (h : Heap) (r : Val) (ops : List Op),
    dump h r = some ops → unreadyKeys hr ops = some 0

/-! ## observation congruence -/

theorem unfold_congr {h h' : Heap} {f : Nat → Option Nat}
    (step : ∀ a a', f a = some a' → ∃ o o', h[a]? = some o ∧ h'[a']? = some o' ∧ ObjRel f o o') :
    ∀ (n : Nat) (v v' : Val), ValRel f v v' → unfold h n v = unfold h' n v' := by
  intro n
  induction n with
  | zero =>
    intro v v' hv
    cases v <;> cases v' <;> simp_all [ValRel, unfold]
  | succ n ih =>
    intro v v' hv
    cases v with
    | ref a =>
      cases v' with
      | ref a' =>
        obtain ⟨o, o', ho, ho', hrel⟩ := step a a' hv
        simp only [unfold, ho, ho', hrel.tag_eq]
        congr 1
        exact hrel.children_rel.map_eq ih
      | _ => exact False.elim hv
    | _ => cases v' <;> simp [ValRel] at hv <;> simp [unfold, hv]

/-- **observation congruence**: anything computed from the unfoldings of a rooted heap (attribute values,
kinds, strings, container order, to any depth) agrees on isomorphic rooted heaps -/
theorem observation_congruence {α : Type} (obs : (Nat → Tree) → α) {h h' : Heap} {r r' : Val}
    (iso : Iso h r h' r') : obs (fun n => unfold h n r) = obs (fun n => unfold h' n r') := by
  obtain ⟨f, w⟩ := iso
  have : (fun n => unfold h n r) = (fun n => unfold h' n r') := by
    funext n
    exact unfold_congr w.step n r r' w.root
  rw [this]

/-! ## dump is invariant under isomorphism -/

/-- **dump_stable, proved part**: isomorphic rooted heaps with equally many cells have the same op-code stream
(by a simulation of two runs of the pickler: related states emit the same op-codes and give corresponding
addresses the same memo index; `Heph/Proofs/PickleStable.lean`, every fuel).  Missing for the full `dump_stable`:
independence of the answer from the number of unreachable cells (the fuel and the size of the memo table are
computed from the heap size).  Exported heaps and loaded heaps contain reachable cells only, so the sizes
agree whenever the heaps are isomorphic. -/
theorem dump_stable_partial {h h' : Heap} {r r' : Val} (iso : Iso h r h' r') (hsz : h.size = h'.size) :
    dump h r = dump h' r' :=
  dump_eq_of_iso iso hsz

/-! ## load ∘ dump -/

/-- **load_dump_iso, proved**: for every heap, root and fuel-adequate run of the pickler, the unpickler's VM
accepts the emitted stream and rebuilds an isomorphic rooted heap.  Proof (`Heph/Proofs/PickleLoadBase.lean` …
`PickleLoad.lean`): an invariant `Inv` between the pickler's state and the VM's state after the op-codes
emitted so far — the memo maps every memoised address to the address of its rebuilt object (injective, only
grows), every FINISHED object is related to its rebuilt object with children in order, objects in progress
(memoised before their contents: list, dict, set, instance, reduction) are related once their last
APPENDS / SETITEMS / ADDITEMS / BUILD has run; cycles go through the memo.  `dump` refuses cells that stand for
no Python object (`cellOK`: class names are strings, `type(obj)` is a class), as it refuses dangling references. -/
theorem load_dump_iso_proved : load_dump_iso := by
  intro h r ops hd
  obtain ⟨h', r', hl, iso, _⟩ := load_dump_iso_count hd
  exact ⟨h', r', hl, iso⟩

/-- the rebuilt heap has exactly one cell per object the pickler memoised (no garbage is built) -/
theorem load_size {h : Heap} {r : Val} {ops : List Op} (hd : dump h r = some ops) :
    ∃ h' r', load ops = some (h', r') ∧ dumpCount h r = some h'.size := by
  obtain ⟨h', r', hl, _, hc⟩ := load_dump_iso_count hd
  exact ⟨h', r', hl, hc⟩

/-- dumping a loaded program again gives the same op-codes whenever the loaded heap has as many cells as the
original (the isomorphism is no longer a hypothesis) -/
theorem redump_stable {h h' : Heap} {r r' : Val} {ops : List Op} (hd : dump h r = some ops)
    (hl : load ops = some (h', r')) (hsz : h.size = h'.size) : dump h' r' = some ops := by
  obtain ⟨h2, r2, hl2, iso⟩ := load_dump_iso_proved h r ops hd
  rw [hl] at hl2
  cases hl2
  rw [← dump_stable_partial iso hsz]
  exact hd

/-- **redump_after_load**: if the pickler visits every cell of the heap (`dumpCount h r = some h.size`: as many
memoised objects as cells — what `harness/export_heap.py` produces, tested by the driver on every explored
graph), then the loaded heap is isomorphic, has the same size, is again visited completely, and dumps to the
SAME op-codes; so the round trip can be iterated.  Missing for `redump_after_load_full`: heaps with unvisited
cells (full `dump_stable`). -/
theorem redump_after_load {h : Heap} {r : Val} {ops : List Op} (hd : dump h r = some ops)
    (hall : dumpCount h r = some h.size) :
    ∃ h' r', load ops = some (h', r') ∧ Iso h r h' r' ∧ h'.size = h.size ∧
      dumpCount h' r' = some h'.size ∧ dump h' r' = some ops :=
  roundtrip hd hall

/-- **keys_ready, proved part**: with the hash accounting switched on (any table `hr` of hash-reading classes),
the VM accepts every dumped stream, so the number of unready key insertions is defined.  Missing for
`keys_ready`: that the number is 0 under `noKeyCycle` (needs soundness of the executable `reach` /
`hashedInsts` on the partially built heap). -/
theorem keys_ready_partial (hr : String → String → Bool) {h : Heap} {r : Val} {ops : List Op}
    (hd : dump h r = some ops) : ∃ n, unreadyKeys hr ops = some n := by
  obtain ⟨_, _, L, _, _, _, _, hrun, _, _⟩ := dump_run hr hd
  exact ⟨L.unready, by simp [unreadyKeys, hrun]⟩

/-- the hypotheses of `dump_stable_partial` are satisfiable by two differently numbered heaps with sharing and a
cycle (a list containing a shared string and itself) -/
def hA : Heap := #[.list [.ref 1, .ref 1, .ref 0], .str "a"]
def hB : Heap := #[.str "a", .list [.ref 0, .ref 0, .ref 1]]
def fAB : Nat → Option Nat
  | 0 => some 1
  | 1 => some 0
  | _ => none

example : Iso hA (.ref 0) hB (.ref 1) ∧ hA.size = hB.size := by
  refine ⟨⟨fAB, ⟨?_, rfl, ?_⟩⟩, rfl⟩
  · intro a b c ha hb
    match a, b with
    | 0, 0 => rfl
    | 1, 1 => rfl
    | 0, 1 => simp [fAB] at ha hb; omega
    | 1, 0 => simp [fAB] at ha hb; omega
    | 0, n + 2 => simp [fAB] at hb
    | 1, n + 2 => simp [fAB] at hb
    | n + 2, _ => simp [fAB] at ha
  · intro a a' ha
    match a with
    | 0 =>
      simp [fAB] at ha; subst ha
      exact ⟨_, _, rfl, rfl, .cons rfl (.cons rfl (.cons rfl .nil))⟩
    | 1 =>
      simp [fAB] at ha; subst ha
      exact ⟨_, _, rfl, rfl, rfl⟩
    | n + 2 => simp [fAB] at ha

/-! ## heaps of different sizes -/

/-- **dump_stable, second proved part**: isomorphic rooted heaps of ANY sizes have the same op-code stream
whenever both dumps are defined (`save` is monotone in its fuel, `Heph/Proofs/PickleFuel.lean`, and the simulation
of two pickler runs holds for every common fuel).  Missing for the full `dump_stable`: that definedness itself does
not depend on the number of unvisited cells (adequacy of the fuel `(size+1)²+1` of the smaller heap). -/
theorem dump_stable_defined {h h' : Heap} {r r' : Val} {ops ops' : List Op} (iso : Iso h r h' r')
    (hd : dump h r = some ops) (hd' : dump h' r' = some ops') : ops = ops' :=
  dump_eq_of_iso_defined iso hd hd'

/-- **dump_stable, third proved part**: the stream of the smaller heap is also the stream of the larger one
(definedness transfers upwards) -/
theorem dump_stable_up {h h' : Heap} {r r' : Val} {ops : List Op} (iso : Iso h r h' r') (hsz : h.size ≤ h'.size)
    (hd : dump h r = some ops) : dump h' r' = some ops :=
  dump_up_of_iso iso hsz hd

/-- for EVERY dumpable heap (no proviso on unvisited cells): the stream loads, and if the loaded heap can be
dumped at all, its op-codes are the original ones -/
theorem redump_same_if_defined {h : Heap} {r : Val} {ops : List Op} (hd : dump h r = some ops) :
    ∃ h' r', load ops = some (h', r') ∧ ∀ ops', dump h' r' = some ops' → ops' = ops := by
  obtain ⟨h', r', hl, iso⟩ := load_dump_iso_proved h r ops hd
  exact ⟨h', r', hl, fun ops' hd' => (dump_stable_defined iso hd hd').symm⟩

/-- the hypotheses of `dump_stable_defined` are satisfiable by heaps of different sizes: `hA` plus a cell the
pickler never visits -/
def hC : Heap := #[.list [.ref 1, .ref 1, .ref 0], .str "a", .str "never visited"]
def fAC : Nat → Option Nat
  | 0 => some 0
  | 1 => some 1
  | _ => none

example : Iso hA (.ref 0) hC (.ref 0) ∧ hA.size ≠ hC.size ∧ (dump hA (.ref 0)).isSome = true ∧
    (dump hC (.ref 0)).isSome = true := by
  refine ⟨⟨fAC, ⟨?_, rfl, ?_⟩⟩, by decide, by decide, by decide⟩
  · intro a b c ha hb
    match a, b with
    | 0, 0 => rfl
    | 1, 1 => rfl
    | 0, 1 => simp [fAC] at ha hb; omega
    | 1, 0 => simp [fAC] at ha hb; omega
    | 0, n + 2 => simp [fAC] at hb
    | 1, n + 2 => simp [fAC] at hb
    | n + 2, _ => simp [fAC] at ha
  · intro a a' ha
    match a with
    | 0 =>
      simp [fAC] at ha; subst ha
      exact ⟨_, _, rfl, rfl, .cons rfl (.cons rfl (.cons rfl .nil))⟩
    | 1 =>
      simp [fAC] at ha; subst ha
      exact ⟨_, _, rfl, rfl, rfl⟩
    | n + 2 => simp [fAC] at ha
/-- the hypotheses of `dump_stable_up` -/
example : hA.size ≤ hC.size ∧ (dump hA (.ref 0)).isSome = true := by decide
/-- a heap with an unvisited cell: `redump_after_load`'s proviso fails, `redump_same_if_defined` applies -/
example : dumpCount hC (.ref 0) = some 2 ∧ hC.size = 3 := by decide

/-! ## concrete heaps: non-vacuity and the counterexample -/

def hr : String → String → Bool := hashReadsOf Heph.Generated.PickleClasses.table

/-- a `TypeParameter` `T` (hash reads `self.name`, `self.variance`) whose `__dict__` holds a dict keyed by
`T` itself: `t = TypeParameter("T"); t.cache = {t: None}` -/
def cexHeap : Heap := #[
  .inst (.ref 1) (some (.ref 4)),          -- 0: T
  .global (.ref 2) (.ref 3),               -- 1: class src.ir.types.TypeParameter
  .str "src.ir.types", .str "TypeParameter",
  .dict [(.ref 5, .ref 6), (.ref 7, .ref 8)],   -- 4: T.__dict__ = {"name": "T", "cache": {T: None}}
  .str "name", .str "T", .str "cache",
  .dict [(.ref 0, .none)]                  -- 8: the dict keyed by T
]

/-- the proviso is necessary: on `cexHeap` the unpickler inserts `T` into the dict while `T` has no
`__dict__` yet (the real `pickle.loads` raises AttributeError in `TypeParameter.__hash__`; replayed by
the harness) -/
theorem keys_ready_counterexample : ¬ keys_ready_unconditional := by
  intro hall
  have h1 := hall hr cexHeap (.ref 0) ((dump cexHeap (.ref 0)).getD []) (by decide)
  revert h1
  decide

theorem cex_violates_proviso : noKeyCycle hr cexHeap (.ref 0) = false := by decide

/-- sharing (the string "T" twice, the class twice), a cycle (class declaration ↔ its field's type),
a dict keyed by instances, a 4-tuple, an OrderedDict -/
def exHeap : Heap := #[
  .inst (.ref 1) (some (.ref 4)),          -- 0: a Context-like object
  .global (.ref 2) (.ref 3),               -- 1: class src.ir.context.Context
  .str "src.ir.context", .str "Context",
  .dict [(.ref 5, .ref 6), (.ref 16, .ref 17)],  -- 4: {"_namespaces": {...}, "decls": OrderedDict}
  .str "_namespaces",
  .dict [(.ref 7, .ref 12), (.ref 13, .ref 12)], -- 6: {T: ns, U: ns}  (the same namespace tuple twice)
  .inst (.ref 8) (some (.ref 10)),         -- 7: T : TypeParameter
  .global (.ref 9) (.ref 15),              -- 8: class src.ir.types.TypeParameter
  .str "src.ir.types",
  .dict [(.ref 11, .ref 14)],              -- 10: T.__dict__ = {"name": "T"}
  .str "name",
  .tuple [.ref 14, .int 1, .bool true, .unit, .none],  -- 12: a namespace tuple
  .inst (.ref 8) (some (.ref 18)),         -- 13: U : TypeParameter, bound = a list containing U's own dict holder
  .str "T",
  .str "TypeParameter",
  .str "decls",
  .reduced (.ref 19) [(.ref 14, .ref 7)] Option.none,   -- 17: OrderedDict([("T", T)])
  .dict [(.ref 11, .ref 14), (.ref 20, .ref 21)],      -- 18: U.__dict__ = {"name": "T", "bound": [U, T]}
  .global (.ref 22) (.ref 23),             -- 19: collections.OrderedDict
  .str "bound",
  .list [.ref 13, .ref 7],                 -- 21: cycle U → U.__dict__ → list → U
  .str "collections", .str "OrderedDict"
]

/-- the hypotheses of the statements are satisfiable: `exHeap` is dumpable, satisfies the proviso, and
`load (dump exHeap)` passes the executable isomorphism test and re-dumps to the same op-codes -/
example : (dump exHeap (.ref 0)).isSome = true := by decide
example : noKeyCycle hr exHeap (.ref 0) = true := by decide
example : (dump exHeap (.ref 0)).bind (unreadyKeys hr) = some 0 := by decide
example : ((dump exHeap (.ref 0)).bind load).map (fun p => isoCheck exHeap (.ref 0) p.1 p.2) = some true := by
  decide +kernel
example : ((dump exHeap (.ref 0)).bind load).bind (fun p => dump p.1 p.2) = dump exHeap (.ref 0) := by decide +kernel
/-- the proviso of `redump_after_load` holds for `exHeap` (and for `hA`): every cell is visited -/
example : dumpCount exHeap (.ref 0) = some exHeap.size := by decide
example : (dump hA (.ref 0)).isSome = true ∧ dumpCount hA (.ref 0) = some hA.size := by decide
/-- the hypotheses of `redump_stable` are satisfiable -/
example : (dump hA (.ref 0)).isSome = true ∧
    ((dump hA (.ref 0)).bind load).map (fun p => p.1.size) = some hA.size := by decide
/-- cells that stand for no Python object are refused by `dump` (a class whose names are not strings) -/
example : dump #[.global .none .none] (.ref 0) = none := by decide

/-! ## `--replay`: every iteration starts from the stored program

`ProgramProcessor.get_program` (replay branch) is `load_program(self.args.replay)`: the file is unpickled
again on EVERY call, so each iteration gets a new object whose content is the stored one — although the
iterations of one process share the heap and the transformers (TypeErasure, TypeOverwriting) mutate the
object they are given in place.  `Heph/Model/Processor.lean` makes the aliasing explicit (programs live in
heap cells, variables hold addresses, a transformer writes to the address it received); the statements are
about `freshLoad`, the model of the code, and fail for `cachedLoad` (the loaded object kept in a table and
handed out again): `replay_cached_counterexample`. -/

/-- one iteration in replay mode: unless the construction of the processor raised, `get_program` returned an
    object that did not exist before the iteration (its address is the old heap size: no variable of an earlier
    iteration can refer to it) and whose content is the stored program — for every behaviour of the
    transformers, every `transform_program` (`step`), every state `w` earlier iterations left behind -/
theorem replay_iteration_start {P : Type} [Inhabited P] (step : Processor.Step P) (beh : Processor.Beh P)
    (args : Processor.Args) (stored : P) (gen : Nat → P) (schedule : Except String (List String))
    (w : Processor.World P) (pid : Nat) (hr : args.replay = true) :
    ((∃ e, schedule = .error e) ∧
      (Processor.genProgram step beh args Processor.freshLoad stored gen schedule w pid).2.start = none) ∨
    ((Processor.genProgram step beh args Processor.freshLoad stored gen schedule w pid).2.start = some stored ∧
     (Processor.genProgram step beh args Processor.freshLoad stored gen schedule w pid).2.startAddr
        = some w.heap.cells.length) := by
  cases schedule with
  | error e => exact Or.inl ⟨⟨e, rfl⟩, rfl⟩
  | ok sched =>
    right
    have hread : (w.heap.alloc stored).1.read (w.heap.alloc stored).2 = stored := Processor.read_alloc _ _
    simp only [Processor.genProgram, Processor.getProgram, hr, if_true, Processor.freshLoad]
    split <;> (try split) <;> (try split) <;> exact ⟨by simpa using hread, rfl⟩

/-- any number of iterations of one process in replay mode: every iteration that got as far as `get_program`
    started from a program equal to the stored one, whatever the earlier iterations did to the objects they
    were given -/
theorem replay_start_faithful {P : Type} [Inhabited P] (step : Processor.Step P) (beh : Processor.Beh P)
    (args : Processor.Args) (stored : P) (gen : Nat → P) (schedules : Nat → Except String (List String))
    (hr : args.replay = true) (n : Nat) :
    ∀ (pid : Nat) (w : Processor.World P) (r : Processor.IterRes P),
      r ∈ (Processor.runIterations step beh args Processor.freshLoad stored gen schedules n pid w).2 →
      r.start = none ∨ r.start = some stored := by
  induction n with
  | zero => intro pid w r h; simp [Processor.runIterations] at h
  | succ k ih =>
    intro pid w r h
    simp only [Processor.runIterations, List.mem_cons] at h
    rcases h with h | h
    · subst h
      rcases replay_iteration_start step beh args stored gen (schedules pid) w pid hr with h1 | h1
      · exact Or.inl h1.2
      · exact Or.inr h1.1
    · exact ih _ _ r h

/-- the counter-model: with the loaded object kept and handed out again (`cachedLoad`), a transformer that
    mutates its program in place makes the second iteration start from a program that is NOT the stored one -/
theorem replay_cached_counterexample :
    ((Processor.runIterations Processor.transformProgram
        (fun call _ _ _ p => .ran (p ++ [call]) none true "") { replay := true, transformations := some 1 }
        Processor.cachedLoad [] (fun _ => []) (fun _ => .ok ["TypeErasure"]) 2 1 {}).2.map (·.start))
      = [some [], some [0, 1]] := by decide

/-- the same run with the loader of the code: both iterations start from the stored program (the hypotheses of
    `replay_start_faithful` are met by a non-trivial run: the erasure and the fault injection mutate in place) -/
example :
    ((Processor.runIterations Processor.transformProgram
        (fun call _ _ _ p => .ran (p ++ [call]) none true "") { replay := true, transformations := some 1 }
        Processor.freshLoad [] (fun _ => []) (fun _ => .ok ["TypeErasure"]) 2 1 {}).2.map
          (fun r => (r.start, r.startAddr, r.steps, r.cur)))
      = [(some [], some 0, 1, 2), (some [], some 1, 1, 2)] := by decide

end Heph.Props.C13
