import Heph.Model.Inst
import Heph.Proofs.InstArgVariance
import Heph.Proofs.InstLeaf
/-!
# C08 — instantiation helpers pick type arguments within bounds and allowed variance (*partial*)

Property: every instantiation of a generic class or generic function produced by the
instantiation helpers assigns exactly one type argument per type parameter; each argument (for a
covariant projection, its bound) is a subtype of the parameter's declared bound after
substituting the other arguments; no argument is a primitive type or an uninstantiated generic
class; assignments requested by the caller are kept (at most wrapped in a permitted projection)
when they are consistent with the bounds.  A use-site projection appears only where the
caller's variance choices, the parameter's declared variance and the global switches allow it,
and never on a parameter that another parameter's bound mentions.

Proved here, about the models of `Model/Inst.lean` (exact models of the three leaf functions
`_get_type_arg_variance`, `_get_available_types`, `update_type_var_bound_rec`, and of
`TypeParameter.has_bound_of`; tied to the code by `harness/check_C08.py`):

* `argVariance_spec` and its corollaries — the decision logic stated outright;
* `availableTypes_spec`, `availableTypes_no_primitive`;
* `updateBoundRec_chain`;
* `instOK_sound` — the executable result checker that the harness applies to every recorded
  `(arguments, result)` of the helpers implies the declarative `WithinBounds` (via the soundness
  of the declarative decider `isSubD` w.r.t. `SubT U`), `instOK_args`, `instOK_projection`
  with `projAllowed_*` (what "permitted" means).

**Partial**: there is no model of `_compute_type_variable_assignments` itself (its random
choices, `find_subtypes`); that every result of it satisfies `instOK` (`compute_within_bounds`)
is checked by refinement on explored calls only, not proved.
-/
namespace Heph.Props.C08
open Heph Heph.Ty Heph.Ty.D2 Heph.Inst

/-! ## 1. `_get_type_arg_variance` -/

/-- **the decision logic, stated outright**: `Invariant` is always a candidate; `Covariant` /
    `Contravariant` are candidates exactly when variance choices were given, no later parameter's
    bound mentions the parameter, use-site variance is enabled, the caller's choice for the
    parameter allows it, the declared variance does not contradict it, and (for `Contravariant`)
    use-site contravariance is enabled.  Nothing else is ever a candidate. -/
theorem argVariance_spec (dis : Dis) (tparam : Ty) (vc : Option VChoices) (later : List Bool) (v : Nat) :
    v ∈ argVariance dis tparam vc later ↔
      v = 0 ∨
      (∃ m, vc = some m ∧ later.any id = false ∧ dis.useSiteVariance = false ∧
        ((v = 1 ∧ (m.get tparam).1 = true ∧ (variance tparam = 0 ∨ variance tparam = 1)) ∨
         (v = 2 ∧ (m.get tparam).2 = true ∧ dis.useSiteContravariance = false ∧ variance tparam ≠ 1))) :=
  mem_argVariance dis tparam vc later v

/-- only `Invariant` when `variance_choices is None` -/
theorem argVariance_no_choices (dis : Dis) (tparam : Ty) (later : List Bool) :
    argVariance dis tparam none later = [0] := by
  simp [argVariance, argVarianceCore]

/-- only `Invariant` when a later parameter's bound mentions the parameter -/
theorem argVariance_in_bound (dis : Dis) (tparam : Ty) (vc : Option VChoices) (later : List Bool)
    (h : true ∈ later) : argVariance dis tparam vc later = [0] := by
  have : later.any id = true := List.any_eq_true.2 ⟨true, h, rfl⟩
  cases vc <;> simp [argVariance, argVarianceCore, this]

/-- never variant under `cfg.dis.use_site_variance` -/
theorem argVariance_disabled_variance (dis : Dis) (tparam : Ty) (vc : Option VChoices) (later : List Bool)
    (h : dis.useSiteVariance = true) : ∀ v ∈ argVariance dis tparam vc later, v = 0 := by
  intro v hv
  rcases (mem_argVariance dis tparam vc later v).1 hv with h0 | ⟨m, _, _, hd, _⟩
  · exact h0
  · rw [h] at hd; cases hd

/-- never contravariant under `cfg.dis.use_site_contravariance` -/
theorem argVariance_disabled_contravariance (dis : Dis) (tparam : Ty) (vc : Option VChoices) (later : List Bool)
    (h : dis.useSiteContravariance = true) : 2 ∉ argVariance dis tparam vc later := by
  intro hv
  rcases (mem_argVariance dis tparam vc later 2).1 hv with h0 | ⟨m, _, _, _, h1 | ⟨_, _, hc, _⟩⟩
  · cases h0
  · cases h1.1
  · rw [h] at hc; cases hc

/-- never against declaration-site variance: no `in` projection on an `out` parameter, no `out`
    projection on an `in` parameter -/
theorem argVariance_respects_declaration (dis : Dis) (tparam : Ty) (vc : Option VChoices) (later : List Bool) :
    (variance tparam = 1 → 2 ∉ argVariance dis tparam vc later) ∧
    (variance tparam = 2 → 1 ∉ argVariance dis tparam vc later) := by
  constructor
  · intro hd hv
    rcases (mem_argVariance dis tparam vc later 2).1 hv with h0 | ⟨m, _, _, _, h1 | ⟨_, _, _, hne⟩⟩
    · cases h0
    · cases h1.1
    · exact hne hd
  · intro hd hv
    rcases (mem_argVariance dis tparam vc later 1).1 hv with h0 | ⟨m, _, _, _, ⟨_, _, h1⟩ | ⟨h2, _⟩⟩
    · cases h0
    · omega
    · cases h2

/-- never more than the caller's choice allows -/
theorem argVariance_respects_choices (dis : Dis) (tparam : Ty) (m : VChoices) (later : List Bool) :
    ((m.get tparam).1 = false → 1 ∉ argVariance dis tparam (some m) later) ∧
    ((m.get tparam).2 = false → 2 ∉ argVariance dis tparam (some m) later) := by
  constructor
  · intro hc hv
    rcases (mem_argVariance dis tparam (some m) later 1).1 hv with h0 | ⟨m', hm, _, _, ⟨_, h1, _⟩ | ⟨h2, _⟩⟩
    · cases h0
    · cases hm; rw [hc] at h1; cases h1
    · cases h2
  · intro hc hv
    rcases (mem_argVariance dis tparam (some m) later 2).1 hv with h0 | ⟨m', hm, _, _, ⟨h1, _⟩ | ⟨_, h2, _⟩⟩
    · cases h0
    · cases h1
    · cases hm; rw [hc] at h2; cases h2

example : argVariance ⟨false, false⟩ (tparam "T" 0 none) (some []) [false] = [0, 1, 2] := by decide
example : argVariance ⟨false, false⟩ (tparam "T" 1 none) (some []) [false] = [0, 1] := by decide
example : argVariance ⟨false, false⟩ (tparam "T" 0 none) (some [(tparam "T" 0 none, (false, true))]) [] = [0, 2] := by
  decide
example : argVariance ⟨false, false⟩ (tparam "T" 0 none) (some []) [false, true] = [0] := by decide

/-! ## 2. `_get_available_types` -/

/-- **`availableTypes_spec`**: with `only_regular` the result consists exactly of the images of
    the kept elements, in order (`filterMap`); a kept class declaration is a regular class (no
    interface, no abstract class); a kept type is not a bare type constructor, under an `Array`
    constructor neither a type variable nor an instantiation, and with `primitives=False` it is
    replaced by its box when it has one.  Without `only_regular` the list is returned as is. -/
theorem availableTypes_spec (conName : Option String) (types : List Item) (primitives : Bool) :
    availableTypes conName types false primitives = types ∧
    (∀ out, out ∈ availableTypes conName types true primitives ↔
      ∃ it ∈ types, availableStep (conName == some "Array") primitives it = some out) ∧
    (∀ ct t, Item.cls ct t ∈ availableTypes conName types true primitives → Item.cls ct t ∈ types ∧ ct = 0) ∧
    (∀ t' box', Item.ty t' box' ∈ availableTypes conName types true primitives →
      ∃ t box, Item.ty t box ∈ types ∧ t.isTCon = false ∧
        (conName = some "Array" → t.isTVar = false ∧ t.isParam = false) ∧
        (primitives = false → t' = box.getD t) ∧ (primitives = true → t' = t ∧ box' = box)) := by
  refine ⟨by simp [availableTypes], mem_availableTypes conName types primitives, ?_, ?_⟩
  · intro ct t h
    obtain ⟨it, hit, hs⟩ := (mem_availableTypes _ _ _ _).1 h
    obtain ⟨rfl, h0⟩ := availableStep_cls hs
    exact ⟨hit, h0⟩
  · intro t' box' h
    obtain ⟨it, hit, hs⟩ := (mem_availableTypes _ _ _ _).1 h
    obtain ⟨t, box, rfl, h1, h2, h3, h4⟩ := availableStep_ty hs
    refine ⟨t, box, hit, h1, ?_, h3, h4⟩
    intro hc
    exact h2 (by simp [hc])

/-- boxes as `box_type()` gives them: every primitive has one, a box is neither primitive nor a
    type constructor -/
def WellBoxed : Item → Prop
  | .ty t box => (t.isPrim = true → box.isSome = true) ∧ ∀ b, box = some b → b.isPrim = false ∧ b.isTCon = false
  | .cls .. => True

/-- the way the instantiation helpers call it (`only_regular=True, primitives=False`): no
    primitive type and no bare type constructor is offered as a type argument -/
theorem availableTypes_no_primitive (conName : Option String) (types : List Item)
    (hb : ∀ it ∈ types, WellBoxed it) :
    ∀ t' box', Item.ty t' box' ∈ availableTypes conName types true false → t'.isPrim = false ∧ t'.isTCon = false := by
  intro t' box' h
  obtain ⟨t, box, hit, h1, _, h3, _⟩ := (availableTypes_spec conName types false).2.2.2 t' box' h
  have hw := hb _ hit
  simp only [WellBoxed] at hw
  rw [h3 rfl]
  cases box with
  | none =>
    simp only [Option.getD_none]
    refine ⟨?_, h1⟩
    cases hp : t.isPrim
    · rfl
    · have := hw.1 hp; simp at this
  | some b => simpa using hw.2 b rfl

/-! ## 3. `update_type_var_bound_rec` -/

/-- **`updateBoundRec_chain`**: after `update_type_var_bound_rec(t_param, t, …)` every assignment
    along the bound chain `T3 : T2 : T1` of the parameter is `t` itself or, by the code's own
    `is_subtype`, a supertype of `t` — when the chain variables are parameters of the list being
    instantiated (`indexes` knows them).  For a chain variable that is *not* (a type variable of
    an enclosing declaration) the code deliberately leaves the assignment alone. -/
theorem updateBoundRec_chain (tp t : Ty) (targs : List Ty) (idx : List (Ty × Nat)) (m : TMap)
    (hidx : ∀ b ∈ boundChain tp, (idxGet idx b).isSome = true) (targs' : List Ty) (m' : TMap)
    (h : updateBoundRec tp t targs idx m = .ok targs' m') :
    ∀ b ∈ boundChain tp, ∃ c, m'.get b = some c ∧ (c = t ∨ isSubtype t c = .yes) :=
  updateBoundRec_chain_aux tp t targs idx m hidx targs' m' h

/-- what is fine before the call stays fine: the function only ever writes `t` -/
theorem updateBoundRec_only_writes_t (tp t : Ty) (targs : List Ty) (idx : List (Ty × Nat)) (m : TMap)
    (targs' : List Ty) (m' : TMap) (h : updateBoundRec tp t targs idx m = .ok targs' m') (k c : Ty)
    (hk : m.get k = some c) : m'.get k = some c ∨ m'.get k = some t := by
  have key : ∀ (tp t : Ty) (targs : List Ty) (idx : List (Ty × Nat)) (m : TMap) (targs' : List Ty) (m' : TMap),
      updateBoundRec tp t targs idx m = .ok targs' m' → ∀ c, (m.get k = some c ∨ m.get k = some t) →
        (m'.get k = some c ∨ m'.get k = some t) := by
    intro tp t targs idx m
    fun_induction updateBoundRec tp t targs idx m with
    | case1 => intro _ _ h c hc; cases h; exact hc
    | case2 => intro _ _ h; cases h
    | case3 _ _ _ _ _ _ _ _ _ _ _ ih => intro _ _ h c hc; exact ih _ _ h c hc
    | case4 _ _ _ _ _ _ _ _ _ _ _ _ ih => intro _ _ h c hc; exact ih _ _ h c hc
    | case5 _ _ bound t _ _ m _ _ _ _ _ _ _ ih =>
      intro _ _ h c hc
      refine ih _ _ h c ?_
      rcases TMap.get_set m bound t k with h' | h'
      · rw [h']; exact hc
      · exact Or.inr h'
    | case6 => intro _ _ h; cases h
    | case7 => intro _ _ h; cases h
    | case8 => intro _ _ h c hc; cases h; exact hc
  exact key tp t targs idx m targs' m' h c (Or.inl hk)

/-- the example of the docstring: `A<T1, T2 : T1, T3 : T2>`, `T1 ↦ String, T2 ↦ String`, update
    for `T3 ↦ Int`: both are overwritten -/
example :
    let any := Ty.builtin "Any" "Any" false false []
    let str := Ty.builtin "String" "String" false false [any]
    let int := Ty.builtin "Int" "Int" false false [any]
    let t1 := tparam "T1" 0 none
    let t2 := tparam "T2" 0 (some t1)
    let t3 := tparam "T3" 0 (some t2)
    (match updateBoundRec t3 int [str, str] [(t1, 0), (t2, 1)] [(t1, str), (t2, str)] with
     | .ok targs m => beqL targs [int, int] && beqO (m.get t1) (some int) && beqO (m.get t2) (some int)
     | _ => false) = true := by
  decide

/-! ## 4. the result checker -/

/-- **within bounds**: every parameter has exactly one argument under `σ`; unless it is the
    caller's own assignment (`requestedBy`: the requested type itself or a projection of it — then
    the bound is the caller's business), it is neither a
    primitive type nor a bare type constructor (nor is the bound of a projection); and it respects
    the parameter's declared bound after substituting the arguments (`Within`: the argument — for
    a bounded projection its bound — is `SubT`-below the substituted bound, or that bound is the
    top type; a star argument and a star bound are unconstrained; when the substituted bound is
    itself a projection the argument is below the projection's bound) -/
def WithinBounds (U : Ty → Prop) (I : InstIn) (σ : TMap) : Prop :=
  ∀ p ∈ I.params, ∃ a, σ.get p = some a ∧
    (requestedBy I p a = true ∨
     (a.isPrim = false ∧ a.isTCon = false ∧ (argCore a).isPrim = false ∧ (argCore a).isTCon = false ∧
      ∀ b, boundOf p = some b → Within U I.top a (substituteType b σ)))

/-- **`instOK_sound`**: what the executable checker accepts is within bounds in the declarative
    sense, relative to any universe `U` closed under sub-terms that contains the arguments and the
    substituted bounds -/
theorem instOK_sound {U : Ty → Prop} (hU : ClosedU U) (I : InstIn) (σ : TMap) (targs : Option (List Ty))
    (hUa : ∀ p ∈ I.params, ∀ a, σ.get p = some a → U (argCore a))
    (hUb : ∀ p ∈ I.params, ∀ b, boundOf p = some b → U (substituteType b σ))
    (hc : preConsistent I = true)
    (h : instOK I σ targs = true) : WithinBounds U I σ := by
  intro p hp
  simp only [instOK, Bool.and_eq_true, hc, Bool.not_true, Bool.false_or] at h
  obtain ⟨a, others, hg, h1⟩ := instOKL_mem h.2 p hp
  simp only [instOK1, Bool.and_eq_true, Bool.or_eq_true, Bool.not_eq_true'] at h1
  obtain ⟨⟨hreq | ⟨⟨⟨⟨n1, n2⟩, n3⟩, n4⟩, hb⟩, _⟩, _⟩ := h1
  · exact ⟨a, hg, Or.inl hreq⟩
  · refine ⟨a, hg, Or.inr ⟨n1, n2, n3, n4, ?_⟩⟩
    intro b hbd
    rw [hbd] at hb
    exact withinD_sound hU (hUa p hp a hg) (hUb p hp b hbd) hb

/-- exactly one argument per parameter: the returned argument list is the image of the
    parameter list under the returned map -/
theorem instOK_args (I : InstIn) (σ : TMap) (as : List Ty) (h : instOK I σ (some as) = true) :
    as.length = I.params.length ∧ beqL as (I.params.filterMap σ.get) = true ∧
    ∀ p ∈ I.params, (σ.get p).isSome = true := by
  simp only [instOK, Bool.and_eq_true, beq_iff_eq, List.all_eq_true] at h
  exact ⟨h.1.1.1, h.1.1.2, h.1.2⟩

/-- also for `instantiate_parameterized_function` (no argument list): every parameter is assigned -/
theorem instOK_total (I : InstIn) (σ : TMap) (targs : Option (List Ty)) (h : instOK I σ targs = true) :
    ∀ p ∈ I.params, (σ.get p).isSome = true := by
  simp only [instOK, Bool.and_eq_true, List.all_eq_true] at h
  exact h.1.2

/-- a projection that the helper decided on (`exemptProjection`: not the caller's own request
    for the parameter or for a parameter below/above it in a bound chain, not the copy of the
    assignment of the parameter's bound) is *permitted* -/
theorem instOK_projection (I : InstIn) (σ : TMap) (targs : Option (List Ty)) (h : instOK I σ targs = true)
    (p : Ty) (hp : p ∈ I.params) (v : Nat) (bd : Option Ty) (hg : σ.get p = some (wild v bd))
    (hex : exemptProjection I σ p (wild v bd) = false) (hc : preConsistent I = true) :
    bd.isSome = true ∧ ∃ others, projAllowed I p others v = true := by
  simp only [instOK, Bool.and_eq_true, hc, Bool.not_true, Bool.false_or] at h
  obtain ⟨a, others, hg', h1⟩ := instOKL_mem h.2 p hp
  rw [hg] at hg'
  cases hg'
  simp only [instOK1, Bool.and_eq_true] at h1
  have h4 := h1.2
  simp only [hex, Bool.false_or, Bool.and_eq_true] at h4
  exact ⟨h4.1, others, h4.2⟩

/-- a caller's assignment is kept, at most wrapped in a permitted projection — when the requests
    are consistent with the bounds (`preConsistent`), and unless another requested assignment
    overrides it through a bound chain (`overridable`) -/
theorem instOK_kept (I : InstIn) (σ : TMap) (targs : Option (List Ty)) (h : instOK I σ targs = true)
    (p : Ty) (hp : p ∈ I.params) (t : Ty) (hpre : I.pre.get p = some t) (hov : overridable I p = false)
    (hc : preConsistent I = true) :
    ∃ a, σ.get p = some a ∧ (beq a t = true ∨
      ∃ v x others, a = wild v (some x) ∧ beq x t = true ∧ t.isWild = false ∧ projAllowed I p others v = true) := by
  simp only [instOK, Bool.and_eq_true, hc, Bool.not_true, Bool.false_or] at h
  obtain ⟨a, others, hg, h1⟩ := instOKL_mem h.2 p hp
  simp only [instOK1, Bool.and_eq_true] at h1
  have h3 := h1.1.2
  simp only [hpre, hov, Bool.false_or, Bool.or_eq_true] at h3
  refine ⟨a, hg, ?_⟩
  rcases h3 with h3 | h3
  · exact Or.inl h3
  · right
    split at h3
    · rename_i v x
      simp only [Bool.and_eq_true, Bool.not_eq_true'] at h3
      exact ⟨v, x, others, rfl, h3.1.1, h3.1.2, h3.2⟩
    · cases h3

/-! ### what "permitted" means -/

theorem projAllowed_mem {I : InstIn} {p : Ty} {others : List Ty} {v : Nat} (h : projAllowed I p others v = true) :
    v ≠ 0 ∧ ∃ b, anyBoundOf p others = .ok b ∧ v ∈ argVariance I.dis p I.vc [b] := by
  unfold projAllowed argVarianceP at h
  cases hb : anyBoundOf p others with
  | ok b =>
    rw [hb] at h
    simp only [TR.bind, Bool.and_eq_true, bne_iff_ne, ne_eq, List.contains_iff_mem] at h
    exact ⟨h.1, b, rfl, h.2⟩
  | attrError => rw [hb] at h; simp [TR.bind] at h
  | fuel => rw [hb] at h; simp [TR.bind] at h

/-- no projection is permitted when use-site variance is disabled -/
theorem projAllowed_disabled_variance (I : InstIn) (p : Ty) (others : List Ty) (v : Nat)
    (h : I.dis.useSiteVariance = true) : projAllowed I p others v = false := by
  cases hc : projAllowed I p others v with
  | false => rfl
  | true =>
    obtain ⟨hv, b, _, hm⟩ := projAllowed_mem hc
    exact absurd (argVariance_disabled_variance _ _ _ _ h v hm) hv

/-- no contravariant projection is permitted when use-site contravariance is disabled -/
theorem projAllowed_disabled_contravariance (I : InstIn) (p : Ty) (others : List Ty)
    (h : I.dis.useSiteContravariance = true) : projAllowed I p others 2 = false := by
  cases hc : projAllowed I p others 2 with
  | false => rfl
  | true =>
    obtain ⟨_, b, _, hm⟩ := projAllowed_mem hc
    exact absurd hm (argVariance_disabled_contravariance _ _ _ _ h)

/-- never on a parameter that a later parameter's bound mentions -/
theorem projAllowed_in_bound (I : InstIn) (p : Ty) (others : List Ty) (v : Nat)
    (h : anyBoundOf p others = .ok true) : projAllowed I p others v = false := by
  cases hc : projAllowed I p others v with
  | false => rfl
  | true =>
    obtain ⟨hv, b, hb, hm⟩ := projAllowed_mem hc
    rw [h] at hb
    cases hb
    rw [argVariance_in_bound _ _ _ _ (by simp)] at hm
    simp at hm
    exact absurd hm hv

/-- never without variance choices, never against the declared variance or the caller's choice -/
theorem projAllowed_spec (I : InstIn) (p : Ty) (others : List Ty) (v : Nat) (h : projAllowed I p others v = true) :
    ∃ m, I.vc = some m ∧ I.dis.useSiteVariance = false ∧ anyBoundOf p others = .ok false ∧
      ((v = 1 ∧ (m.get p).1 = true ∧ variance p ≠ 2) ∨
       (v = 2 ∧ (m.get p).2 = true ∧ I.dis.useSiteContravariance = false ∧ variance p ≠ 1)) := by
  obtain ⟨hv, b, hb, hm⟩ := projAllowed_mem h
  rcases (mem_argVariance _ _ _ _ _).1 hm with h0 | ⟨m, hvc, hl, hd, hh⟩
  · exact absurd h0 hv
  · have hbf : b = false := by simpa using hl
    subst hbf
    refine ⟨m, hvc, hd, hb, ?_⟩
    rcases hh with ⟨h1, h2, h3⟩ | ⟨h1, h2, h3, h4⟩
    · exact Or.inl ⟨h1, h2, by omega⟩
    · exact Or.inr ⟨h1, h2, h3, h4⟩

/-- the full property for the helper itself — not proved (no model of the random choices and of
    `find_subtypes` in `_compute_type_variable_assignments`); checked by refinement on every
    explored call -/
def compute_within_bounds (computed : InstIn → TMap → Option (List Ty) → Prop) : Prop :=
  ∀ I σ targs, computed I σ targs → instOK I σ targs = true

/-! ### non-vacuity: an instantiation that is accepted, and ones that are rejected -/

private def anyT := Ty.builtin "Any" "Any" false false []
private def numT := Ty.builtin "Number" "Number" false false [anyT]
private def intT := Ty.builtin "Int" "Int" false false [numT]
private def strT := Ty.builtin "String" "String" false false [anyT]
private def pT := tparam "T" 0 (some numT)
private def pX := tparam "X" 0 (some pT)
private def inst0 : InstIn := ⟨[pT, pX], [], some [], ⟨false, false⟩, anyT⟩

/-- `A<T : Number, X : T>` as `A<Int, Int>`: accepted -/
example : instOK inst0 [(pT, intT), (pX, intT)] (some [intT, intT]) = true := by decide
/-- `A<String, String>`: rejected (`String` is not below `Number`) -/
example : instOK inst0 [(pT, strT), (pX, strT)] (some [strT, strT]) = false := by decide
/-- `A<out Int, Int>`: rejected (`X`'s bound mentions `T`: no projection on `T`) -/
example : instOK inst0 [(pT, wild 1 (some intT)), (pX, intT)] (some [wild 1 (some intT), intT]) = false := by decide
/-- `A<Int, out Int>`: accepted with use-site variance, rejected without -/
example : instOK inst0 [(pT, intT), (pX, wild 1 (some intT))] (some [intT, wild 1 (some intT)]) = true := by decide
example : instOK { inst0 with dis := ⟨true, false⟩ } [(pT, intT), (pX, wild 1 (some intT))]
    (some [intT, wild 1 (some intT)]) = false := by decide

/-! ### the shape on which the unchanged code violates `compute_within_bounds`

`class Dir<P : Number, Q : P, R>` instantiated (no requests, empty variance-choice map, all
switches off) as `Dir<out Int, out Int, String>`: `Q`'s bound mentions `P`, so `P` must stay
invariant.  The real `_compute_type_variable_assignments` produces this result (an inner loop
variable shadows the parameter index; recorded finding, `harness/check_C08.py` replays the same
declaration on the real code in `stream_witness`). -/

private def dP := tparam "P" 0 (some numT)
private def dQ := tparam "Q" 0 (some dP)
private def dR := tparam "R" 0 none
private def dirIn : InstIn := ⟨[dP, dQ, dR], [], some [], ⟨false, false⟩, anyT⟩

theorem compute_within_bounds_counterexample_shape :
    instOK dirIn [(dP, wild 1 (some intT)), (dQ, wild 1 (some intT)), (dR, strT)]
      (some [wild 1 (some intT), wild 1 (some intT), strT]) = false ∧
    projAllowed dirIn dP [dQ, dR] 1 = false ∧
    instOK dirIn [(dP, intT), (dQ, intT), (dR, wild 1 (some strT))] (some [intT, intT, wild 1 (some strT)]) = true := by
  decide

end Heph.Props.C08
