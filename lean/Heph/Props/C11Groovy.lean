import Heph.Proofs.TransGroovyHistory
/-!
# C11 for the Groovy translator — translation is a pure function of the program

Model: `Heph.TransGroovy` (`lean/Heph/Model/TransGroovy.lean`), a state-threading port of
`src/translators/groovy.py`: `visit : St → Out → Node → St × Out`.  `St` = the attributes the visit
methods read and assign around their children (`ident`, `is_unit`, `_cast_number`, `_namespace`,
`_inside_is`, `_inside_is_function`, `_nodes_stack`) plus `context`, `types`,
`_function_interfaces`, `always_cast_numbers`; `Out` = the three places `append_to` puts a text
(`_children_res`, `_main_children`, `_main_method`); `Obj` = `St` + `Out` + `program` + `package`.

What is proved, for ALL programs (any `Node` tree, typed or not, any context):

* `visit_state` — every visit (of any node, from any state, with any result lists) hands the
  control state back exactly as it received it: all eleven attributes of `St`.  Unlike Kotlin's
  there is no leaking node.  `visit_list_state`, `block_state` are the same for the child loops.
* `reset_state_exact` — `_reset_state` assigns every attribute of `St` except
  `always_cast_numbers` its value after `__init__`, and empties the three result places.
* `visit_program_state` — the object just before `_reset_state` (the state it had on entry with
  `types`, `context` assigned and `ident = 2`), and after `visit_program` (`visit_program_resets`):
  whatever the object was before — also a hand-set state — it is the freshly constructed object
  with the same `package` and `always_cast_numbers`.
* `program_state_independent` — the text depends on the object only through `Agree`: everything
  except `context`, `types` (overwritten before they are read) and `program`.
* `history_independent`, `translate_twice`, `forgets_any_state`.

What is false of the code (concrete witnesses, replayed on the real translator by
`harness/c11_groovy.py`):

* `visit_program_restores_counterexample` — `visit_program` does not leave the object as it found
  it: a translator with `ident = 4` has `ident = 0` afterwards (it resets, it does not restore).
* `text_ignores_children_res_counterexample` — the text does depend on left-over `_children_res`:
  `pop_children_res(children)` takes the last `len(children)` entries although top-level functions
  and variables were routed to `Main`; a left-over entry is printed as a class.  (Unreachable
  through `visit_program` alone, which ends by emptying the list: `history_independent`.)
* `visit_appends_one_counterexample` — a visit does not always add exactly one text to exactly one
  place: a block visited at the global namespace whose statement is a variable declaration consumes
  a text that was in `_children_res` before the visit (the declaration is routed to
  `_main_children`, the block pops one entry nevertheless).
-/
namespace Heph.Props.C11.Groovy
open Heph Heph.TransGroovy

/-- the complete effect of one visit on the control state: none -/
theorem visit_state (st : St) (o : Out) (n : Node) : (visit st o n).1 = st := visit_fst n st o

theorem visit_list_state (st : St) (o : Out) (ns : List Node) : (visitL st o ns).1 = st := visitL_fst ns st o

/-- the child loop of `visit_block` (which changes `_cast_number` around the last child) -/
theorem block_state (isFunc : Bool) (st : St) (o : Out) (ns : List Node) :
    (blockKids isFunc st o ns).1 = st := blockKids_fst ns isFunc st o

/-- attribute by attribute -/
theorem visit_restores (st : St) (o : Out) (n : Node) :
    let s := (visit st o n).1
    s.ident = st.ident ∧ s.isUnit = st.isUnit ∧ s.castNumber = st.castNumber ∧ s.ns = st.ns ∧
    s.insideIs = st.insideIs ∧ s.insideIsFunction = st.insideIsFunction ∧ s.stack = st.stack ∧
    s.functionInterfaces = st.functionInterfaces ∧ s.context = st.context ∧ s.typesSet = st.typesSet ∧
    s.alwaysCastNumbers = st.alwaysCastNumbers := by
  simp [visit_state]

/-- `_reset_state`, exactly -/
theorem reset_state_exact (st : St) :
    resetState st = { ident := 0, isUnit := false, castNumber := false, ns := ["global"], insideIs := false,
                      insideIsFunction := false, stack := [Tag.none], functionInterfaces := [0, 1, 2, 3],
                      context := none, typesSet := false, alwaysCastNumbers := st.alwaysCastNumbers } ∧
    resetState st = (initObj none st.alwaysCastNumbers).st := ⟨rfl, rfl⟩

/-- the object just before `_reset_state` and right after `visit_program` -/
theorem visit_program_state (ob : Obj) (p : GProgram) :
    (programRun ob p).1 = { ob.st with typesSet := true, context := some p.env, ident := 2 } ∧
    (visitProgram ob p).st = (initObj ob.package ob.st.alwaysCastNumbers).st ∧
    (visitProgram ob p).out = {} ∧ (visitProgram ob p).package = ob.package :=
  ⟨programRun_st ob p, (visitProgram_resets ob p).1, (visitProgram_resets ob p).2.1, (visitProgram_resets ob p).2.2⟩

/-- after `visit_program` the object is the freshly constructed one, up to `program` -/
theorem visit_program_resets (ob : Obj) (p : GProgram) :
    Agree (visitProgram ob p) (initObj ob.package ob.st.alwaysCastNumbers) := by
  obtain ⟨a1, a2, a3⟩ := visitProgram_resets ob p
  exact ⟨by rw [a1]; rfl, by rw [a2]; rfl, by rw [a3]; rfl⟩

/-- the text depends on the translator object only through the attributes compared by `Agree` -/
theorem program_state_independent (a b : Obj) (h : Agree a b) (p : GProgram) : text a p = text b p :=
  text_agree h p

/-- translating any list of programs first does not change the text of the next program -/
theorem history_independent (package : Option String) (castNumbers : Bool) (ps : List GProgram) (p : GProgram) :
    text (after (initObj package castNumbers) ps) p = text (initObj package castNumbers) p :=
  text_agree (after_agree ps package castNumbers) p

/-- the same translator object twice -/
theorem translate_twice (package : Option String) (castNumbers : Bool) (p : GProgram) :
    text (translate (initObj package castNumbers) p).1 p = text (initObj package castNumbers) p :=
  history_independent package castNumbers [p] p

/-- one `visit_program` is enough to forget any state, also one that no sequence of translations
    produces (hand-set attributes, left-over `_children_res`) -/
theorem forgets_any_state (ob : Obj) (q : GProgram) (ps : List GProgram) (p : GProgram) :
    text (after (visitProgram ob q) ps) p = text (initObj ob.package ob.st.alwaysCastNumbers) p := by
  have h1 := visit_program_resets ob q
  have key : ∀ (qs : List GProgram) (x : Obj), Agree x (initObj ob.package ob.st.alwaysCastNumbers) →
      Agree (after x qs) (initObj ob.package ob.st.alwaysCastNumbers) := by
    intro qs
    induction qs with
    | nil => intro x h; exact h
    | cons r qs ih =>
      intro x h
      apply ih
      have hp : x.package = ob.package := h.2.2
      have hc : x.st.alwaysCastNumbers = ob.st.alwaysCastNumbers := by
        have := congrArg St.alwaysCastNumbers h.1
        simpa [ctl, initObj] using this
      have := visit_program_resets x r
      rw [hp, hc] at this
      exact this
  exact text_agree (key ps _ h1) p

/-! ## what is false of the code -/

/-- a statement in the style of the Kotlin translator: `visit_program` leaves the control state as it found it -/
def visit_program_restores : Prop := ∀ (ob : Obj) (p : GProgram), (visitProgram ob p).st = ob.st

/-- false: it *resets*.  Witness: `ident = 4` before, `0` after (empty program) -/
theorem visit_program_restores_counterexample : ¬ visit_program_restores := by
  intro h
  have := h { st := { ident := 4 } } { decls := [], env := [] }
  exact absurd (congrArg St.ident this) (by decide)

def tyObject : Ty := .builtin "<class 'src.ir.groovy_types.ObjectType'>" "Object" false false []
def tyInteger : Ty := .builtin "<class 'src.ir.groovy_types.IntegerType'>" "Integer" false false [tyObject]
def tyLong : Ty := .builtin "<class 'src.ir.groovy_types.LongType'>" "Long" false false [tyObject]
def tyVoid : Ty := .builtin "<class 'src.ir.groovy_types.VoidType'>" "void" false false [tyObject]

/-- the text does not depend on what is left in `_children_res` -/
def text_ignores_children_res : Prop :=
  ∀ (ob : Obj) (cr : List Text) (p : GProgram),
    text { ob with out := { ob.out with childrenRes := cr } } p = text ob p

/-- one abstract top-level function `Object f()` -/
def junkProgram : GProgram :=
  { decls := [.funcDecl "f" [] (some tyObject) (some tyObject) none true false [] 1], env := [] }

/-- false: a left-over entry is printed after the functional interfaces as if it were a class -/
theorem text_ignores_children_res_counterexample : ¬ text_ignores_children_res := by
  intro h
  have := h (initObj none) ["junk"] junkProgram
  revert this
  decide +kernel

/-- a visit adds exactly one text to exactly one of the three places and touches nothing else -/
def visit_appends_one : Prop :=
  ∀ (st : St) (o : Out) (n : Node), ∃ (k : Kind) (res : Text), (visit st o n).2 = route k st.ns o res

/-- `{ val v: Integer = 1 }` as a bare block -/
def strayBlock : Node :=
  .block [.varDecl "v" (.intC "1" (some tyInteger)) true none (some tyInteger)] false

/-- false: visited at the global namespace with `_children_res = ["x"]`, the block's statement goes to
    `_main_children` and the block pops (and prints) the `"x"` that was there before -/
theorem visit_appends_one_counterexample : ¬ visit_appends_one := by
  intro h
  obtain ⟨k, res, hres⟩ := h {} { childrenRes := ["x"] } strayBlock
  have hl : (visit {} { childrenRes := ["x"] } strayBlock).2 =
      { childrenRes := ["{\nx\n}"], mainChildren := ["final Integer v = 1"], mainMethod := "" } := by
    decide +kernel
  rw [hl] at hres
  have hm := congrArg Out.mainChildren hres
  have hc := congrArg Out.childrenRes hres
  unfold route at hm hc
  split at hm
  · simp at hm
  · split at hm
    · split at hc <;> simp_all
    · simp at hm

/-! ## non-vacuity -/

/-- `class B { Integer x }`, `final class A<T> extends B { Integer y; Long f(Integer a) = -2 }`,
    `Integer g() { val v = 3; v }`, `void main() { g() }` -/
def demo : GProgram := {
  decls := [
    .classDecl "B" 0 false [.fieldDecl "x" tyInteger true true false] [] [] [],
    .classDecl "A" 0 true [.fieldDecl "y" tyInteger true false false]
      [.superInst (.simple "B" []) (some [.intC "1" (some tyInteger)])]
      [.funcDecl "f" [.paramDecl "a" tyInteger false none] (some tyLong) (some tyLong)
         (some (.intC "-2" (some tyLong))) true false [] 0]
      [.tparam "T" 0 none],
    .funcDecl "g" [] (some tyInteger) (some tyInteger)
      (some (.block [.varDecl "v" (.intC "3" (some tyInteger)) true none (some tyInteger), .variable "v"] true))
      true false [] 1,
    .funcDecl "main" [] (some tyVoid) (some tyVoid)
      (some (.block [.call "g" [] none [] false false] true)) true false [] 1],
  env := [⟨["global"], "classes", "B", .cls 0⟩, ⟨["global"], "decls", "B", .cls 0⟩,
          ⟨["global"], "classes", "A", .cls 0⟩, ⟨["global"], "decls", "A", .cls 0⟩,
          ⟨["global"], "funcs", "g", .other⟩, ⟨["global"], "decls", "g", .other⟩,
          ⟨["global", "g"], "vars", "v", .other⟩, ⟨["global", "g"], "decls", "v", .other⟩,
          ⟨["global"], "funcs", "main", .other⟩, ⟨["global"], "decls", "main", .other⟩] }

example : text (initObj (some "src.pkg")) demo =
    "package src.pkg\n\nclass Main {\n  static final Integer g() {\n    final def v = 3;\n    v\n  }\n\n  public static final void main() {\n        Main.g()\n  }\n}\n\ninterface Function0<R> {\n  public R apply();\n}\n\ninterface Function1<A1, R> {\n  public R apply(A1 a1);\n}\n\ninterface Function2<A1, A2, R> {\n  public R apply(A1 a1, A2 a2);\n}\n\ninterface Function3<A1, A2, A3, R> {\n  public R apply(A1 a1, A2 a2, A3 a3);\n}\n\n\n\nclass B {\n  public final Integer x\n\n  public B(Integer x) {\n    this.x = x\n  }\n}\n\nfinal class A<T> extends B {\n  public final Integer y\n\n  public A(Integer y) {\n    super(1);\n    this.y = y\n  }\n\n  final Long f(Integer a) {\n    (Long) -2\n  }\n}" := by
  decide +kernel

example : text (after (initObj (some "src.pkg")) [demo, junkProgram, demo]) demo = text (initObj (some "src.pkg")) demo :=
  history_independent _ _ _ _

/-- a visit from a state that is not the initial one: hypotheses of `visit_state` are met non-trivially -/
example : (visit { ident := 4, isUnit := true, castNumber := true, insideIs := true, ns := ["global", "zz"] } {}
    (.funcDecl "g" [] (some tyInteger) (some tyInteger)
      (some (.block [.varDecl "v" (.intC "3" (some tyInteger)) true none (some tyInteger), .variable "v"] true))
      true false [] 1)).1.ident = 4 := by rw [visit_state]

example : Agree (visitProgram { st := { ident := 4, castNumber := true }, out := { childrenRes := ["junk"] } } demo)
    (initObj none) := visit_program_resets _ _

example : text { (initObj none) with out := { childrenRes := ["junk"] } } junkProgram ≠ text (initObj none) junkProgram := by
  decide +kernel

end Heph.Props.C11.Groovy
