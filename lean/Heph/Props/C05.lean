import Heph.Proofs.ClosedSound
import Heph.Proofs.ClosedSites
import Heph.Proofs.ClosedFuel
import Heph.Proofs.ClosedPool
import Heph.Proofs.ClosedAssignable
import Heph.Proofs.CaptureSound
import Heph.Generated.Keywords
import Heph.Model.Reserved
/-!
# C05 — generated programs are closed and respect scoping and mutability rules  (*partial*)

What is proved, for ALL inputs (no assumption that a program came from the generator):

* `closed_sound` / `closed_complete` / `closedCheck_error`: the scope walker `closedCheck` the harness runs on
  every explored generated program decides the declarative `Closed p kw` of `Spec/Scope.lean`; a rejection names a
  site of the program at which the use does not resolve.  `member_lookup_in_hierarchy`: the classes the walker looks
  members up in are the receiver's class and its (transitive) superclasses.
* `assignableVars_nonfinal`: every target the model of `Generator._get_assignable_vars` returns is non-final
  (a `var` of the context, or a non-final field of the class of a variable of the context), none inside a Java lambda.
* `word_fresh`, `identifiers_distinct`: over any history of `word()` draws since a reset the results are pairwise
  distinct, and identifiers built from them in whatever mode (`None`/`lower`/`capitalize`) stay pairwise distinct on a
  lower-case pool.
* `identifier_not_reserved` (full strength, for every pool drawn from the word file, every language, every mode):
  **true of the code since `fix:` 656374e** (`identifier_not_reserved_current`; the repaired case-insensitive removal is
  correct for every keyword table: `identifier_not_reserved_fixed`, no table needed) and **false of the removal as it
  was** (`identifier_not_reserved_counterexample`: Groovy, `math` → `Math`, on the REGENERATED keyword tables; also
  `set`, `date`, `exception`: `reserved_collisions_current`); either variant is decided by one `decide` on the
  regenerated tables (`identifier_not_reserved_of_table`).  `Pool.codeIsFixed` (`Model/Pool.lean`) is THE switch naming
  the variant the tree implements; `check_C05` detects the tree's variant on every run and objects if Lean is ahead.
* about the specification itself: `closed_covers_every_use` (the site walk skips no name use, through lambdas, nested
  functions, conditional branches, default values …) and `hier_fuel_adequate` (member lookup never stops for lack of
  fuel on a class table without inheritance cycles).

What is NOT proved (hence "partial"): that the generator only produces closed programs — `Closed` is *checked* by the
verified walker on the explored programs; only the pool and the assignment filter are modelled and universally proved.

Trusted for the keyword theorems: `harness/regen_c05.py` (that `collisionWords` lists every entry of
`src/resources/words` equal to a keyword up to case, and that every entry is `[a-z]+`) — `WordFileFacts`.
-/
namespace Heph.Props.C05
open Heph Heph.Scope Heph.Pool Heph.Keywords Heph.Assignable Heph.Capture

/-! ## the scope walker -/

/-- acceptance by the checker implies closedness — every program, every keyword table -/
theorem closed_sound (p : Program) (kw : List String) : closedCheck p kw = .ok → Closed p kw :=
  Heph.Scope.closed_sound p kw

/-- and conversely: the checker rejects no closed program (it is not stricter than the specification) -/
theorem closed_complete (p : Program) (kw : List String) : Closed p kw → closedCheck p kw = .ok :=
  Heph.Scope.closed_complete p kw

/-- a rejection names a site of the program whose use does not resolve -/
theorem closedCheck_error (p : Program) (kw : List String) (path why : String) :
    closedCheck p kw = .error path why → ∃ s ∈ programSites p, s.path = path ∧ ¬ Resolves kw s.env s.use :=
  Heph.Scope.closedCheck_error p kw path why

/-- member lookup only visits the receiver's class and its superclasses -/
theorem member_lookup_in_hierarchy (tops : List Node) (t : Ty) (nm : String) (cm : Node × TMap) :
    tyClassName t = some nm → cm ∈ hierOfType tops (some t) → SuperOf tops nm cm.1 :=
  hierOfType_superOf tops t nm cm

/-- **fuel adequacy** of the superclass walk: if the class table has a ranking (every superclass reference names a
    class of smaller rank - no inheritance cycle), every fuel above the rank of a class computes the same hierarchy:
    member lookup never stops for lack of fuel -/
theorem hier_fuel_adequate (tops : List Node) (rank : String → Nat) (hr : Ranked tops rank) (name : String)
    (targs : List Ty) (fuel : Nat) (h : rank name < fuel) :
    hier tops fuel name targs = hier tops (rank name + 1) name targs :=
  Heph.Scope.hier_fuel_adequate tops rank hr name targs fuel h

/-- in particular for the fuel `hierOfType` picks (`tops.length + 1`), when ranks stay within the number of
    declarations (e.g. rank = position of the declaration, superclasses declared first): more fuel changes nothing -/
theorem hierOfType_fuel_adequate (tops : List Node) (rank : String → Nat) (hr : Ranked tops rank)
    (hb : ∀ name, rank name ≤ tops.length) (t : Ty) (more : Nat) :
    hierOfType tops (some t) =
      match tyClassName t with
      | none => []
      | some nm => hier tops (tops.length + 1 + more) nm (tyArgs t) :=
  Heph.Scope.hierOfType_fuel_adequate tops rank hr hb t more

def tops2 : List Node :=
  [.classDecl "A" 0 false [] [] [] [], .classDecl "B" 0 false [] [.superInst (.simple "A" []) none] [] []]
def rank2 (n : String) : Nat := if n = "B" then 1 else 0

/-- the hypotheses are satisfiable: `B extends A` -/
example : Ranked tops2 rank2 ∧ ∀ name, rank2 name ≤ tops2.length := by
  refine ⟨?_, fun name => by unfold rank2; split <;> simp [tops2]⟩
  intro name c hc s hs t ht m nm hn
  simp only [tops2, findClass, List.find?_cons, isClassDecl, declName, Bool.true_and] at hc
  split at hc
  · cases hc; simp [classSupers] at hs
  · split at hc
    · next h1 h2 =>
      cases hc
      simp only [classSupers, List.mem_singleton] at hs
      subst hs
      simp only [superType, Option.some.injEq] at ht
      subst ht
      simp only [substTy, tyClassName, Option.some.injEq] at hn
      subst hn
      have : "B" = name := by simpa using h2
      subst this
      decide
    · simp at hc

/-- **the quantifier of C05 is honoured**: `Closed` skips no name use.  Every variable reference, call, function
    reference, field access, object creation, assignment, superclass instantiation and declared identifier occurring
    ANYWHERE in a declaration of the program (`Occurs`: through lambdas, nested functions, both branches of
    conditionals, default values, super-constructor arguments …) has a site of `programSites`, and in a closed
    program the use resolves in the environment of that site -/
theorem closed_covers_every_use (p : Program) (kw : List String) (h : Closed p kw) {d m : Node} (hd : d ∈ p.decls)
    (hm : Occurs m d) {u : Use} (hu : nodeUse m = some u) :
    ∃ s ∈ programSites p, s.use = u ∧ Resolves kw s.env u := by
  obtain ⟨s, hs, hsu⟩ := programSites_cover p hd hm hu
  exact ⟨s, hs, hsu, hsu ▸ h s hs⟩

/-- the variable `v` inside the lambda inside the block of `f` occurs in `f` -/
example : Occurs (.variable "v")
    (.funcDecl "f" [] none none (some (.block [.varDecl "l" (.lambda "l" [] none (.variable "v") none) true none none] true))
      false false [] 1) :=
  .step (c := .block [.varDecl "l" (.lambda "l" [] none (.variable "v") none) true none none] true) (by simp [children])
    (.step (c := .varDecl "l" (.lambda "l" [] none (.variable "v") none) true none none) (by simp [children])
      (.step (c := .lambda "l" [] none (.variable "v") none) (by simp [children])
        (.step (c := .variable "v") (by simp [children]) (.refl _))))

/-- a closed two-declaration program, and the same program with the uses the property forbids -/
def progOk : Program :=
  { lang := "kotlin", context := [],
    decls := [.varDecl "x" (.intC "1" none) false none none,
              .funcDecl "f" [.paramDecl "a" (.simple "Int" []) false none] none none
                (some (.block [.assign "x" (.variable "a") none, .call "f" [.callArg (.variable "x") none] none [] false false] true))
                false false [] 1] }

def progAssignFinal : Program :=
  { lang := "kotlin", context := [],
    decls := [.varDecl "x" (.intC "1" none) true none none,
              .funcDecl "f" [] none none (some (.block [.assign "x" (.intC "2" none) none] true)) false false [] 1] }

def progUnresolved : Program :=
  { lang := "kotlin", context := [], decls := [.varDecl "x" (.variable "y") true none none] }

def progArity : Program :=
  { lang := "kotlin", context := [],
    decls := [.funcDecl "f" [.paramDecl "a" (.simple "Int" []) false none] none none none false false [] 1,
              .varDecl "x" (.call "f" [] none [] false false) true none none] }

def progJavaCapture : Program :=
  { lang := "java", context := [],
    decls := [.funcDecl "f" [] none none
      (some (.block [.varDecl "v" (.intC "1" none) false none none,
                     .varDecl "l" (.lambda "l" [] none (.variable "v") none) true none none] true)) false false [] 1] }

example : closedCheck progOk ["val", "fun"] = .ok := by decide
example : Closed progOk ["val", "fun"] := closed_sound _ _ (by decide)
example : closedCheck progOk ["f"] = .error "/func:f" "reserved-identifier:f" := by decide
example : closedCheck progAssignFinal [] = .error "/func:f/assign:x" "assign-final:x" := by decide
example : ¬ Closed progAssignFinal [] := fun h => by have := closed_complete _ _ h; revert this; decide
example : closedCheck progUnresolved [] = .error "/var:x/variable:y" "unresolved-variable:y" := by decide
example : closedCheck progArity [] = .error "/var:x/call:f" "arity:function:f:0" := by decide
example : closedCheck progJavaCapture [] = .error "/func:f/var:l/lambda/variable:v" "java-lambda-captures-nonfinal:v" := by decide
example : closedCheck { progJavaCapture with lang := "kotlin" } [] = .ok := by decide

/-! ## Java: what a lambda / nested function may capture (javac's reading: effectively final) -/

/-- acceptance by `captureCheck` implies the capture rule: at every site inside a Java lambda or nested function, a
    referenced (or called) local of an enclosing function body is declared `final` or is never assigned anywhere, and no
    assignment targets such a local — every program -/
theorem capture_sound (p : Program) : captureCheck p = .ok → CapturesOK p := Heph.Capture.capture_sound p

/-- and `captureCheck` rejects no program that satisfies the rule -/
theorem capture_complete (p : Program) : CapturesOK p → captureCheck p = .ok := Heph.Capture.capture_complete p

/-- a rejection names a site of the program that breaks the rule -/
theorem captureCheck_error (p : Program) (path why : String) :
    captureCheck p = .error path why →
    ∃ s ∈ programSites p, s.path = path ∧ ¬ CaptureOK (assignedNames (programSites p)) s.env s.use :=
  Heph.Capture.captureCheck_error p path why

/-- the generator's rule (`_inside_java_lambda`: only parameters and `final` locals are captured, nothing outside the
    lambda is assigned — the clauses of `Closed`) implies javac's, as long as no assigned name is a parameter's -/
theorem closed_capturesOK (p : Program) (kw : List String) (hc : Closed p kw)
    (hparams : ∀ s ∈ programSites p, ∀ x, ∀ r, (visibleVars s.env x).head? = some r → isParamDecl r.decl = true →
      declName r.decl ∉ assignedNames (programSites p)) : CapturesOK p :=
  Heph.Capture.closed_capturesOK p kw hc hparams

/-- `f` declares `var v`, `val w`; the lambda reads `v`; a second lambda nested in a nested function assigns `v` -/
def progJavaReassigned : Program :=
  { lang := "java", context := [],
    decls := [.funcDecl "f" [] none none
      (some (.block [.varDecl "v" (.intC "1" none) false none none,
                     .varDecl "w" (.intC "2" none) true none none,
                     .varDecl "l" (.lambda "l" [] none (.variable "v") none) true none none,
                     .assign "v" (.variable "w") none] true)) false false [] 1] }

def progJavaAssignInLambda : Program :=
  { lang := "java", context := [],
    decls := [.funcDecl "f" [.paramDecl "a" (.simple "Int" []) false none] none none
      (some (.block [.varDecl "v" (.intC "1" none) false none none,
                     .funcDecl "g" [] none none
                       (some (.block [.varDecl "k" (.lambda "k" [] none (.variable "a") none) true none none,
                                      .assign "v" (.intC "3" none) none] true)) false false [] 1] true))
      false false [] 1] }

/-- the two readings differ exactly on a non-final local that is never re-assigned: the generator's rule rejects it
    (`closedCheck`, above), javac's accepts it -/
example : captureCheck progJavaCapture = .ok := by decide
example : CapturesOK progJavaCapture := capture_sound _ (by decide)
/-- … and once the local is re-assigned (anywhere) the read inside the lambda is an error -/
example : captureCheck progJavaReassigned
    = .error "/func:f/var:l/lambda/variable:v" "java-lambda-reads-reassigned-local:v" := by decide
example : ¬ CapturesOK progJavaReassigned := fun h => by have := capture_complete _ h; revert this; decide
/-- an assignment inside a nested function (after a lambda in it was finished) to a local of the enclosing function -/
example : captureCheck progJavaAssignInLambda
    = .error "/func:f/func:g/assign:v" "java-lambda-assigns-captured-local:v" := by decide
/-- the rule is Java's only -/
example : captureCheck { progJavaAssignInLambda with lang := "kotlin" } = .ok := by decide
/-- the hypotheses of `closed_capturesOK` are satisfiable by a program with a capture: `progOk` in Java, its function
    nested so that the parameter `a` … is read across no boundary; and a Java program capturing a `final` local -/
def progJavaFinalCapture : Program :=
  { lang := "java", context := [],
    decls := [.funcDecl "f" [.paramDecl "a" (.simple "Int" []) false none] none none
      (some (.block [.varDecl "w" (.intC "2" none) true none none,
                     .varDecl "u" (.intC "2" none) false none none,
                     .varDecl "l" (.lambda "l" [] none (.binop "arith" (.variable "w") (.variable "a") "+") none) true none none,
                     .assign "u" (.variable "w") none] true)) false false [] 1] }
example : closedCheck progJavaFinalCapture [] = .ok ∧ captureCheck progJavaFinalCapture = .ok := by decide

/-! ## the assignment filter -/

/-- `_get_assignable_vars`: every candidate is non-final, is justified by a variable of the context (a `var`, or a
    non-final field of the class of a searched variable), and inside a Java lambda there is none -/
theorem assignableVars_nonfinal (insideJavaLambda : Bool) (vs : List VarInfo) (cs : List Cand) :
    assignableVars insideJavaLambda vs = some cs →
    ∀ c ∈ cs, c.isFinal = false ∧ insideJavaLambda = false ∧ Justified vs c :=
  assignableVars_spec insideJavaLambda vs cs

example : assignableVars false
    [⟨"a", some false, true, none⟩, ⟨"b", some true, true, some [("f", false), ("g", true)]⟩, ⟨"p", none, false, none⟩]
    = some [⟨none, "a", false⟩, ⟨some "b", "f", false⟩] := by decide
example : assignableVars true [⟨"a", some false, true, none⟩] = some [] := by decide
example : assignableVars false [⟨"b", some true, true, none⟩] = none := by decide

/-! ## the identifier pool -/

/-- over any history of draws since the pool was (re)set, `word()` returns what `choice` picked, pairwise distinct
    words of the pool, none of which is in the pool afterwards -/
theorem word_fresh (p p' : Pool) (cs rs : List String) (h : p.draws cs = some (rs, p')) :
    rs = cs ∧ rs.Nodup ∧ (∀ r ∈ rs, r ∈ p.words) ∧ (∀ r ∈ rs, r ∉ p'.words) :=
  let ⟨a, b, c, d, _, _⟩ := draws_spec cs p p' rs h
  ⟨a, b, c, d⟩

/-- identifiers of one program are globally distinct: built in whatever modes from the draws of one history over
    a lower-case pool, equal identifiers come from the same draw -/
theorem identifiers_distinct (p p' : Pool) (cs rs : List String) (hl : ∀ w ∈ p.words, IsLowerWord w)
    (h : p.draws cs = some (rs, p')) (mode : Nat → Mode) (i j : Nat) (hi : i < rs.length) (hj : j < rs.length)
    (heq : genIdentifier (mode i) rs[i] = genIdentifier (mode j) rs[j]) : i = j :=
  Heph.Pool.identifiers_distinct hl h mode i j hi hj heq

/-- `caps` only answers a sample outside the blacklist -/
theorem caps_not_blacklisted (samples blacklist : List String) (s : String) (h : caps samples blacklist = some s) :
    s ∈ samples ∧ s ∉ blacklist := caps_spec h

example : (Pool.draws ⟨["ab", "cd", "ef"], ["ab", "cd", "ef"]⟩ ["cd", "ab"]).map (·.1) = some ["cd", "ab"] := by decide
example : Pool.draws ⟨["ab", "cd"], ["ab", "cd"]⟩ ["cd", "cd"] = none := by decide
example : ∀ w ∈ collisionWords, IsLowerWord w := by decide
example : caps ["T", "K"] ["T"] = some "K" := by decide
/-- the lower-case hypothesis is needed: on a mixed-case pool two draws may give one identifier -/
example : genIdentifier .capitalize "ab" = genIdentifier .capitalize "Ab" := by decide

/-! ## identifiers are never reserved words -/

/-- what `harness/regen_c05.py` establishes about `src/resources/words` (TRUSTED): every entry is lower-case ASCII,
    and `collisionWords` lists every entry that equals a keyword of some language up to case -/
structure WordFileFacts (ws : List String) : Prop where
  lowerCase : ∀ w ∈ ws, IsLowerWord w
  collisions : ∀ w ∈ ws, ∀ l ∈ languages, lower w ∈ (keywordsOf l).map lower → w ∈ collisionWords

/-- **C05, identifiers, full strength** for the removal variant `fixed`: whatever part `pool` of the word file
    `RandomUtils` sampled, for every language, a word that survives `remove_reserved_words(language)` yields in no
    mode of `gen_identifier` a keyword of that language -/
def identifier_not_reserved (fixed : Bool) : Prop :=
  ∀ ws, WordFileFacts ws → ∀ pool, (∀ w ∈ pool, w ∈ ws) → ∀ l ∈ languages,
    ∀ w ∈ removeReservedVariant fixed pool (keywordsOf l), ∀ m, genIdentifier m w ∉ keywordsOf l

theorem mem_variant_iff {b : Bool} {pool kw : List String} {w : String} :
    w ∈ removeReservedVariant b pool kw ↔ w ∈ pool ∧ w ∈ removeReservedVariant b [w] kw := by
  cases b <;> simp [removeReservedVariant, removeReserved, removeReservedFixed, List.mem_filter]

/-- either variant: the full statement follows from one evaluation on the regenerated tables -/
theorem identifier_not_reserved_of_table (fixed : Bool) (h : tableClean fixed = true) : identifier_not_reserved fixed := by
  intro ws facts pool hsub l hl w hw m hin
  have hcoll : w ∈ collisionWords :=
    facts.collisions w (hsub w (mem_pool_of_mem_variant hw)) l hl (lower_mem_of_reserved hin)
  have hw2 : w ∈ removeReservedVariant fixed collisionWords (keywordsOf l) :=
    mem_variant_iff.mpr ⟨hcoll, (mem_variant_iff.mp hw).2⟩
  simp only [tableClean, List.all_eq_true] at h
  have := h l hl w hw2 m (by cases m <;> simp [Mode.all])
  simp at this
  exact this hin

/-- the repaired (case-insensitive) removal satisfies the full statement — for any keyword tables -/
theorem identifier_not_reserved_fixed : identifier_not_reserved true := by
  intro ws _ pool _ l _ w hw m
  exact not_reserved_of_fixed pool (keywordsOf l) w m hw

/-- the same by evaluation of the regenerated tables (the route available to either variant) -/
theorem identifier_not_reserved_fixed_by_table : identifier_not_reserved true :=
  identifier_not_reserved_of_table true (by decide +kernel)

/-- the facts hold of `collisionWords` itself (the witness pool of the counterexample is part of the word file) -/
theorem collisionWords_facts : WordFileFacts collisionWords :=
  ⟨by decide +kernel, fun w hw _ _ _ => hw⟩

/-- **the code as it is violates the full statement**: Groovy, the word `math` survives the case-sensitive removal
    and `gen_identifier('capitalize')` (class names) makes `Math` of it, a Groovy reserved word -/
theorem identifier_not_reserved_counterexample : ¬ identifier_not_reserved false := by
  intro h
  have := h collisionWords collisionWords_facts ["math"] (by decide) "groovy" (by decide) "math" (by decide) .capitalize
  exact this (by decide)

/-- exactly four: Groovy class names `Date`, `Exception`, `Math`, `Set` (DESIGN section 6, finding 4) -/
theorem reserved_collisions_current : reservedCollisions false =
    [("groovy", "date", "Date"), ("groovy", "exception", "Exception"), ("groovy", "math", "Math"),
     ("groovy", "set", "Set")] := by decide +kernel

theorem reserved_collisions_fixed : reservedCollisions true = [] := by decide +kernel

/-- the full statement holds of a variant exactly when it is the repaired one (on the regenerated tables) -/
theorem identifier_not_reserved_iff (fixed : Bool) : identifier_not_reserved fixed ↔ fixed = true := by
  cases fixed
  · simp [identifier_not_reserved_counterexample]
  · simp [identifier_not_reserved_fixed]

/-- the statement about the code under test: `Pool.codeIsFixed` says which removal `/repo` implements (the harness
    checks that it does); C05's identifier clause holds of the code iff that switch is `true` -/
theorem identifier_not_reserved_status : identifier_not_reserved codeIsFixed ↔ codeIsFixed = true :=
  identifier_not_reserved_iff codeIsFixed

/-- **the identifier clause of C05 holds of the code under test** (`codeIsFixed = true` since `fix:` 656374e; the
    harness checks on every run that the tree implements this variant) -/
theorem identifier_not_reserved_current : identifier_not_reserved codeIsFixed :=
  identifier_not_reserved_status.mpr rfl

end Heph.Props.C05
