import Heph.Model.Switches
import Heph.Proofs.SwitchesBasic
import Heph.Proofs.InstArgVariance
/-!
# C17 — generation switches are honoured (*partial*)

Property: with use-site variance disabled no generated program contains a use-site projected
type argument anywhere; with use-site contravariance disabled none contains a contravariant
projection; with bounded type parameters disabled no type parameter has a bound; with
parameterized functions disabled no function declares type parameters.  Programs for languages
without declaration-site variance never declare variant type parameters, and function type
parameters are never variant.

What is proved here (about the models of `Model/Switches.lean` and `Model/Inst.lean`, tied to
the code by the correspondence runs of `harness/check_C17.py`):

* **decision functions** — the places where the generator *decides* on a projection, a bound, a
  type-parameter list or a declared variance obey the switches for every draw of the random
  number generator: `argVariance_disabled_variance`, `argVariance_disabled_contravariance`,
  `no_bound_at_zero` (+ `drawBool_zero`, `no_bound_when_disabled`), `no_func_type_params_at_zero`,
  `func_type_params_invariant`, `class_type_params_invariant`.
* **`switchesOK_spec`** — the executable predicate that the harness evaluates on every generated
  program is *equivalent* to the property's own wording over every sub-term of every type
  occurrence of every node (`progNodes`, `progTypes`, `Ty.subterms`); `progNodes_reach` shows that
  `progNodes` are exactly the nodes reachable from the top-level declarations.

What is **not** proved (hence *partial*): that every projection / bound / type-parameter list of a
generated program originates from one of the modelled decision functions.  It does not:
`ParameterizedType.to_type_variable_free` (called by `TypeParameter.get_bound_rec`) creates star
and `out` projections regardless of the switches (finding 12); `switchesOK` finds them, the
harness re-derives the creating call site.  `switches_honoured` is the full statement.
-/
namespace Heph.Props.C17
open Heph Heph.Ty Heph.Switches Heph.Inst

/-! ## 1. The decision functions -/

/-- with `cfg.dis.use_site_variance` set, `_get_type_arg_variance` can only answer `Invariant`,
    whatever the caller's variance choices, the parameter and the other parameters are -/
theorem argVariance_disabled_variance (dis : Dis) (tparam : Ty) (vc : Option VChoices) (later : List Bool)
    (h : dis.useSiteVariance = true) : ∀ v ∈ argVariance dis tparam vc later, v = 0 := by
  intro v hv
  rcases (mem_argVariance dis tparam vc later v).1 hv with h0 | ⟨m, _, _, hd, _⟩
  · exact h0
  · rw [h] at hd; cases hd

/-- with `cfg.dis.use_site_contravariance` set, `_get_type_arg_variance` never answers `Contravariant` -/
theorem argVariance_disabled_contravariance (dis : Dis) (tparam : Ty) (vc : Option VChoices) (later : List Bool)
    (h : dis.useSiteContravariance = true) : 2 ∉ argVariance dis tparam vc later := by
  intro hv
  rcases (mem_argVariance dis tparam vc later 2).1 hv with h0 | ⟨m, _, _, _, h1 | ⟨_, _, hc, _⟩⟩
  · cases h0
  · cases h1.1
  · rw [h] at hc; cases hc

/-- the hypotheses are satisfiable and the statements are not vacuous: with the switches off the
    same call may project in both directions -/
example : argVariance ⟨false, false⟩ (tparam "T" 0 none) (some []) [false] = [0, 1, 2] := by decide
example : argVariance ⟨true, false⟩ (tparam "T" 0 none) (some []) [false] = [0] := by decide
example : argVariance ⟨false, true⟩ (tparam "T" 0 none) (some []) [false] = [0, 1] := by decide

/-- `random() < 0` is impossible: a draw against probability zero fails.  (The draw is the
    rational `r.num / r.den`; the statement needs no assumption on it at all, in particular it
    holds on the whole interval `[0, 1)` that `Random.random` returns.) -/
theorem drawBool_zero (r : Draw) (p : Prob) (h : p.num = 0) : drawBool r p = false := by
  simp [drawBool, h]

/-- conversely a draw from `[0,1)` against probability one succeeds: the draw is not constant -/
theorem drawBool_one (r : Draw) (hr : r.Valid) : drawBool r ⟨1, 1⟩ = true := by
  simp only [drawBool, Draw.Valid] at *
  simpa using hr

/-- **`p = 0 → no bound`**: when `cfg.prob.bounded_type_parameters = 0`, `gen_type_params`
    generates no bound, for every draw -/
theorem no_bound_at_zero (withVariance : Bool) (p : Prob) (rVar rBound : Draw) (h : p.num = 0) :
    (genTypeParamFlags withVariance p rVar rBound).2 = false := by
  simp [genTypeParamFlags, drawBool_zero _ _ h]

/-- … and `--disable-bounded-type-parameters` sets exactly that probability -/
theorem no_bound_when_disabled (cfg : Cfg) (withVariance : Bool) (rVar rBound : Draw)
    (h : cfg.noBounded = true) : (genTypeParamFlags withVariance cfg.pBounded rVar rBound).2 = false :=
  no_bound_at_zero _ _ _ _ (by simp [Cfg.pBounded, h])

example : (genTypeParamFlags true (Cfg.pBounded ⟨false, false, false, false⟩) ⟨1, 4⟩ ⟨1, 4⟩) = ([0, 1, 2], true) := by
  decide

/-- with `cfg.prob.parameterized_functions = 0` (`--disable-parameterized-functions`)
    `gen_func_decl` never calls `gen_type_params`: the function generates no type parameters -/
theorem no_func_type_params_at_zero (nested given : Bool) (pFunc pBounded : Prob) (r : Draw)
    (draws : List (Draw × Draw)) (h : pFunc.num = 0) :
    funcTypeParamFlags nested given pFunc pBounded r draws = [] := by
  simp [funcTypeParamFlags, funcGenTypeParams, drawBool_zero _ _ h]

theorem no_func_type_params_when_disabled (cfg : Cfg) (nested given : Bool) (r : Draw)
    (draws : List (Draw × Draw)) (h : cfg.noParamFuncs = true) :
    funcTypeParamFlags nested given cfg.pParamFuncs cfg.pBounded r draws = [] :=
  no_func_type_params_at_zero _ _ _ _ _ _ (by simp [Cfg.pParamFuncs, h])

/-- **function type parameters are never variant**: whatever is drawn, every type parameter a
    function declaration generates for itself is declared invariant -/
theorem func_type_params_invariant (nested given : Bool) (pFunc pBounded : Prob) (r : Draw)
    (draws : List (Draw × Draw)) :
    ∀ f ∈ funcTypeParamFlags nested given pFunc pBounded r draws, f.1 = [0] := by
  intro f hf
  unfold funcTypeParamFlags at hf
  cases hg : funcGenTypeParams nested given pFunc r with
  | none => rw [hg] at hf; cases hf
  | some wv =>
    rw [hg] at hf
    have hwv : wv = false := by
      unfold funcGenTypeParams at hg
      split at hg
      · cases hg
      · split at hg
        · cases hg
        · split at hg
          · exact (Option.some.inj hg).symm
          · cases hg
    subst hwv
    obtain ⟨d, _, rfl⟩ := List.mem_map.1 hf
    simp [genTypeParamFlags]

example : funcTypeParamFlags false false (Cfg.pParamFuncs ⟨false, false, false, false⟩) ⟨1, 2⟩ ⟨1, 10⟩
    [(⟨0, 1⟩, ⟨1, 4⟩), (⟨0, 1⟩, ⟨3, 4⟩)] = [([0], true), ([0], false)] := by decide

/-- **no declaration-site variance for Java/Groovy**: class type parameters get
    `with_variance = language in ['kotlin', 'scala']`; without it the declared variance is invariant -/
theorem class_type_params_invariant (lang : String) (p : Prob) (rVar rBound : Draw)
    (h : langHasDeclVariance lang = false) :
    (genTypeParamFlags (langHasDeclVariance lang) p rVar rBound).1 = [0] := by
  simp [genTypeParamFlags, h]

example : langHasDeclVariance "java" = false ∧ langHasDeclVariance "groovy" = false ∧
    langHasDeclVariance "kotlin" = true ∧ langHasDeclVariance "scala" = true := by decide

/-! ## 2. The program-level predicate means what the property says -/

/-- the nodes `switchesOK` visits are exactly the nodes reachable from a top-level declaration
    by child steps (`children` lists the node-valued attributes of each AST class) -/
theorem progNodes_reach (p : Program) (n : Node) : n ∈ progNodes p ↔ ∃ d ∈ p.decls, Reach d n := by
  simp only [progNodes, mem_subnodesL, mem_subnodes_iff_reach]

/-- the types `switchesOK` visits are exactly the types stored in those nodes -/
theorem progTypes_iff (p : Program) (t : Ty) : t ∈ progTypes p ↔ ∃ n ∈ progNodes p, t ∈ nodeTypes n := by
  simp [progTypes, List.mem_flatMap]

/-- the wording of the property, over every sub-term of every type occurrence and every declaration -/
structure Honoured (cfg : Cfg) (lang : String) (p : Program) : Prop where
  /-- use-site variance disabled: no projection (`out`, `in`, star) anywhere -/
  noProjection : cfg.noUseSite = true → ∀ t ∈ progTypes p, ∀ s ∈ subterms t, isWild s = false
  /-- use-site contravariance disabled: no contravariant projection anywhere -/
  noContra : cfg.noContra = true → ∀ t ∈ progTypes p, ∀ s ∈ subterms t, ∀ bd, s ≠ wild 2 bd
  /-- bounded type parameters disabled: no type parameter (declared or referred to) has a bound -/
  noBound : cfg.noBounded = true → ∀ t ∈ progTypes p, ∀ s ∈ subterms t, ∀ nm v bd, s = tparam nm v bd → bd = none
  /-- parameterized functions disabled: no function declares type parameters -/
  noFuncTParams : cfg.noParamFuncs = true →
    ∀ n ∈ progNodes p, ∀ nm ps rt it b fin ov tps ft, n = Node.funcDecl nm ps rt it b fin ov tps ft → tps = []
  /-- no declaration-site variance in Java and Groovy -/
  classInvariant : langHasDeclVariance lang = false →
    ∀ n ∈ progNodes p, ∀ nm ct fin fs ss fns tps, n = Node.classDecl nm ct fin fs ss fns tps →
      ∀ t ∈ tps, variance t = 0
  /-- function type parameters are never variant -/
  funcInvariant :
    ∀ n ∈ progNodes p, ∀ nm ps rt it b fin ov tps ft, n = Node.funcDecl nm ps rt it b fin ov tps ft →
      ∀ t ∈ tps, variance t = 0

theorem tyLocalOK_iff (cfg : Cfg) (s : Ty) : tyLocalOK cfg s = true ↔
    (cfg.noUseSite = true → isWild s = false) ∧ (cfg.noContra = true → ∀ bd, s ≠ wild 2 bd) ∧
    (cfg.noBounded = true → ∀ nm v bd, s = tparam nm v bd → bd = none) := by
  cases s with
  | wild v bd =>
    simp only [tyLocalOK, isWild, Bool.and_eq_true, Bool.not_eq_true', Bool.and_eq_false_iff]
    constructor
    · rintro ⟨h1, h2⟩
      refine ⟨fun hc => (by rw [hc] at h1; cases h1), ?_, (by intros; contradiction)⟩
      intro hc bd' he
      cases he
      rcases h2 with h2 | h2
      · rw [hc] at h2; cases h2
      · simp at h2
    · rintro ⟨h1, h2, _⟩
      refine ⟨?_, ?_⟩
      · cases hc : cfg.noUseSite
        · rfl
        · exact absurd (h1 hc) (by simp)
      · cases hc : cfg.noContra
        · left; rfl
        · right
          by_cases hv : v = 2
          · subst hv; exact absurd rfl (h2 hc bd)
          · simpa using hv
  | tparam nm v bd =>
    simp only [tyLocalOK, isWild, Bool.or_eq_true, Bool.not_eq_true']
    constructor
    · intro h
      refine ⟨fun _ => (by simp), (by intro _ _ he; cases he), ?_⟩
      intro hc nm' v' bd' he
      cases he
      rcases h with h | h
      · rw [hc] at h; cases h
      · simpa using h
    · rintro ⟨_, _, h⟩
      cases hc : cfg.noBounded
      · left; rfl
      · right; rw [h hc nm v bd rfl]; rfl
  | _ => simp [tyLocalOK, isWild]

theorem declLocalOK_iff (cfg : Cfg) (lang : String) (n : Node) : declLocalOK cfg lang n = true ↔
    (cfg.noParamFuncs = true → ∀ nm ps rt it b fin ov tps ft, n = Node.funcDecl nm ps rt it b fin ov tps ft → tps = []) ∧
    (langHasDeclVariance lang = false → ∀ nm ct fin fs ss fns tps, n = Node.classDecl nm ct fin fs ss fns tps →
      ∀ t ∈ tps, variance t = 0) ∧
    (∀ nm ps rt it b fin ov tps ft, n = Node.funcDecl nm ps rt it b fin ov tps ft → ∀ t ∈ tps, variance t = 0) := by
  cases n with
  | classDecl nm ct fin fs ss fns tps =>
    simp only [declLocalOK, Bool.or_eq_true, List.all_eq_true, beq_iff_eq]
    constructor
    · intro h
      refine ⟨(by intros; contradiction), ?_, (by intros; contradiction)⟩
      intro hl nm' ct' fin' fs' ss' fns' tps' he t ht
      cases he
      rcases h with h | h
      · rw [hl] at h; cases h
      · exact h t ht
    · rintro ⟨_, h, _⟩
      cases hl : langHasDeclVariance lang
      · right; intro t ht; exact h hl _ _ _ _ _ _ _ rfl t ht
      · left; rfl
  | funcDecl nm ps rt it b fin ov tps ft =>
    simp only [declLocalOK, Bool.and_eq_true, Bool.or_eq_true, Bool.not_eq_true', List.all_eq_true, beq_iff_eq,
      List.isEmpty_iff]
    constructor
    · rintro ⟨h1, h2⟩
      refine ⟨?_, (by intros; contradiction), ?_⟩
      · intro hc nm' ps' rt' it' b' fin' ov' tps' ft' he
        cases he
        rcases h1 with h1 | h1
        · rw [hc] at h1; cases h1
        · exact h1
      · intro nm' ps' rt' it' b' fin' ov' tps' ft' he t ht
        cases he
        exact h2 t ht
    · rintro ⟨h1, _, h3⟩
      refine ⟨?_, fun t ht => h3 _ _ _ _ _ _ _ _ _ rfl t ht⟩
      cases hc : cfg.noParamFuncs
      · left; rfl
      · right; exact h1 hc _ _ _ _ _ _ _ _ _ rfl
  | _ => simp [declLocalOK]

/-- **`switchesOK_spec`**: the executable predicate holds exactly when the program honours the
    switches in the sense of the property -/
theorem switchesOK_spec (cfg : Cfg) (lang : String) (p : Program) :
    switchesOK cfg lang p = true ↔ Honoured cfg lang p := by
  simp only [switchesOK, nodeOK, tyOK, List.all_eq_true, Bool.and_eq_true, tyLocalOK_iff, declLocalOK_iff]
  constructor
  · intro h
    refine ⟨?_, ?_, ?_, ?_, ?_, ?_⟩
    · intro hc t ht s hs
      obtain ⟨n, hn, htn⟩ := (progTypes_iff p t).1 ht
      exact ((h n hn).2 t htn s hs).1 hc
    · intro hc t ht s hs
      obtain ⟨n, hn, htn⟩ := (progTypes_iff p t).1 ht
      exact ((h n hn).2 t htn s hs).2.1 hc
    · intro hc t ht s hs
      obtain ⟨n, hn, htn⟩ := (progTypes_iff p t).1 ht
      exact ((h n hn).2 t htn s hs).2.2 hc
    · intro hc n hn; exact (h n hn).1.1 hc
    · intro hc n hn; exact (h n hn).1.2.1 hc
    · intro n hn; exact (h n hn).1.2.2
  · intro h n hn
    refine ⟨⟨fun hc => h.noFuncTParams hc n hn, fun hc => h.classInvariant hc n hn, h.funcInvariant n hn⟩, ?_⟩
    intro t htn s hs
    have ht := (progTypes_iff p t).2 ⟨n, hn, htn⟩
    exact ⟨fun hc => h.noProjection hc t ht s hs, fun hc => h.noContra hc t ht s hs,
      fun hc => h.noBound hc t ht s hs⟩

/-- the full property: every program the generator can produce honours the switches.  Not a
    theorem: finding 12 (`to_type_variable_free` creates star projections inside type-parameter
    bounds although use-site variance is disabled).  The witnessing shape is
    `switches_honoured_counterexample_shape`; the harness re-derives it on the real generator. -/
def switches_honoured (generated : Cfg → String → Program → Prop) : Prop :=
  ∀ cfg lang p, generated cfg lang p → Honoured cfg lang p

/-- a class `class C<T, J : D<T, *>>` as the generator emits it with only
    `--disable-use-site-variance`: the predicate rejects it (a star projection inside a bound) -/
def finding12Shape : Program :=
  let any := Ty.builtin "Any" "Any" false false []
  let tT := Ty.tparam "T" 0 none
  let dcon := Ty.tcon "C" "D" [Ty.tparam "X" 0 none, Ty.tparam "Y" 0 none] [any]
  let bound := Ty.param "D" dcon [any, Ty.wild 0 none] [any]
  { lang := "kotlin",
    decls := [Node.classDecl "C" 0 false [] [] [] [tT, Ty.tparam "J" 0 (some bound)]],
    context := [] }

theorem switches_honoured_counterexample_shape :
    switchesOK ⟨true, false, false, false⟩ "kotlin" finding12Shape = false ∧
    switchesOK ⟨false, false, false, false⟩ "kotlin" finding12Shape = true := by
  decide

/-- non-vacuity of `switchesOK_spec`: programs that are accepted / rejected for each reason -/
example : switchesOK ⟨true, true, true, true⟩ "java"
    { lang := "java", decls := [Node.classDecl "A" 0 false [] [] [] [Ty.tparam "T" 0 none]], context := [] } = true := by
  decide
example : switchesOK ⟨false, false, false, false⟩ "java"
    { lang := "java", decls := [Node.classDecl "A" 0 false [] [] [] [Ty.tparam "T" 1 none]], context := [] } = false := by
  decide
example : switchesOK ⟨false, false, true, false⟩ "kotlin"
    { lang := "kotlin", decls := [Node.classDecl "A" 0 false [] [] [] [Ty.tparam "T" 1 (some Ty.nothing)]], context := [] } = false := by
  decide
example : switchesOK ⟨false, false, false, true⟩ "kotlin"
    { lang := "kotlin", decls := [Node.funcDecl "f" [] none none none false false [Ty.tparam "F_T" 0 none] 1], context := [] } = false := by
  decide

end Heph.Props.C17
