import Heph.Model.Types
import Heph.Model.Subst
import Heph.Spec.Subtyping
import Heph.Proofs.TypesBasic
import Heph.Proofs.TypesSound
import Heph.Proofs.TypesFuel
import Heph.Proofs.TypesMono
import Heph.Proofs.TypesFlat
/-!
# C06 — the subtyping judgement is sound; exactness fails (non-transitivity witness)

Model: `Heph.Ty.isSub` / `isSubtype` (`Model/Types.lean`, `types.py`).  Specification:
`SubT U` / `ContL U` / `Cont U` relative to a universe `U` of types (class table), `ClosedU`,
`Consistent`, and the decidable well-formedness `wf` (`Spec/Subtyping.lean`).

* `isSub_sound` (+ `nominal_sound`, `containedL_sound`, `contained_sound`, `isSubtype_sound`,
  `isSubtype_sound_in`, `assignable_sound`): every positive answer, at every fuel, is derivable
  in `SubT U` for every universe `U` containing the two types.
* `nothing_bot`, `bottomBuiltin_bot`: the bottom types are below everything.
* `isSub_fuel`, `isSubtype_fuel`: the fuel of `isSubtype` never runs out on regular types
  (`reg`); `isSubtype_fuel_counterexample`: on a non-regular type it does (the Python code
  does not terminate there); `isSub_fuel_mono`, `isSub_fuel_indep`, `isSub_eq_isSubtype`: the
  answer does not depend on the fuel.
* `tconIsSub_sound`, `tconIsSub_subT`: a positive answer for a bare type constructor comes from
  a matched element of its supertype closure.
* `isSub_trans_counterexample`, `isSub_trans_false`, `isSub_exact_counterexample`: the code's
  judgement is not transitive, hence not exact, on ground types (finding 6).
* `isSub_exact_partial`, `isSub_trans_partial`: exactness and transitivity for receivers built
  from built-ins and non-generic classes, in a consistent universe; `subT_nontrivial`,
  `subT_trivial_without_universe`: why the relation carries a universe.
* `isSub_refl_partial`, `isSubtype_refl`: reflexivity for regular built-ins, classifiers,
  constructors, instantiations.
-/
namespace Heph.Props.C06
open Heph Heph.Ty

/-! ## 1. Soundness -/

/-- **C06, soundness.** Whenever the type system answers that `s` is a subtype of `t` — with
    any fuel — `s` is a subtype of `t` in the declarative relation of every universe (class
    table) that contains the two types. -/
theorem isSub_sound (U : Ty → Prop) (hU : ClosedU U) (fuel : Nat) (s t : Ty) (us : U s) (ut : U t)
    (hs : wf s = true) (ht : wf t = true) (h : isSub fuel s t = .yes) : SubT U s t :=
  (sound_all hU fuel).1 s t us ut hs ht h

/-- `SimpleClassifier.is_subtype` (the `super().is_subtype` of instantiations) is sound -/
theorem nominal_sound (U : Ty → Prop) (hU : ClosedU U) (fuel : Nat) (s t : Ty) (us : U s) (ut : U t)
    (hs : wf s = true) (ht : wf t = true) (h : nominal fuel s t = .yes) : SubT U s t :=
  (sound_all hU fuel).2.1 s t us ut hs ht h

/-- the argument loop of `ParameterizedType.is_subtype` only accepts contained argument lists;
    `projOK tps as` is the part of `wf (param _ con as _)` that concerns `tps = conParams con` -/
theorem containedL_sound (U : Ty → Prop) (hU : ClosedU U) (fuel : Nat) (tps as bs : List Ty)
    (ua : ∀ a ∈ as, U a) (ub : ∀ b ∈ bs, U b) (ha : wfL as = true) (hb : wfL bs = true)
    (hp : projOK tps as = true) (h : containedL fuel tps as bs = .yes) : ContL U tps as bs :=
  (sound_all hU fuel).2.2.1 tps as bs ua ub ha hb hp h

/-- `_is_type_arg_contained` is sound: a reversed variance or an ignored bound is never accepted -/
theorem contained_sound (U : Ty → Prop) (hU : ClosedU U) (fuel : Nat) (a b tp : Ty) (ua : U a)
    (ub : U b) (ha : wf a = true) (hb : wf b = true) (hp : projOK1 tp a = true)
    (h : contained fuel a b tp = .yes) : Cont U tp a b :=
  (sound_all hU fuel).2.2.2 a b tp ua ub ha hb hp h

/-- soundness of the top-level `s.is_subtype(t)`, in the least universe of the two types
    (hence, by `SubT.mono`, in every universe that contains them) -/
theorem isSubtype_sound (s t : Ty) (hs : wf s = true) (ht : wf t = true)
    (h : isSubtype s t = .yes) : SubT (univ [s, t]) s t :=
  isSub_sound _ (closedU_univ [s, t]) _ s t (univ_mem (by simp)) (univ_mem (by simp)) hs ht h

theorem isSubtype_sound_in (U : Ty → Prop) (hU : ClosedU U) (s t : Ty) (us : U s) (ut : U t)
    (hs : wf s = true) (ht : wf t = true) (h : isSubtype s t = .yes) : SubT U s t :=
  isSub_sound U hU _ s t us ut hs ht h

/-- `is_assignable` answers yes only for declarative subtypes, for a pair of the regenerated
    numeric widening table (`Short` to `Integer`, …: both built-ins), or for two Java arrays
    of the same primitive element type. -/
theorem assignable_sound (extra : List (String × String)) (s t : Ty) (hs : wf s = true)
    (ht : wf t = true) (h : isAssignable extra s t = .yes) :
    SubT (univ [s, t]) s t ∨
    (∃ c nm nt p ss c' nm' nt' p' ss', s = builtin c nm nt p ss ∧ t = builtin c' nm' nt' p' ss' ∧
      (c, c') ∈ extra) ∨
    (∃ nm con a as ss nm' con' b bs ss', s = param nm con (a :: as) ss ∧
      t = param nm' con' (b :: bs) ss' ∧ isJavaArrayCon con = true ∧ isJavaArrayCon con' = true ∧
      beq a b = true ∧ a.isPrim = true ∧ b.isPrim = true) := by
  unfold isAssignable at h
  split at h
  · -- built-in receiver
    split at h
    · split at h
      · rename_i c _ _ _ _ _ c' _ _ _ _
        have h := ofBool_yes h
        rw [List.any_eq_true] at h
        obtain ⟨⟨p1, p2⟩, hmem, hp⟩ := h
        simp only [Bool.and_eq_true, beq_iff_eq] at hp
        obtain ⟨rfl, rfl⟩ := hp
        exact Or.inr (Or.inl ⟨_, _, _, _, _, _, _, _, _, _, rfl, rfl, hmem⟩)
      · cases h
    · rename_i hne
      exact Or.inl (isSubtype_sound _ _ hs ht h)
  · split at h
    · split at h
      · rename_i hc
        have h := ofBool_yes h
        simp only [Bool.and_eq_true] at h hc
        exact Or.inr (Or.inr ⟨_, _, _, _, _, _, _, _, _, _, rfl, rfl, hc.1.1, hc.1.2, h.1.1, h.1.2, h.2⟩)
      · exact Or.inl (isSubtype_sound _ _ hs ht h)
    · exact Or.inl (isSubtype_sound _ _ hs ht h)
  · exact Or.inl (isSubtype_sound _ _ hs ht h)

/-! ## 2. Bottom types and fuel adequacy -/

/-- the bottom type is below every type (for every positive fuel) -/
theorem nothing_bot (f : Nat) (t : Ty) : isSub (f + 1) .nothing t = .yes := by
  simp [isSub]

/-- the languages' bottom built-ins (`Nothing` of Kotlin, …: `is_subtype` overridden to
    `return True`) are below every type -/
theorem bottomBuiltin_bot (f : Nat) (c nm : String) (p : Bool) (ss : List Ty) (t : Ty) :
    isSub (f + 1) (builtin c nm true p ss) t = .yes := by
  simp [isSub]

theorem isSubtype_nothing (t : Ty) : isSubtype .nothing t = .yes := by
  simp [isSubtype, fuelFor, isSub]

/-- **fuel adequacy**, general form: on regular types (every instantiation node carries a
    type constructor — true of every object `types.py` can build) a fuel of
    `2 * (size s + size t) + 2` or more never runs out -/
theorem isSub_fuel (f : Nat) (s t : Ty) (hs : reg s = true) (ht : reg t = true)
    (hf : 2 * (size s + size t) + 2 ≤ f) : isSub f s t ≠ .fuel :=
  (fuel_all f).1 s t hs ht hf

/-- the fuel chosen by `isSubtype` suffices -/
theorem isSubtype_fuel (s t : Ty) (hs : reg s = true) (ht : reg t = true) :
    isSubtype s t ≠ .fuel :=
  isSub_fuel _ s t hs ht (Nat.le_refl _)

/-- the unconditional fuel-adequacy statement — false, see `isSubtype_fuel_counterexample` -/
def isSubtype_fuel_all : Prop := ∀ s t, isSubtype s t ≠ .fuel

/-- Regularity cannot be dropped: an instantiation whose `t_constructor` is not a type
    constructor is not `==` to itself, the filter `st != self` of `SimpleClassifier.is_subtype`
    keeps the receiver, and the recursion never ends — the real code would recurse forever
    (`RecursionError`), the model answers `.fuel`.  Such types are never built:
    `ParameterizedType.__init__` deep-copies a `TypeConstructor` (and reads its
    `type_parameters`), so every instantiation node is regular. -/
theorem isSubtype_fuel_counterexample :
    isSubtype (simple "A" [param "P" .nothing [] []]) (simple "B" []) = .fuel := by decide

theorem isSubtype_fuel_all_false : ¬ isSubtype_fuel_all :=
  fun h => h _ _ isSubtype_fuel_counterexample

/-- a definite answer does not change with more fuel -/
theorem isSub_fuel_mono (f k : Nat) (s t : Ty) (h : isSub f s t ≠ .fuel) :
    isSub (f + k) s t = isSub f s t := isSub_mono_add f k s t h

/-- on regular types every fuel from `fuelFor s t` on computes `isSubtype s t`: the model's
    answer does not depend on the constant chosen in `fuelFor` -/
theorem isSub_fuel_indep (f : Nat) (s t : Ty) (hs : reg s = true) (ht : reg t = true)
    (hf : fuelFor s t ≤ f) : isSub f s t = isSubtype s t := by
  obtain ⟨k, rfl⟩ := Nat.exists_eq_add_of_le hf
  exact isSub_mono_add _ k s t (isSubtype_fuel s t hs ht)

/-- a definite answer at any fuel is the answer of `isSubtype` -/
theorem isSub_eq_isSubtype (f : Nat) (s t : Ty) (hs : reg s = true) (ht : reg t = true)
    (h : isSub f s t ≠ .fuel) : isSub f s t = isSubtype s t := by
  rcases Nat.le_total f (fuelFor s t) with hle | hle
  · obtain ⟨k, hk⟩ := Nat.exists_eq_add_of_le hle
    unfold isSubtype
    rw [hk, isSub_mono_add f k s t h]
  · exact isSub_fuel_indep f s t hs ht hle

/-! ## 3. Bare type constructors -/

/-- `TypeConstructor.is_subtype` answers yes only when the other type is `==` to an element
    of the receiver's supertype closure … -/
theorem tconIsSub_sound (f : Nat) (c nm : String) (ps ss : List Ty) (t : Ty)
    (h : isSub (f + 1) (tcon c nm ps ss) t = .yes) :
    ∃ m ∈ closure (tcon c nm ps ss), beq t m = true := by
  simp only [isSub] at h
  split at h
  · cases h
  · rename_i m hfind
    exact ⟨m, List.mem_of_find?_eq_some hfind, by simpa using List.find?_some hfind⟩

/-- … which is a declarative supertype of the constructor (no well-formedness needed) -/
theorem tconIsSub_subT (U : Ty → Prop) (hU : ClosedU U) (f : Nat) (c nm : String)
    (ps ss : List Ty) (t : Ty) (us : U (tcon c nm ps ss))
    (h : isSub (f + 1) (tcon c nm ps ss) t = .yes) : SubT U (tcon c nm ps ss) t := by
  obtain ⟨m, hm, hbeq⟩ := tconIsSub_sound f c nm ps ss t h
  rcases closure_sub hU _ m us hm with rfl | hsub
  · exact SubT.reflR hbeq
  · exact SubT.trans (closedU_closure hU _ m us hm) hsub (SubT.reflR hbeq)

/-! ## 4. Non-vacuity: a concrete class table

```
open class A; class B : A()
class Lst<out T>; class Base<T>; class Inv2<T, U>; class Num<T : A>
class Foo<X> : Base<Lst<X>>()
```
Instances are built with the model of `TypeConstructor.new` (`tconNew`, C07). -/

def anyT : Ty := builtin "<class 'src.ir.kotlin_types.AnyType'>" "Any" false false []
def stringT : Ty := builtin "<class 'src.ir.kotlin_types.StringType'>" "String" false false [anyT]
def ktNothing : Ty := builtin "<class 'src.ir.kotlin_types.NothingType'>" "Nothing" true false []
def tcCls : String := "<class 'src.ir.types.TypeConstructor'>"
def clsA : Ty := simple "A" [anyT]
def clsB : Ty := simple "B" [clsA]
def tX : Ty := tparam "X" 0 none
def lstC : Ty := tcon tcCls "Lst" [tparam "T" 1 none] [anyT]
def sinkC : Ty := tcon tcCls "Sink" [tparam "T" 2 none] [anyT]
def baseC : Ty := tcon tcCls "Base" [tparam "T" 0 none] [anyT]
def pairC : Ty := tcon tcCls "Pair" [tparam "T" 1 none, tparam "U" 1 none] [anyT]
def fooC : Ty := tcon tcCls "Foo" [tX] [tconNew baseC [tconNew lstC [tX]]]
def boundedY : Ty := tparam "Y" 0 (some clsA)

/-- `Foo<String>` -/
def s1 : Ty := tconNew fooC [stringT]
/-- `Foo<out Any>` -/
def s2 : Ty := tconNew fooC [wild 1 (some anyT)]
/-- `Base<Lst<out Any>>` -/
def s3 : Ty := tconNew baseC [tconNew lstC [wild 1 (some anyT)]]

/-- the hypotheses of the soundness theorem hold of the example types -/
example : wf clsB = true ∧ wf (tconNew lstC [clsB]) = true ∧ wf s1 = true ∧ wf s2 = true ∧
    wf s3 = true ∧ wf fooC = true ∧ wf boundedY = true ∧
    wf (tconNew baseC [wild 2 (some clsB)]) = true ∧ wf (tconNew sinkC [clsA]) = true := by decide
example : reg s1 = true ∧ reg s2 = true ∧ reg s3 = true ∧ reg fooC = true := by decide

/-- positive answers: nominal step, declaration-site covariance and contravariance, use-site
    projections, star, supertype of an instantiation, bounded type variable, bare constructor -/
example : isSubtype clsB clsA = .yes := by decide
example : isSubtype clsB anyT = .yes := by decide
example : isSubtype (tconNew lstC [clsB]) (tconNew lstC [clsA]) = .yes := by decide
example : isSubtype (tconNew sinkC [clsA]) (tconNew sinkC [clsB]) = .yes := by decide
example : isSubtype (tconNew baseC [clsB]) (tconNew baseC [wild 1 (some clsA)]) = .yes := by decide
example : isSubtype (tconNew baseC [clsA]) (tconNew baseC [wild 2 (some clsB)]) = .yes := by decide
example : isSubtype (tconNew baseC [clsA]) (tconNew baseC [wild 0 none]) = .yes := by decide
example : isSubtype s1 (tconNew baseC [tconNew lstC [stringT]]) = .yes := by decide
example : isSubtype boundedY clsA = .yes := by decide
example : isSubtype fooC (tconNew baseC [tconNew lstC [tX]]) = .yes := by decide
example : isSubtype ktNothing s3 = .yes := by decide
/-- … and, by the soundness theorem, derivable in the declarative relation -/
example : SubT (univ [tconNew lstC [clsB], tconNew lstC [clsA]]) (tconNew lstC [clsB]) (tconNew lstC [clsA]) :=
  isSubtype_sound _ _ (by decide) (by decide) (by decide)

/-- a reversed variance is answered no: covariant `Lst`, contravariant `Sink`, invariant `Base`,
    reversed use-site projections -/
example : isSubtype (tconNew lstC [clsA]) (tconNew lstC [clsB]) = .no := by decide
example : isSubtype (tconNew sinkC [clsB]) (tconNew sinkC [clsA]) = .no := by decide
example : isSubtype (tconNew baseC [clsB]) (tconNew baseC [clsA]) = .no := by decide
example : isSubtype (tconNew baseC [clsA]) (tconNew baseC [wild 1 (some clsB)]) = .no := by decide
example : isSubtype (tconNew baseC [clsB]) (tconNew baseC [wild 2 (some clsA)]) = .no := by decide
/-- a skipped type argument is answered no: the second argument is checked too -/
example : isSubtype (tconNew pairC [clsB, clsA]) (tconNew pairC [clsA, clsB]) = .no := by decide
example : isSubtype (tconNew pairC [clsB, clsB]) (tconNew pairC [clsA, clsA]) = .yes := by decide
/-- an ignored bound is answered no: a type variable is below its bound only; an unbounded
    one is below nothing, not even a supertype of every class -/
example : isSubtype boundedY clsB = .no := by decide
example : isSubtype boundedY stringT = .no := by decide
example : isSubtype tX anyT = .no := by decide
example : isSubtype (tconNew lstC [boundedY]) (tconNew lstC [clsB]) = .no := by decide

/-! ## 5. Exactness: the full statement is false of the code -/

mutual
/-- types "built from a completed class table using only non-generic classes, built-ins and
    instantiations of generic classes with such types or bounded projections of them": no type
    variables, primitives, star projections, bare constructors -/
def ground : Ty → Bool
  | builtin _ _ _ p ss => !p && groundL ss
  | simple _ ss => groundL ss
  | param _ con as ss => isTCon con && groundArgs as && groundL ss
  | nothing => true
  | _ => false
def groundL : List Ty → Bool
  | [] => true
  | x :: xs => ground x && groundL xs
/-- type arguments: ground types or bounded `out`/`in` projections of ground types -/
def groundArgs : List Ty → Bool
  | [] => true
  | wild v (some b) :: xs => (v == 1 || v == 2) && ground b && groundArgs xs
  | x :: xs => ground x && groundArgs xs
end

/-- **C06, exactness — FULL statement, false of the code** (`isSub_exact_counterexample`): in
    every consistent universe (the types over one completed class table), on well-formed ground
    types the answer coincides with the declarative relation. -/
def isSub_exact : Prop :=
  ∀ (U : Ty → Prop), ClosedU U → Consistent U →
    ∀ s t, U s → U t → wf s = true → wf t = true → ground s = true → ground t = true →
      (isSubtype s t = .yes ↔ SubT U s t)

/-- transitivity of the answers on ground types — FULL statement, false of the code -/
def isSub_trans : Prop :=
  ∀ s u t, wf s = true → wf u = true → wf t = true → ground s = true → ground u = true →
    ground t = true → isSubtype s u = .yes → isSubtype u t = .yes → isSubtype s t = .yes

/-- **Finding 6**, on the model: with `class Foo<X> : Base<Lst<X>>`,
    `Foo<String> <: Foo<out Any>` and `Foo<out Any> <: Base<Lst<out Any>>` are answered yes,
    `Foo<String> <: Base<Lst<out Any>>` is answered no.  (The stored supertype of
    `Foo<String>` is `Base<Lst<String>>`, and `Base` is invariant, so the nested covariance of
    `Lst` is never consulted.)  The harness replays the same three pairs on `types.py`
    (`corpus_pairs` of `check_C06.py`). -/
theorem isSub_trans_counterexample :
    isSubtype s1 s2 = .yes ∧ isSubtype s2 s3 = .yes ∧ isSubtype s1 s3 = .no := by decide

/-- the witness meets every hypothesis of the full statements -/
theorem witness_hyps : wf s1 = true ∧ wf s2 = true ∧ wf s3 = true ∧
    ground s1 = true ∧ ground s2 = true ∧ ground s3 = true := by decide

/-- the universe of the witness (all sub-terms of the three types) is consistent -/
theorem witness_consistent : Consistent (univ [s1, s2, s3]) :=
  consistent_of_consistentL (by decide)

theorem isSub_trans_false : ¬ isSub_trans := by
  intro h
  obtain ⟨w1, w2, w3, g1, g2, g3⟩ := witness_hyps
  obtain ⟨h12, h23, h13⟩ := isSub_trans_counterexample
  have := h s1 s2 s3 w1 w2 w3 g1 g2 g3 h12 h23
  rw [h13] at this
  cases this

/-- the declarative relation does relate the outer pair (by `trans`, through soundness) … -/
theorem witness_subT : SubT (univ [s1, s2, s3]) s1 s3 := by
  obtain ⟨w1, w2, w3, _⟩ := witness_hyps
  obtain ⟨h12, h23, _⟩ := isSub_trans_counterexample
  have hU := closedU_univ [s1, s2, s3]
  have u1 : univ [s1, s2, s3] s1 := univ_mem (by simp)
  have u2 : univ [s1, s2, s3] s2 := univ_mem (by simp)
  have u3 : univ [s1, s2, s3] s3 := univ_mem (by simp)
  exact SubT.trans u2 (isSubtype_sound_in _ hU _ _ u1 u2 w1 w2 h12)
    (isSubtype_sound_in _ hU _ _ u2 u3 w2 w3 h23)

/-- … so the code's judgement is incomplete there: exactness fails -/
theorem isSub_exact_counterexample : ¬ isSub_exact := by
  intro h
  obtain ⟨w1, _, w3, g1, _, g3⟩ := witness_hyps
  have := (h _ (closedU_univ [s1, s2, s3]) witness_consistent s1 s3 (univ_mem (by simp))
    (univ_mem (by simp)) w1 w3 g1 g3).2 witness_subT
  rw [isSub_trans_counterexample.2.2] at this
  cases this

/-- **exactness, the part that holds**: for a receiver built from (non-bottom) built-ins and
    non-generic classes only (`flat`), in a consistent universe, the answer of `is_subtype`
    coincides with the declarative relation — against every well-formed `t` of the universe.
    Missing from the full statement: receivers that are instantiations of generic classes
    (where it is false, `isSub_exact_counterexample`). -/
theorem isSub_exact_partial (U : Ty → Prop) (hU : ClosedU U) (hC : Consistent U) (s t : Ty)
    (us : U s) (ut : U t) (hs : flat s = true) (ht : wf t = true) :
    isSubtype s t = .yes ↔ SubT U s t :=
  (flat_exact hU hC us ut hs ht).symm

/-- hence transitivity of the answers on the non-generic fragment -/
theorem isSub_trans_partial (U : Ty → Prop) (hU : ClosedU U) (hC : Consistent U) (s u t : Ty)
    (us : U s) (uu : U u) (ut : U t) (hs : flat s = true) (hu : flat u = true) (ht : wf t = true)
    (h1 : isSubtype s u = .yes) (h2 : isSubtype u t = .yes) : isSubtype s t = .yes :=
  (isSub_exact_partial U hU hC s t us ut hs ht).2
    (SubT.trans uu ((isSub_exact_partial U hU hC s u us uu hs (flat_wf u hu)).1 h1)
      ((isSub_exact_partial U hU hC u t uu ut hu ht).1 h2))

/-- the declarative relation of a consistent universe is not trivial: `class A : Any` is not
    below `String` (without the universe restriction on `trans` it would be, through a foreign
    copy of `Any`) -/
theorem subT_nontrivial : ¬ SubT (univ [clsA, stringT]) clsA stringT := by
  intro h
  have := (isSub_exact_partial _ (closedU_univ _) (consistent_of_consistentL (by decide))
    clsA stringT (univ_mem (by simp)) (univ_mem (by simp)) (by decide) (by decide)).2 h
  revert this
  decide

/-- a foreign copy of `Any` whose stored supertype is `String` -/
def anyLiar : Ty := builtin "<class 'src.ir.kotlin_types.AnyType'>" "Any" false false [stringT]

/-- … and in the *unrestricted* universe it is: this is why `SubT` carries a universe -/
theorem subT_trivial_without_universe : SubT (fun _ => True) clsA stringT :=
  SubT.trans (u := simple "A" [anyLiar]) trivial (SubT.refl (by decide))
    (SubT.trans (u := anyLiar) trivial (SubT.nominal (by simp [sups])) (SubT.nominal (by simp [sups, anyLiar])))

example : flat clsB = true ∧ flat stringT = true ∧ Consistent (univ [clsB, clsA, stringT]) :=
  ⟨by decide, by decide, consistent_of_consistentL (by decide)⟩

/-! ## 6. Reflexivity (the part that holds) -/

/-- `x == x` on regular types -/
theorem beq_self (s : Ty) (h : reg s = true) : beq s s = true := beq_refl s h

/-- kinds of receivers on which `is_subtype` is reflexive: everything but type variables,
    projections and function types -/
def reflKind : Ty → Bool
  | tparam .. => false
  | wild .. => false
  | ext _ => false
  | _ => true

/-- reflexivity: a regular built-in, classifier, type constructor, instantiation (or the
    bottom type) is a subtype of itself, at every fuel ≥ 2.  Not so for type variables
    (`X.is_subtype(X)` is `False`: only the bound is compared), projections with a variance
    other than `out`, and function types. -/
theorem isSub_refl_partial (f : Nat) (s : Ty) (hr : reg s = true) (hk : reflKind s = true) :
    isSub (f + 2) s s = .yes := by
  have hb := beq_refl s hr
  cases s with
  | nothing => simp [isSub]
  | ext c => simp [reflKind] at hk
  | tparam nm v bd => simp [reflKind] at hk
  | wild v bd => simp [reflKind] at hk
  | builtin c nm nt p ss =>
    simp only [isSub, hb, Bool.true_or, Res.ofBool]
    split <;> rfl
  | simple nm ss => simp only [isSub, nominal, hb, if_true]
  | param nm con as ss => simp only [isSub, nominal, hb, if_true]
  | tcon c nm ps ss =>
    simp only [isSub, closure, List.find?, hb, isParam]
    rfl

theorem isSubtype_refl (s : Ty) (hr : reg s = true) (hk : reflKind s = true) :
    isSubtype s s = .yes := by
  have : fuelFor s s = (2 * (size s + size s)) + 2 := rfl
  unfold isSubtype
  rw [this]
  exact isSub_refl_partial _ s hr hk

example : reg s2 = true ∧ reflKind s2 = true := by decide
/-- `X.is_subtype(X)` is `False` -/
example : isSubtype tX tX = .no := by decide

end Heph.Props.C06
