import Heph.Model.Types
namespace Heph.Props.C06
open Heph Heph.Ty

/-- the bottom type is below every type (for every positive fuel) -/
theorem nothing_bot (f : Nat) (t : Ty) : isSub (f + 1) .nothing t = .yes := by
  simp [isSub]

end Heph.Props.C06
