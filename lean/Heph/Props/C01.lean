import Heph.Spec.Typing
import Heph.Model.CondType
import Heph.Model.GenVar
import Heph.Model.GenFuncRef
import Heph.Model.GenNew
import Heph.Model.GenMatch
import Heph.Model.GenSig
import Heph.Props.C06
import Heph.Proofs.CheckSound
import Heph.Proofs.CheckSubD
import Heph.Proofs.CheckUniv
/-!
# C01 — generated programs are well-typed (the pass oracle) — *partial*

What is proved here is the **verified checker**: a declarative typing judgement `WT`
(`Spec/Typing.lean`, over the declarative assignability `Asg` of `Spec/Assignable.lean`) and the
executable `checkProgram` (`Model/Check.lean`) with

* `check_sound : checkProgram lt p = .ok → WT lt p` — for **all** programs and all language
  tables, no bound;
* `isSubD_sound`, `asg_sound`: the specification-side decider only accepts derivable
  assignabilities; `subT_le_asg`: `Asg` extends the subtype relation `SubT` of C06;
* `wt_*`: the clauses of `WT`, one per kind of typed position (initialiser, function result,
  conditional branches and the separate recorded-type obligation, constructor / call
  arguments, block statements, assignment) — the judgement unfolds along the structure of the
  program exactly as the rules of an inductive judgement would;
* the decision point `gen_conditional`: `condType` models the fold that computes the recorded
  type; `condType_upper` (the recorded type bounds both branches) is **false**
  (`condType_counterexample`, finding 7), `condType_upper_partial` holds when the false-branch
  type is comparable with the other two draws; `condTypeFixed_upper` is the repaired fold of
  `fixes/C01-cond-recorded-type.diff`.

The universal quantifier of the property over seeds, languages and options is **not** proved:
the 2 900-line randomised generator is not modelled.  It is covered through this checker on
every explored generated program (`harness/check_C01.py`) and through the decision-point model.
-/
namespace Heph.Props.C01
open Heph Heph.Ty Heph.Check

/-! ## 1. The verified checker -/

/-- **C01, soundness of the checker**: a program the checker accepts is well-typed in the
    declarative judgement — every initialiser, argument, result, branch, assignment and array
    element is `Asg`-assignable to the type of its position, every type argument within its
    bound, every class obligation met. -/
theorem check_sound (lt : LangTypes) (p : Program) (h : checkProgram lt p = .ok) : WT lt p :=
  check_sound_all lt p h

/-- acceptance is exactly "no obligation fails" (the driver's `fail` list is complete) -/
theorem check_ok_iff (lt : LangTypes) (p : Program) :
    checkProgram lt p = .ok ↔ ∀ o ∈ progObs lt p, o.j.check lt = true :=
  checkProgram_ok_iff lt p

/-- **the decider of the specification side is sound**: whenever `isSubD` answers yes — with any
    fuel — the assignability is derivable in `Asg U`, for every universe closed under sub-terms
    and substitution that contains the two types and the table of boxes. -/
theorem isSubD_sound (U : Ty → Prop) (hU : ClosedU U)
    (hS : ∀ x m, U x → (∀ p ∈ m, U p.2) → U (substituteType x m))
    (B : List Ty) (hB : ∀ b ∈ B, U b) (f : Nat) (s t : Ty) (us : U s) (ut : U t)
    (h : isSubD B f s t = true) : Asg U s t :=
  Ty.isSubD_sound hU hS B hB f s t us ut h

/-- the checker's assignability test, in the universe of the language's built-ins -/
theorem asg_sound (lt : LangTypes) (hT : tableOK lt.builtins = true) (a e : Ty)
    (h : asgB lt a e = true) : AsgP lt a e :=
  asgB_sound lt hT a e h

/-- the universe of a language table is closed under sub-terms and `substitute_type` -/
theorem universe_closed (B : List Ty) :
    ClosedU (goodU B) ∧ ∀ x m, goodU B x → (∀ p ∈ m, goodU B p.2) → goodU B (substituteType x m) :=
  ⟨closedU_goodU B, fun x m hx hm => goodU_subst B x m hx hm⟩

/-- `Asg` extends the declarative subtype relation of C06 -/
theorem subT_le_asg (U : Ty → Prop) (s t : Ty) (h : SubT U s t) : Asg U s t := SubT.toAsg h

/-! ## 2. The clauses of the judgement -/

/-- an expression at a position of (non-void, non-projected) expected type `τ`:
    its type is assignable to `τ` -/
theorem wt_expect (Γ : Env) (π : List String) (e : Node) (τ : Ty) (tag : String)
    (hv : isVoid Γ.lt τ = false) (hw : τ.isWild = false) :
    (∀ o ∈ expectOb Γ π e (some τ) tag, o.j.Holds Γ.lt) ↔ (Judg.asg (synth Γ e) τ).Holds Γ.lt := by
  simp [expectOb, hv, hw, ob]

/-- a projected sink only takes a bottom constant (rule 3) -/
theorem wt_expect_projected (Γ : Env) (π : List String) (e : Node) (τ : Ty) (tag : String)
    (hv : isVoid Γ.lt τ = false) (hw : τ.isWild = true) :
    (∀ o ∈ expectOb Γ π e (some τ) tag, o.j.Holds Γ.lt) ↔ isBottomConst e = true := by
  simp [expectOb, hv, hw, ob, Judg.Holds]

/-- **variable initialiser**: the declared type is well-formed and the initialiser is
    well-typed at the declared type -/
theorem wt_varDecl (Γ : Env) (π : List String) (nm : String) (e : Node) (fin : Bool)
    (vt : Option Ty) (τ : Ty) :
    WTN Γ π (.varDecl nm e fin vt (some τ)) none "" ↔
      (∀ o ∈ typeWfO Γ.classes (π ++ ["var:" ++ nm]) vt, o.j.Holds Γ.lt) ∧
      WTN Γ (π ++ ["var:" ++ nm]) e (some (deproj Γ.lt τ)) "init" := by
  simp only [WTN, obs, expectOb, List.nil_append, List.forall_mem_append]

/-- **conditional**: the condition is Boolean, both branches are well-typed at the type
    expected from the context (the true branch under the smart cast), and — as a separate
    obligation — the recorded type bounds the types of both branches (rule 7) -/
theorem wt_cond (Γ : Env) (π : List String) (c t f : Node) (ty : Ty) (exp : Option Ty) (tag : String) :
    WTN Γ π (.cond c t f (some ty)) exp tag ↔
      WTN Γ (π ++ ["cond"]) c (some Γ.lt.boolean) "condition" ∧
      WTN (Γ.smartCast c) (π ++ ["then"]) t exp (condTag tag) ∧
      WTN Γ (π ++ ["else"]) f exp (condTag tag) ∧
      (Judg.asg (synth (Γ.smartCast c) t) ty).Holds Γ.lt ∧ (Judg.asg (synth Γ f) ty).Holds Γ.lt := by
  simp only [WTN, obs, List.forall_mem_append, List.forall_mem_cons, ob, and_assoc, Env.lt_smartCast]
  simp

/-- **argument lists** (call, constructor, super-constructor, array elements): each argument is
    well-typed at the type of the parameter / field it is bound to -/
theorem wt_zip_cons (Γ : Env) (π : List String) (i : Nat) (a : Node) (as : List Node)
    (τ : Option Ty) (tag : String) (ps : List (Option Ty × String)) :
    WTZip Γ π i (a :: as) ((τ, tag) :: ps) ↔
      WTN Γ (π ++ [toString i]) a τ tag ∧ WTZip Γ π (i + 1) as ps := by
  simp only [WTZip, WTN, obsZip, List.forall_mem_append]

/-- a call argument is its expression -/
theorem wt_callArg (Γ : Env) (π : List String) (e : Node) (nm : Option String) (exp : Option Ty) (tag : String) :
    WTN Γ π (.callArg e nm) exp tag ↔ WTN Γ π e exp tag := by
  simp only [WTN, obs]

/-- **block**: a declaration is in scope of the statements after it; the expected type goes to
    the last statement -/
theorem wt_block_cons (Γ : Env) (π : List String) (i : Nat) (s s' : Node) (rest : List Node)
    (exp : Option Ty) (tag : String) :
    WTBlock Γ π i (s :: s' :: rest) exp tag ↔
      WTN (Γ.extendF s) (π ++ [toString i]) s none "" ∧
      WTBlock (Γ.extend s) π (i + 1) (s' :: rest) exp tag := by
  simp only [WTBlock, WTN, obsBlock, List.forall_mem_append, Env.lt_extend, Env.lt_extendF]

theorem wt_block_last (Γ : Env) (π : List String) (i : Nat) (s : Node) (exp : Option Ty) (tag : String) :
    WTBlock Γ π i [s] exp tag ↔ WTN (Γ.extendF s) (π ++ [toString i]) s exp tag := by
  simp only [WTBlock, WTN, obsBlock, Env.lt_extendF]

theorem wt_block (Γ : Env) (π : List String) (body : List Node) (isF : Bool) (exp : Option Ty) (tag : String) :
    WTN Γ π (.block body isF) exp tag ↔ WTBlock Γ π 0 body exp tag := by
  simp only [WTN, WTBlock, obs]

/-- **constructor call**: the class exists and is a regular class, the arity is the number of
    fields, every argument is well-typed at the field's type under the type arguments, and the
    explicit type arguments are within their bounds (`typeWf`) -/
theorem wt_new (Γ : Env) (π : List String) (t : Ty) (args : List Node) (ci : Bool) (c : Node) (m : TMap)
    (ht : (isTop t || isVoid Γ.lt t) = false)
    (hc : clsOf Γ.classes (clsFuel Γ.classes) t = some (c, m)) :
    WTN Γ π (.newE t args ci) none "" ↔
      (∀ o ∈ typeWf Γ.classes (π ++ ["new:" ++ typeName t]) t, o.j.Holds Γ.lt) ∧
      clsCType c = 0 ∧ args.length = (clsFields c).length ∧
      WTZip Γ (π ++ ["new:" ++ typeName t]) 0 args
        ((clsFields c).map fun f => ((fieldTy f).map fun ft => sinkType Γ.lt ft m, "ctor-arg")) := by
  simp only [WTN, WTZip, obs, expectOb, List.nil_append, List.forall_mem_append, ht, hc,
    List.forall_mem_cons, ob, Judg.Holds, Bool.false_eq_true, if_false]
  simp

/-- **function result**: parameters (with their defaults) are well-typed and the body is
    well-typed at the declared result type, in the scope extended by the parameters -/
theorem wt_funcDecl (Γ : Env) (π : List String) (nm : String) (ps : List Node) (ret : Option Ty) (τ : Ty)
    (b : Node) (fin ov : Bool) (tps : List Ty) (ft : Nat) :
    WTN Γ π (.funcDecl nm ps ret (some τ) (some b) fin ov tps ft) none "" ↔
      (∀ o ∈ typeWfL Γ.classes (π ++ ["func:" ++ nm]) (tps.filterMap boundOf), o.j.Holds Γ.lt) ∧
      (∀ o ∈ obsParams Γ (π ++ ["func:" ++ nm]) ps, o.j.Holds Γ.lt) ∧
      WTN (Γ.bindParams ps) (π ++ ["func:" ++ nm] ++ ["body"]) b (some (deproj Γ.lt τ)) "result" := by
  simp only [WTN, obs, expectOb, List.nil_append, List.forall_mem_append, Option.map, and_assoc, Env.lt_bindParams]

/-- **default argument** -/
theorem wt_paramDecl (Γ : Env) (π : List String) (nm : String) (t : Ty) (va : Bool) (d : Node) :
    WTN Γ π (.paramDecl nm t va (some d)) none "" ↔
      (∀ o ∈ typeWf Γ.classes (π ++ ["param:" ++ nm]) t, o.j.Holds Γ.lt) ∧
      WTN Γ (π ++ ["param:" ++ nm]) d (some (deproj Γ.lt t)) "default-arg" := by
  simp only [WTN, obs, List.forall_mem_append]

/-- **assignment** to a variable in scope: it is not final and the right-hand side is
    well-typed at its type -/
theorem wt_assign (Γ : Env) (π : List String) (nm : String) (e : Node) (t : Ty) (fin : Bool)
    (hl : Γ.lookupVar nm = some (t, fin)) :
    WTN Γ π (.assign nm e none) none "" ↔
      fin = false ∧ WTN Γ (π ++ ["assign:" ++ nm]) e (some (deproj Γ.lt t)) "assign" := by
  simp only [WTN, obs, expectOb, List.nil_append, hl, List.forall_mem_cons, ob, Judg.Holds]
  simp

/-- **lambda body** -/
theorem wt_lambda (Γ : Env) (π : List String) (nm : String) (ps : List Node) (ret : Option Ty) (body : Node)
    (sig : Option Ty) :
    WTN Γ π (.lambda nm ps ret body sig) none "" ↔
      WTN (Γ.bindParams ps) (π ++ ["lambda:" ++ nm]) body (ret.map (deproj Γ.lt)) "lambda-body" := by
  simp only [WTN, obs, expectOb, List.nil_append, Env.lt_bindParams]

/-- **class obligations**: in a well-typed class whose superclass `sc` is found, the superclass
    is not final, an interface only extends an interface, a regular class implements every
    inherited abstract function, and every override is compatible -/
theorem wt_class_super (Γ : Env) (π : List String) (nm : String) (ct : Nat) (fin : Bool)
    (fields funcs : List Node) (st : Ty) (sargs : Option (List Node)) (more : List Node) (tps : List Ty)
    (sc : Node) (m : TMap) (hc : clsOf Γ.classes (clsFuel Γ.classes) st = some (sc, m))
    (h : WTN Γ π (.classDecl nm ct fin fields (.superInst st sargs :: more) funcs tps) none "") :
    clsFinal sc = false ∧ (ct = 1 → clsCType sc = 1) ∧
    (ct = 0 → ∀ o ∈ abstractObs (π ++ ["class:" ++ nm])
        (chainOf Γ.classes (clsFuel Γ.classes)
          (.classDecl nm ct fin fields (.superInst st sargs :: more) funcs tps) []), o.j.Holds Γ.lt) ∧
    (∀ g ∈ funcs, ∀ o ∈ overrideObs Γ.lt (π ++ ["class:" ++ nm])
        ((chainOf Γ.classes (clsFuel Γ.classes)
          (.classDecl nm ct fin fields (.superInst st sargs :: more) funcs tps) []).drop 1) g, o.j.Holds Γ.lt) := by
  have e := obs.eq_def Γ π (.classDecl nm ct fin fields (.superInst st sargs :: more) funcs tps) none ""
  simp only [] at e
  unfold WTN at h
  rw [e, hc] at h
  simp only [List.forall_mem_append, List.forall_mem_cons, ob] at h
  obtain ⟨⟨_, _, hfin, hif, ⟨⟨_, habs⟩, hov⟩, _⟩, _⟩ := h
  refine ⟨by simpa [Judg.Holds] using hfin, ?_, ?_, ?_⟩
  · intro h1; subst h1; simpa [Judg.Holds] using hif
  · intro h0; subst h0; simpa using habs
  · intro g hg o ho
    exact hov o (List.mem_flatMap.2 ⟨g, hg, ho⟩)

/-! ## 3. Decision point `gen_conditional`: the recorded type of a conditional -/

/-- the recorded type is one of the three draws -/
theorem condType_mem {α : Type} (sub : α → α → Bool) (tmp t f : α) :
    condType sub tmp t f = tmp ∨ condType sub tmp t f = t ∨ condType sub tmp t f = f := by
  simp only [condType, List.foldl]
  split <;> split <;> simp

/-- **finding 7, full statement**: the recorded type of a generated conditional is an upper
    bound of the types of both branches (for the code's own `is_subtype`).  False:
    `condType_counterexample`. -/
def condType_upper : Prop :=
  ∀ tmp t f : Ty, isSubtype t (condTypeTy tmp t f) = .yes ∧ isSubtype f (condTypeTy tmp t f) = .yes

/-- the part that holds: for a reflexive, transitive test, when the false-branch type is
    comparable with the temporary draw and with the true-branch type (e.g. the three draws
    form a chain) the fold returns an upper bound of both branches -/
theorem condType_upper_partial {α : Type} (sub : α → α → Bool) (hr : ∀ x, sub x x = true)
    (htr : ∀ x y z, sub x y = true → sub y z = true → sub x z = true) (tmp t f : α)
    (h2 : sub f tmp = true ∨ sub tmp f = true) (h3 : sub f t = true ∨ sub t f = true) :
    sub t (condType sub tmp t f) = true ∧ sub f (condType sub tmp t f) = true := by
  simp only [condType, List.foldl]
  by_cases h1 : sub t tmp = true
  · simp only [h1, if_true]
    by_cases h4 : sub f tmp = true
    · simp [h4, h1]
    · have h5 : sub tmp f = true := by rcases h2 with h | h; exact absurd h h4; exact h
      simp only [h4]
      exact ⟨htr _ _ _ h1 h5, hr f⟩
  · simp only [h1]
    by_cases h4 : sub f t = true
    · simp [h4, hr]
    · have h5 : sub t f = true := by rcases h3 with h | h; exact absurd h h4; exact h
      simp only [h4, Bool.false_eq_true, if_false]
      exact ⟨h5, hr f⟩

private def anyK : Ty := builtin "<class 'src.ir.kotlin_types.AnyType'>" "Any" false false []
private def numK : Ty := builtin "<class 'src.ir.kotlin_types.NumberType'>" "Number" false false [anyK]
private def longK : Ty := builtin "<class 'src.ir.kotlin_types.LongType'>" "Long" false false [anyK, numK]
private def floatK : Ty := builtin "<class 'src.ir.kotlin_types.FloatType'>" "Float" false false [anyK, numK]

/-- **finding 7**: with the draws `tmp = Long`, `true_type = Float`, `false_type = Long` (all
    subtypes of the expected type `Number`) the fold records `Long`, which does not bound the
    true branch `Float`.  The harness replays the same three draws against `gen_conditional`'s
    fold and finds such conditionals in generated programs of every language. -/
theorem condType_counterexample :
    Ty.beq (condTypeTy longK floatK longK) longK = true ∧
      isSubtype floatK (condTypeTy longK floatK longK) = .no := by
  decide

theorem condType_upper_false : ¬ condType_upper := by
  intro h
  have := (h longK floatK longK).1
  rw [condType_counterexample.2] at this
  cases this

/-- the repaired fold (`fixes/C01-cond-recorded-type.diff`): fall back to the expected type
    when the folded type is not an upper bound of both branch types -/
def condTypeFixed {α : Type} (sub : α → α → Bool) (etype tmp t f : α) : α :=
  let c := condType sub tmp t f
  if sub t c && sub f c then c else etype

/-- the repaired fold always records an upper bound of both branches (the branch types are
    drawn from the subtypes of the expected type) -/
theorem condTypeFixed_upper {α : Type} (sub : α → α → Bool) (etype tmp t f : α)
    (ht : sub t etype = true) (hf : sub f etype = true) :
    sub t (condTypeFixed sub etype tmp t f) = true ∧ sub f (condTypeFixed sub etype tmp t f) = true := by
  unfold condTypeFixed
  by_cases h : (sub t (condType sub tmp t f) && sub f (condType sub tmp t f)) = true
  · simp only [h, if_true]
    simpa using h
  · simp only [h]
    exact ⟨ht, hf⟩

/-- …and changes nothing when the original fold was right -/
theorem condTypeFixed_eq {α : Type} (sub : α → α → Bool) (etype tmp t f : α)
    (h : sub t (condType sub tmp t f) = true ∧ sub f (condType sub tmp t f) = true) :
    condTypeFixed sub etype tmp t f = condType sub tmp t f := by
  simp [condTypeFixed, h.1, h.2]

/-! ## 4. Decision point `gen_variable`: the variables offered for a position of type `τ` -/

private theorem res_beq_yes (r : Res) : (r == Res.yes) = true ↔ r = .yes := by
  cases r <;> decide

/-- **every candidate passed both filters**: with `subtype` the code's own `is_assignable`
    answered yes for the variable's type and the expected type, without it the two types are
    `==`; inside a Java lambda the variable is final or local to the lambda. -/
theorem genVariable_sound (extra : List (String × String)) (vars : List VarInfo) (τ : Ty) (sub jl : Bool)
    (v : VarInfo) (h : v ∈ genVariableCandidates extra vars τ sub jl) :
    v ∈ vars ∧ (sub = true → isAssignable extra v.ty τ = .yes) ∧ (sub = false → beq v.ty τ = true) ∧
      (jl = true → v.final = true ∨ v.outer = false) := by
  simp only [genVariableCandidates, List.mem_filter, genVarKeeps, Bool.and_eq_true, Bool.or_eq_true,
    Bool.not_eq_true'] at h
  obtain ⟨hm, hj, ht⟩ := h
  refine ⟨hm, ?_, ?_, ?_⟩
  · intro hs; subst hs; exact (res_beq_yes _).1 (by simpa using ht)
  · intro hs; subst hs; simpa using ht
  · intro hj'; subst hj'
    rcases hj with (hj | hj) | hj
    · cases hj
    · exact Or.inl hj
    · exact Or.inr hj

/-- …hence, for well-formed types, a candidate's type is a declarative subtype of the expected
    type (`SubT`, C06), or a pair of the regenerated numeric-widening table, or two Java arrays of
    one primitive element type: the three ways `is_assignable` says yes (`assignable_sound`). -/
theorem genVariable_assignable (extra : List (String × String)) (vars : List VarInfo) (τ : Ty) (jl : Bool)
    (v : VarInfo) (h : v ∈ genVariableCandidates extra vars τ true jl)
    (hs : wf v.ty = true) (ht : wf τ = true) :
    SubT (univ [v.ty, τ]) v.ty τ ∨
    (∃ c nm nt p ss c' nm' nt' p' ss', v.ty = builtin c nm nt p ss ∧ τ = builtin c' nm' nt' p' ss' ∧
      (c, c') ∈ extra) ∨
    (∃ nm con a as ss nm' con' b bs ss', v.ty = param nm con (a :: as) ss ∧
      τ = param nm' con' (b :: bs) ss' ∧ isJavaArrayCon con = true ∧ isJavaArrayCon con' = true ∧
      beq a b = true ∧ a.isPrim = true ∧ b.isPrim = true) :=
  Heph.Props.C06.assignable_sound extra v.ty τ hs ht ((genVariable_sound extra vars τ true jl v h).2.1 rfl)

/-- **completeness of the list**: a variable in scope that passes both filters is offered -/
theorem genVariable_complete (extra : List (String × String)) (vars : List VarInfo) (τ : Ty) (sub jl : Bool)
    (v : VarInfo) (hm : v ∈ vars) (hk : genVarKeeps extra τ sub jl v = true) :
    v ∈ genVariableCandidates extra vars τ sub jl :=
  List.mem_filter.2 ⟨hm, hk⟩

/-- **the refinement checked on every recorded call**: a returned variable is one of the
    candidates (so `genVariable_sound` applies to it), and the fall-back branch
    (`generate_expr(..., exclude_var=True)`) is taken only when no variable in scope qualifies -/
theorem genVariable_refines_variable (extra : List (String × String)) (vars : List VarInfo) (τ : Ty)
    (sub jl : Bool) (n : String) (h : genVariableRefines extra vars τ sub jl (.variable n) = true) :
    ∃ v ∈ genVariableCandidates extra vars τ sub jl, v.name = n := by
  simp only [genVariableRefines, List.any_eq_true, beq_iff_eq] at h
  exact h

theorem genVariable_refines_fallback (extra : List (String × String)) (vars : List VarInfo) (τ : Ty)
    (sub jl : Bool) (h : genVariableRefines extra vars τ sub jl .fallback = true) :
    ∀ v ∈ vars, genVarKeeps extra τ sub jl v = false := by
  simp only [genVariableRefines, genVariableCandidates, List.isEmpty_iff, List.filter_eq_nil_iff] at h
  intro v hv
  simpa using h v hv

/-- the hypotheses are satisfiable and the filters bite: of a final `Long` and a non-final
    `Float` variable of the enclosing scope, a `Number` position inside a Java lambda is offered
    only the final one; outside a lambda both -/
example :
    (genVariableCandidates [] [⟨"a", longK, true, true⟩, ⟨"b", floatK, false, true⟩] numK true true).map (·.name)
      = ["a"] ∧
    (genVariableCandidates [] [⟨"a", longK, true, true⟩, ⟨"b", floatK, false, true⟩] numK true false).map (·.name)
      = ["a", "b"] ∧
    (genVariableCandidates [] [⟨"a", longK, true, true⟩, ⟨"b", floatK, false, true⟩] floatK false false).map (·.name)
      = ["b"] := by
  decide

/-! ## 5. Decision points `_is_sigtype_compatible`, `_gen_func_call_ref`, `_gen_func_ref`:
       which declarations and variables of function type may be referenced -/

private theorem ofBool_yes (b : Bool) : Res.ofBool b = .yes ↔ b = true := by
  cases b <;> simp [Res.ofBool]

/-- **what a yes of `_is_sigtype_compatible` means**, branch by branch: the attribute type under
    the type-variable map is `is_assignable` to the expected type (`subtype`), `==` to it (no
    `subtype`), or — when a signature is checked — the expected type `==` the function type built
    from the substituted parameter types and the attribute type. -/
theorem sigtypeCompatible_sound (extra : List (String × String)) (a : AttrSig) (etype : Ty) (m : TMap)
    (checkSig sub : Bool) (mode : AttrMode) (h : sigtypeCompatible extra a etype m checkSig sub mode = .yes) :
    ∃ aty, attrTypeOf mode a m = some aty ∧
      (checkSig = false → sub = true → isAssignable extra aty etype = .yes) ∧
      (checkSig = false → sub = false → beq aty etype = true) ∧
      (checkSig = true → beq etype (mkP a.fnCon (a.params.map (fun p => substituteType p m) ++ [aty])) = true) := by
  unfold sigtypeCompatible at h
  cases hat : attrTypeOf mode a m with
  | none => rw [hat] at h; cases h
  | some aty =>
    rw [hat] at h
    refine ⟨aty, rfl, ?_, ?_, ?_⟩
    · intro hc hs; subst hc; subst hs; simpa using h
    · intro hc hs; subst hc; subst hs; exact (ofBool_yes _).1 (by simpa using h)
    · intro hc; subst hc; exact (ofBool_yes _).1 (by simpa [sigOf] using h)

/-- in the default mode the attribute type is the declared type under `substitute_type`; in the
    mode of `_get_matching_objects(func_ref=True, signature=False)` it is the last type argument
    (the return type) of the substituted function type -/
theorem attrTypeOf_whole (a : AttrSig) (m : TMap) : attrTypeOf .whole a m = some (substituteType a.ty m) := rfl

theorem attrTypeOf_lastArg (a : AttrSig) (m : TMap) (aty : Ty) (h : attrTypeOf .lastArg a m = some aty) :
    ∃ nm con args ss, substituteType a.ty m = param nm con args ss ∧ args.getLast? = some aty := by
  unfold attrTypeOf at h
  cases hs : substituteType a.ty m <;> simp only [hs, typeArgs, List.getLast?_nil] at h <;> try cases h
  exact ⟨_, _, _, _, rfl, h⟩

/-- …hence, for well-formed types, an attribute accepted with `subtype` has a type that is a
    declarative subtype of the expected type (`SubT`, C06), or a pair of the numeric-widening table,
    or two Java arrays of one primitive element type (`assignable_sound`). -/
theorem sigtypeCompatible_assignable (extra : List (String × String)) (a : AttrSig) (etype : Ty) (m : TMap)
    (h : sigtypeCompatible extra a etype m false true .whole = .yes)
    (hs : wf (substituteType a.ty m) = true) (ht : wf etype = true) :
    SubT (univ [substituteType a.ty m, etype]) (substituteType a.ty m) etype ∨
    (∃ c nm nt p ss c' nm' nt' p' ss', substituteType a.ty m = builtin c nm nt p ss ∧
      etype = builtin c' nm' nt' p' ss' ∧ (c, c') ∈ extra) ∨
    (∃ nm con x xs ss nm' con' y ys ss', substituteType a.ty m = param nm con (x :: xs) ss ∧
      etype = param nm' con' (y :: ys) ss' ∧ isJavaArrayCon con = true ∧ isJavaArrayCon con' = true ∧
      beq x y = true ∧ x.isPrim = true ∧ y.isPrim = true) := by
  obtain ⟨aty, hat, h1, _, _⟩ := sigtypeCompatible_sound extra a etype m false true .whole h
  cases hat
  exact Heph.Props.C06.assignable_sound extra _ etype hs ht (h1 rfl rfl)

/-- **`_gen_func_call_ref`, first stage**: every reference offered without receiver is a variable
    in scope whose type is a function type and whose return type (last type argument) is
    `is_assignable` to the expected type (with `subtype`) or `==` to it; inside a Java lambda it is
    final or local to the lambda. -/
theorem funcCallRef_sound (extra : List (String × String)) (vars : List VarInfo) (etype : Ty) (sub jl : Bool)
    (c : FuncRefCand) (h : c ∈ funcCallRefVars extra vars etype sub jl) :
    ∃ v ∈ vars, c.sig = v.ty ∧ c.name = v.name ∧ c.noReceiver = true ∧ isFunctionType v.ty = true ∧
      (∃ ret, (typeArgs v.ty).getLast? = some ret ∧
        ((sub = true ∧ isAssignable extra ret etype = .yes) ∨ beq ret etype = true)) ∧
      (jl = true → v.final = true ∨ v.outer = false) := by
  simp only [funcCallRefVars, List.mem_map, List.mem_filter] at h
  obtain ⟨v, ⟨hv, hk⟩, rfl⟩ := h
  refine ⟨v, hv, rfl, rfl, rfl, ?_⟩
  simp only [funcCallRefKeeps, Bool.and_eq_true, Bool.or_eq_true, Bool.not_eq_true'] at hk
  obtain ⟨⟨hj, hf⟩, hr⟩ := hk
  refine ⟨hf, ?_, ?_⟩
  · cases hl : (typeArgs v.ty).getLast? with
    | none => rw [hl] at hr; cases hr
    | some ret =>
      rw [hl] at hr
      refine ⟨ret, rfl, ?_⟩
      simp only [Bool.or_eq_true, Bool.and_eq_true] at hr
      rcases hr with ⟨hs, ha⟩ | hb
      · exact Or.inl ⟨hs, (res_beq_yes _).1 ha⟩
      · exact Or.inr hb
  · intro hj'; subst hj'
    rcases hj with (hj | hj) | hj
    · cases hj
    · exact Or.inl hj
    · exact Or.inr hj

/-- the list the random choice draws from: the variables when one qualifies, otherwise the
    objects `_get_matching_objects` found, each with the field's type under the receiver's map -/
theorem funcCallRef_candidates (extra : List (String × String)) (vars : List VarInfo) (objs : List MatchedObj)
    (etype : Ty) (sub jl : Bool) (c : FuncRefCand) (h : c ∈ funcCallRefCandidates extra vars objs etype sub jl) :
    c ∈ funcCallRefVars extra vars etype sub jl ∨
    (funcCallRefVars extra vars etype sub jl = [] ∧
      ∃ o ∈ objs, c.sig = substituteType o.attrTy o.inst ∧ c.name = o.name ∧ c.noReceiver = false) := by
  unfold funcCallRefCandidates at h
  by_cases he : (funcCallRefVars extra vars etype sub jl).isEmpty = true
  · simp only [he, if_true, List.mem_map] at h
    obtain ⟨o, ho, rfl⟩ := h
    exact Or.inr ⟨List.isEmpty_iff.1 he, o, ho, rfl, rfl, rfl⟩
  · simp only [he] at h
    exact Or.inl h

/-- **the refinement checked on every recorded call of `_gen_func_call_ref`**: a returned call is
    to a member of the list, and its arguments were generated at the parameter types
    `signature.type_args[:-1]` of that member; `None` is returned only when nothing qualifies -/
theorem funcCallRef_refines_call (same : List Ty → List Ty → Bool) (extra : List (String × String))
    (vars : List VarInfo) (objs : List MatchedObj) (etype : Ty) (sub jl : Bool) (n : String) (nr : Bool)
    (tys : List Ty) (h : funcCallRefRefines same extra vars objs etype sub jl (.call n nr tys) = true) :
    ∃ c ∈ funcCallRefCandidates extra vars objs etype sub jl,
      c.name = n ∧ c.noReceiver = nr ∧ same (typeArgs c.sig).dropLast tys = true := by
  simp only [funcCallRefRefines, List.any_eq_true, Bool.and_eq_true, beq_iff_eq] at h
  obtain ⟨c, hc, ⟨h1, h2⟩, h3⟩ := h
  exact ⟨c, hc, h1, h2, h3⟩

theorem funcCallRef_refines_none (same : List Ty → List Ty → Bool) (extra : List (String × String))
    (vars : List VarInfo) (objs : List MatchedObj) (etype : Ty) (sub jl : Bool)
    (h : funcCallRefRefines same extra vars objs etype sub jl .none = true) :
    (∀ v ∈ vars, funcCallRefKeeps extra etype sub jl v = false) ∧ objs = [] := by
  unfold funcCallRefRefines funcCallRefCandidates at h
  by_cases he : (funcCallRefVars extra vars etype sub jl).isEmpty = true
  · simp only [he, if_true, List.isEmpty_iff, List.map_eq_nil_iff] at h
    refine ⟨?_, h⟩
    have := List.isEmpty_iff.1 he
    simp only [funcCallRefVars, List.map_eq_nil_iff, List.filter_eq_nil_iff] at this
    intro v hv; simpa using this v hv
  · simp only [he] at h
    exact absurd h he

/-- **`_gen_func_ref`**: a reference offered for the signature `etype` is one of the declarations
    `_get_matching_function_declarations(etype, False, signature=True)` handed over, other than the
    function being generated; since each of those passed `_is_sigtype_compatible(.., True, False)`
    under its map `σ`, the expected type `==` the function type of its substituted signature. -/
theorem funcRef_sound (funcs : List AttrSig) (self : String) (etype : Ty) (σ : AttrSig → TMap)
    (hcompat : ∀ f ∈ funcs, sigtypeCompatible [] f etype (σ f) true false .whole = .yes)
    (f : AttrSig) (h : f ∈ funcRefCandidates funcs self) :
    f ∈ funcs ∧ f.name ≠ self ∧
      beq etype (mkP f.fnCon (f.params.map (fun p => substituteType p (σ f)) ++ [substituteType f.ty (σ f)])) = true := by
  simp only [funcRefCandidates, List.mem_filter, bne_iff_ne, ne_eq] at h
  obtain ⟨hf, hn⟩ := h
  obtain ⟨aty, hat, _, _, h3⟩ := sigtypeCompatible_sound [] f etype (σ f) true false .whole (hcompat f hf)
  cases hat
  exact ⟨hf, hn, h3 rfl⟩

private def fn1K : Ty :=
  tcon "<class 'src.ir.kotlin_types.FunctionType'>" "Function1" [tparam "A1" 2 none, tparam "R" 1 none] [anyK]
private def stringK : Ty := builtin "<class 'src.ir.kotlin_types.StringType'>" "String" false false [anyK]
private def tT : Ty := tparam "T" 0 none

/-- the hypotheses are satisfiable and the filters bite: of `f : (Long) -> Float`, `g : (Long) ->
    String` and `n : Long`, a `Number` position is offered the call `f(..)` only, with one argument
    expected at `Long`; an exact `Float` position the same; a `String` position `g`; and a function
    `fun h(x: T): T` matches the signature `(Long) -> Long` under `T ↦ Long` but not under `T ↦ Float` -/
example :
    ((funcCallRefCandidates [] [⟨"f", mkP fn1K [longK, floatK], true, true⟩,
        ⟨"g", mkP fn1K [longK, stringK], true, true⟩, ⟨"n", longK, true, true⟩] [] numK true false).map (·.name)
      = ["f"]) ∧
    ((funcCallRefCandidates [] [⟨"f", mkP fn1K [longK, floatK], true, true⟩,
        ⟨"g", mkP fn1K [longK, stringK], true, true⟩] [] numK false false).map (·.name) = []) ∧
    ((funcCallRefCandidates [] [⟨"f", mkP fn1K [longK, floatK], true, true⟩,
        ⟨"g", mkP fn1K [longK, stringK], true, true⟩] [] stringK false false).map (·.name) = ["g"]) ∧
    funcCallRefRefines (fun a b => beqL a b) [] [⟨"f", mkP fn1K [longK, floatK], true, true⟩] [] numK true false
      (.call "f" true [longK]) = true ∧
    sigtypeCompatible [] ⟨"h", tT, [tT], fn1K⟩ (mkP fn1K [longK, longK]) [(tT, longK)] true false .whole = .yes ∧
    sigtypeCompatible [] ⟨"h", tT, [tT], fn1K⟩ (mkP fn1K [longK, longK]) [(tT, floatK)] true false .whole = .no ∧
    sigtypeCompatible [] ⟨"fld", mkP fn1K [longK, floatK], [], fn1K⟩ numK [] false true .lastArg = .yes := by
  decide

/-! ## 6. Decision point `gen_new` (with `_get_subclass`): the class instantiated and the expected
       types of the constructor arguments -/

/-- **`_get_subclass`**: every class the random choice may draw is a regular class in scope whose
    type is `==` to the expected type (its constructor, for a generic class) or — with `subtype` —
    answered yes to the code's own `is_subtype` test against the expected type -/
theorem subclass_sound (classes : List ClassCand) (etype : Ty) (ename : String) (sub : Bool) (c : ClassCand)
    (h : c ∈ subclassCandidates classes etype ename sub) :
    c ∈ classes ∧ c.regular = true ∧
      ((c.parameterized = false ∧ beq c.ty etype = true) ∨
       (c.parameterized = true ∧ ∃ tc, tconOf etype = some tc ∧ beq c.ty tc = true) ∨
       (sub = true ∧ isSubtype c.ty etype = .yes)) := by
  have hk : c ∈ classes ∧ subclassKeeps etype sub c = true := by
    unfold subclassCandidates at h
    simp only [] at h
    split at h
    · exact List.mem_filter.1 h
    · exact List.mem_filter.1 (List.mem_filter.1 h).1
  obtain ⟨hm, hk⟩ := hk
  simp only [subclassKeeps, Bool.and_eq_true, Bool.or_eq_true] at hk
  obtain ⟨hr, hk⟩ := hk
  refine ⟨hm, hr, ?_⟩
  rcases hk with hk | ⟨hs, hy⟩
  · by_cases hp : c.parameterized = true
    · simp only [hp, if_true] at hk
      cases ht : tconOf etype with
      | none => rw [ht] at hk; cases hk
      | some tc => rw [ht] at hk; exact Or.inr (Or.inl ⟨hp, tc, rfl, hk⟩)
    · simp only [hp] at hk
      exact Or.inl ⟨by simpa using hp, hk⟩
  · exact Or.inr (Or.inr ⟨hs, (res_beq_yes _).1 hy⟩)

/-- a class of the expected type's own name is preferred: when one passed the test, only such
    classes are offered -/
theorem subclass_prefers_own (classes : List ClassCand) (etype : Ty) (ename : String) (sub : Bool)
    (o : ClassCand) (ho : o ∈ classes) (hk : subclassKeeps etype sub o = true) (hn : o.name = ename)
    (c : ClassCand) (h : c ∈ subclassCandidates classes etype ename sub) : c.name = ename := by
  unfold subclassCandidates at h
  simp only [] at h
  split at h
  · rename_i he
    have : o ∈ (classes.filter (subclassKeeps etype sub)).filter fun s => s.name == ename :=
      List.mem_filter.2 ⟨List.mem_filter.2 ⟨ho, hk⟩, by simpa using hn⟩
    rw [List.isEmpty_iff.1 he] at this
    cases this
  · simpa using (List.mem_filter.1 h).2

/-- what the recorded-call refinement of `_get_subclass` means -/
theorem subclass_refines_some (classes : List ClassCand) (etype : Ty) (ename : String) (sub : Bool) (n : String)
    (h : subclassRefines classes etype ename sub (some n) = true) :
    ∃ c ∈ subclassCandidates classes etype ename sub, c.name = n := by
  simpa [subclassRefines] using h

theorem subclass_refines_none (classes : List ClassCand) (etype : Ty) (ename : String) (sub : Bool)
    (h : subclassRefines classes etype ename sub none = true) :
    ∀ c ∈ classes, subclassKeeps etype sub c = false := by
  unfold subclassRefines subclassCandidates at h
  simp only [] at h
  by_cases he : ((classes.filter (subclassKeeps etype sub)).filter fun s => s.name == ename).isEmpty = true
  · simp only [he, if_true] at h
    intro c hc
    simpa using List.filter_eq_nil_iff.1 (List.isEmpty_iff.1 h) c hc
  · simp only [he] at h
    exact absurd h he

private theorem typeParamMap_some (tparams : List Ty) (etype : Ty) (m : TMap) (h : typeParamMap tparams etype = some m) :
    (tparams = [] ∧ m = []) ∨
    (tparams ≠ [] ∧ ∃ targs, newTypeArgs etype = some targs ∧ tparams.length ≤ targs.length ∧ m = TMap.mk tparams targs) := by
  unfold typeParamMap at h
  by_cases he : tparams.isEmpty = true
  · simp only [he, if_true, Option.some.injEq] at h
    exact Or.inl ⟨List.isEmpty_iff.1 he, h.symm⟩
  · simp only [he] at h
    refine Or.inr ⟨fun hn => he (List.isEmpty_iff.2 hn), ?_⟩
    cases ha : newTypeArgs etype with
    | none => rw [ha] at h; simp at h
    | some targs =>
      rw [ha] at h
      simp only [Bool.false_eq_true, if_false] at h
      by_cases hl : targs.length < tparams.length
      · simp [hl] at h
      · simp only [hl, if_false, Option.some.injEq] at h
        exact ⟨targs, rfl, by omega, h.symm⟩

/-- **the expected types of the constructor arguments**: when `gen_new` plans `New(ty, args)` the
    class is known, and either it is not generic — then `ty` is its type and the arguments are
    expected at the declared field types (under the empty map) — or it is, and there are type
    arguments `targs` (those of the instantiated expected type) such that `ty` is
    `class_decl.get_type().new(targs)` and every argument is expected at the field's type under
    `substitute_type` with the map `{type parameter ↦ type argument}` -/
theorem newFromClass_expected (c : NewClass) (etype ty : Ty) (exp : List Ty)
    (h : newFromClass c etype = .new ty exp) :
    (c.tparams = [] ∧ ty = c.ty ∧ exp = c.fields.map fun f => substituteType f []) ∨
    (c.tparams ≠ [] ∧ ∃ targs, newTypeArgs etype = some targs ∧ c.tparams.length ≤ targs.length ∧
      ty = tconNew c.ty targs ∧ exp = c.fields.map fun f => substituteType f (TMap.mk c.tparams targs)) := by
  unfold newFromClass at h
  cases hm : typeParamMap c.tparams etype with
  | none => rw [hm] at h; cases h
  | some m =>
    rw [hm] at h
    simp only [] at h
    rcases typeParamMap_some _ _ _ hm with ⟨ht, rfl⟩ | ⟨ht, targs, ha, hl, rfl⟩
    · simp only [ht, List.isEmpty_nil, if_true, NewPlan.new.injEq] at h
      exact Or.inl ⟨ht, h.1.symm, h.2.symm⟩
    · have he : c.tparams.isEmpty = false := by
        cases hh : c.tparams with
        | nil => exact absurd hh ht
        | cons _ _ => rfl
      simp only [he, Bool.false_eq_true, if_false, ha, NewPlan.new.injEq] at h
      exact Or.inr ⟨ht, targs, ha, hl, h.1.symm, h.2.symm⟩

private theorem newStep1_cases (e1 : Ty) (ename : String) (insts : List Ty) (e2 : Ty) (n2 : String) (rest : List Ty)
    (h : newStep1 e1 ename insts = some (e2, n2, rest)) :
    (e2 = e1 ∧ rest = insts) ∨ insts = e2 :: rest := by
  unfold newStep1 at h
  by_cases ht : e1.isTCon = true
  · simp only [ht, if_true] at h
    cases insts with
    | nil => cases h
    | cons i tl => simp only [Option.some.injEq, Prod.mk.injEq] at h; obtain ⟨rfl, _, rfl⟩ := h; exact Or.inr rfl
  · simp only [ht] at h
    simp only [Bool.false_eq_true, if_false, Option.some.injEq, Prod.mk.injEq] at h
    obtain ⟨rfl, _, rfl⟩ := h; exact Or.inl ⟨rfl, rfl⟩

private theorem newWithClass_new (c : NewClass) (e1 : Ty) (ename : String) (insts : List Ty) (ty : Ty) (exp : List Ty)
    (h : newWithClass c e1 ename insts = .new ty exp) :
    ∃ e, newFromClass c e = .new ty exp ∧ (e ∈ insts ∨ e = e1) := by
  unfold newWithClass at h
  cases hs : newStep1 e1 ename insts with
  | none => rw [hs] at h; cases h
  | some p =>
    obtain ⟨e2, n2, rest⟩ := p
    rw [hs] at h
    simp only [] at h
    have hc := newStep1_cases e1 ename insts e2 n2 rest hs
    by_cases hg : (!c.tparams.isEmpty && attrName c.ty != n2) = true
    · simp only [hg, if_true] at h
      cases rest with
      | nil => cases h
      | cons i tl =>
        simp only [] at h
        refine ⟨i, h, Or.inl ?_⟩
        rcases hc with ⟨_, hr⟩ | hr
        · rw [← hr]; simp
        · rw [hr]; simp
    · simp only [hg] at h
      refine ⟨e2, h, ?_⟩
      rcases hc with ⟨he, _⟩ | hr
      · exact Or.inr he
      · rw [hr]; exact Or.inl (by simp)

/-- the plan `new` of `gen_new` always comes from `newFromClass` for the class `_get_subclass`
    returned (not blacklisted), applied to the variance-free expected type or to one of the random
    instantiations -/
theorem genNew_new (isFn : Bool) (etype : Ty) (ename : String) (cls : Option NewClass) (anyT voidT : Ty)
    (black tvnames : List String) (insts : List Ty) (ty : Ty) (exp : List Ty)
    (h : genNewPlan isFn etype ename cls anyT voidT black tvnames insts = .new ty exp) :
    ∃ c e, cls = some c ∧ black.contains ename = false ∧ newFromClass c e = .new ty exp ∧
      (e ∈ insts ∨ e = (if etype.isParam then toVarianceFree etype [] else etype)) := by
  unfold genNewPlan at h
  by_cases h1 : isFn = true
  · simp only [h1, if_true] at h; cases h
  simp only [h1] at h
  by_cases h2 : beq anyT (if etype.isParam then toVarianceFree etype [] else etype) = true
  · simp only [h2, if_true] at h; cases h
  by_cases h3 : beq voidT (if etype.isParam then toVarianceFree etype [] else etype) = true
  · simp only [h2, h3, if_true] at h; cases h
  simp only [h2, h3] at h
  cases cls with
  | none => simp only [newBottom] at h; cases h
  | some c =>
    simp only [] at h
    by_cases h4 : black.contains ename = true
    · simp only [h4, if_true, newBottom] at h; cases h
    · simp only [h4] at h
      obtain ⟨e, he, hm⟩ := newWithClass_new c _ ename insts ty exp h
      exact ⟨c, e, rfl, by simpa using h4, he, hm⟩

/-- **the map `gen_new` substitutes with is the instantiation's own map**: for a class whose
    constructor carries the class's type parameters (`ClassDeclaration.get_type()` builds it from
    them), `{type parameter ↦ type argument}` is `get_type_variable_assignments()` of the type of
    the `New` node, whose type arguments are the given ones -/
theorem genNew_map_is_instantiation (c : NewClass) (targs : List Ty) (hp : conParams c.ty = c.tparams) :
    TMap.mk c.tparams targs = typeVarAssignments (tconNew c.ty targs) ∧
      newTypeArgs (tconNew c.ty targs) = some targs := by
  have hcp : ∀ (con : Ty) (m : TMap) (ss : List Ty), conParams (conWithSups (performSubst con m) ss) = conParams con := by
    intro con m ss; cases con <;> simp [performSubst, conWithSups, conParams]
  simp only [tconNew, typeVarAssignments, newTypeArgs, hcp, hp, and_self]

/-- (by C07, `Heph.Props.C01Gen.genNew_expected_substS`, these are the field types under the syntactic
    substitution of the instantiation) …and these are the types the verified checker demands for the arguments of the `New` node
    (`wt_new`): a field type that is not itself a projection is read through `sinkType` exactly as
    `gen_new` substitutes it -/
theorem genNew_expected_is_sink (lt : LangTypes) (fields : List Ty) (m : TMap)
    (h : ∀ f ∈ fields, f.isWild = false) :
    (fields.map fun f => substituteType f m) = fields.map fun f => sinkType lt f m := by
  apply List.map_congr_left
  intro f hf
  have := h f hf
  cases f <;> simp_all [sinkType, deproj, Ty.isWild]

private def boxC : Ty := tcon "<class 'src.ir.types.TypeConstructor'>" "Box" [tT] [anyK]
private def clsPlain : Ty := simple "Plain" [anyK]

/-- the hypotheses are satisfiable: for `class Box<T>(val x: T, val n: Number)` and the expected
    type `Box<out Long>` the plan is `New(Box<Long>, ..)` with the arguments expected at `Long` and
    `Number`; a bare `Plain` instantiates the generic subclass at the random instantiation handed
    in; `Any` is `New(Any, [])`; a blacklisted class gives a bottom constant; and `_get_subclass`
    offers only regular classes -/
example :
    (match genNewPlan false (tconNew boxC [wild 1 (some longK)]) "Box" (some ⟨"Box", boxC, [tT], [tT, numK]⟩)
        anyK stringK [] [] [] with
     | .new ty exp => beq ty (tconNew boxC [longK]) && beqL exp [longK, numK]
     | _ => false) = true ∧
    (match genNewPlan false clsPlain "Plain" (some ⟨"Box", boxC, [tT], [tT, numK]⟩) anyK stringK [] []
        [tconNew boxC [floatK]] with
     | .new ty exp => beq ty (tconNew boxC [floatK]) && beqL exp [floatK, numK]
     | _ => false) = true ∧
    (match genNewPlan false anyK "Any" none anyK stringK [] [] [] with | .trivial _ => true | _ => false) = true ∧
    (match genNewPlan false clsPlain "Plain" (some ⟨"Plain", clsPlain, [], []⟩) anyK stringK ["Plain"] [] [] with
     | .bottom (some _) => true | _ => false) = true ∧
    (subclassCandidates [⟨"Plain", true, false, clsPlain⟩, ⟨"Iface", false, false, simple "Iface" [anyK]⟩,
        ⟨"Box", true, true, boxC⟩] anyK "Any" true).map (·.name) = ["Plain", "Box"] ∧
    (subclassCandidates [⟨"Plain", true, false, clsPlain⟩, ⟨"Box", true, true, boxC⟩]
        (tconNew boxC [longK]) "Box" false).map (·.name) = ["Box"] := by
  decide

/-! ## 7. The matching family: `_get_matching_class_decls`, `_get_matching_class`,
       `_gen_matching_class`, `_get_matching_objects`, `_get_matching_function_declarations` -/

/-- **what `matchedOK` gives the caller**: the attribute's type under the returned maps is
    `is_assignable` to the expected type (`subtype`), `==` to it, or its signature `==` the
    expected function type — exactly as the code decides (`sigtypeCompatible_sound`).  The harness
    evaluates `matchedOK` on every (attribute, maps) the five functions return. -/
theorem matchedOK_sound (extra : List (String × String)) (a : AttrSig) (etype : Ty) (m : TMap)
    (checkSig sub : Bool) (mode : AttrMode) (h : matchedOK extra a etype m checkSig sub mode = true) :
    ∃ aty, attrTypeOf mode a m = some aty ∧
      (checkSig = false → sub = true → isAssignable extra aty etype = .yes) ∧
      (checkSig = false → sub = false → beq aty etype = true) ∧
      (checkSig = true → beq etype (mkP a.fnCon (a.params.map (fun p => substituteType p m) ++ [aty])) = true) :=
  sigtypeCompatible_sound extra a etype m checkSig sub mode ((res_beq_yes _).1 h)

private theorem classDeclsOf_sound (extra : List (String × String)) (void etype : Ty) (sub signature : Bool)
    (self cname : String) (attrs : List (Bool × AttrSig)) :
    ∀ (maps : List (Option TMap)) (out : List (String × AttrSig × TMap)) (left : List (Option TMap)),
    classDeclsOf extra void etype sub signature self cname attrs maps = some (out, left) →
    ∀ x ∈ out, x.1 = cname ∧ (∃ h, (h, x.2.1) ∈ attrs ∧ classAttrReached void signature self h x.2.1 = true) ∧
      matchedOK extra x.2.1 etype x.2.2 signature sub .whole = true := by
  induction attrs with
  | nil =>
    intro maps out left h x hx
    simp only [classDeclsOf, Option.some.injEq, Prod.mk.injEq] at h
    obtain ⟨rfl, _⟩ := h
    cases hx
  | cons p rest ih =>
    obtain ⟨hasTy, a⟩ := p
    intro maps out left h x hx
    unfold classDeclsOf at h
    by_cases hr : classAttrReached void signature self hasTy a = true
    · simp only [hr, if_true] at h
      cases maps with
      | nil => cases h
      | cons m maps' =>
        simp only [Option.map_eq_some_iff] at h
        obtain ⟨⟨out', left'⟩, hrec, heq⟩ := h
        simp only [Prod.mk.injEq] at heq
        obtain ⟨rfl, rfl⟩ := heq
        have ih' := ih maps' out' left' hrec
        have lift : ∀ y ∈ out', y.1 = cname ∧
            (∃ h, (h, y.2.1) ∈ (hasTy, a) :: rest ∧ classAttrReached void signature self h y.2.1 = true) ∧
            matchedOK extra y.2.1 etype y.2.2 signature sub .whole = true := by
          intro y hy
          obtain ⟨h1, ⟨hh, hm, hreach⟩, h3⟩ := ih' y hy
          exact ⟨h1, ⟨hh, List.mem_cons_of_mem _ hm, hreach⟩, h3⟩
        cases m with
        | none => exact lift x hx
        | some m =>
          simp only [] at hx
          by_cases hk : matchedOK extra a etype m signature sub .whole = true
          · simp only [hk, if_true, List.mem_cons] at hx
            rcases hx with rfl | hx
            · exact ⟨rfl, ⟨hasTy, List.mem_cons_self, hr⟩, hk⟩
            · exact lift x hx
          · simp only [hk] at hx
            exact lift x hx
    · simp only [hr] at h
      obtain ⟨h1, ⟨hh, hm, hreach⟩, h3⟩ := ih maps out left h x hx
      exact ⟨h1, ⟨hh, List.mem_cons_of_mem _ hm, hreach⟩, h3⟩

/-- **`_get_matching_class_decls`**: every (class, attribute, map) the random choice of
    `_get_matching_class` may draw is an attribute of a class in scope that is typed, not `void`,
    not the function being generated when a signature is wanted, and fits the expected type under
    its map (`matchedOK`, unfolded by `matchedOK_sound`) -/
theorem matchingClassDecls_sound (extra : List (String × String)) (void etype : Ty) (sub signature : Bool)
    (self : String) (classes : List (String × List (Bool × AttrSig))) :
    ∀ (maps : List (Option TMap)) (out : List (String × AttrSig × TMap)),
    matchingClassDecls extra void etype sub signature self classes maps = some out →
    ∀ x ∈ out, (∃ attrs h, (x.1, attrs) ∈ classes ∧ (h, x.2.1) ∈ attrs ∧
        classAttrReached void signature self h x.2.1 = true) ∧
      matchedOK extra x.2.1 etype x.2.2 signature sub .whole = true := by
  induction classes with
  | nil =>
    intro maps out h x hx
    simp only [matchingClassDecls, Option.some.injEq] at h
    subst h; cases hx
  | cons p rest ih =>
    obtain ⟨cname, attrs⟩ := p
    intro maps out h x hx
    unfold matchingClassDecls at h
    cases hc : classDeclsOf extra void etype sub signature self cname attrs maps with
    | none => rw [hc] at h; cases h
    | some q =>
      obtain ⟨o1, left⟩ := q
      rw [hc] at h
      simp only [Option.map_eq_some_iff] at h
      obtain ⟨more, hrec, rfl⟩ := h
      rcases List.mem_append.1 hx with hx | hx
      · obtain ⟨h1, ⟨hh, hm, hreach⟩, h3⟩ := classDeclsOf_sound extra void etype sub signature self cname attrs maps o1 left hc x hx
        exact ⟨⟨attrs, hh, by rw [h1]; exact List.mem_cons_self, hm, hreach⟩, h3⟩
      · obtain ⟨⟨as, hh, hm1, hm2, hreach⟩, h3⟩ := ih left more hrec x hx
        exact ⟨⟨as, hh, List.mem_cons_of_mem _ hm1, hm2, hreach⟩, h3⟩

/-- **`_gen_matching_class`**: the attribute returned is one of the generated class's own
    attributes and fits the expected type exactly (`subtype` is off) under the instantiation's map;
    `None` is returned only when no attribute fits -/
theorem firstCompatible_sound (attrs : List AttrSig) (etype : Ty) (m : TMap) (signature : Bool) (a : AttrSig)
    (h : firstCompatible attrs etype m signature = some a) :
    a ∈ attrs ∧ matchedOK [] a etype m signature false .whole = true :=
  ⟨List.mem_of_find?_eq_some h, by simpa using List.find?_some h⟩

theorem firstCompatible_none (attrs : List AttrSig) (etype : Ty) (m : TMap) (signature : Bool)
    (h : firstCompatible attrs etype m signature = none) :
    ∀ a ∈ attrs, matchedOK [] a etype m signature false .whole = false := by
  intro a ha
  simpa using List.find?_eq_none.1 h a ha

/-- the hypotheses are satisfiable and the filter bites: of `class Box<T>(val x: T, val n: Number)`
    and `class Plain(val s: String)`, a `Long` position with `subtype` is offered `Box.x` under
    `T ↦ Long` only (`Number` is no subtype of `Long`, the unifier map of `n` is empty); the
    `(False, None)` answer of `_is_signature_compatible` drops an attribute -/
example :
    ((matchingClassDecls [] stringK longK true false "f"
        [("Box", [(true, ⟨"x", tT, [], fn1K⟩), (true, ⟨"n", numK, [], fn1K⟩)]),
         ("Plain", [(true, ⟨"s", stringK, [], fn1K⟩)])]
        [some [(tT, longK)], some [], some []]).map fun l => l.map fun x => (x.1, x.2.1.name))
      = some [("Box", "x")] ∧
    ((matchingClassDecls [] stringK longK true false "f"
        [("Box", [(true, ⟨"x", tT, [], fn1K⟩)])] [none]).map fun l => l.length) = some 0 ∧
    (firstCompatible [⟨"n", numK, [], fn1K⟩, ⟨"x", tT, [], fn1K⟩] longK [(tT, longK)] false).map (·.name)
      = some "x" := by
  decide

/-! ## 8. Decision points `_gen_func_from_existing` (overriding signatures) and `_gen_func_call`
       (expected types of the call arguments) -/

/-- the overriding function keeps the arity of the overridden one -/
theorem overrideSig_arity (m : TMap) (tpNames : List String) (ren : TMap) (params : List Ty) (ret : Ty) :
    (overrideSig m tpNames ren params ret).1.length = params.length := by
  simp [overrideSig]

/-- **each component of an overriding signature** is the overridden component under
    `substitute_type` with the superclass map restricted to the keys the function's own type
    parameters do not shadow; when that yields a type `==` to the old one, the renaming of the
    function's type parameters is applied on top -/
theorem overrideComponent_spec (m : TMap) (tpNames : List String) (ren : TMap) (old : Ty) :
    (beq old (substituteType old (restrictMap m tpNames)) = false →
      overrideComponent m tpNames ren old = substituteType old (restrictMap m tpNames)) ∧
    (beq old (substituteType old (restrictMap m tpNames)) = true →
      overrideComponent m tpNames ren old = substituteType (substituteType old (restrictMap m tpNames)) ren) := by
  constructor <;> intro h <;> simp [overrideComponent, h]

theorem overrideSig_components (m : TMap) (tpNames : List String) (ren : TMap) (params : List Ty) (ret : Ty)
    (i : Nat) (hi : i < params.length) :
    (overrideSig m tpNames ren params ret).1[i]? = some (overrideComponent m tpNames ren params[i]) ∧
    (overrideSig m tpNames ren params ret).2 = overrideComponent m tpNames ren ret := by
  simp [overrideSig, hi]

/-- the restricted map only has bindings of the superclass map, none for a shadowed name -/
theorem restrictMap_spec (m : TMap) (tpNames : List String) (p : Ty × Ty) (h : p ∈ restrictMap m tpNames) :
    p ∈ m ∧ keyName p.1 ∉ tpNames := by
  simp only [restrictMap, List.mem_filter, Bool.not_eq_true', List.contains_eq_mem, decide_eq_false_iff_not] at h
  exact h

/-- without type parameters of its own the overriding function's components are exactly the
    overridden ones under the superclass map (the checker's override obligation compares with
    these: `overrideObs`) -/
theorem overrideComponent_plain (m : TMap) (old : Ty) (h : beq old (substituteType old m) = false) :
    overrideComponent m [] [] old = substituteType old m := by
  have hr : restrictMap m [] = m := by simp [restrictMap]
  simp [overrideComponent, hr, h]

/-- **`_gen_func_call`, ordinary parameters**: when the callee has no vararg parameter the
    arguments are expected, in order, at the parameter types under `substitute_type` with the final
    `params_map` (receiver map updated with the function's own instantiation) -/
theorem callArgsExpected_plain (m : TMap) (ps : List CallParam) (counts : List Nat)
    (h : ∀ p ∈ ps, p.vararg = false) :
    callArgsExpected m ps counts = some (ps.map fun p => substituteType p.ty m) := by
  induction ps with
  | nil => simp [callArgsExpected]
  | cons p rest ih =>
    have hp := h p List.mem_cons_self
    have ih' := ih (fun q hq => h q (List.mem_cons_of_mem _ hq))
    simp [callArgsExpected, hp, callArgType, ih']

/-- **every expected argument type is a parameter's type under the map** (the element type
    `type_args[0]` for a vararg parameter) -/
theorem callArgsExpected_sound (m : TMap) (ps : List CallParam) :
    ∀ (counts : List Nat) (out : List Ty), callArgsExpected m ps counts = some out →
      ∀ t ∈ out, ∃ p ∈ ps, callArgType m p = some t := by
  induction ps with
  | nil => intro counts out h t ht; simp [callArgsExpected] at h; subst h; cases ht
  | cons p rest ih =>
    intro counts out h t ht
    unfold callArgsExpected at h
    by_cases hv : p.vararg = true
    · simp only [hv, if_true] at h
      cases counts with
      | nil => cases h
      | cons k counts' =>
        simp only [] at h
        cases hr : callArgsExpected m rest counts' with
        | none => rw [hr] at h; cases hc : callArgType m p <;> rw [hc] at h <;> cases h
        | some more =>
          rw [hr] at h
          cases hc : callArgType m p with
          | none =>
            rw [hc] at h
            simp only [] at h
            by_cases hk : (k == 0) = true
            · simp only [hk, if_true, Option.some.injEq] at h
              subst h
              obtain ⟨q, hq, hqt⟩ := ih counts' more hr t ht
              exact ⟨q, List.mem_cons_of_mem _ hq, hqt⟩
            · simp only [hk] at h; cases h
          | some a =>
            rw [hc] at h
            simp only [Option.some.injEq] at h
            subst h
            rcases List.mem_append.1 ht with ht | ht
            · rw [List.eq_of_mem_replicate ht]
              exact ⟨p, List.mem_cons_self, hc⟩
            · obtain ⟨q, hq, hqt⟩ := ih counts' more hr t ht
              exact ⟨q, List.mem_cons_of_mem _ hq, hqt⟩
    · simp only [hv] at h
      cases hc : callArgType m p with
      | none => rw [hc] at h; cases h
      | some a =>
        rw [hc] at h
        cases hr : callArgsExpected m rest counts with
        | none => rw [hr] at h; cases h
        | some more =>
          rw [hr] at h
          simp only [Bool.false_eq_true, if_false, Option.some.injEq] at h
          subst h
          rcases List.mem_cons.1 ht with rfl | ht
          · exact ⟨p, List.mem_cons_self, hc⟩
          · obtain ⟨q, hq, hqt⟩ := ih counts more hr t ht
            exact ⟨q, List.mem_cons_of_mem _ hq, hqt⟩

/-- the hypotheses are satisfiable: overriding `fun f(x: T, n: Number): T` of `Base<T>` in a class
    that extends `Base<Long>` gives `(Long, Number): Long`; a function type parameter of the same
    name shadows the superclass binding and is renamed instead; a call to `f` through the map
    `T ↦ Float` expects `Float` and `Number`, a vararg `Array<T>` parameter two `Float`s -/
example :
    (let r := overrideSig [(tT, longK)] [] [] [tT, numK] tT; beqL r.1 [longK, numK] && beq r.2 longK) = true ∧
    (let r := overrideSig [(tT, longK)] ["T"] [(tT, tparam "U" 0 none)] [tT, numK] tT
     beqL r.1 [tparam "U" 0 none, numK] && beq r.2 (tparam "U" 0 none)) = true ∧
    (match callArgsExpected [(tT, floatK)] [⟨tT, false⟩, ⟨numK, false⟩] [] with
     | some l => beqL l [floatK, numK] | none => false) = true ∧
    (match callArgsExpected [(tT, floatK)] [⟨numK, false⟩, ⟨mkP boxC [tT], true⟩] [2] with
     | some l => beqL l [numK, floatK, floatK] | none => false) = true := by
  decide

end Heph.Props.C01
