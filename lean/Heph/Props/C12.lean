import Heph.Proofs.TransKotlinPrinted
import Heph.Props.C12Scala
import Heph.Props.C12Groovy
import Heph.Spec.Brackets
/-!
# C12 — translations are faithful to the program's declarations and annotations (Kotlin modelled)

Model: `Heph.TransKotlin` (the state-threading port of `src/translators/kotlin.py` shared with C11);
a visit returns a `Doc`, a list of text pieces tagged with their origin, and the text is
`flatten doc`.  `kotlinDoc package p` is the doc of `KotlinTranslator(package).visit(p)`.

The IR side is `sem n` / `semProgram p` (`Proofs/TransKotlinDoc.lean`): the list of non-layout
pieces the program calls for — every declaration with the modifiers Kotlin expresses, super-class
clauses, bounds, type annotations the program carries, explicit type-argument lists, literals,
operators, name references — in print order, computed from the IR alone (no translator state);
`inventory p` (`Model/TransKotlin.lean`) is its restriction to declaration tags.

What is proved, for ALL programs (any `Node` tree, typed or not), every package and — through C11's
`history_independent` — every history of the translator object:

* `doc_tags` — the tags of the non-layout pieces of the doc are exactly those of `semProgram p`, in order.
* `doc_inventory` — `declTags (kotlinDoc package p) = inventory p` (every class, type parameter, field,
  super-class clause, function, parameter, variable exactly once, under its name, in order; annotation
  tags exactly where the program carries a type).
* `doc_pieces_partial` — tags AND texts of all non-layout pieces equal `semProgram p` when `condOK p`
  (the condition of every conditional is an expression other than a lambda); the full statement
  `doc_pieces` is refuted by `doc_pieces_counterexample` (`visit_conditional` cuts `self.ident`
  characters off the condition's text; replayed on the real code by the harness).
* `annot_iff_var`, `annot_iff_ret`, `annot_iff_targs`, `annot_iff_new` — local form: the piece that
  follows a variable's / function's declaration piece is its type annotation iff the program carries
  one (`var_type` / `ret_type` is not `None`), explicit type arguments are printed iff
  `can_infer_type_args` is false (and there are any); with the printed text.
* `tag_in_doc_iff` / `piece_in_doc_iff` — a non-layout tag (piece) occurs in the doc iff one of the nodes the
  translator visits (`printed`) contributes it (`own`); hence
* `annot_iff_var`, `annot_iff_ret`, `annot_iff_targs` (every program): a type annotation of variable `v` /
  return-type annotation of `f` / explicit type-argument list of a call of `f` is printed iff the program has
  such a declaration carrying a type (`var_type` / `ret_type` not `None`) / such a call with
  `can_infer_type_args = False` and type arguments; `annot_var_text`, `annot_ret_text`, `annot_targs_text`
  (`condOK`): what is printed is the NAME (`typeName`) of the declared type / of the carried type arguments.
* `literals_ops_present` (`condOK`): every piece a visited node calls for — in particular every literal and
  operator — is in the doc and its text is a part of the emitted text; `literals_ops_tags` (every program);
  `literal_piece_iff`: conversely every literal piece is a literal of the program.
* `balanced` — stated (`Spec/Brackets.lean`: `()`, `[]`, `{}` properly nested) and REFUTED as stated:
  `balanced_counterexample` (the cut in `visit_conditional` removes the `{` of a lambda condition).  The
  positive part (`condOK p` → balanced) is not proved yet; the harness checks the balance of every real text.
-/
namespace Heph.Props.C12
open Heph Heph.TransKotlin Heph.Brackets
-- the Scala translator: `Props/C12Scala.lean` (namespace `Heph.Props.C12.Scala`, imported above and audited with this file)

/-- tags of the non-layout pieces, in order: doc = what the program calls for (every program) -/
theorem doc_tags (package : Option String) (p : Program) :
    obs false (kotlinDoc package p) = obs false (semProgram p) :=
  obs_programDoc false _ p (okAtL_false _)

/-- the same after any history of translations by the same object -/
theorem doc_tags_history (package : Option String) (ps : List Program) (p : Program) :
    obs false (programDoc (after (initObj package) ps) p).2 = obs false (semProgram p) :=
  obs_programDoc false _ p (okAtL_false _)

/-- the declaration tags of the doc, in order, are the inventory computed from the IR -/
theorem doc_inventory (package : Option String) (p : Program) :
    declTags (kotlinDoc package p) = inventory p := by
  rw [← declTags_obs false, doc_tags, declTags_obs, semProgram, inventory, declTags_semL]

/-- full-strength statement about texts: the non-layout pieces (tags and texts) are `semProgram p` -/
def doc_pieces : Prop :=
  ∀ (package : Option String) (p : Program), obs true (kotlinDoc package p) = semProgram p

/-- proved part: programs in which the condition of every conditional is an expression whose text
    starts with its indentation (every expression kind except a lambda).  Missing for the full
    statement: `visit_conditional` removes `self.ident` leading characters of the condition's text
    whatever they are. -/
theorem doc_pieces_partial (package : Option String) (p : Program) (h : condOK p = true) :
    obs true (kotlinDoc package p) = semProgram p := by
  rw [kotlinDoc, obs_programDoc true _ p h, semProgram, obs_true_noOther _ (noOther_semL _)]

/-- the text (not only the tags) is independent of the state a declaration is visited in -/
theorem node_pieces (st : St) (n : Node) (h : okAt true n = true) : obs true (visit st n).2 = sem n := by
  rw [obs_visit true n st h, obs_true_noOther _ (noOther_sem n)]

/-! ## annotations, literals, operators: piece by piece -/


/-- a non-layout tag occurs in the doc iff a printed node of the program calls for it (every program) -/
theorem tag_in_doc_iff (package : Option String) (p : Program) (t : Tag) (ht : t ≠ Tag.other) :
    (∃ x, (t, x) ∈ kotlinDoc package p) ↔ ∃ m ∈ printedL p.decls, ∃ x, (t, x) ∈ own m := by
  rw [tag_mem_iff_of_obs_false (doc_tags package p) t ht]
  simp only [semProgram, mem_semL, Own]
  constructor
  · rintro ⟨x, m, hm, hx⟩; exact ⟨m, hm, x, hx⟩
  · rintro ⟨m, hm, x, hx⟩; exact ⟨x, m, hm, hx⟩

/-- with texts, when `condOK p` -/
theorem piece_in_doc_iff (package : Option String) (p : Program) (h : condOK p = true) (pc : Piece)
    (hpc : pc.1 ≠ Tag.other) :
    pc ∈ kotlinDoc package p ↔ ∃ m ∈ printedL p.decls, pc ∈ own m := by
  have e : obs true (kotlinDoc package p) = semProgram p := by
    rw [kotlinDoc, obs_programDoc true _ p h, semProgram, obs_true_noOther _ (noOther_semL _)]
  have := mem_obs_true pc (kotlinDoc package p)
  rw [e, semProgram, mem_semL] at this
  constructor
  · intro hm; exact this.mpr ⟨hm, hpc⟩
  · intro hm; exact (this.mp hm).1

/-- a type annotation of variable `v` is printed iff the program has a variable declaration `v` that
    carries a declared type (every program: an erased annotation is absent, an overwritten one present) -/
theorem annot_iff_var (package : Option String) (p : Program) (v : String) :
    (∃ x, (Tag.varAnnot v, x) ∈ kotlinDoc package p) ↔
      ∃ e f t i, Node.varDecl v e f (some t) i ∈ printedL p.decls := by
  rw [tag_in_doc_iff package p _ (by simp)]
  constructor
  · rintro ⟨m, hm, x, hx⟩
    obtain ⟨e, f, t, i, rfl, _⟩ := (varAnnot_own v x m).mp hx
    exact ⟨e, f, t, i, hm⟩
  · rintro ⟨e, f, t, i, hm⟩
    exact ⟨_, hm, _, (varAnnot_own v _ _).mpr ⟨e, f, t, i, rfl, rfl⟩⟩

/-- …and what is printed is the declared type (`condOK p`) -/
theorem annot_var_text (package : Option String) (p : Program) (h : condOK p = true) (v x : String) :
    (Tag.varAnnot v, x) ∈ kotlinDoc package p ↔
      ∃ e f t i, Node.varDecl v e f (some t) i ∈ printedL p.decls ∧ x = ": " ++ typeName t := by
  rw [piece_in_doc_iff package p h _ (by simp)]
  constructor
  · rintro ⟨m, hm, hx⟩
    obtain ⟨e, f, t, i, rfl, hxt⟩ := (varAnnot_own v x m).mp hx
    exact ⟨e, f, t, i, hm, hxt⟩
  · rintro ⟨e, f, t, i, hm, hxt⟩
    exact ⟨_, hm, (varAnnot_own v _ _).mpr ⟨e, f, t, i, rfl, hxt⟩⟩

theorem annot_iff_ret (package : Option String) (p : Program) (f : String) :
    (∃ x, (Tag.retAnnot f, x) ∈ kotlinDoc package p) ↔
      ∃ ps t inf body fin ov tps ft, Node.funcDecl f ps (some t) inf body fin ov tps ft ∈ printedL p.decls := by
  rw [tag_in_doc_iff package p _ (by simp)]
  constructor
  · rintro ⟨m, hm, x, hx⟩
    obtain ⟨ps, t, inf, body, fin, ov, tps, ft, rfl, _⟩ := (retAnnot_own f x m).mp hx
    exact ⟨ps, t, inf, body, fin, ov, tps, ft, hm⟩
  · rintro ⟨ps, t, inf, body, fin, ov, tps, ft, hm⟩
    exact ⟨_, hm, _, (retAnnot_own f _ _).mpr ⟨ps, t, inf, body, fin, ov, tps, ft, rfl, rfl⟩⟩

theorem annot_ret_text (package : Option String) (p : Program) (h : condOK p = true) (f x : String) :
    (Tag.retAnnot f, x) ∈ kotlinDoc package p ↔
      ∃ ps t inf body fin ov tps ft, Node.funcDecl f ps (some t) inf body fin ov tps ft ∈ printedL p.decls ∧
        x = ": " ++ typeName t := by
  rw [piece_in_doc_iff package p h _ (by simp)]
  constructor
  · rintro ⟨m, hm, hx⟩
    obtain ⟨ps, t, inf, body, fin, ov, tps, ft, rfl, hxt⟩ := (retAnnot_own f x m).mp hx
    exact ⟨ps, t, inf, body, fin, ov, tps, ft, hm, hxt⟩
  · rintro ⟨ps, t, inf, body, fin, ov, tps, ft, hm, hxt⟩
    exact ⟨_, hm, (retAnnot_own f _ _).mpr ⟨ps, t, inf, body, fin, ov, tps, ft, rfl, hxt⟩⟩

/-- an explicit type-argument list of a call of `f` is printed iff the program has a call of `f` with
    type arguments whose `can_infer_type_args` is false -/
theorem annot_iff_targs (package : Option String) (p : Program) (f : String) :
    (∃ x, (Tag.targs f, x) ∈ kotlinDoc package p) ↔
      ∃ args recv targs rc, Node.call f args recv targs false rc ∈ printedL p.decls ∧ targs ≠ [] := by
  rw [tag_in_doc_iff package p _ (by simp)]
  constructor
  · rintro ⟨m, hm, x, hx⟩
    obtain ⟨args, recv, targs, rc, rfl, hne, _⟩ := (targs_own f x m).mp hx
    exact ⟨args, recv, targs, rc, hm, hne⟩
  · rintro ⟨args, recv, targs, rc, hm, hne⟩
    exact ⟨_, hm, _, (targs_own f _ _).mpr ⟨args, recv, targs, rc, rfl, hne, rfl⟩⟩

/-- …and what is printed is the list of the NAMES of the type arguments the call carries (`condOK p`): an
    overwritten type argument of a call is printed as overwritten -/
theorem annot_targs_text (package : Option String) (p : Program) (h : condOK p = true) (f x : String) :
    (Tag.targs f, x) ∈ kotlinDoc package p ↔
      ∃ args recv targs rc, Node.call f args recv targs false rc ∈ printedL p.decls ∧ targs ≠ [] ∧
        x = "<" ++ ",".intercalate (targs.map typeName) ++ ">" := by
  rw [piece_in_doc_iff package p h _ (by simp)]
  constructor
  · rintro ⟨m, hm, hx⟩
    obtain ⟨args, recv, targs, rc, rfl, hne, hxt⟩ := (targs_own f x m).mp hx
    exact ⟨args, recv, targs, rc, hm, hne, hxt⟩
  · rintro ⟨args, recv, targs, rc, hm, hne, hxt⟩
    exact ⟨_, hm, (targs_own f _ _).mpr ⟨args, recv, targs, rc, rfl, hne, hxt⟩⟩

/-- every piece a printed node calls for — in particular every literal and every operator of the
    program — is in the doc, and its text is a part of the emitted text (`condOK p`) -/
theorem literals_ops_present (package : Option String) (p : Program) (h : condOK p = true)
    (m : Node) (hm : m ∈ printedL p.decls) (pc : Piece) (hpc : pc ∈ own m) :
    pc ∈ kotlinDoc package p ∧ ∃ a b, flatten (kotlinDoc package p) = a ++ pc.2 ++ b := by
  have hno : pc.1 ≠ Tag.other := by
    have h1 : pc ∈ semL p.decls := (mem_semL pc p.decls).mpr ⟨m, hm, hpc⟩
    have h2 := noOther_semL p.decls
    simp only [noOther, List.all_eq_true, bne_iff_ne, ne_eq] at h2
    exact h2 pc h1
  have hin := (piece_in_doc_iff package p h pc hno).mpr ⟨m, hm, hpc⟩
  exact ⟨hin, piece_infix pc _ hin⟩

/-- for every program (no hypothesis): the tag of every such piece occurs -/
theorem literals_ops_tags (package : Option String) (p : Program)
    (m : Node) (hm : m ∈ printedL p.decls) (t : Tag) (x : String) (hpc : (t, x) ∈ own m) :
    ∃ y, (t, y) ∈ kotlinDoc package p := by
  have hno : t ≠ Tag.other := by
    have h1 : (t, x) ∈ semL p.decls := (mem_semL _ p.decls).mpr ⟨m, hm, hpc⟩
    have h2 := noOther_semL p.decls
    simp only [noOther, List.all_eq_true, bne_iff_ne, ne_eq] at h2
    exact h2 _ h1
  exact (tag_in_doc_iff package p t hno).mpr ⟨m, hm, x, hpc⟩

/-- the literals: a string / char / number / Boolean constant of the program is printed with its text -/
theorem string_literal_present (package : Option String) (p : Program) (h : condOK p = true) (lit : String)
    (hm : Node.stringC lit ∈ printedL p.decls) :
    ∃ a b, flatten (kotlinDoc package p) = a ++ lit ++ b :=
  (literals_ops_present package p h _ hm (Tag.lit, lit) (by simp [own])).2

theorem operator_present (package : Option String) (p : Program) (h : condOK p = true) (k op : String) (l r : Node)
    (hm : Node.binop k l r op ∈ printedL p.decls) :
    (Tag.op, op) ∈ kotlinDoc package p :=
  (literals_ops_present package p h _ hm (Tag.op, op) (by simp [own])).1

/-- conversely a literal piece of the doc is a literal of the program -/
theorem literal_piece_iff (package : Option String) (p : Program) (h : condOK p = true) (x : String) :
    (Tag.lit, x) ∈ kotlinDoc package p ↔
      ∃ m ∈ printedL p.decls, (∃ t, m = .intC x t) ∨ (∃ t, m = .realC x t) ∨ m = .boolC x ∨ m = .charC x ∨
        m = .stringC x := by
  rw [piece_in_doc_iff package p h _ (by simp)]
  constructor
  · rintro ⟨m, hm, hx⟩; exact ⟨m, hm, (lit_own x m).mp hx⟩
  · rintro ⟨m, hm, hx⟩; exact ⟨m, hm, (lit_own x m).mpr hx⟩

/-! ## the cut in `visit_conditional` -/

def tyAny : Ty := .builtin "<class 'src.ir.kotlin_types.AnyType'>" "Any" false false []
def tyInt : Ty := .builtin "<class 'src.ir.kotlin_types.IntegerType'>" "Int" false false [tyAny]
def tyLong : Ty := .builtin "<class 'src.ir.kotlin_types.LongType'>" "Long" false false [tyAny]

/-- `if ({x: Int -> true}) 1 else 2` (a lambda as the condition; never generated: not Boolean) -/
def badCond : Program := {
  lang := "kotlin",
  decls := [.cond (.lambda "l" [.paramDecl "x" tyInt false none] none (.boolC "true") none)
              (.intC "1" none) (.intC "2" none) none],
  context := [] }

example : flatten (kotlinDoc none badCond) = "(if (: Int -> true})\n  1\nelse\n  2)" := by decide +kernel
example : semProgram badCond =
    [(Tag.paramD "x", "x: Int"), (Tag.lit, "true"), (Tag.lit, "1"), (Tag.lit, "2")] := by decide +kernel

/-- the code violates the full statement: the opening brace of the lambda and the parameter's name
    are cut off (the harness replays this on the real `KotlinTranslator`) -/
theorem doc_pieces_counterexample : ¬ doc_pieces := by
  intro h
  exact absurd (h none badCond) (by decide +kernel)

/-! ## balance -/

/-- the full-strength statement: if the names, type names, literals and operators the program calls for
    and the package name are bracket-neutral, the emitted text is balanced -/
def balanced : Prop :=
  ∀ (package : Option String) (p : Program),
    (∀ pc ∈ semProgram p, Neutral pc.2) → Neutral (packageLine package) →
    Balanced (flatten (kotlinDoc package p))

theorem neutral_of_no_brackets (s : String)
    (h : ∀ c ∈ s.toList, c ≠ '(' ∧ c ≠ ')' ∧ c ≠ '[' ∧ c ≠ ']' ∧ c ≠ '{' ∧ c ≠ '}') : Neutral s := by
  intro stk
  generalize s.toList = cs at h
  induction cs generalizing stk with
  | nil => rfl
  | cons c r ih =>
    have hc := h c List.mem_cons_self
    simp only [run, step, hc.1, hc.2.1, hc.2.2.1, hc.2.2.2.1, hc.2.2.2.2.1, hc.2.2.2.2.2, or_self, if_false]
    exact ih stk (fun d hd => h d (List.mem_cons_of_mem _ hd))

/-- the code violates it: for `if ({x: Int -> true}) 1 else 2` the opening brace of the lambda is cut off
    by `visit_conditional` although every piece the program calls for is bracket-free -/
theorem balanced_counterexample : ¬ balanced := by
  intro h
  have hb := h none badCond
    (by
      intro pc hpc
      apply neutral_of_no_brackets
      revert pc
      decide +kernel)
    (neutral_of_no_brackets _ (by decide +kernel))
  revert hb
  decide +kernel

example : ¬ Balanced (flatten (kotlinDoc none badCond)) := by decide +kernel

/-! ## non-vacuity: the demo program of C11 -/

/-- `open class B(open val x: Int)`, `class A<T: Any>(override val x: Int): B(1) { fun f(a: Int): Long = … }`,
    `fun g(): Int { val v = 3 ; return v }`, `fun h() = if (v < 3) g() else id<Int>(2)` with an erased return type -/
def demo : Program := {
  lang := "kotlin",
  decls := [
    .classDecl "B" 0 false [.fieldDecl "x" tyInt true true false] [] [] [],
    .classDecl "A" 0 true [.fieldDecl "x" tyInt true false true]
      [.superInst (.simple "B" []) (some [.intC "1" (some tyInt)])]
      [.funcDecl "f" [.paramDecl "a" tyInt false none] (some tyLong) (some tyLong)
         (some (.intC "-2" (some tyLong))) true false [] 0]
      [.tparam "T" 0 none],
    .funcDecl "g" [] (some tyInt) (some tyInt)
      (some (.block [.varDecl "v" (.intC "3" (some tyInt)) true none (some tyInt), .variable "v"] true))
      true false [] 1,
    .funcDecl "h" [] none (some tyInt)
      (some (.cond (.binop "comparison" (.variable "v") (.intC "3" (some tyInt)) "<")
              (.call "g" [] none [] true false)
              (.call "id" [.callArg (.intC "2" (some tyInt)) none] none [tyInt] false false) (some tyInt)))
      true false [] 1],
  context := [] }

example : condOK demo = true := by decide +kernel
example : inventory demo =
    [Tag.classD "B", Tag.fieldD "x", Tag.classD "A", Tag.tparamD "T", Tag.fieldD "x", Tag.superT,
     Tag.funcD "f", Tag.paramD "a", Tag.retAnnot "f", Tag.funcD "g", Tag.retAnnot "g", Tag.varD "v",
     Tag.funcD "h", Tag.targs "id"] := by decide +kernel
example : declTags (kotlinDoc (some "src.pkg") demo) = inventory demo := doc_inventory _ _
example : obs true (kotlinDoc (some "src.pkg") demo) = semProgram demo := doc_pieces_partial _ _ (by decide +kernel)
example : (Tag.retAnnot "h", ": Int") ∉ semProgram demo ∧ (Tag.retAnnot "g", ": Int") ∈ semProgram demo ∧
    (Tag.targs "id", "<Int>") ∈ semProgram demo ∧ (Tag.op, "<") ∈ semProgram demo := by decide +kernel

/-- `annot_targs_text` on the demo: the hypotheses hold and the printed `<Int>` is traced back to a call of `id` -/
example : ∃ args recv targs rc, Node.call "id" args recv targs false rc ∈ printedL demo.decls ∧ targs ≠ [] ∧
    "<Int>" = "<" ++ ",".intercalate (targs.map typeName) ++ ">" :=
  (annot_targs_text (some "src.pkg") demo (by decide +kernel) "id" "<Int>").mp (by decide +kernel)

example : Balanced (flatten (kotlinDoc (some "src.pkg") demo)) := by decide +kernel

end Heph.Props.C12
