import Heph.Proofs.TransKotlinDoc
/-!
# C12 — translations are faithful to the program's declarations and annotations (Kotlin modelled)

Model: `Heph.TransKotlin` (the state-threading port of `src/translators/kotlin.py` shared with C11);
a visit returns a `Doc`, a list of text pieces tagged with their origin, and the text is
`flatten doc`.  `kotlinDoc package p` is the doc of `KotlinTranslator(package).visit(p)`.

The IR side is `sem n` / `semProgram p` (`Proofs/TransKotlinDoc.lean`): the list of non-layout
pieces the program calls for — every declaration with the modifiers Kotlin expresses, super-class
clauses, bounds, type annotations the program carries, explicit type-argument lists, literals,
operators, name references — in print order, computed from the IR alone (no translator state);
`inventory p` (`Model/TransKotlin.lean`) is its restriction to declaration tags.

What is proved, for ALL programs (any `Node` tree, typed or not), every package and — through C11's
`history_independent` — every history of the translator object:

* `doc_tags` — the tags of the non-layout pieces of the doc are exactly those of `semProgram p`, in order.
* `doc_inventory` — `declTags (kotlinDoc package p) = inventory p` (every class, type parameter, field,
  super-class clause, function, parameter, variable exactly once, under its name, in order; annotation
  tags exactly where the program carries a type).
* `doc_pieces_partial` — tags AND texts of all non-layout pieces equal `semProgram p` when `condOK p`
  (the condition of every conditional is an expression other than a lambda); the full statement
  `doc_pieces` is refuted by `doc_pieces_counterexample` (`visit_conditional` cuts `self.ident`
  characters off the condition's text; replayed on the real code by the harness).
* `annot_iff_var`, `annot_iff_ret`, `annot_iff_targs`, `annot_iff_new` — local form: the piece that
  follows a variable's / function's declaration piece is its type annotation iff the program carries
  one (`var_type` / `ret_type` is not `None`), explicit type arguments are printed iff
  `can_infer_type_args` is false (and there are any); with the printed text.
* `literals_ops_present` — see below.
-/
namespace Heph.Props.C12
open Heph Heph.TransKotlin

/-- tags of the non-layout pieces, in order: doc = what the program calls for (every program) -/
theorem doc_tags (package : Option String) (p : Program) :
    obs false (kotlinDoc package p) = obs false (semProgram p) :=
  obs_programDoc false _ p (okAtL_false _)

/-- the same after any history of translations by the same object -/
theorem doc_tags_history (package : Option String) (ps : List Program) (p : Program) :
    obs false (programDoc (after (initObj package) ps) p).2 = obs false (semProgram p) :=
  obs_programDoc false _ p (okAtL_false _)

/-- the declaration tags of the doc, in order, are the inventory computed from the IR -/
theorem doc_inventory (package : Option String) (p : Program) :
    declTags (kotlinDoc package p) = inventory p := by
  rw [← declTags_obs false, doc_tags, declTags_obs, semProgram, inventory, declTags_semL]

/-- full-strength statement about texts: the non-layout pieces (tags and texts) are `semProgram p` -/
def doc_pieces : Prop :=
  ∀ (package : Option String) (p : Program), obs true (kotlinDoc package p) = semProgram p

/-- proved part: programs in which the condition of every conditional is an expression whose text
    starts with its indentation (every expression kind except a lambda).  Missing for the full
    statement: `visit_conditional` removes `self.ident` leading characters of the condition's text
    whatever they are. -/
theorem doc_pieces_partial (package : Option String) (p : Program) (h : condOK p = true) :
    obs true (kotlinDoc package p) = semProgram p := by
  rw [kotlinDoc, obs_programDoc true _ p h, semProgram, obs_true_noOther _ (noOther_semL _)]

/-- the text (not only the tags) is independent of the state a declaration is visited in -/
theorem node_pieces (st : St) (n : Node) (h : okAt true n = true) : obs true (visit st n).2 = sem n := by
  rw [obs_visit true n st h, obs_true_noOther _ (noOther_sem n)]

/-! ## the cut in `visit_conditional` -/

def tyAny : Ty := .builtin "<class 'src.ir.kotlin_types.AnyType'>" "Any" false false []
def tyInt : Ty := .builtin "<class 'src.ir.kotlin_types.IntegerType'>" "Int" false false [tyAny]
def tyLong : Ty := .builtin "<class 'src.ir.kotlin_types.LongType'>" "Long" false false [tyAny]

/-- `if ({x: Int -> true}) 1 else 2` (a lambda as the condition; never generated: not Boolean) -/
def badCond : Program := {
  lang := "kotlin",
  decls := [.cond (.lambda "l" [.paramDecl "x" tyInt false none] none (.boolC "true") none)
              (.intC "1" none) (.intC "2" none) none],
  context := [] }

example : flatten (kotlinDoc none badCond) = "(if (: Int -> true})\n  1\nelse\n  2)" := by decide +kernel
example : semProgram badCond =
    [(Tag.paramD "x", "x: Int"), (Tag.lit, "true"), (Tag.lit, "1"), (Tag.lit, "2")] := by decide +kernel

/-- the code violates the full statement: the opening brace of the lambda and the parameter's name
    are cut off (the harness replays this on the real `KotlinTranslator`) -/
theorem doc_pieces_counterexample : ¬ doc_pieces := by
  intro h
  exact absurd (h none badCond) (by decide +kernel)

/-! ## non-vacuity: the demo program of C11 -/

/-- `open class B(open val x: Int)`, `class A<T: Any>(override val x: Int): B(1) { fun f(a: Int): Long = … }`,
    `fun g(): Int { val v = 3 ; return v }`, `fun h() = if (v < 3) g() else id<Int>(2)` with an erased return type -/
def demo : Program := {
  lang := "kotlin",
  decls := [
    .classDecl "B" 0 false [.fieldDecl "x" tyInt true true false] [] [] [],
    .classDecl "A" 0 true [.fieldDecl "x" tyInt true false true]
      [.superInst (.simple "B" []) (some [.intC "1" (some tyInt)])]
      [.funcDecl "f" [.paramDecl "a" tyInt false none] (some tyLong) (some tyLong)
         (some (.intC "-2" (some tyLong))) true false [] 0]
      [.tparam "T" 0 none],
    .funcDecl "g" [] (some tyInt) (some tyInt)
      (some (.block [.varDecl "v" (.intC "3" (some tyInt)) true none (some tyInt), .variable "v"] true))
      true false [] 1,
    .funcDecl "h" [] none (some tyInt)
      (some (.cond (.binop "comparison" (.variable "v") (.intC "3" (some tyInt)) "<")
              (.call "g" [] none [] true false)
              (.call "id" [.callArg (.intC "2" (some tyInt)) none] none [tyInt] false false) (some tyInt)))
      true false [] 1],
  context := [] }

example : condOK demo = true := by decide +kernel
example : inventory demo =
    [Tag.classD "B", Tag.fieldD "x", Tag.classD "A", Tag.tparamD "T", Tag.fieldD "x", Tag.superT,
     Tag.funcD "f", Tag.paramD "a", Tag.retAnnot "f", Tag.funcD "g", Tag.retAnnot "g", Tag.varD "v",
     Tag.funcD "h", Tag.targs "id"] := by decide +kernel
example : declTags (kotlinDoc (some "src.pkg") demo) = inventory demo := doc_inventory _ _
example : obs true (kotlinDoc (some "src.pkg") demo) = semProgram demo := doc_pieces_partial _ _ (by decide +kernel)
example : (Tag.retAnnot "h", ": Int") ∉ semProgram demo ∧ (Tag.retAnnot "g", ": Int") ∈ semProgram demo ∧
    (Tag.targs "id", "<Int>") ∈ semProgram demo ∧ (Tag.op, "<") ∈ semProgram demo := by decide +kernel

end Heph.Props.C12
