import Heph.Model.GenNew
import Heph.Proofs.SubstSyn
import Heph.Proofs.SubstBeq
/-!
# C01, decision point `gen_new`: the part that rests on C07

`Heph/Props/C01.lean` lives in the world of C06 (`Spec/Subtyping.lean`), this file in the world of
C07 (`Spec/Subst.lean`: substitution on syntax `substS`, `tvarsWithin`); the two specifications
both define `Ty.wf` and cannot be imported together.  Audited with C01 (`harness/check_C01.py`).
-/
namespace Heph.Props.C01Gen
open Heph Heph.Ty Heph.Check

/-- **the expected types of `gen_new` are the field types of the instantiated class**: by C07
    (`getSubst_eq`), when the field types only mention the class's own type
    parameters and the type arguments are type-variable free, every constructor argument is
    expected at the field's type under the *syntactic* substitution `substS` of the instantiation:
    the field types of the instantiated class -/
theorem genNew_expected_substS (c : NewClass) (targs : List Ty) (hlen : c.tparams.length ≤ targs.length)
    (htv : hasTVL targs = false) (hf : ∀ f ∈ c.fields, tvarsWithin c.tparams f = true) :
    (c.fields.map fun f => substituteType f (TMap.mk c.tparams targs)) =
      c.fields.map fun f => substS (TMap.mk c.tparams targs) f := by
  apply List.map_congr_left
  intro f hfm
  exact getSubst_eq f _ c.tparams false
    (TMap.mk_pres (hasTV · = false) _ _ (hasTVL_false_mem htv)) (TMap.mk_covers _ _ hlen) (hf f hfm)


private def anyK : Ty := builtin "<class 'src.ir.kotlin_types.AnyType'>" "Any" false false []
private def longK : Ty := builtin "<class 'src.ir.kotlin_types.LongType'>" "Long" false false [anyK]
private def tT : Ty := tparam "T" 0 none
private def boxC : Ty := tcon "<class 'src.ir.types.TypeConstructor'>" "Box" [tT] [anyK]

/-- the hypotheses are satisfiable: `class Box<T>(val x: T, val y: Box<T>)` at `Box<Long>` -/
example :
    let c : NewClass := ⟨"Box", boxC, [tT], [tT, tconNew boxC [tT]]⟩
    c.tparams.length ≤ [longK].length ∧ hasTVL [longK] = false ∧
      (∀ f ∈ c.fields, tvarsWithin c.tparams f = true) := by
  decide

end Heph.Props.C01Gen
