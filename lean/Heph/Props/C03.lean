import Heph.Proofs.MutationEq
import Heph.Proofs.MutationMap
import Heph.Spec.Mutation
/-!
# C03 — type erasure only removes inferable type information (partial)

Theorems about the model `Heph/Model/Mutation.lean` of `TypeErasure` and of
`is_combination_feasible`.  The declarative notions are in `Heph/Spec/Mutation.lean`
(`ErasedSlot`, `DeclsOK`, `InstsOK`) and `Heph/Spec/Graph.lean` (`ReachAny`).

What is NOT proved here (hence *partial*): that the erased program is still well typed (that leg
is the verified checker of C01, called by the harness when the driver offers `check.wt`, and
javac for Java), and anything about how `TypeDependencyAnalysis` builds the graph (the harness
feeds the graph the code built to the model).
-/
namespace Heph.Props.C03
open Heph Heph.Mut Heph.Graph

/-! ## a small program -/

def tA : Ty := .simple "A" []
def tBcon : Ty := .tcon "TypeConstructor" "B" [.tparam "T" 0 none] []
def tBA : Ty := .param "B" tBcon [tA] []

/-- `fun f(): B<A> { val x: B<A> = new B<A>(); x }` with every annotation present -/
def demo : Program :=
  { lang := "kotlin",
    decls := [.funcDecl "f" [] (some tBA) (some tBA)
      (some (.block [.varDecl "x" (.newE tBA [] false) false (some tBA) (some tBA), .variable "x"] true))
      false false [] 1],
    context := [⟨["global"], "funcs", "f"⟩] }

def sRet : Site := ⟨[(0, 0)], .retType⟩
def sVar : Site := ⟨[(0, 0), (1, 0), (0, 0)], .varType⟩
def sNew : Site := ⟨[(0, 0), (0, 0), (1, 0), (0, 0)], .newInfer⟩

example : omittableSites demo = [sRet, sVar, sNew] := by decide

/-! ## the effect of erasure -/

/-- **Frame.**  Erasing at any set of sites leaves the *skeleton* of the program unchanged: the
    program with exactly the declared variable types, the declared return types and the
    `can_infer_type_args` flags forgotten.  Names, modifiers, node shapes, every other type and
    the recorded (`inferred`) types are part of the skeleton. -/
theorem eraseAt_frame (S : List Site) (p : Program) : skeleton (eraseAt S p) = skeleton p := by
  unfold skeleton eraseAt
  rw [mapProg_comp]
  rfl

/-- **Frame, slot by slot.**  The erased program has the same slots at the same paths in the
    same order, and each is related to the original one by `ErasedSlot`: a declared type stays
    or disappears, a flag stays or is set, nothing else moves. -/
theorem eraseAt_slots (S : List Site) (p : Program) :
    slots (eraseAt S p) = (slots p).map (appP (eraseFn S)) ∧
    ∀ π s, ErasedSlot s ((eraseFn S).app π s) := by
  refine ⟨slots_mapProg _ _, ?_⟩
  intro π s
  cases s with
  | var vt inf =>
      simp only [SlotFn.app, eraseFn, ErasedSlot, true_and]
      split <;> simp
  | func rt inf =>
      simp only [SlotFn.app, eraseFn, ErasedSlot, true_and]
      split <;> simp
  | new t ci =>
      simp only [SlotFn.app, eraseFn, ErasedSlot, true_and]
      by_cases h : (⟨π, .newInfer⟩ : Site) ∈ S <;> simp [h]
  | call ta ci =>
      simp only [SlotFn.app, eraseFn, ErasedSlot, true_and]
      by_cases h : (⟨π, .callInfer⟩ : Site) ∈ S <;> simp [h]

example : skeleton (eraseAt [sVar, sNew] demo) = skeleton demo := eraseAt_frame _ _

/-! ## the diff -/

theorem candSites_sub (p : Program) (sq : List (Path × Slot)) :
    ∀ s ∈ candSites (slots p) sq, s ∈ omittableSites p := by
  intro s hs
  simp only [candSites, List.mem_filterMap] at hs
  obtain ⟨⟨a, b⟩, hab, hf⟩ := hs
  have ha := (List.of_mem_zip hab).1
  simp only [omittableSites, List.mem_filterMap]
  refine ⟨a, ha, ?_⟩
  cases hof : omitField a.2 with
  | none => simp [hof] at hf
  | some f =>
      simp only [hof] at hf
      split at hf
      · simpa using hf
      · cases hf

/-- full statement of the design: the diff answers `some S` exactly for the erasures at
    omittable sites -/
def erasureDiff_complete : Prop :=
  ∀ (p q : Program) (S : List Site),
    erasureDiff p q = some S ↔ q = eraseAt S p ∧ (∀ s ∈ S, s ∈ omittableSites p) ∧
      S = candSites (slots p) (slots q)

/-- **Soundness of the diff** (the direction the harness relies on).  When `erasureDiff`
    answers `some S`, the second program IS the first one erased at `S` — structurally equal,
    not merely equal up to the hand-written comparison — and every site of `S` is a place where
    the first program had something erasure removes: a declared variable type, a declared
    return type, or explicit type arguments of a constructor call / generic call. -/
theorem erasureDiff_sound {p q : Program} {S : List Site} (h : erasureDiff p q = some S) :
    q = eraseAt S p ∧ (∀ s ∈ S, s ∈ omittableSites p) ∧ skeleton q = skeleton p := by
  unfold erasureDiff at h
  simp only at h
  split at h
  · rename_i heq
    cases h
    have e := (progEq_iff.1 heq).symm
    exact ⟨e, candSites_sub p _, by rw [e]; exact eraseAt_frame _ _⟩
  · cases h

example : erasureDiff demo (eraseAt [sVar, sNew] demo) = some [sVar, sNew] := by decide +kernel
example : erasureDiff demo demo = some [] := by decide +kernel
/-- a change of a name, and a change of a recorded type, are not erasures -/
example : erasureDiff demo { demo with lang := "java" } = none := by decide +kernel
example : erasureDiff demo (mapProg { SlotFn.id with var := fun _ vt _ => (vt, none) } demo) = none := by decide +kernel

end Heph.Props.C03
