import Heph.Proofs.MutationEq
import Heph.Proofs.MutationMap
import Heph.Proofs.MutationFeasible
import Heph.Proofs.MutationPick
import Heph.Spec.Mutation
/-!
# C03 — type erasure only removes inferable type information (partial)

Theorems about the model `Heph/Model/Mutation.lean` of `TypeErasure` and of
`is_combination_feasible`.  The declarative notions are in `Heph/Spec/Mutation.lean`
(`ErasedSlot`, `DeclsOK`, `InstsOK`) and `Heph/Spec/Graph.lean` (`ReachAny`).

What is NOT proved here (hence *partial*): that the erased program is still well typed (that leg
is the verified checker of C01, called by the harness when the driver offers `check.wt`, and
javac for Java), and anything about how `TypeDependencyAnalysis` builds the graph (the harness
feeds the graph the code built to the model).
-/
namespace Heph.Props.C03
open Heph Heph.Mut Heph.Graph

/-! ## a small program -/

def tA : Ty := .simple "A" []
def tBcon : Ty := .tcon "TypeConstructor" "B" [.tparam "T" 0 none] []
def tBA : Ty := .param "B" tBcon [tA] []

/-- `fun f(): B<A> { val x: B<A> = new B<A>(); x }` with every annotation present -/
def demo : Program :=
  { lang := "kotlin",
    decls := [.funcDecl "f" [] (some tBA) (some tBA)
      (some (.block [.varDecl "x" (.newE tBA [] false) false (some tBA) (some tBA), .variable "x"] true))
      false false [] 1],
    context := [⟨["global"], "funcs", "f"⟩] }

def sRet : Site := ⟨[(0, 0)], .retType⟩
def sVar : Site := ⟨[(0, 0), (1, 0), (0, 0)], .varType⟩
def sNew : Site := ⟨[(0, 0), (0, 0), (1, 0), (0, 0)], .newInfer⟩

example : omittableSites demo = [sRet, sVar, sNew] := by decide

/-! ## the effect of erasure -/

/-- **Frame.**  Erasing at any set of sites leaves the *skeleton* of the program unchanged: the
    program with exactly the declared variable types, the declared return types and the
    `can_infer_type_args` flags forgotten.  Names, modifiers, node shapes, every other type and
    the recorded (`inferred`) types are part of the skeleton. -/
theorem eraseAt_frame (S : List Site) (p : Program) : skeleton (eraseAt S p) = skeleton p := by
  unfold skeleton eraseAt
  rw [mapProg_comp]
  rfl

/-- **Frame, slot by slot.**  The erased program has the same slots at the same paths in the
    same order, and each is related to the original one by `ErasedSlot`: a declared type stays
    or disappears, a flag stays or is set, nothing else moves. -/
theorem eraseAt_slots (S : List Site) (p : Program) :
    slots (eraseAt S p) = (slots p).map (appP (eraseFn S)) ∧
    ∀ π s, ErasedSlot s ((eraseFn S).app π s) := by
  refine ⟨slots_mapProg _ _, ?_⟩
  intro π s
  cases s with
  | var vt inf =>
      simp only [SlotFn.app, eraseFn, ErasedSlot, true_and]
      split <;> simp
  | func rt inf =>
      simp only [SlotFn.app, eraseFn, ErasedSlot, true_and]
      split <;> simp
  | new t ci =>
      simp only [SlotFn.app, eraseFn, ErasedSlot, true_and]
      by_cases h : (⟨π, .newInfer⟩ : Site) ∈ S <;> simp [h]
  | call ta ci =>
      simp only [SlotFn.app, eraseFn, ErasedSlot, true_and]
      by_cases h : (⟨π, .callInfer⟩ : Site) ∈ S <;> simp [h]

example : skeleton (eraseAt [sVar, sNew] demo) = skeleton demo := eraseAt_frame _ _

/-! ## the diff -/

theorem candSites_sub (p : Program) (sq : List (Path × Slot)) :
    ∀ s ∈ candSites (slots p) sq, s ∈ omittableSites p := by
  intro s hs
  simp only [candSites, List.mem_filterMap] at hs
  obtain ⟨⟨a, b⟩, hab, hf⟩ := hs
  have ha := (List.of_mem_zip hab).1
  simp only [omittableSites, List.mem_filterMap]
  refine ⟨a, ha, ?_⟩
  cases hof : omitField a.2 with
  | none => simp [hof] at hf
  | some f =>
      simp only [hof] at hf
      split at hf
      · simpa using hf
      · cases hf

/-- full statement of the design: the diff answers `some S` exactly for the erasures at
    omittable sites -/
def erasureDiff_complete : Prop :=
  ∀ (p q : Program) (S : List Site),
    erasureDiff p q = some S ↔ q = eraseAt S p ∧ (∀ s ∈ S, s ∈ omittableSites p) ∧
      S = candSites (slots p) (slots q)

/-- **Soundness of the diff** (the direction the harness relies on).  When `erasureDiff`
    answers `some S`, the second program IS the first one erased at `S` — structurally equal,
    not merely equal up to the hand-written comparison — and every site of `S` is a place where
    the first program had something erasure removes: a declared variable type, a declared
    return type, or explicit type arguments of a constructor call / generic call. -/
theorem erasureDiff_sound {p q : Program} {S : List Site} (h : erasureDiff p q = some S) :
    q = eraseAt S p ∧ (∀ s ∈ S, s ∈ omittableSites p) ∧ skeleton q = skeleton p := by
  unfold erasureDiff at h
  simp only at h
  split at h
  · rename_i heq
    cases h
    have e := (progEq_iff.1 heq).symm
    exact ⟨e, candSites_sub p _, by rw [e]; exact eraseAt_frame _ _⟩
  · cases h

example : erasureDiff demo (eraseAt [sVar, sNew] demo) = some [sVar, sNew] := by decide +kernel
example : erasureDiff demo demo = some [] := by decide +kernel
/-- a change of a name, and a change of a recorded type, are not erasures -/
example : erasureDiff demo { demo with lang := "java" } = none := by decide +kernel
example : erasureDiff demo (mapProg { SlotFn.id with var := fun _ vt _ => (vt, none) } demo) = none := by decide +kernel


/-! ## the feasibility test on the type graph -/

/-- **Feasibility = the reachability criterion.**  `is_combination_feasible(g, C)` answers `True`
    exactly when step 1 (removing the declared type information of `C`) succeeds with a graph
    `g'` in which (`DeclsOK`) every omitted declaration reaches — in one or more steps, textbook
    reachability `ReachAny` — only type-carrying nodes of its own type, and (`InstsOK`) every type
    variable of an omitted constructor call has an assigned type and reaches a `TypeNode` of that
    type whose parent is not an omitted declaration.  Proved through C19's `dfs_correct`; holds
    for every graph (no fuel hypothesis: the traversal never runs out). -/
theorem feasible_spec (nodes : List TGNode) (g : Edges) (c : List Nat) :
    feasible nodes g c = .ok true ↔
      ∃ g', removeDeclared nodes g c = .ok g' ∧ DeclsOK nodes g' c ∧ InstsOK nodes g' c := by
  unfold feasible feasibleG
  cases hr : removeDeclared nodes g c with
  | error e => simp
  | ok g' =>
    simp only
    constructor
    · intro h
      refine ⟨g', rfl, ?_⟩
      apply (verify_spec nodes g' c).1
      cases hvv : verify nodes g' c with
      | error e => rw [hvv] at h; simp at h
      | ok b =>
        rw [hvv] at h
        simp only [Except.ok.injEq] at h
        rw [h]
    · rintro ⟨g'', hg, hd, hi⟩
      cases hg
      rw [(verify_spec nodes g' c).2 ⟨hd, hi⟩]

/-- a small graph: the declaration `x : A` (node 0) with its declared annotation (node 1, a
    `TypeNode` A) and the type inferred from its initialiser (node 2: A in `gA`, B in `gB`) -/
def gNodes (inferred : Ty) : List TGNode :=
  [{ kind := .declN, nodeId := "global/f/x", t := .ty tA },
   { kind := .typeN, nodeId := "global/f/x/A", parentId := some "global/f/x", t := .ty tA },
   { kind := .typeN, nodeId := "global/f/x/new", parentId := some "global/f/x", t := .ty inferred }]
def gEdges : Edges := [(0, [(1, true), (2, false)])]

def okTrue : Except FErr Bool → Bool
  | .ok true => true
  | _ => false
def okFalse : Except FErr Bool → Bool
  | .ok false => true
  | _ => false

/-- omitting the annotation of `x` is feasible when the initialiser has the declared type … -/
example : okTrue (feasible (gNodes tA) gEdges [0]) = true := by decide +kernel
/-- … and infeasible when the initialiser has another type (`x : A = new B()` upcast) -/
example : okFalse (feasible (gNodes (.simple "B" [tA])) gEdges [0]) = true := by decide +kernel
/-- a node that is not a key of the graph: the `assert` of the code -/
example : (match feasible (gNodes tA) gEdges [1] with | .error e => decide (e = .assertionError) | _ => false) = true := by
  decide +kernel

/-! ## the choice of the combination -/

/-- **First feasible, largest first.**  When `TypeErasure.visit_func_decl` (model: `pick`) applies
    a combination `c`: after the pre-filter on the shared graph left `g'` and kept the nodes
    `r.kept`, `c` occurs in the enumeration `allCombos r.kept` (= `itertools.combinations` of
    sizes `n, n-1, …, 1`, each a sub-list of the kept nodes), `c` is feasible on (a copy of) `g'`,
    every combination enumerated before it is infeasible, and fewer than `max_combinations + 1`
    combinations precede it. -/
theorem pick_first_feasible {nodes : List TGNode} {g : Edges} {om : List Nat} {max : Nat}
    {r : PickRes} {c : List Nat} (h : pick nodes g om max = .ok r) (hc : r.chosen = some c) :
    ∃ g' singles, prefilter nodes g om [] [] = .ok (g', r.kept, singles) ∧
      ∃ pre post, allCombos r.kept = pre ++ c :: post ∧
        feasible nodes g' c = .ok true ∧ (∀ c' ∈ pre, feasible nodes g' c' = .ok false) ∧
        pre.length < budgetOf max r.kept.length ∧ c.Sublist r.kept ∧ c ≠ [] := by
  unfold pick at h
  cases hp : prefilter nodes g om [] [] with
  | error e => rw [hp] at h; cases h
  | ok res =>
    obtain ⟨g', kept, singles⟩ := res
    rw [hp] at h
    simp only at h
    rw [searchFrom_eq] at h
    cases hs : firstOk (feasible nodes g') (combosFrom kept.length kept) (budgetOf max kept.length) 0 with
    | err e => rw [hs] at h; cases h
    | next b k =>
      rw [hs] at h
      simp only [Except.ok.injEq] at h
      subst h
      cases hc
    | cutoff k =>
      rw [hs] at h
      simp only [Except.ok.injEq] at h
      subst h
      cases hc
    | found c' k =>
      rw [hs] at h
      simp only [Except.ok.injEq] at h
      subst h
      simp only [Option.some.injEq] at hc
      subst hc
      obtain ⟨pre, post, hl, hf, hpre, _, hb⟩ := firstOk_found _ _ _ _ _ _ hs
      have hmem : c' ∈ combosFrom kept.length kept := by rw [hl]; simp
      obtain ⟨hsub, hlen, _⟩ := combosFrom_sublist _ _ _ hmem
      refine ⟨g', singles, rfl, pre, post, hl, hf, hpre, hb, hsub, ?_⟩
      intro he
      rw [he] at hlen
      simp at hlen

/-- when nothing is applied (and the search was not cut off), no combination of the kept nodes
    is feasible -/
theorem pick_none_infeasible {nodes : List TGNode} {g : Edges} {om : List Nat} {max : Nat}
    {r : PickRes} (h : pick nodes g om max = .ok r) (hc : r.chosen = none) (hcut : r.cutoff = false) :
    ∃ g' singles, prefilter nodes g om [] [] = .ok (g', r.kept, singles) ∧
      ∀ c ∈ allCombos r.kept, feasible nodes g' c = .ok false := by
  unfold pick at h
  cases hp : prefilter nodes g om [] [] with
  | error e => rw [hp] at h; cases h
  | ok res =>
    obtain ⟨g', kept, singles⟩ := res
    rw [hp] at h
    simp only at h
    rw [searchFrom_eq] at h
    cases hs : firstOk (feasible nodes g') (combosFrom kept.length kept) (budgetOf max kept.length) 0 with
    | err e => rw [hs] at h; cases h
    | next b k =>
      rw [hs] at h
      simp only [Except.ok.injEq] at h
      subst h
      exact ⟨g', singles, rfl, (firstOk_next _ _ _ _ _ _ hs).1⟩
    | cutoff k =>
      rw [hs] at h
      simp only [Except.ok.injEq] at h
      subst h
      cases hcut
    | found c' k =>
      rw [hs] at h
      simp only [Except.ok.injEq] at h
      subst h
      cases hc

/-- on the small graph the search applies the one-node combination at the first question -/
example : (match pick (gNodes tA) gEdges [0] 500000 with
           | .ok r => r.chosen == some [0] && r.asked == 1 && r.kept == [0]
           | _ => false) = true := by decide +kernel
example : allCombos [1, 2, 3] = [[1, 2, 3], [1, 2], [1, 3], [2, 3], [1], [2], [3]] := by decide

end Heph.Props.C03
