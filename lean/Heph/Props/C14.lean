import Heph.Generated.Regex
import Heph.Proofs.DiagAnalyze
import Heph.Proofs.DiagGroovy
import Heph.Proofs.DiagScala
import Heph.Proofs.DiagFilter
/-! # C14 — compiler diagnostics are attributed to the right programs

A proof over an output GRAMMAR: `render c is` prints a batch of items (`Spec/Diag.lean`) the way
compiler `c` does, `WFItem c` is the decidable well-formedness (file names over the tool's
alphabet, decimal positions, lines other than error headers free of the header tell-tale `key c`
and of the crash marker). `analyze` is the model of `analyze_compiler_output`
(`Model/Diag.lean`), tied to `/repo` by the correspondence run of `harness/check_C14.py`
(for javac also on real javac output). -/
namespace Heph.Props.C14
open Heph.Diag

-- BEGIN regenerated-pattern obligations
/-! The scanners of `Heph/Model/Diag.lean` are hand-written for exactly these pattern strings and
flags (`re.compile(...).pattern` / `.flags`; 32 = `re.UNICODE`, 40 = `re.UNICODE | re.MULTILINE`;
`re.MULTILINE` only changes `^`/`$`, which no pattern uses) and for this `\d` table.
`harness/regen.py` rewrites `Heph/Generated/Regex.lean` from the live classes on every run: an
edited regex breaks exactly the obligation named after it, and the check goes on to its
failing-input search. -/

theorem javaErrorPattern_expected : Heph.Generated.javaErrorRegex
    = "([a-zA-Z0-9\\/_]+.java):(\\d+:[ ]+error:[ ]+.*)(.*?(?=\\n{1,}))" := by decide
theorem javaErrorFlags_expected : Heph.Generated.javaErrorFlags = 32 := by decide

theorem javaCrashPattern_expected : Heph.Generated.javaCrashRegex
    = "(java\\.lang.*)\\n(.*)" := by decide
theorem javaCrashFlags_expected : Heph.Generated.javaCrashFlags = 32 := by decide

theorem kotlinErrorPattern_expected : Heph.Generated.kotlinErrorRegex
    = "([a-zA-Z0-9\\/_]+.kt):\\d+:\\d+:[ ]+error:[ ]+(.*)" := by decide
theorem kotlinErrorFlags_expected : Heph.Generated.kotlinErrorFlags = 32 := by decide

theorem kotlinCrashPattern_expected : Heph.Generated.kotlinCrashRegex
    = "(org\\.jetbrains\\..*)\\n(.*)" := by decide
theorem kotlinCrashFlags_expected : Heph.Generated.kotlinCrashFlags = 40 := by decide

theorem groovyErrorPattern_expected : Heph.Generated.groovyErrorRegex
    = "([a-zA-Z0-9\\\\/_]+.groovy):([\\s\\S]*?(?=\\n{2,}))" := by decide
theorem groovyErrorFlags_expected : Heph.Generated.groovyErrorFlags = 32 := by decide

theorem groovyCrashPattern_expected : Heph.Generated.groovyCrashRegex
    = "(at org.codehaus.groovy)(.*)" := by decide
theorem groovyCrashFlags_expected : Heph.Generated.groovyCrashFlags = 32 := by decide

theorem groovyStackOverflowPattern_expected : Heph.Generated.groovyStackOverflowRegex
    = "(.*java.lang.StackOverflowError)(.*)" := by decide
theorem groovyStackOverflowFlags_expected : Heph.Generated.groovyStackOverflowFlags = 32 := by decide

theorem scalaErrorPattern_expected : Heph.Generated.scalaErrorRegex
    = "-- .*Error: (.*\\.scala):\\d+:\\d+ -+\\n((?:[^-]+))" := by decide
theorem scalaErrorFlags_expected : Heph.Generated.scalaErrorFlags = 40 := by decide

theorem scalaCrashPattern_expected : Heph.Generated.scalaCrashRegex
    = ".*at dotty(.*)" := by decide
theorem scalaCrashFlags_expected : Heph.Generated.scalaCrashFlags = 32 := by decide

theorem digitTable_expected : Heph.Generated.digitRanges = Heph.Diag.digitRanges := by decide
-- END regenerated-pattern obligations

-- BEGIN theorems

/-! ## the analysis returns exactly the error diagnostics, grouped by file -/

/-- javac: for every number and order of well-formed items the analysis reports no crash and
exactly the error items, grouped by file (`groupByFile`, characterised by `groupByFile_exact`):
warnings, notes, summaries, quoted source lines add no file; no error is dropped or moved. -/
theorem analyze_render_javac (is : List Item) (h : ∀ i ∈ is, WFItem .javac i) :
    analyze .javac [] (render .javac is) = ⟨false, groupByFile (expected .javac is)⟩ :=
  analyze_render_of .javac is h (findAll_render_java is h)

theorem analyze_render_kotlinc (is : List Item) (h : ∀ i ∈ is, WFItem .kotlinc i) :
    analyze .kotlinc [] (render .kotlinc is) = ⟨false, groupByFile (expected .kotlinc is)⟩ :=
  analyze_render_of .kotlinc is h (findAll_render_kotlin is h)

theorem analyze_render_groovyc (is : List Item) (h : ∀ i ∈ is, WFItem .groovyc i) :
    analyze .groovyc [] (render .groovyc is) = ⟨false, groupByFile (expected .groovyc is)⟩ :=
  analyze_render_of .groovyc is h (findAll_render_groovy is h)

/-- scalac: the captured message of an error is the text after its header up to the first dash
(`captured`), so it may run into what follows; files and order are exact. -/
theorem analyze_render_scalac (is : List Item) (h : ∀ i ∈ is, WFItem .scalac i) :
    analyze .scalac [] (render .scalac is) = ⟨false, groupByFile (expected .scalac is)⟩ :=
  analyze_render_of .scalac is h (findAll_render_scala is h)

/-- what `groupByFile` means: exactly the files that have an error (none added, none dropped),
each once, each with exactly its own messages in order (none moved); and the model's
`defaultdict` fold computes it. -/
theorem groupByFile_exact (es : List (List Char × List Char)) (f : List Char) :
    (f ∈ (groupByFile es).map (·.1) ↔ ∃ m, (f, m) ∈ es)
    ∧ ((groupByFile es).map (·.1)).Nodup
    ∧ lookupFailed f (groupByFile es) = (es.filter (·.1 == f)).map (·.2)
    ∧ groupMsgs es = groupByFile es :=
  ⟨mem_keys_groupByFile f es, keys_nodup es, lookupFailed_groupByFile f es,
    groupMsgs_eq_groupByFile es⟩

/-- a file is reported iff the batch output contains an error item for it (javac) -/
theorem reported_iff_error_javac (is : List Item) (h : ∀ i ∈ is, WFItem .javac i) (f : List Char) :
    f ∈ (analyze .javac [] (render .javac is)).failed.map (·.1)
      ↔ ∃ l col msg pad det, Item.error f l col msg pad det ∈ is := by
  rw [analyze_render_javac is h, keys_groupByFile, mem_firstOccs, mem_expected_files]

theorem reported_iff_error_kotlinc (is : List Item) (h : ∀ i ∈ is, WFItem .kotlinc i) (f : List Char) :
    f ∈ (analyze .kotlinc [] (render .kotlinc is)).failed.map (·.1)
      ↔ ∃ l col msg pad det, Item.error f l col msg pad det ∈ is := by
  rw [analyze_render_kotlinc is h, keys_groupByFile, mem_firstOccs, mem_expected_files]

theorem reported_iff_error_groovyc (is : List Item) (h : ∀ i ∈ is, WFItem .groovyc i) (f : List Char) :
    f ∈ (analyze .groovyc [] (render .groovyc is)).failed.map (·.1)
      ↔ ∃ l col msg pad det, Item.error f l col msg pad det ∈ is := by
  rw [analyze_render_groovyc is h, keys_groupByFile, mem_firstOccs, mem_expected_files]

theorem reported_iff_error_scalac (is : List Item) (h : ∀ i ∈ is, WFItem .scalac i) (f : List Char) :
    f ∈ (analyze .scalac [] (render .scalac is)).failed.map (·.1)
      ↔ ∃ l col msg pad det, Item.error f l col msg pad det ∈ is := by
  rw [analyze_render_scalac is h, keys_groupByFile, mem_firstOccs, mem_expected_files]

/-! ## crash classification (all four compilers) -/

/-- output that carries a compiler-internal stack trace is classified as a crash, whatever the
filters; diagnostics alone never are -/
theorem crash_iff (c : Compiler) (fs : List (List Char)) (is : List Item) (ot : Option Trace)
    (h : ∀ i ∈ is, WFItem c i) (ht : ∀ t ∈ ot, WFTrace c t) :
    (analyze c fs (render c is ++ renderTrace ot)).crash = true ↔ ot ≠ none :=
  analyze_crash_iff c fs is ot h ht

/-- and a crash carries no per-file verdicts -/
theorem crash_no_failed (c : Compiler) (fs : List (List Char)) (out : List Char)
    (h : (analyze c fs out).crash = true) : (analyze c fs out).failed = [] := by
  unfold analyze at h ⊢
  simp only at h ⊢
  by_cases h1 : crashSearch c out = true
  · simp [h1]
  · by_cases h2 : (c == .groovyc && stackOverflowSearch out
        && (findAll (matcher c) (applyFilters fs out)).isEmpty) = true
    · simp [h1, h2]
    · simp [h1, h2] at h

/-- groovyc's extra rule: when the output mentions `java.lang.StackOverflowError` (and carries no
`at org.codehaus.groovy` frame) it is a crash exactly when no error block was recognised -/
theorem groovy_stackoverflow_rule (fs : List (List Char)) (out : List Char)
    (hc : crashSearch .groovyc out = false) (hso : stackOverflowSearch out = true) :
    (analyze .groovyc fs out).crash = (findAll matchGroovy (applyFilters fs out)).isEmpty := by
  simp only [analyze, hc, hso, matcher]
  cases (findAll matchGroovy (applyFilters fs out)).isEmpty <;> simp

/-! ## filters

The code deletes every occurrence of a filter pattern from the output text (`re.sub(p, '', ·)`)
before the error pattern runs (the crash test reads the unfiltered text). A diagnostic is
therefore disregarded when the filter deletes its header line; a filter that matches only a
fragment of a message shortens that message (`Heph.Diag.ex_fragment_filter`). -/

/-- full statement: for every compiler, a literal filter that occurs in the batch output only as
complete error header lines removes exactly those diagnostics -/
def filter_drops : Prop :=
  ∀ (c : Compiler) (p : List Char), p ≠ [] → '\n' ∉ p → ∀ (is : List Item),
    (∀ i ∈ is, WFItem c i) →
    (∀ i ∈ is, ∀ x ∈ itemLines c i, (isHdr c p i = true ∧ x = p) ∨ hasInfix p x = false) →
    analyze c [p] (render c is) = ⟨false, groupByFile (expected c (is.filter fun i => !isHdr c p i))⟩

/-- proved for javac and kotlinc (one diagnostic per line). Missing: groovyc and scalac, whose
matches span several lines (deleting a header there leaves the detail block behind, which the
grammar lemmas do not cover yet); patterns that are not literals are covered only by the
correspondence run. -/
theorem filter_drops_partial (c : Compiler) (hc : c = .javac ∨ c = .kotlinc) (p : List Char)
    (hp : p ≠ []) (hnl : '\n' ∉ p) (is : List Item) (hwf : ∀ i ∈ is, WFItem c i)
    (hsep : ∀ i ∈ is, ∀ x ∈ itemLines c i, (isHdr c p i = true ∧ x = p) ∨ hasInfix p x = false) :
    analyze c [p] (render c is) = ⟨false, groupByFile (expected c (is.filter fun i => !isHdr c p i))⟩ :=
  filter_drops_line c hc p hp hnl is hwf hsep

/-- filters that do not occur in the output change nothing (all compilers, any output) -/
theorem filter_absent_noop (c : Compiler) (fs : List (List Char)) (out : List Char)
    (h : ∀ p ∈ fs, hasInfix p out = false ∨ p = []) : analyze c fs out = analyze c [] out :=
  filter_absent c fs out h

/-! ## batch independence -/

/-- the messages of a file in the concatenation of two batch outputs are its messages in the
first followed by its messages in the second: in particular the verdict of a file whose errors
are all in one part equals its verdict for that part alone -/
theorem batch_independent_javac (is1 is2 : List Item) (h1 : ∀ i ∈ is1, WFItem .javac i)
    (h2 : ∀ i ∈ is2, WFItem .javac i) (f : List Char) :
    lookupFailed f (analyze .javac [] (render .javac is1 ++ render .javac is2)).failed
      = lookupFailed f (analyze .javac [] (render .javac is1)).failed
        ++ lookupFailed f (analyze .javac [] (render .javac is2)).failed :=
  batch_independent_of .javac (by decide) findAll_render_java is1 is2 h1 h2 f

theorem batch_independent_kotlinc (is1 is2 : List Item) (h1 : ∀ i ∈ is1, WFItem .kotlinc i)
    (h2 : ∀ i ∈ is2, WFItem .kotlinc i) (f : List Char) :
    lookupFailed f (analyze .kotlinc [] (render .kotlinc is1 ++ render .kotlinc is2)).failed
      = lookupFailed f (analyze .kotlinc [] (render .kotlinc is1)).failed
        ++ lookupFailed f (analyze .kotlinc [] (render .kotlinc is2)).failed :=
  batch_independent_of .kotlinc (by decide) findAll_render_kotlin is1 is2 h1 h2 f

theorem batch_independent_groovyc (is1 is2 : List Item) (h1 : ∀ i ∈ is1, WFItem .groovyc i)
    (h2 : ∀ i ∈ is2, WFItem .groovyc i) (f : List Char) :
    lookupFailed f (analyze .groovyc [] (render .groovyc is1 ++ render .groovyc is2)).failed
      = lookupFailed f (analyze .groovyc [] (render .groovyc is1)).failed
        ++ lookupFailed f (analyze .groovyc [] (render .groovyc is2)).failed :=
  batch_independent_of .groovyc (by decide) findAll_render_groovy is1 is2 h1 h2 f

/-- scalac's `[^-]+` may swallow text of the following item into the *message*, so for scalac
independence is stated for the verdict (is the file reported): -/
theorem batch_files_scalac (is1 is2 : List Item) (h1 : ∀ i ∈ is1, WFItem .scalac i)
    (h2 : ∀ i ∈ is2, WFItem .scalac i) (f : List Char) :
    f ∈ (analyze .scalac [] (render .scalac is1 ++ render .scalac is2)).failed.map (·.1)
      ↔ f ∈ (analyze .scalac [] (render .scalac is1)).failed.map (·.1)
        ∨ f ∈ (analyze .scalac [] (render .scalac is2)).failed.map (·.1) :=
  batch_files_of .scalac findAll_render_scala is1 is2 h1 h2 f

/-- the message-level statement is false for scalac: the message of the last error of the first
part continues into the second part -/
def batch_independent_scalac : Prop :=
  ∀ (is1 is2 : List Item), (∀ i ∈ is1, WFItem .scalac i) → (∀ i ∈ is2, WFItem .scalac i) →
    ∀ f, lookupFailed f (analyze .scalac [] (render .scalac is1 ++ render .scalac is2)).failed
      = lookupFailed f (analyze .scalac [] (render .scalac is1)).failed
        ++ lookupFailed f (analyze .scalac [] (render .scalac is2)).failed

theorem batch_independent_scalac_counterexample : ¬ batch_independent_scalac := by
  intro h
  have := h [.error "a/p.scala".toList "3".toList "1".toList [] 0 ["3 |x".toList]] [.note "foo".toList]
    (by decide +kernel) (by decide +kernel) "a/p.scala".toList
  revert this
  decide +kernel

/-- corollary in the form used by C02: a file without error items in the second part has, in the
whole batch, the verdict it has in the first part alone -/
theorem batch_verdict_alone_javac (is1 is2 : List Item) (h1 : ∀ i ∈ is1, WFItem .javac i)
    (h2 : ∀ i ∈ is2, WFItem .javac i) (f : List Char)
    (hf : ¬ ∃ l col msg pad det, Item.error f l col msg pad det ∈ is2) :
    lookupFailed f (analyze .javac [] (render .javac is1 ++ render .javac is2)).failed
      = lookupFailed f (analyze .javac [] (render .javac is1)).failed := by
  rw [batch_independent_javac is1 is2 h1 h2 f]
  have : lookupFailed f (analyze .javac [] (render .javac is2)).failed = [] := by
    rw [analyze_render_javac is2 h2, lookupFailed_groupByFile]
    apply msgsOf_eq_nil_of_not_mem
    rw [mem_expected_files]; exact hf
  rw [this, List.append_nil]

/-! ## the file names the tool generates are inside the grammar -/

/-- `/tmp/tmpXXXXXXXX/src/<package>/<Main.java|program.kt|Main.groovy|program.scala>` -/
theorem tool_paths_wellformed (c : Compiler) (tmp pkg : List Char) (h : ToolNames tmp pkg) :
    fileOK c (toolPath c tmp pkg) = true :=
  toolPath_fileOK c tmp pkg h

/-! ## the hypotheses are needed: what happens outside the grammar (replayed on the real code
by the corpus of `harness/check_C14.py`) -/

/-- a diagnostic that quotes a qualified `java.lang` name turns the batch into a "crash" -/
theorem javac_quoted_java_lang_counterexample :
    analyze .javac []
      "/tmp/tmpab12cd_9/src/alpha/Main.java:3: error: java.lang.Object cannot be converted to T\n".toList
      = ⟨true, []⟩ := by decide +kernel

/-- the last error of an output without final newline is dropped -/
theorem javac_no_final_newline_counterexample :
    analyze .javac [] "/tmp/tmpab12cd_9/src/alpha/Main.java:3: error: boom".toList = ⟨false, []⟩ := by
  decide +kernel

/-- a directory name with `-` truncates the key -/
theorem javac_dash_in_directory_counterexample :
    analyze .javac [] "/tmp/my-dir/src/alpha/Main.java:3: error: boom\n".toList
      = ⟨false, [("dir/src/alpha/Main.java".toList, ["3: error: boom".toList])]⟩ := by
  decide +kernel

/-! ## non-vacuity: a three-file batch -/

def fileA : List Char := toolPath .javac "ab12cd_9".toList "alpha".toList
def fileB : List Char := toolPath .javac "ab12cd_9".toList "beta".toList
def fileC : List Char := toolPath .javac "ab12cd_9".toList "gamma".toList

def batch3 : List Item :=
  [ .error fileA "3".toList [] "incompatible types".toList 0 ["  Integer x = \"a\";".toList, "     ^".toList],
    .warning fileB "7".toList [] "[unchecked] cast".toList 0 ["  T y = (T) o;".toList],
    .error fileC "12".toList [] "cannot find symbol".toList 0 ["  symbol: variable foo".toList],
    .error fileA "9".toList [] "missing return".toList 0 [],
    .note "Note: Some input files use unchecked operations.".toList,
    .summary "3".toList ]

theorem batch3_wf : ∀ i ∈ batch3, WFItem .javac i := by decide +kernel

example : ToolNames "ab12cd_9".toList "alpha".toList := by
  refine ⟨?_, ?_, ?_, ?_⟩ <;> decide +kernel

/-- the three-file batch: `alpha` (two errors) and `gamma` are reported, `beta` (a warning only)
is not -/
theorem batch3_result :
    analyze .javac [] (render .javac batch3)
      = ⟨false, [(fileA, ["3: error: incompatible types".toList, "9: error: missing return".toList]),
                 (fileC, ["12: error: cannot find symbol".toList])]⟩ := by
  rw [analyze_render_javac batch3 batch3_wf]
  decide +kernel

example : WFTrace .javac ⟨"java.lang.AssertionError: boom".toList,
    ["\tat jdk.compiler/com.sun.tools.javac.comp.Attr.visitApply(Attr.java:2000)".toList]⟩ := by
  unfold WFTrace; decide +kernel

-- END theorems

end Heph.Props.C14
