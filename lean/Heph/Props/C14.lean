import Heph.Generated.Regex
import Heph.Proofs.DiagAnalyze
import Heph.Proofs.DiagGroovy
import Heph.Proofs.DiagScala
import Heph.Proofs.DiagFilter
/-! # C14 — compiler diagnostics are attributed to the right programs

A proof over an output GRAMMAR: `render c is` prints a batch of items (`Spec/Diag.lean`) the way
compiler `c` does, `WFItem c` is the decidable well-formedness (file names over the tool's
alphabet, decimal positions, lines other than error headers free of the header tell-tale `key c`
and of the crash marker). `analyze` is the model of `analyze_compiler_output`
(`Model/Diag.lean`), tied to `/repo` by the correspondence run of `harness/check_C14.py`
(for javac also on real javac output). -/
namespace Heph.Props.C14
open Heph.Diag

-- BEGIN regenerated-pattern obligations
/-! The scanners of `Heph/Model/Diag.lean` are hand-written for exactly these pattern strings and
flags (`re.compile(...).pattern` / `.flags`; 32 = `re.UNICODE`, 40 = `re.UNICODE | re.MULTILINE`;
`re.MULTILINE` only changes `^`/`$`, which no pattern uses) and for this `\d` table.
`harness/regen.py` rewrites `Heph/Generated/Regex.lean` from the live classes on every run: an
edited regex breaks exactly the obligation named after it, and the check goes on to its
failing-input search. -/

theorem javaErrorPattern_expected : Heph.Generated.javaErrorRegex
    = "([a-zA-Z0-9\\/_]+.java):(\\d+:[ ]+error:[ ]+.*)(.*?(?=\\n{1,}))" := by decide
theorem javaErrorFlags_expected : Heph.Generated.javaErrorFlags = 32 := by decide

/-- the claimed javac crash pattern is the REPAIRED one (a stack frame line must follow the line
that names `java.lang`); on a tree that still has the pattern as found this obligation fails and
the check reports the failing input `java:crash-regex-on-quoted-java.lang` -/
theorem javaCrashPattern_expected : Heph.Generated.javaCrashRegex
    = "(java\\.lang.*)\\n([ \\t]+at .*)" := by decide
/-- the pattern as found, kept for the counterexample section -/
def javaCrashPattern_asis : String := "(java\\.lang.*)\\n(.*)"
theorem javaCrashVariant_of_asis :
    Heph.Diag.javaCrashVariantOf javaCrashPattern_asis = some .asis := by decide
theorem javaCrashVariant_of_expected :
    Heph.Diag.javaCrashVariantOf "(java\\.lang.*)\\n([ \\t]+at .*)" = some .framed := by decide
/-- the scanner the driver runs is the one for the repaired pattern -/
theorem javaCrashVariant_live : Heph.Diag.javaCrashVariant = .framed := by decide
theorem javaCrashFlags_expected : Heph.Generated.javaCrashFlags = 32 := by decide

theorem kotlinErrorPattern_expected : Heph.Generated.kotlinErrorRegex
    = "([a-zA-Z0-9\\/_]+.kt):\\d+:\\d+:[ ]+error:[ ]+(.*)" := by decide
theorem kotlinErrorFlags_expected : Heph.Generated.kotlinErrorFlags = 32 := by decide

theorem kotlinCrashPattern_expected : Heph.Generated.kotlinCrashRegex
    = "(org\\.jetbrains\\..*)\\n(.*)" := by decide
theorem kotlinCrashFlags_expected : Heph.Generated.kotlinCrashFlags = 40 := by decide

theorem groovyErrorPattern_expected : Heph.Generated.groovyErrorRegex
    = "([a-zA-Z0-9\\\\/_]+.groovy):([\\s\\S]*?(?=\\n{2,}))" := by decide
theorem groovyErrorFlags_expected : Heph.Generated.groovyErrorFlags = 32 := by decide

theorem groovyCrashPattern_expected : Heph.Generated.groovyCrashRegex
    = "(at org.codehaus.groovy)(.*)" := by decide
theorem groovyCrashFlags_expected : Heph.Generated.groovyCrashFlags = 32 := by decide

theorem groovyStackOverflowPattern_expected : Heph.Generated.groovyStackOverflowRegex
    = "(.*java.lang.StackOverflowError)(.*)" := by decide
theorem groovyStackOverflowFlags_expected : Heph.Generated.groovyStackOverflowFlags = 32 := by decide

theorem scalaErrorPattern_expected : Heph.Generated.scalaErrorRegex
    = "-- .*Error: (.*\\.scala):\\d+:\\d+ -+\\n((?:[^-]+))" := by decide
theorem scalaErrorFlags_expected : Heph.Generated.scalaErrorFlags = 40 := by decide

theorem scalaCrashPattern_expected : Heph.Generated.scalaCrashRegex
    = ".*at dotty(.*)" := by decide
theorem scalaCrashFlags_expected : Heph.Generated.scalaCrashFlags = 32 := by decide

theorem digitTable_expected : Heph.Generated.digitRanges = Heph.Diag.digitRanges := by decide
-- END regenerated-pattern obligations

-- BEGIN theorems

/-! ## the analysis returns exactly the error diagnostics, grouped by file -/

/-- javac: for every number and order of well-formed items the analysis reports no crash and
exactly the error items, grouped by file (`groupByFile`, characterised by `groupByFile_exact`):
warnings, notes, summaries, quoted source lines add no file; no error is dropped or moved. -/
theorem analyze_render_javac (is : List Item) (h : ∀ i ∈ is, WFItem .javac i) :
    analyze .javac [] (render .javac is) = ⟨false, groupByFile (expected .javac is)⟩ :=
  analyze_render_of .javac is h (findAll_render_java is h)

theorem analyze_render_kotlinc (is : List Item) (h : ∀ i ∈ is, WFItem .kotlinc i) :
    analyze .kotlinc [] (render .kotlinc is) = ⟨false, groupByFile (expected .kotlinc is)⟩ :=
  analyze_render_of .kotlinc is h (findAll_render_kotlin is h)

theorem analyze_render_groovyc (is : List Item) (h : ∀ i ∈ is, WFItem .groovyc i) :
    analyze .groovyc [] (render .groovyc is) = ⟨false, groupByFile (expected .groovyc is)⟩ :=
  analyze_render_of .groovyc is h (findAll_render_groovy is h)

/-- scalac: the captured message of an error is the text after its header up to the first dash
(`captured`), so it may run into what follows; files and order are exact. -/
theorem analyze_render_scalac (is : List Item) (h : ∀ i ∈ is, WFItem .scalac i) :
    analyze .scalac [] (render .scalac is) = ⟨false, groupByFile (expected .scalac is)⟩ :=
  analyze_render_of .scalac is h (findAll_render_scala is h)

/-- what `groupByFile` means: exactly the files that have an error (none added, none dropped),
each once, each with exactly its own messages in order (none moved); and the model's
`defaultdict` fold computes it. -/
theorem groupByFile_exact (es : List (List Char × List Char)) (f : List Char) :
    (f ∈ (groupByFile es).map (·.1) ↔ ∃ m, (f, m) ∈ es)
    ∧ ((groupByFile es).map (·.1)).Nodup
    ∧ lookupFailed f (groupByFile es) = (es.filter (·.1 == f)).map (·.2)
    ∧ groupMsgs es = groupByFile es :=
  ⟨mem_keys_groupByFile f es, keys_nodup es, lookupFailed_groupByFile f es,
    groupMsgs_eq_groupByFile es⟩

/-- a file is reported iff the batch output contains an error item for it (javac) -/
theorem reported_iff_error_javac (is : List Item) (h : ∀ i ∈ is, WFItem .javac i) (f : List Char) :
    f ∈ (analyze .javac [] (render .javac is)).failed.map (·.1)
      ↔ ∃ l col msg pad det, Item.error f l col msg pad det ∈ is := by
  rw [analyze_render_javac is h, keys_groupByFile, mem_firstOccs, mem_expected_files]

theorem reported_iff_error_kotlinc (is : List Item) (h : ∀ i ∈ is, WFItem .kotlinc i) (f : List Char) :
    f ∈ (analyze .kotlinc [] (render .kotlinc is)).failed.map (·.1)
      ↔ ∃ l col msg pad det, Item.error f l col msg pad det ∈ is := by
  rw [analyze_render_kotlinc is h, keys_groupByFile, mem_firstOccs, mem_expected_files]

theorem reported_iff_error_groovyc (is : List Item) (h : ∀ i ∈ is, WFItem .groovyc i) (f : List Char) :
    f ∈ (analyze .groovyc [] (render .groovyc is)).failed.map (·.1)
      ↔ ∃ l col msg pad det, Item.error f l col msg pad det ∈ is := by
  rw [analyze_render_groovyc is h, keys_groupByFile, mem_firstOccs, mem_expected_files]

theorem reported_iff_error_scalac (is : List Item) (h : ∀ i ∈ is, WFItem .scalac i) (f : List Char) :
    f ∈ (analyze .scalac [] (render .scalac is)).failed.map (·.1)
      ↔ ∃ l col msg pad det, Item.error f l col msg pad det ∈ is := by
  rw [analyze_render_scalac is h, keys_groupByFile, mem_firstOccs, mem_expected_files]

/-! ## crash classification (all four compilers) -/

/-- output that carries a compiler-internal stack trace is classified as a crash, whatever the
filters; diagnostics alone never are -/
theorem crash_iff (c : Compiler) (fs : List (List Char)) (is : List Item) (ot : Option Trace)
    (h : ∀ i ∈ is, WFItem c i) (ht : ∀ t ∈ ot, WFTrace c t) :
    (analyze c fs (render c is ++ renderTrace ot)).crash = true ↔ ot ≠ none :=
  analyze_crash_iff c fs is ot h ht

/-- The clause `WFItem .javac` asks of every line of an item for the repaired pattern: the line is
not a frame line, i.e. does not start with one or more blanks/tabs followed by `at `. Nothing is
asked about `java.lang`: messages and quoted source lines may contain it. -/
theorem javac_clause_repaired (l : List Char) :
    lineCrashV .framed .javac l = frameLine l := rfl

/-- for the pattern as found the clause was: the line does not contain `java.lang` -/
theorem javac_clause_asis (l : List Char) :
    lineCrashV .asis .javac l = searchThenNl "java.lang".toList (l ++ ['\n']) := by
  simp [lineCrashV, crashSearchV]

/-- on the repaired tree `WFItem .javac` uses the repaired clause -/
theorem javac_clause_live (l : List Char) : lineCrash .javac l = frameLine l := by
  unfold lineCrash; rw [javaCrashVariant_live]; rfl

/-- EXACT characterisation of the repaired javac crash test on newline-terminated lines (no
well-formedness needed): it fires iff some line containing `java.lang` is directly followed by a
frame line. `framePairs ls = false` is therefore the weakest hypothesis on a batch output. -/
theorem javac_repaired_crash_exact (ls : List (List Char)) (h : ∀ l ∈ ls, '\n' ∉ l) :
    crashSearchV .framed .javac (unlines ls) = framePairs ls :=
  searchThenFrame_unlines ls h

/-- sufficient, per line: no frame lines (the `WFItem` clause) … -/
theorem javac_repaired_no_crash_of_no_frame (ls : List (List Char)) (h : ∀ l ∈ ls, '\n' ∉ l)
    (hf : ∀ l ∈ ls, frameLine l = false) : crashSearchV .framed .javac (unlines ls) = false := by
  rw [javac_repaired_crash_exact ls h]; exact framePairs_false_of_noFrame ls hf

/-- … or, as before, no `java.lang` anywhere -/
theorem javac_repaired_no_crash_of_no_marker (ls : List (List Char)) (h : ∀ l ∈ ls, '\n' ∉ l)
    (hm : ∀ l ∈ ls, hasInfix "java.lang".toList l = false) :
    crashSearchV .framed .javac (unlines ls) = false := by
  rw [javac_repaired_crash_exact ls h]; exact framePairs_false_of_noMarker ls hm

/-- `crash_iff` for javac with the repaired scanner, stated with the variant explicit (it does
not depend on which tree is checked): items whose lines are newline-free and not frame lines —
they may quote `java.lang` — are never a crash; with a trace appended they always are. -/
theorem crash_iff_javac_repaired (fs : List (List Char)) (ls : List (List Char)) (ot : Option Trace)
    (hnl : ∀ l ∈ ls, '\n' ∉ l) (hf : ∀ l ∈ ls, frameLine l = false)
    (ht : ∀ t ∈ ot, crashSearchV .framed .javac (unlines t.lines) = true) :
    (analyzeV .framed .javac fs (unlines ls ++ renderTrace ot)).crash = true ↔ ot ≠ none := by
  cases ot with
  | some t =>
    have h1 : crashSearchV .framed .javac (unlines ls ++ renderTrace (some t)) = true :=
      crashSearchV_mono _ _ _ _ (ht t rfl)
    simp [analyzeV, h1]
  | none =>
    have h1 : crashSearchV .framed .javac (unlines ls ++ renderTrace none) = false := by
      simp only [renderTrace, List.append_nil]
      exact javac_repaired_no_crash_of_no_frame ls hnl hf
    simp [analyzeV, h1]

/-- and a crash carries no per-file verdicts -/
theorem crash_no_failed (c : Compiler) (fs : List (List Char)) (out : List Char)
    (h : (analyze c fs out).crash = true) : (analyze c fs out).failed = [] := by
  unfold analyze at h ⊢
  simp only at h ⊢
  by_cases h1 : crashSearch c out = true
  · simp [h1]
  · by_cases h2 : (c == .groovyc && stackOverflowSearch out
        && (findAll (matcher c) (applyFilters fs out)).isEmpty) = true
    · simp [h1, h2]
    · simp [h1, h2] at h

/-- groovyc's extra rule: when the output mentions `java.lang.StackOverflowError` (and carries no
`at org.codehaus.groovy` frame) it is a crash exactly when no error block was recognised -/
theorem groovy_stackoverflow_rule (fs : List (List Char)) (out : List Char)
    (hc : crashSearch .groovyc out = false) (hso : stackOverflowSearch out = true) :
    (analyze .groovyc fs out).crash = (findAll matchGroovy (applyFilters fs out)).isEmpty := by
  simp only [analyze, hc, hso, matcher]
  cases (findAll matchGroovy (applyFilters fs out)).isEmpty <;> simp

/-! ## filters

The code deletes every occurrence of a filter pattern from the output text (`re.sub(p, '', ·)`)
before the error pattern runs (the crash test reads the unfiltered text). A diagnostic is
therefore disregarded when the filter deletes its header line; a filter that matches only a
fragment of a message shortens that message (`Heph.Diag.ex_fragment_filter`). -/

/-- full statement: for every compiler, a literal filter that occurs in the batch output only as
complete error header lines removes exactly those diagnostics -/
def filter_drops : Prop :=
  ∀ (c : Compiler) (p : List Char), p ≠ [] → '\n' ∉ p → ∀ (is : List Item),
    (∀ i ∈ is, WFItem c i) →
    (∀ i ∈ is, ∀ x ∈ itemLines c i, (isHdr c p i = true ∧ x = p) ∨ hasInfix p x = false) →
    analyze c [p] (render c is) = ⟨false, groupByFile (expected c (is.filter fun i => !isHdr c p i))⟩

/-- proved for javac and kotlinc (one diagnostic per line). Missing: groovyc and scalac, whose
matches span several lines (deleting a header there leaves the detail block behind, which the
grammar lemmas do not cover yet); patterns that are not literals are covered only by the
correspondence run. -/
theorem filter_drops_partial (c : Compiler) (hc : c = .javac ∨ c = .kotlinc) (p : List Char)
    (hp : p ≠ []) (hnl : '\n' ∉ p) (is : List Item) (hwf : ∀ i ∈ is, WFItem c i)
    (hsep : ∀ i ∈ is, ∀ x ∈ itemLines c i, (isHdr c p i = true ∧ x = p) ∨ hasInfix p x = false) :
    analyze c [p] (render c is) = ⟨false, groupByFile (expected c (is.filter fun i => !isHdr c p i))⟩ :=
  filter_drops_line c hc p hp hnl is hwf hsep

/-- filters that do not occur in the output change nothing (all compilers, any output) -/
theorem filter_absent_noop (c : Compiler) (fs : List (List Char)) (out : List Char)
    (h : ∀ p ∈ fs, hasInfix p out = false ∨ p = []) : analyze c fs out = analyze c [] out :=
  filter_absent c fs out h

/-! ## batch independence -/

/-- the messages of a file in the concatenation of two batch outputs are its messages in the
first followed by its messages in the second: in particular the verdict of a file whose errors
are all in one part equals its verdict for that part alone -/
theorem batch_independent_javac (is1 is2 : List Item) (h1 : ∀ i ∈ is1, WFItem .javac i)
    (h2 : ∀ i ∈ is2, WFItem .javac i) (f : List Char) :
    lookupFailed f (analyze .javac [] (render .javac is1 ++ render .javac is2)).failed
      = lookupFailed f (analyze .javac [] (render .javac is1)).failed
        ++ lookupFailed f (analyze .javac [] (render .javac is2)).failed :=
  batch_independent_of .javac (by decide) findAll_render_java is1 is2 h1 h2 f

theorem batch_independent_kotlinc (is1 is2 : List Item) (h1 : ∀ i ∈ is1, WFItem .kotlinc i)
    (h2 : ∀ i ∈ is2, WFItem .kotlinc i) (f : List Char) :
    lookupFailed f (analyze .kotlinc [] (render .kotlinc is1 ++ render .kotlinc is2)).failed
      = lookupFailed f (analyze .kotlinc [] (render .kotlinc is1)).failed
        ++ lookupFailed f (analyze .kotlinc [] (render .kotlinc is2)).failed :=
  batch_independent_of .kotlinc (by decide) findAll_render_kotlin is1 is2 h1 h2 f

theorem batch_independent_groovyc (is1 is2 : List Item) (h1 : ∀ i ∈ is1, WFItem .groovyc i)
    (h2 : ∀ i ∈ is2, WFItem .groovyc i) (f : List Char) :
    lookupFailed f (analyze .groovyc [] (render .groovyc is1 ++ render .groovyc is2)).failed
      = lookupFailed f (analyze .groovyc [] (render .groovyc is1)).failed
        ++ lookupFailed f (analyze .groovyc [] (render .groovyc is2)).failed :=
  batch_independent_of .groovyc (by decide) findAll_render_groovy is1 is2 h1 h2 f

/-- scalac's `[^-]+` may swallow text of the following item into the *message*, so for scalac
independence is stated for the verdict (is the file reported): -/
theorem batch_files_scalac (is1 is2 : List Item) (h1 : ∀ i ∈ is1, WFItem .scalac i)
    (h2 : ∀ i ∈ is2, WFItem .scalac i) (f : List Char) :
    f ∈ (analyze .scalac [] (render .scalac is1 ++ render .scalac is2)).failed.map (·.1)
      ↔ f ∈ (analyze .scalac [] (render .scalac is1)).failed.map (·.1)
        ∨ f ∈ (analyze .scalac [] (render .scalac is2)).failed.map (·.1) :=
  batch_files_of .scalac findAll_render_scala is1 is2 h1 h2 f

/-- the message-level statement is false for scalac: the message of the last error of the first
part continues into the second part -/
def batch_independent_scalac : Prop :=
  ∀ (is1 is2 : List Item), (∀ i ∈ is1, WFItem .scalac i) → (∀ i ∈ is2, WFItem .scalac i) →
    ∀ f, lookupFailed f (analyze .scalac [] (render .scalac is1 ++ render .scalac is2)).failed
      = lookupFailed f (analyze .scalac [] (render .scalac is1)).failed
        ++ lookupFailed f (analyze .scalac [] (render .scalac is2)).failed

theorem batch_independent_scalac_counterexample : ¬ batch_independent_scalac := by
  intro h
  have := h [.error (chars! "a/p.scala") (chars! "3") (chars! "1") [] 0 [(chars! "3 |x")]] [.note (chars! "foo")]
    (by decide +kernel) (by decide +kernel) (chars! "a/p.scala")
  revert this
  decide +kernel

/-- corollary in the form used by C02: a file without error items in the second part has, in the
whole batch, the verdict it has in the first part alone -/
theorem batch_verdict_alone_javac (is1 is2 : List Item) (h1 : ∀ i ∈ is1, WFItem .javac i)
    (h2 : ∀ i ∈ is2, WFItem .javac i) (f : List Char)
    (hf : ¬ ∃ l col msg pad det, Item.error f l col msg pad det ∈ is2) :
    lookupFailed f (analyze .javac [] (render .javac is1 ++ render .javac is2)).failed
      = lookupFailed f (analyze .javac [] (render .javac is1)).failed := by
  rw [batch_independent_javac is1 is2 h1 h2 f]
  have : lookupFailed f (analyze .javac [] (render .javac is2)).failed = [] := by
    rw [analyze_render_javac is2 h2, lookupFailed_groupByFile]
    apply msgsOf_eq_nil_of_not_mem
    rw [mem_expected_files]; exact hf
  rw [this, List.append_nil]

/-! ## the file names the tool generates are inside the grammar -/

/-- `/tmp/tmpXXXXXXXX/src/<package>/<Main.java|program.kt|Main.groovy|program.scala>` -/
theorem tool_paths_wellformed (c : Compiler) (tmp pkg : List Char) (h : ToolNames tmp pkg) :
    fileOK c (toolPath c tmp pkg) = true :=
  toolPath_fileOK c tmp pkg h

/-! ## the hypotheses are needed: what happens outside the grammar (replayed on the real code
by the corpus of `harness/check_C14.py`) -/

/-- with the pattern AS FOUND (`javaCrashPattern_asis`) a diagnostic that quotes a qualified
`java.lang` name turns the batch into a "crash" -/
theorem javac_quoted_java_lang_counterexample :
    analyzeV .asis .javac []
      (chars! "/tmp/tmpab12cd_9/src/alpha/Main.java:3: error: java.lang.Object cannot be converted to T\n")
      = ⟨true, []⟩ := by decide +kernel

/-- the repaired scanner does not fire on that witness: the diagnostic is attributed -/
theorem javac_quoted_java_lang_repaired :
    analyzeV .framed .javac []
      (chars! "/tmp/tmpab12cd_9/src/alpha/Main.java:3: error: java.lang.Object cannot be converted to T\n")
      = ⟨false, [((chars! "/tmp/tmpab12cd_9/src/alpha/Main.java"),
          [(chars! "3: error: java.lang.Object cannot be converted to T")])]⟩ := by decide +kernel

/-- the clause that is left is needed: javac quotes source lines indented with blanks, so a quoted
line that begins with the identifier `at` directly under a message naming `java.lang` still looks
like a stack frame to the repaired pattern. (Theoretical: `at` is not an entry of
`src/resources/words`, so the tool never generates that identifier.) -/
theorem javac_repaired_at_identifier_counterexample :
    analyzeV .framed .javac []
      (chars! "a/Main.java:3: error: java.lang.Object cannot be converted to T\n    at = o;\n")
      = ⟨true, []⟩ := by decide +kernel

/-- the last error of an output without final newline is dropped -/
theorem javac_no_final_newline_counterexample :
    analyze .javac [] (chars! "/tmp/tmpab12cd_9/src/alpha/Main.java:3: error: boom") = ⟨false, []⟩ := by
  decide +kernel

/-- a directory name with `-` truncates the key -/
theorem javac_dash_in_directory_counterexample :
    analyze .javac [] (chars! "/tmp/my-dir/src/alpha/Main.java:3: error: boom\n")
      = ⟨false, [((chars! "dir/src/alpha/Main.java"), [(chars! "3: error: boom")])]⟩ := by
  decide +kernel

/-! ## non-vacuity: a three-file batch -/

def fileA : List Char := toolPath .javac (chars! "ab12cd_9") (chars! "alpha")
def fileB : List Char := toolPath .javac (chars! "ab12cd_9") (chars! "beta")
def fileC : List Char := toolPath .javac (chars! "ab12cd_9") (chars! "gamma")

def batch3 : List Item :=
  [ .error fileA (chars! "3") [] (chars! "incompatible types") 0 [(chars! "  Integer x = \"a\";"), (chars! "     ^")],
    .warning fileB (chars! "7") [] (chars! "[unchecked] cast") 0 [(chars! "  T y = (T) o;")],
    .error fileC (chars! "12") [] (chars! "cannot find symbol") 0 [(chars! "  symbol: variable foo")],
    .error fileA (chars! "9") [] (chars! "missing return") 0 [],
    .note (chars! "Note: Some input files use unchecked operations."),
    .summary (chars! "3") ]

theorem batch3_wf : ∀ i ∈ batch3, WFItem .javac i := by decide +kernel

example : ToolNames (chars! "ab12cd_9") (chars! "alpha") := by
  refine ⟨?_, ?_, ?_, ?_⟩ <;> decide +kernel

/-- the three-file batch: `alpha` (two errors) and `gamma` are reported, `beta` (a warning only)
is not -/
theorem batch3_result :
    analyze .javac [] (render .javac batch3)
      = ⟨false, [(fileA, [(chars! "3: error: incompatible types"), (chars! "9: error: missing return")]),
                 (fileC, [(chars! "12: error: cannot find symbol")])]⟩ := by
  rw [analyze_render_javac batch3 batch3_wf]
  decide +kernel

example : WFTrace .javac ⟨(chars! "java.lang.AssertionError: boom"),
    [(chars! "\tat jdk.compiler/com.sun.tools.javac.comp.Attr.visitApply(Attr.java:2000)")]⟩ := by
  unfold WFTrace; decide +kernel

-- END theorems

end Heph.Props.C14
