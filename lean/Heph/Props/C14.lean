import Heph.Generated.Regex
import Heph.Model.Diag
/-! # C14 — compiler diagnostics are attributed to the right programs

(The attribution theorems are added around the block below by the proof worker.) -/
namespace Heph.Props.C14

-- BEGIN regenerated-pattern obligations
/-! The scanners of `Heph/Model/Diag.lean` are hand-written for exactly these pattern strings and
flags (`re.compile(...).pattern` / `.flags`; 32 = `re.UNICODE`, 40 = `re.UNICODE | re.MULTILINE`;
`re.MULTILINE` only changes `^`/`$`, which no pattern uses) and for this `\d` table.
`harness/regen.py` rewrites `Heph/Generated/Regex.lean` from the live classes on every run: an
edited regex breaks exactly the obligation named after it, and the check goes on to its
failing-input search. -/

theorem javaErrorPattern_expected : Heph.Generated.javaErrorRegex
    = "([a-zA-Z0-9\\/_]+.java):(\\d+:[ ]+error:[ ]+.*)(.*?(?=\\n{1,}))" := by decide
theorem javaErrorFlags_expected : Heph.Generated.javaErrorFlags = 32 := by decide

theorem javaCrashPattern_expected : Heph.Generated.javaCrashRegex
    = "(java\\.lang.*)\\n(.*)" := by decide
theorem javaCrashFlags_expected : Heph.Generated.javaCrashFlags = 32 := by decide

theorem kotlinErrorPattern_expected : Heph.Generated.kotlinErrorRegex
    = "([a-zA-Z0-9\\/_]+.kt):\\d+:\\d+:[ ]+error:[ ]+(.*)" := by decide
theorem kotlinErrorFlags_expected : Heph.Generated.kotlinErrorFlags = 32 := by decide

theorem kotlinCrashPattern_expected : Heph.Generated.kotlinCrashRegex
    = "(org\\.jetbrains\\..*)\\n(.*)" := by decide
theorem kotlinCrashFlags_expected : Heph.Generated.kotlinCrashFlags = 40 := by decide

theorem groovyErrorPattern_expected : Heph.Generated.groovyErrorRegex
    = "([a-zA-Z0-9\\\\/_]+.groovy):([\\s\\S]*?(?=\\n{2,}))" := by decide
theorem groovyErrorFlags_expected : Heph.Generated.groovyErrorFlags = 32 := by decide

theorem groovyCrashPattern_expected : Heph.Generated.groovyCrashRegex
    = "(at org.codehaus.groovy)(.*)" := by decide
theorem groovyCrashFlags_expected : Heph.Generated.groovyCrashFlags = 32 := by decide

theorem groovyStackOverflowPattern_expected : Heph.Generated.groovyStackOverflowRegex
    = "(.*java.lang.StackOverflowError)(.*)" := by decide
theorem groovyStackOverflowFlags_expected : Heph.Generated.groovyStackOverflowFlags = 32 := by decide

theorem scalaErrorPattern_expected : Heph.Generated.scalaErrorRegex
    = "-- .*Error: (.*\\.scala):\\d+:\\d+ -+\\n((?:[^-]+))" := by decide
theorem scalaErrorFlags_expected : Heph.Generated.scalaErrorFlags = 40 := by decide

theorem scalaCrashPattern_expected : Heph.Generated.scalaCrashRegex
    = ".*at dotty(.*)" := by decide
theorem scalaCrashFlags_expected : Heph.Generated.scalaCrashFlags = 32 := by decide

theorem digitTable_expected : Heph.Generated.digitRanges = Heph.Diag.digitRanges := by decide
-- END regenerated-pattern obligations

end Heph.Props.C14
