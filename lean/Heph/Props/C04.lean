import Heph.Proofs.MutationEq
import Heph.Proofs.MutationMap
import Heph.Proofs.MutationOverwrite
import Heph.Spec.Mutation
/-!
# C04 — type overwriting injects exactly one real type error (partial)

Theorems about the model `Heph/Model/Mutation.lean` of the EFFECT of `TypeOverwriting`
(`overwriteAt`), of the executable program diff the harness runs on the by-value exports before
and after the mutation (`overwriteDiff`), and of `unrelated`.

What is NOT proved here (hence *partial*): that a correct type checker rejects the mutant (that
leg is the verified checker of C01, called by the harness when the driver offers `check.wt`, and
javac for Java), and that `find_irrelevant_type` only returns unrelated types (the harness judges
every explored pair with the verified subtype/assignability model of C06 and with the real code).
-/
namespace Heph.Props.C04
open Heph Heph.Mut Heph.Graph

/-! ## a small program -/

def tA : Ty := .simple "A" []
def tC : Ty := .simple "C" []
def tBcon : Ty := .tcon "TypeConstructor" "B" [.tparam "T" 0 none] []
def tBA : Ty := .param "B" tBcon [tA] []
def tBC : Ty := .param "B" tBcon [tC] []

/-- `fun f(): B<A> { val x: B<A> = new B<A>(); x }` -/
def demo : Program :=
  { lang := "kotlin",
    decls := [.funcDecl "f" [] (some tBA) (some tBA)
      (some (.block [.varDecl "x" (.newE tBA [] false) false (some tBA) (some tBA), .variable "x"] true))
      false false [] 1],
    context := [⟨["global"], "funcs", "f"⟩] }

def sVar : Site := ⟨[(0, 0), (1, 0), (0, 0)], .varType⟩
def sNew0 : Site := ⟨[(0, 0), (0, 0), (1, 0), (0, 0)], .newArg 0⟩

/-! ## nothing injected -/

/-- **Not injected ⇒ unchanged.**  When the diff of the programs before and after the mutation
    answers `none`, the two programs are equal (structurally: every node, name, modifier, type),
    hence so is every translation of them. -/
theorem not_injected_unchanged {p q : Program} (h : overwriteDiff p q = .none) : q = p := by
  unfold overwriteDiff at h
  split at h
  · split at h
    · rename_i heq
      exact (progEq_iff.1 heq).symm
    · cases h
  · split at h
    · split at h <;> cases h
    · cases h
  · cases h

/-- a decidable test "the diff is `one s old new`" (types compared structurally), to state
    concrete examples: `OwDiff` has no decidable equality because `Ty` has none -/
def owIs (d : OwDiff) (s : Site) (old new : Ty) : Bool :=
  match d with
  | .one s' o n => decide (s' = s) && tyEq o old && tyEq n new
  | _ => false

theorem owIs_iff {d : OwDiff} {s : Site} {old new : Ty} : owIs d s old new = true ↔ d = .one s old new := by
  cases d with
  | none => simp [owIs]
  | more => simp [owIs]
  | one s' o n =>
      simp only [owIs, Bool.and_eq_true, decide_eq_true_eq, tyEq_iff, OwDiff.one.injEq]
      exact and_assoc

def owTag : OwDiff → Nat
  | .none => 0
  | .one .. => 1
  | .more => 2

/-- and conversely a program has no difference to itself -/
example : owTag (overwriteDiff demo demo) = 0 := by decide +kernel

/-! ## exactly one site -/

/-- full statement of the design: the diff answers `one s old new` exactly for the one-site
    overwrites of a type that differs from the replaced one -/
def overwrite_one_site : Prop :=
  ∀ (p q : Program) (s : Site) (old new : Ty),
    overwriteDiff p q = .one s old new ↔
      (q = overwriteAt s new p ∧ old ≠ new ∧
        ∃ sl, (s.path, sl) ∈ slots p ∧ slotOld s.field sl = some old)

/-- **One site (soundness direction, the one the harness relies on; the converse is the part of
    `overwrite_one_site` that is not proved).**  When the diff answers `one s old new`: the second
    program IS the first one overwritten at `s` with `new` (structurally equal); `old ≠ new`;
    `old` is what the field `s.field` of the node at `s.path` held in the first program (the
    recorded type of the variable / function, or the type argument at that index); exactly one
    slot of the program differs, and it is that one. -/
theorem overwrite_one_site_partial {p q : Program} {s : Site} {old new : Ty}
    (h : overwriteDiff p q = .one s old new) :
    q = overwriteAt s new p ∧ old ≠ new ∧
    (∃ sl, (s.path, sl) ∈ slots p ∧ slotOld s.field sl = some old) ∧
    ∃ a b, slotDiffs (slots p) (slots q) = [(a, b)] ∧ a.1 = s.path ∧
      classify a.2 b.2 = some (s.field, old, new) := by
  unfold overwriteDiff at h
  split at h
  · split at h <;> cases h
  · rename_i a b hd
    split at h
    · rename_i f o n hc
      split at h
      · rename_i heq
        cases h
        obtain ⟨hold, hne⟩ := classify_old hc
        have hmem : (a, b) ∈ slotDiffs (slots p) (slots q) := by rw [hd]; simp
        have ha : a ∈ slots p := (List.of_mem_zip (List.mem_filter.1 hmem).1).1
        exact ⟨(progEq_iff.1 heq).symm, hne, ⟨a.2, ha, hold⟩, a, b, hd, rfl, hc⟩
      · cases h
    · cases h
  · cases h

/-- **Frame of the effect.**  Overwriting at a site leaves every slot at another path as it
    was, and never touches anything that is not a slot (names, modifiers, shapes: the slots are
    mapped, the rest of the tree is rebuilt identically by `mapProg`). -/
theorem overwriteAt_slots (s : Site) (new : Ty) (p : Program) :
    slots (overwriteAt s new p) = (slots p).map (appP (overwriteFn s new)) ∧
    ∀ π sl, π ≠ s.path → (overwriteFn s new).app π sl = sl := by
  refine ⟨slots_mapProg _ _, ?_⟩
  intro π sl hne
  cases sl with
  | var vt inf => simp [SlotFn.app, overwriteFn, hne]
  | func rt inf => simp [SlotFn.app, overwriteFn, hne]
  | new t ci =>
      simp only [SlotFn.app, overwriteFn]
      split <;> simp [hne]
  | call ta ci =>
      simp only [SlotFn.app, overwriteFn]
      split <;> simp [hne]

/-- the slot hit by an overwrite of a variable's / function's type: declared and recorded type
    both become the new type -/
theorem overwriteAt_hit_var (π : Path) (new : Ty) (vt inf : Option Ty) :
    (overwriteFn ⟨π, .varType⟩ new).app π (.var vt inf) = .var (some new) (some new) := by
  simp [SlotFn.app, overwriteFn]

theorem overwriteAt_hit_func (π : Path) (new : Ty) (rt inf : Option Ty) :
    (overwriteFn ⟨π, .retType⟩ new).app π (.func rt inf) = .func (some new) (some new) := by
  simp [SlotFn.app, overwriteFn]

/-! ## non-vacuity: the diff recognises both kinds of overwrite on the demo program, and refuses
    a change at two sites and a change of anything else -/

example : overwriteDiff demo (overwriteAt sVar tC demo) = .one sVar tBA tC :=
  owIs_iff.1 (by decide +kernel)
example : overwriteDiff demo (overwriteAt sNew0 tC demo) = .one sNew0 tA tC :=
  owIs_iff.1 (by decide +kernel)
example : owTag (overwriteDiff demo (overwriteAt sNew0 tC (overwriteAt sVar tC demo))) = 2 := by decide +kernel
example : owTag (overwriteDiff demo { demo with lang := "java" }) = 2 := by decide +kernel

/-! ## unrelated -/

/-- **Unrelated.**  `unrelated extra a b` is exactly: the model of `is_subtype` answers *no* in
    both directions and the model of `is_assignable` answers *no* in both directions (an error of
    one of the four tests counts as related). -/
theorem unrelated_iff (extra : List (String × String)) (a b : Ty) :
    unrelated extra a b = true ↔
      Ty.isSubtype a b = .no ∧ Ty.isSubtype b a = .no ∧
      Ty.isAssignable extra a b = .no ∧ Ty.isAssignable extra b a = .no := by
  have hr : ∀ r : Ty.Res, (r == Ty.Res.no) = true ↔ r = Ty.Res.no := by intro r; cases r <;> decide
  simp only [unrelated, Bool.and_eq_true, hr, and_assoc]

theorem unrelated_symm (extra : List (String × String)) (a b : Ty) :
    unrelated extra a b = unrelated extra b a := by
  simp only [unrelated]
  cases Ty.isSubtype a b == .no <;> cases Ty.isSubtype b a == .no <;>
    cases Ty.isAssignable extra a b == .no <;> cases Ty.isAssignable extra b a == .no <;> rfl

example : unrelated [] tA tC = true := by decide +kernel
example : unrelated [] tA tA = false := by decide +kernel

/-! ## the message -/

/-- **Message.**  The message the model accepts is `"{old} expected but {new} found in node {id}"`
    with `pyStr` of the two types. -/
theorem errorMessageOK_iff (bn : List (String × String)) (old new : Ty) (nodeId msg : String) :
    errorMessageOK bn old new nodeId msg = true ↔
      msg = pyStr bn old ++ " expected but " ++ pyStr bn new ++ " found in node " ++ nodeId := by
  simp [errorMessageOK, errorMessage]

example : errorMessage [] tA tBC "global/f/x" = "A expected but B<C> found in node global/f/x" := by decide +kernel

end Heph.Props.C04
