import Heph.Proofs.TransJavaBasic
import Heph.Proofs.TransJavaBalFull
import Heph.Props.C14
/-! # C02 — Java translations of valid programs compile with javac  (PARTIAL: javac is observed)

"javac accepts the emitted file" is an agreement with an external artefact: it is *observed* by
`harness/check_C02.py` (javac run on every explored program), it is not a theorem, and there is
no Lean model of Java's static semantics.  What is logic is proved here, about
`Heph.TransJava` (`Model/TransJava.lean`, the state-threading port of
`src/translators/java.py`, tied to the code by byte equality of the texts):

* `java_program_resets`, `java_history_independent` — the C11 part for Java: `visit_program`
  ends in `_reset_state`, so a used translator is a fresh translator;
* `javaText_shape` — package line, `class Main { static members }`, functional interfaces,
  then one text per top-level class declaration;
* `javaText_balanced_full : javaText_balanced` — parentheses, braces and square brackets of the
  emitted unit are properly nested and all closed, for EVERY node kind (blocks with their
  `Function0` lambda wrapping and `Type x_N = ` sugar, calls with vararg arrays, array expressions,
  lambdas, methods and nested functions, classes with constructors and `super(...)` arguments
  printed by a fresh translator, function references, …), every fuel, every translator state
  reachable by earlier translations, under the hypotheses `EnvOK e`, `BrFree pkg`, `AtomsOKL decls`
  (Boolean tests of `Spec/JavaBalance.lean`, evaluated by the harness on every explored program);
  `javaText_balanced_partial` is the older variant for an expression fragment that needs no
  hypothesis on the context and only *semantic* hypotheses on types (`TyOK`);
* `verdict_batch_independent` — the javac diagnostics analysis attributes to a file in a batch
  what it attributes to it alone (re-export of C14). -/
namespace Heph.Props.C02
open Heph Heph.TransJava

/-! ## `_reset_state`: the C11 part for Java -/

/-- after `visit_program` the translator state is the initial state, whatever the state before,
whatever the program (model of the trailing `self._reset_state()`) -/
theorem java_program_resets (e : Env) (pkg : String) (st : St) (decls : List Node) :
    (visitProgram e pkg st decls).1 = St.init :=
  visitProgram_fst e pkg st decls

example : (visitProgram ⟨[]⟩ "src.p" { St.init with ident := 7, xCounter := 3 }
    [.varDecl "x" (.intC "1" none) true none none]).1 = St.init := java_program_resets _ _ _ _

/-- the text of a program does not depend on which programs the same translator object
translated before -/
theorem java_history_independent (hist : List (Env × String × List Node)) (e : Env) (pkg : String)
    (decls : List Node) :
    translateFrom e pkg (stateAfter hist) decls = translate e pkg decls := by
  rw [stateAfter_eq_init]; rfl

example : translateFrom ⟨[]⟩ "p" (stateAfter [(⟨[]⟩, "q", [.varDecl "x" (.intC "1" none) true none none])]) []
    = translate ⟨[]⟩ "p" [] := java_history_independent _ _ _ _

/-! ## shape of the compilation unit -/

/-- the line `package <pkg>;` followed by an empty line (nothing for an empty package) -/
def packageLine (pkg : String) : String := if pkg != "" then "package " ++ pkg ++ ";\n\n" else ""

/-- a member of `Main`: two blanks, `static`, the declaration's text without leading whitespace -/
def staticMember (d : Text) : Text := sp 2 ++ "static " ++ lstrip d

theorem filter_zip_length {α β : Type} (p : α → Bool) :
    ∀ (xs : List α) (ys : List β), ys.length = xs.length →
      ((xs.zip ys).filter fun q => p q.1).length = (xs.filter p).length
  | [], _, _ => by simp
  | x :: xs, [], h => by simp at h
  | x :: xs, y :: ys, h => by
      have ih := filter_zip_length p xs ys (by simpa using h)
      by_cases hp : p x = true <;> simp [List.zip_cons_cons, List.filter_cons, hp, ih]

/-- the emitted text is: package line, `class Main {` static members `}`, the functional
interfaces, then (separated by empty lines) one text per top-level declaration that is not a
variable or function — for every program and every context -/
theorem javaText_shape (e : Env) (pkg : String) (decls : List Node) :
    ∃ (members : List Text) (mainMethod : Text) (nums : List Nat) (others : List Text),
      translate e pkg decls =
        packageLine pkg ++ "class Main {\n" ++ join "\n\n" (members.map staticMember)
          ++ (if mainMethod != "" then "\n\n" ++ staticMember mainMethod else "") ++ "\n}"
          ++ functionalInterfaces nums
          ++ (if join "\n\n" others != "" then "\n\n" ++ join "\n\n" others else "")
      ∧ others.length = (decls.filter fun d => !routed d).length := by
  unfold translate translateFrom visitProgram
  generalize hv : visitL (visit e (fuelOf decls)) St.init decls = r
  obtain ⟨s1, rs⟩ := r
  have hlen : rs.length = decls.length := by
    have := visitL_length (visit e (fuelOf decls)) St.init decls
    rw [hv] at this; exact this
  refine ⟨s1.mainChildren, s1.mainMethod, s1.functionInterfaces,
    ((decls.zip rs).filter fun p => !(St.init.ns == ["global"] && routed p.1)).map (·.2), ?_, ?_⟩
  · simp only [packageLine, staticMember, String.append_assoc]
    rfl
  · rw [List.length_map]
    have h0 : (St.init.ns == ["global"]) = true := by decide
    simp only [h0, Bool.true_and]
    exact filter_zip_length (fun d => !routed d) decls rs hlen

example : ∃ m mm ns os, translate ⟨[]⟩ "src.p" [.classDecl "A" 0 true [] [] [] []] =
    packageLine "src.p" ++ "class Main {\n" ++ join "\n\n" (List.map staticMember m)
      ++ (if mm != "" then "\n\n" ++ staticMember mm else "") ++ "\n}" ++ functionalInterfaces ns
      ++ (if join "\n\n" os != "" then "\n\n" ++ join "\n\n" os else "")
    ∧ os.length = 1 := by
  obtain ⟨m, mm, ns, os, h1, h2⟩ := javaText_shape ⟨[]⟩ "src.p" [.classDecl "A" 0 true [] [] [] []]
  exact ⟨m, mm, ns, os, h1, by simpa [routed] using h2⟩

/-! ## bracket balance

`Balanced s` (`Proofs/TransJavaBal.lean`, scanner in `Spec/JavaBalance.lean`): a scanner with a stack
of expected closers runs over the text, skipping every character that is not one of `( ) { } [ ]`,
and ends with the empty stack.  Angle brackets are not part of the statement (`<`, `>` are also
operators and `->`).

Hypotheses (all three are Boolean tests, `Spec/JavaBalance.lean`, so the harness evaluates them on
every explored program and counts "covered by theorem" / "outside fragment"):
* `AtomsOKL decls` (`atomsOKL`): every identifier, literal and operator symbol of the program contains
  none of the six characters (true of the generator's word pool, of numbers, of the operator table; a
  string or character literal containing a bracket is outside the theorem), parameter names are
  non-empty words, the parameters of a function declaration are parameter declarations, and every
  type mentioned anywhere in a node is well formed (`tyWF`: all names in the type tree — arguments,
  bounds, constructors, supertypes — are bracket-free; array types print their `[]` themselves);
* `EnvOK e` (`envOK`): every declaration stored in the context satisfies `atomsOK` (the translator
  prints types it looks up there: `get_type_hint` for the `x_N` sugar and the `Function0<T>` wrapper,
  the vararg parameter type of a called nested function);
* `BrFree pkg`: the package name is bracket-free.

(An earlier version of this file stated the hypothesis on the context as "`typeHint` answers a type
with balanced printed forms for EVERY node and smart-cast stack"; that is not satisfiable — the hint
of `new T()` is `T` for an arbitrary `T` — so the statement was vacuous.  The structural hypotheses
above are satisfiable (examples below) and are what the proof needs: `typeHint_ok` derives the
semantic fact from them, through `_comp_type`'s substitutions.) -/

/-- FULL statement: for every program whose atoms are well formed, in every context of well-formed
declarations, the emitted compilation unit is balanced. -/
def javaText_balanced : Prop :=
  ∀ (e : Env) (pkg : String) (decls : List Node), EnvOK e → BrFree pkg → AtomsOKL decls →
    Balanced (translate e pkg decls)

/-- PROVED IN FULL (`Proofs/TransJavaBal{Ty,Hint,Inv,Expr,Block,Func,Class,Full}.lean`): induction on
the fuel of `visit` with the invariant `VOK2` — every visit of a node with well-formed atoms, from a
state whose collected `Main` members are neutral and whose smart-cast stack holds well-formed types,
answers a neutral text (a text that leaves every scanner stack as it found it) and such a state —
one lemma per visit method, then the assembly of `visit_program`. -/
theorem javaText_balanced_full : javaText_balanced :=
  fun e pkg decls he hp hd => (translateFrom_neutral_full e he pkg St.init decls stOK2_init hp hd).balanced

/-- the same after any history of translations by the same translator object -/
theorem javaText_balanced_history (hist : List (Env × String × List Node)) (e : Env) (pkg : String)
    (decls : List Node) (he : EnvOK e) (hp : BrFree pkg) (hd : AtomsOKL decls) :
    Balanced (translateFrom e pkg (stateAfter hist) decls) := by
  rw [java_history_independent]; exact javaText_balanced_full e pkg decls he hp hd

/-- a function type `Function1<Boolean, Boolean>` and an array type `Array<Boolean>` of the Java built-ins -/
def exFn : Ty := .param "Function1" (.tcon "<class 'src.ir.types.FunctionType'>" "Function1"
  [.tparam "A1" 0 none, .tparam "R" 0 none] [tyObject]) [tyBoolean, tyBoolean] [tyObject]
def exArr : Ty := .param "Array" (.tcon clsArray "Array" [.tparam "T" 0 none] [tyObject]) [tyBoolean] [tyObject]

/-- a context that knows a top-level function `h` (vararg) and the classes `A`, `B` -/
def exEnv : Env := ⟨[
  { ns := ["global"], kind := "funcs", name := "h",
    val := some (.funcDecl "h" [.paramDecl "a" exArr true none] (some tyBoolean) (some tyBoolean) none false false [] 1) },
  { ns := ["global"], kind := "decls", name := "h",
    val := some (.funcDecl "h" [.paramDecl "a" exArr true none] (some tyBoolean) (some tyBoolean) none false false [] 1) },
  { ns := ["global"], kind := "classes", name := "A", val := some (.classDecl "A" 0 false [] [] [] []) },
  { ns := ["global"], kind := "classes", name := "B", val := some (.classDecl "B" 0 false [] [] [] []) }]⟩

/-- `class A<T extends Boolean> extends B { public final Boolean f; constructor; method m with a block
that declares a lambda, calls `h`, builds an array and ends in a conditional with a nested block }` -/
def exProg : List Node :=
  [.classDecl "A" 0 false
     [.fieldDecl "f" tyBoolean true false false]
     [.superInst (.simple "B" []) (some [.boolC "true"])]
     [.funcDecl "m" [.paramDecl "p" tyBoolean false none] (some tyBoolean) (some tyBoolean)
        (some (.block [
            .varDecl "g" (.lambda "lambda_0" [.paramDecl "q" tyBoolean false none] (some tyBoolean)
                (.variable "q") (some exFn)) true none (some exFn),
            .call "h" [.callArg (.variable "p") none] none [] false false,
            .varDecl "r" (.arrayE exArr 1 [.boolC "true"]) true none (some exArr),
            .cond (.isE (.variable "p") tyBoolean false)
              (.block [.funcRef "h" none (some exFn)] false) (.bottom (some tyBoolean)) (some tyBoolean)] true))
        false false [] 0]
     [.tparam "T" 0 (some tyBoolean)]]

/-- the hypotheses of the full theorem are met by a non-trivial program (a class with a field, a
superclass, a type parameter and a method whose block holds a lambda, a call, an array and a
conditional with a nested block and a function reference) in a non-empty context -/
example : Balanced (translate exEnv "src.p" exProg) :=
  javaText_balanced_full exEnv "src.p" exProg (by decide) (by decide) (by decide)

/-- … and by the empty context with a top-level function -/
example : Balanced (translate ⟨[]⟩ "" [.funcDecl "main" [] (some tyVoid) (some tyVoid)
    (some (.block [.call "f" [] none [] false false] true)) false false [] 1]) :=
  javaText_balanced_full _ _ _ (by decide) (by decide) (by decide)

/-- the hypotheses do exclude something: a string literal with a bracket, a type named `T(` -/
example : ¬ AtomsOKL [.varDecl "x" (.stringC "a)") true none none] ∧
    ¬ AtomsOKL [.varDecl "x" (.newE (.simple "T(" []) [] false) true none none] := by decide

/-- OLDER VARIANT (kept): the statement for the fragment delimited by `NodeOK`
(`Proofs/TransJavaBalVisit.lean`): top-level variable declarations, parameter / field / superclass
headers, and the expression language made of constants (with number casts), variables, `null` with
casts, binary operations, conditionals, `instanceof`, `new`, field access, assignment, function
references and call arguments — for EVERY context (no hypothesis on `e`) and with the weaker,
semantic hypothesis `TyOK` on types (the printed forms are balanced, e.g. a classifier that is itself
named `Foo[]`).  Everything else it does not cover is covered by `javaText_balanced_full`. -/
theorem javaText_balanced_partial (e : Env) (pkg : String) (decls : List Node) (hp : BrFree pkg)
    (hd : NodesOK decls) : Balanced (translate e pkg decls) :=
  (translateFrom_neutral e pkg St.init decls stOK_init hp hd).balanced

/-- the same after any history of translations by the same translator object -/
theorem javaText_balanced_history_partial (hist : List (Env × String × List Node)) (e : Env) (pkg : String)
    (decls : List Node) (hp : BrFree pkg) (hd : NodesOK decls) :
    Balanced (translateFrom e pkg (stateAfter hist) decls) := by
  rw [java_history_independent]; exact javaText_balanced_partial e pkg decls hp hd

theorem tyOK_boolean : TyOK tyBoolean := by
  have h1 : ∀ bv bx, typeName tyBoolean bv bx = "Boolean" := by
    intro bv bx; cases bv <;> cases bx <;> simp [tyBoolean, typeName, clsVoid, boxedOf]
  have h2 : Ty.getName tyBoolean = "Boolean" := by simp [tyBoolean, Ty.getName]
  constructor
  · intro bv bx; rw [h1]; exact BrFree.neutral (by decide)
  · rw [h2]; exact BrFree.neutral (by decide)
  · decide
  · show Neutral (Ty.getName tyBoolean); rw [h2]; exact BrFree.neutral (by decide)

instance (s : String) : Decidable (Balanced s) := inferInstanceAs (Decidable (scan [] s.toList = some []))

/-- the hypotheses are met by a non-trivial program:
`final Boolean x = ((y instanceof Boolean y_is) ? (y == true) : (Boolean) null);` -/
example : Balanced (translate ⟨[]⟩ "src.p"
    [.varDecl "x" (.cond (.isE (.variable "y") tyBoolean false)
        (.binop "eq" (.variable "y") (.boolC "true") "==") (.bottom (some tyBoolean)) none) true none (some tyBoolean)]) := by
  apply javaText_balanced_partial
  · decide
  · simp only [NodesOK, NodeOK, TyOKO, and_true]
    exact ⟨by decide, ⟨⟨by decide, tyOK_boolean⟩, ⟨by decide, by decide, by decide⟩, tyOK_boolean⟩, tyOK_boolean⟩

/-- the scanner does reject: an unclosed parenthesis, a wrong closer, a closer without opener -/
example : ¬ Balanced "f(a[0]" ∧ ¬ Balanced "f(a[0)]" ∧ ¬ Balanced "}" ∧ Balanced "f(a[0], () -> { g(); })" := by
  decide

/-! ## batching -/

open Heph.Diag in
/-- the analysis of javac's output is independent of batching: for outputs of the javac grammar
(C14, `Spec/Diag.lean`) the messages attributed to file `f` in the concatenation of two batch
outputs are those of the first followed by those of the second; a file without error items in
the rest of the batch has the verdict it has alone (re-export of `Heph.Props.C14`) -/
theorem verdict_batch_independent (is1 is2 : List Item) (h1 : ∀ i ∈ is1, WFItem .javac i)
    (h2 : ∀ i ∈ is2, WFItem .javac i) (f : List Char) :
    lookupFailed f (analyze .javac [] (render .javac is1 ++ render .javac is2)).failed
        = lookupFailed f (analyze .javac [] (render .javac is1)).failed
          ++ lookupFailed f (analyze .javac [] (render .javac is2)).failed
    ∧ ((¬ ∃ l col msg pad det, Item.error f l col msg pad det ∈ is2) →
        lookupFailed f (analyze .javac [] (render .javac is1 ++ render .javac is2)).failed
          = lookupFailed f (analyze .javac [] (render .javac is1)).failed) :=
  ⟨Heph.Props.C14.batch_independent_javac is1 is2 h1 h2 f,
   Heph.Props.C14.batch_verdict_alone_javac is1 is2 h1 h2 f⟩

end Heph.Props.C02
