import Heph.Model.Find
import Heph.Spec.Assignable
import Heph.Proofs.Find
import Heph.Proofs.FindBeq
/-!
# C09 — subtype search and irrelevant-type search return only what they promise (*partial*)

Model: `Heph.Find.findTypes` (`_find_types` of `src/ir/type_utils.py`, with the randomised
`_construct_related_types` as an input), `findTypesNominal` (without it), `availTypes` /
`irrelevantNominal` (the exclusion step of `find_irrelevant_type`), and the result checkers
`subtypesOK` / `irrelevantOK` the harness applies to every answer of the real functions.
Specification: `SubT U` (C06) and its extension `Asg U` (`Spec/Assignable.lean`: top type, boxes,
star projections) — the declarative relation; decider `Ty.isSubD`, sound for `Asg U`.

* `findNominal_sound`, `findSuperNominal_sound`: what the search finds in the class hierarchy is
  a declarative subtype (supertype) of the query, is not `==` the query when `include_self` is off,
  and (supertype direction) is below the requested bound.
* `findNominal_complete`: every element of `types` the subtype test accepts is represented.
* `include_self_iff`: the query is in the result exactly when asked for.
* `concretize_no_tcon`: with `concrete_only` no bare constructor is returned.
* `subtypesOK_sound`: an answer the checker accepts satisfies the property in `Asg U`.
* `irrelevant_top_none`; `irrelevantOK_reject_sound`: every answer the checker *rejects*
  violates the property in `Asg U` (no false alarms); `irrelevantOK_sound` (full statement,
  a `def`): acceptance ⇒ unrelated in `Asg U` needs completeness of the decider and is proved
  only as `irrelevantOK_sound_partial` (the decider finds no relation, the answer is usable).
* `irrelevantNominal_sound`, `irrelevantNominal_unrelated`: a non-generic candidate the
  exclusion step lets through is in none of the two lists, and the code's own subtype test
  does not relate it to the query.
* `availRepaired_sound`: the exclusion step of the repaired `find_irrelevant_type` additionally
  excludes the top type and the constructors all of whose instantiations are subtypes.
* `relatedUnbounded_partial`: argument vectors chosen position-wise by declaration-site variance
  (or inside a use-site projection) give declarative subtypes: the unbounded case of
  `_construct_related_types`.
* `candidateArgs_sound`: the candidate arguments `_find_candidate_type_args` offers for a position
  (model `candidateArgs`, direction flags `candDirSelf` / `candDirProj`) are contained in the query's
  argument, given that the nested searches keep their promise; `irrelevantParam_neq`: the answer of
  `get_irrelevant_parameterized_type` (model `irrelevantParam`) is never `==` an instantiation with
  the relevant argument list (so never the query itself).
* `finding_generic_subclass`, `finding_same_constructor`, `finding_top_type`: the two witnessed answers of
  `find_irrelevant_type` (replayed on the real code by the harness) are rejected by the checker,
  hence genuine violations.
-/
namespace Heph.Props.C09
open Heph Heph.Ty Heph.Find

/-! ## 1. The nominal search -/

theorem isSubtype_subT (U : Ty → Prop) (hU : ClosedU U) (s t : Ty) (us : U s) (ut : U t)
    (hs : wf s = true) (ht : wf t = true) (h : isSubtype s t = .yes) : SubT U s t :=
  (sound_all hU _).1 s t us ut hs ht h

/-- **subtype direction.** Every type `find_subtypes(τ, types)` finds in the class hierarchy is
    an element of `types`, a declarative subtype of `τ`, and not `==` to `τ`. -/
theorem findNominal_sound (U : Ty → Prop) (hU : ClosedU U) (τ : Ty) (types l : List Ty)
    (bound : Option Ty) (uτ : U τ) (ut : ∀ c ∈ types, U c) (wτ : wf τ = true)
    (wt : ∀ c ∈ types, wf c = true)
    (h : findTypesNominal τ types true false bound = .ok l) :
    ∀ r ∈ l, r ∈ types ∧ SubT U r τ ∧ beq r τ = false := by
  intro r hr
  obtain ⟨s0, hs0, hf⟩ := findTypes_ok h
  rw [finish_sub hf] at hr
  simp only [withSelf, withRelated, Bool.false_eq_true, if_false] at hr
  obtain ⟨hr0, hne⟩ := mem_discardTy hr
  simp only [startSet, if_true] at hs0
  rcases subLoop_sound τ types [] s0 hs0 r hr0 with h' | ⟨h1, _, h3⟩
  · cases h'
  · exact ⟨h1, isSubtype_subT U hU r τ (ut r h1) uτ (wt r h1) wτ h3, hne⟩

/-- the same with `include_self`: a found type is the query or a declarative subtype of it -/
theorem findNominal_sound_self (U : Ty → Prop) (hU : ClosedU U) (τ : Ty) (types l : List Ty)
    (bound : Option Ty) (uτ : U τ) (ut : ∀ c ∈ types, U c) (wτ : wf τ = true)
    (wt : ∀ c ∈ types, wf c = true)
    (h : findTypesNominal τ types true true bound = .ok l) :
    ∀ r ∈ l, r = τ ∨ (r ∈ types ∧ SubT U r τ) := by
  intro r hr
  obtain ⟨s0, hs0, hf⟩ := findTypes_ok h
  rw [finish_sub hf] at hr
  simp only [withSelf, withRelated, if_true] at hr
  simp only [startSet, if_true] at hs0
  rcases mem_addTy hr with hr0 | rfl
  · rcases subLoop_sound τ types [] s0 hs0 r hr0 with h' | ⟨h1, _, h3⟩
    · cases h'
    · exact Or.inr ⟨h1, isSubtype_subT U hU r τ (ut r h1) uτ (wt r h1) wτ h3⟩
  · exact Or.inl rfl

/-- … and the loop misses nothing: an element of `types` that is not `==` the query and that
    `is_subtype` accepts is represented in the answer (whatever `include_self`, the bound and
    the related instantiation are) -/
theorem findNominal_complete (τ : Ty) (types l : List Ty) (bound related : Option Ty)
    (includeSelf : Bool) (c : Ty) (hc : c ∈ types) (hcc : beq c c = true)
    (hne : beq τ c = false) (hy : isSubtype c τ = .yes)
    (h : findTypes τ types true includeSelf bound related = .ok l) : memBeq c l = true := by
  obtain ⟨s0, hs0, hf⟩ := findTypes_ok h
  rw [finish_sub hf]
  simp only [startSet, if_true] at hs0
  have m0 := subLoop_complete τ types [] s0 hs0 c hc hcc hne hy
  have m1 : memBeq c (withRelated τ related s0) = true := memBeq_withRelated m0
  unfold withSelf
  split
  · exact memBeq_mono_addTy m1
  · obtain ⟨e, he, hb⟩ := memBeq_iff.1 m1
    refine memBeq_iff.2 ⟨e, ?_, hb⟩
    unfold discardTy
    refine List.mem_filter.2 ⟨he, ?_⟩
    by_cases hq : beq e τ = true
    · have h2 := tyBeq_trans τ e c (tyBeq_symm e τ hq) hb
      rw [hne] at h2
      cases h2
    · simpa using hq

/-- **supertype direction.** Every type `find_supertypes(τ, types, bound=b)` finds in the class
    hierarchy is a declarative supertype of `τ`, not `==` to `τ`, and below the bound. -/
theorem findSuperNominal_sound (U : Ty → Prop) (hU : ClosedU U) (τ : Ty) (types l : List Ty)
    (bound : Option Ty) (uτ : U τ) (wτ : wf τ = true) (hreg : reg τ = true)
    (h : findTypesNominal τ types false false bound = .ok l) :
    ∀ r ∈ l, SubT U τ r ∧ beq r τ = false ∧
      ∀ b, bound = some b → U b → wf b = true → SubT U r b := by
  intro r hr
  obtain ⟨s0, hs0, hf⟩ := findTypes_ok h
  simp only [startSet, Bool.false_eq_true, if_false, FR.ok.injEq] at hs0
  subst hs0
  have hr2 := finish_mem hf r hr
  simp only [withSelf, withRelated, Bool.false_eq_true, if_false] at hr2
  obtain ⟨hr0, hne⟩ := mem_discardTy hr2
  have hcl := mem_toSet hr0
  refine ⟨?_, hne, ?_⟩
  · rcases closure_sub hU τ r uτ hcl with rfl | hs
    · rw [beq_refl _ hreg] at hne; cases hne
    · exact hs
  · intro b hb ub wb
    subst hb
    have := (boundFilter_sound b _ _ (finish_bound hf) r hr).2
    exact isSubtype_subT U hU r b (closedU_closure hU τ r uτ hcl) ub (wf_closure τ r wτ hcl) wb this

/-! ## 2. `include_self`, `concrete_only` -/

/-- **the query itself is in the answer exactly when asked for** (subtype search; supertype
    search without a greatest bound — a bound that the query itself exceeds removes it) -/
theorem include_self_iff (τ : Ty) (types l : List Ty) (bound related : Option Ty)
    (getSub includeSelf : Bool) (hreg : reg τ = true) (hb : getSub = true ∨ bound = none)
    (h : findTypes τ types getSub includeSelf bound related = .ok l) :
    memBeq τ l = includeSelf := by
  obtain ⟨s0, _, hf⟩ := findTypes_ok h
  have hl : l = withSelf includeSelf τ (withRelated τ related s0) := by
    rcases hb with rfl | rfl
    · exact finish_sub hf
    · exact finish_nobound hf
  subst hl
  cases includeSelf
  · simp only [withSelf, Bool.false_eq_true, if_false]
    exact memBeq_discardTy
  · simp only [withSelf, if_true]
    exact memBeq_addTy_self (beq_refl _ hreg)

/-- with `concrete_only`, no bare constructor is returned as long as `to_type`'s instantiation
    never is one -/
theorem concretize_no_tcon (inst : Ty → Ty) (hinst : ∀ t, (inst t).isTCon = false) (l : List Ty) :
    ∀ r ∈ concretize inst l, r.isTCon = false := by
  intro r hr
  obtain ⟨t, _, rfl⟩ := List.mem_map.1 hr
  split
  · exact hinst t
  · rename_i h; simpa using h

/-! ## 3. The result checkers -/

/-- **an accepted answer of the subtype / supertype search satisfies the property**: every
    returned type is on the right side of the query in the declarative relation `Asg U`, none
    is a bare constructor when concrete types were requested, and the query is among the
    results exactly when asked for -/
theorem subtypesOK_sound (U : Ty → Prop) (hU : ClosedU U) (hBd : BoundsU U) (B : List Ty)
    (hB : ∀ b ∈ B, U b) (getSub includeSelf concreteOnly : Bool) (bound : Option Ty) (τ : Ty)
    (rs : List Ty) (uτ : U τ) (ur : ∀ r ∈ rs, U r)
    (h : subtypesOK B getSub includeSelf concreteOnly bound τ rs = true) :
    (∀ r ∈ rs, (if getSub then Asg U r τ else Asg U τ r) ∧
      (concreteOnly = true → r.isTCon = false)) ∧
    (selfDemanded B getSub concreteOnly bound τ = true → memBeq τ rs = includeSelf) := by
  unfold subtypesOK at h
  simp only [Bool.and_eq_true, List.all_eq_true] at h
  obtain ⟨hall, hself⟩ := h
  refine ⟨?_, ?_⟩
  · intro r hr
    have := hall r hr
    unfold resultOK at this
    simp only [Bool.and_eq_true] at this
    obtain ⟨h1, h2⟩ := this
    refine ⟨?_, ?_⟩
    · cases getSub
      · simp only [Bool.false_eq_true, if_false] at h1 ⊢
        exact isSubD_sound' hU hBd B hB _ τ r uτ (ur r hr) h1
      · simp only [if_true] at h1 ⊢
        exact isSubD_sound' hU hBd B hB _ r τ (ur r hr) uτ h1
    · intro hc
      subst hc
      simpa using h2
  · intro hd
    rw [hd] at hself
    simpa using hself

/-- the irrelevant-type search returns nothing for the top type -/
theorem irrelevant_top_none (B : List Ty) (anyT τ : Ty) (r : Option Ty)
    (ht : beq τ anyT = true) (h : irrelevantOK B anyT τ r = true) : r = none := by
  unfold irrelevantOK at h
  rw [if_pos ht] at h
  cases r <;> simp at h ⊢

/-- **no false alarms**: an answer the checker rejects violates the property — it is a bare
    constructor, or it is related to the target in the declarative relation `Asg U` -/
theorem irrelevantOK_reject_sound (U : Ty → Prop) (hU : ClosedU U) (hBd : BoundsU U)
    (B : List Ty) (hB : ∀ b ∈ B, U b) (anyT τ x : Ty) (ux : U x) (ut : U (irrTarget anyT τ))
    (hne : beq τ anyT = false) (h : irrelevantOK B anyT τ (some x) = false) :
    x.isTCon = true ∨ Asg U x (irrTarget anyT τ) ∨ Asg U (irrTarget anyT τ) x := by
  unfold irrelevantOK at h
  rw [if_neg (by simp [hne])] at h
  simp only [Bool.and_eq_false_iff, Bool.not_eq_eq_eq_not] at h
  rcases h with (h | h) | h
  · exact Or.inl h
  · exact Or.inr (Or.inl (isSubD_sound' hU hBd B hB _ _ _ ux ut h))
  · exact Or.inr (Or.inr (isSubD_sound' hU hBd B hB _ _ _ ut ux h))

/-- the full statement for accepted answers: unrelated in the declarative relation.  It needs
    completeness of the decider `isSubD` for `Asg U`, which is not proved (and does not hold in
    general: `Asg` has a transitivity rule through arbitrary types of the universe). -/
def irrelevantOK_sound : Prop :=
  ∀ (U : Ty → Prop) (B : List Ty) (anyT τ x : Ty), ClosedU U → BoundsU U → (∀ b ∈ B, U b) →
    U x → U (irrTarget anyT τ) → beq τ anyT = false →
    irrelevantOK B anyT τ (some x) = true →
    ¬ Asg U x (irrTarget anyT τ) ∧ ¬ Asg U (irrTarget anyT τ) x

/-- the proved part: an accepted answer is a usable type that the decider relates to the
    target in neither direction -/
theorem irrelevantOK_sound_partial (B : List Ty) (anyT τ x : Ty) (hne : beq τ anyT = false)
    (h : irrelevantOK B anyT τ (some x) = true) :
    x.isTCon = false ∧ subJ B x (irrTarget anyT τ) = false ∧
      subJ B (irrTarget anyT τ) x = false := by
  unfold irrelevantOK at h
  rw [if_neg (by simp [hne])] at h
  simp only [Bool.and_eq_true, Bool.not_eq_eq_eq_not, Bool.not_true] at h
  exact ⟨h.1.1, h.1.2, h.2⟩

/-! ## 4. The exclusion step of `find_irrelevant_type` -/

/-- a candidate the exclusion step lets through is an element of `types`, not a constructor,
    and in neither of the two lists of relevant types; there is none for the top type -/
theorem irrelevantNominal_sound (anyT τ : Ty) (types sups subs : List Ty) (t : Ty)
    (h : t ∈ irrelevantNominal anyT τ types sups subs) :
    t ∈ types ∧ t.isTCon = false ∧ memBeq t sups = false ∧ memBeq t subs = false ∧
      beq τ anyT = false := by
  unfold irrelevantNominal at h
  split at h
  · cases h
  · rename_i hne
    obtain ⟨h1, h2⟩ := List.mem_filter.1 h
    obtain ⟨h3, h4⟩ := List.mem_filter.1 h1
    rw [memBeq_append] at h4
    simp only [Bool.not_eq_eq_eq_not, Bool.not_true, Bool.or_eq_false_iff] at h4 h2
    exact ⟨h3, h2, h4.1, h4.2, by simpa using hne⟩

theorem irrelevantNominal_top (anyT τ : Ty) (types sups subs : List Ty)
    (ht : beq τ anyT = true) : irrelevantNominal anyT τ types sups subs = [] := by
  simp [irrelevantNominal, ht]

/-- … and the code's own subtype test relates it to the query in neither direction: it is not
    accepted as a subtype (else the subtype search, whose answer is `subs`, would have found
    it), and it is not `==` to an element of the query's supertype closure (`sups`) -/
theorem irrelevantNominal_unrelated (anyT τ : Ty) (types sups subs : List Ty)
    (relSub relSup : Option Ty) (t : Ty) (hreg : beq t t = true) (hne : beq τ t = false)
    (hsubs : findTypes τ types true true none relSub = .ok subs)
    (hsups : findTypes τ types false true none relSup = .ok sups)
    (h : t ∈ irrelevantNominal anyT τ types sups subs) :
    isSubtype t τ ≠ .yes ∧ ∀ u ∈ closure τ, beq u u = true → beq u t = false := by
  obtain ⟨ht, _, hsup, hsub, _⟩ := irrelevantNominal_sound anyT τ types sups subs t h
  refine ⟨?_, ?_⟩
  · intro hy
    rw [findNominal_complete τ types subs none relSub true t ht hreg hne hy hsubs] at hsub
    cases hsub
  · intro u hu huu
    obtain ⟨s0, hs0, hf⟩ := findTypes_ok hsups
    rw [finish_nobound hf] at hsup
    simp only [startSet, Bool.false_eq_true, if_false, FR.ok.injEq] at hs0
    subst hs0
    by_cases hq : beq u t = true
    · exfalso
      have m0 : memBeq t (toSet (closure τ)) = true := memBeq_toSet hu hq
      have m1 : memBeq t (withRelated τ relSup (toSet (closure τ))) = true := memBeq_withRelated m0
      simp only [withSelf, if_true] at hsup
      rw [memBeq_mono_addTy m1] at hsup
      cases hsup
    · simpa using hq

/-- the exclusion step of the repaired code: a candidate is in `types`, not relevant, not the top
    type, and not a constructor whose every instantiation is a subtype of the query -/
theorem availRepaired_sound (anyT etype : Ty) (relevant : List Ty) :
    ∀ (types l : List Ty), availRepaired anyT etype relevant types = .ok l →
      ∀ t ∈ l, t ∈ types ∧ memBeq t relevant = false ∧ beq t anyT = false ∧
        (t.isTCon = true → isSubtype t etype = .no) := by
  intro types
  induction types with
  | nil =>
    intro l h t ht
    simp only [availRepaired, FR.ok.injEq] at h
    subst h; cases ht
  | cons x xs ih =>
    intro l h t ht
    unfold availRepaired at h
    split at h
    · obtain ⟨h1, h2⟩ := ih l h t ht
      exact ⟨List.mem_cons_of_mem _ h1, h2⟩
    · rename_i hx
      simp only [Bool.or_eq_true, not_or, Bool.not_eq_true] at hx
      split at h
      · rename_i hc
        split at h
        · obtain ⟨h1, h2⟩ := ih l h t ht
          exact ⟨List.mem_cons_of_mem _ h1, h2⟩
        · rename_i hn
          split at h
          · rename_i r hr
            simp only [FR.ok.injEq] at h
            subst h
            rcases List.mem_cons.1 ht with rfl | ht
            · exact ⟨List.mem_cons_self, hx.1, hx.2, fun _ => hn⟩
            · obtain ⟨h1, h2⟩ := ih r hr t ht
              exact ⟨List.mem_cons_of_mem _ h1, h2⟩
          · rename_i hne
            exact absurd h (by intro h'; exact hne _ h')
        · cases h
        · cases h
        · cases h
      · rename_i hc
        split at h
        · rename_i r hr
          simp only [FR.ok.injEq] at h
          subst h
          rcases List.mem_cons.1 ht with rfl | ht
          · exact ⟨List.mem_cons_self, hx.1, hx.2, fun hc' => absurd hc' hc⟩
          · obtain ⟨h1, h2⟩ := ih r hr t ht
            exact ⟨List.mem_cons_of_mem _ h1, h2⟩
        · rename_i hne
          exact absurd h (by intro h'; exact hne _ h')

/-! ## 5. Examples and the witnessed findings -/

def anyT : Ty := builtin "<class 'src.ir.kotlin_types.AnyType'>" "Any" false false []
def stringT : Ty := builtin "<class 'src.ir.kotlin_types.StringType'>" "String" false false [anyT]
def tcCls : String := "<class 'src.ir.types.TypeConstructor'>"
def fooT : Ty := simple "Foo" [anyT]
def bazT : Ty := simple "Baz" [anyT]
def subFooT : Ty := simple "SubFoo" [fooT]
/-- `class Bar<T> : Foo` -/
def barC : Ty := tcon tcCls "Bar" [tparam "T" 0 none] [fooT]
/-- `class Prod<out T>` -/
def prodC : Ty := tcon tcCls "Prod" [tparam "T" 1 none] [anyT]
def typesEx : List Ty := [fooT, subFooT, barC, bazT, stringT]

/-- the nominal search on a small table: `SubFoo` and the constructor `Bar` are found below `Foo` -/
example : (match findTypesNominal fooT typesEx true false none with
    | .ok l => l.map getName | _ => []) = ["SubFoo", "Bar"] := by decide
example : (match findTypesNominal subFooT typesEx false true none with
    | .ok l => l.map getName | _ => []) = ["SubFoo", "Foo", "Any"] := by decide
/-- the hypotheses of `findNominal_sound` hold of the table -/
example : wf fooT = true ∧ (∀ c ∈ typesEx, wf c = true) ∧ reg fooT = true := by decide
/-- accepted answers -/
example : subtypesOK [] true true true none fooT [fooT, subFooT, tconNew barC [stringT]] = true := by decide
example : irrelevantOK [] anyT fooT (some bazT) = true := by decide
example : irrelevantOK [] anyT anyT none = true := by decide
/-- rejected: a bare constructor with `concrete_only`, the query without `include_self`,
    an answer for the top type -/
example : subtypesOK [] true false true none fooT [barC] = false := by decide
example : subtypesOK [] true false false none fooT [fooT, subFooT] = false := by decide
example : irrelevantOK [] anyT anyT (some bazT) = false := by decide
/-- the exclusion step: `Baz` and `String` pass; for the unchanged code so does the constructor
    `Bar` (finding below), for the repaired code it does not -/
example : (availTypes typesEx [fooT, anyT, subFooT, tconNew barC [stringT]]).map getName =
    ["Bar", "Baz", "String"] := by decide
example : (match availTypesV .repaired anyT fooT typesEx [fooT, anyT, subFooT, tconNew barC [stringT]] with
    | .ok l => l.map getName | _ => []) = ["Baz", "String"] := by decide

/-- **finding (generic subclass).** With `class Bar<T> : Foo`, the answer `Bar<String>` that
    `find_irrelevant_type(Foo)` gives (replayed by the harness) is rejected by the checker … -/
theorem finding_generic_subclass :
    irrelevantOK [] anyT fooT (some (tconNew barC [stringT])) = false := by decide

/-- … and is a declarative subtype of `Foo` (in every universe) -/
theorem finding_generic_subclass_subT (U : Ty → Prop) : SubT U (tconNew barC [stringT]) fooT :=
  SubT.nominal (by rw [show (tconNew barC [stringT]).sups = [fooT] from by rfl]; exact List.mem_singleton.2 rfl)

/-- **finding (same constructor).** For `Prod<Any>` with `class Prod<out T>` the answer
    `Prod<Foo>` is rejected by the checker … -/
theorem finding_same_constructor :
    irrelevantOK [] anyT (tconNew prodC [anyT]) (some (tconNew prodC [fooT])) = false := by decide

/-- … and is a declarative subtype of `Prod<Any>`: covariant argument `Foo ≤ Any` -/
theorem finding_same_constructor_subT (U : Ty → Prop) :
    SubT U (tconNew prodC [fooT]) (tconNew prodC [anyT]) :=
  SubT.args (by decide)
    (ContL.cons (Cont.declCo (by decide) (by decide) (by decide) (SubT.nominal (by rw [show fooT.sups = [anyT] from rfl]; exact List.mem_singleton.2 rfl)))
      (ContL.stop (Or.inl rfl)))

/-- **finding (top type).** `Any` as an answer for a class without declared superclass is
    rejected: it is above everything -/
theorem finding_top_type : irrelevantOK [] anyT (simple "Lone" []) (some anyT) = false := by decide

/-- the rejections are genuine (`irrelevantOK_reject_sound`, full universe) -/
example : (tconNew barC [stringT]).isTCon = true ∨
    Asg (fun _ => True) (tconNew barC [stringT]) (irrTarget anyT fooT) ∨
    Asg (fun _ => True) (irrTarget anyT fooT) (tconNew barC [stringT]) :=
  irrelevantOK_reject_sound (fun _ => True) (fun _ _ _ _ => trivial) (fun _ _ _ _ _ _ _ _ _ => trivial) []
    (fun _ h => nomatch h) anyT fooT _ trivial trivial (by decide) finding_generic_subclass

/-! ## 6. The unbounded case of `_construct_related_types` -/

/-- one position of a related instantiation: the new argument `b` is the old one `a`, or — when
    the declared variance of the parameter is covariant (contravariant) — a declarative subtype
    (supertype) of it, or a subtype (supertype) of the bound of a use-site `out` (`in`)
    projection `a` -/
inductive RelArg (U : Ty → Prop) : Ty → Ty → Ty → Prop
  | same {tp b a} : beq b a = true → RelArg U tp b a
  | co {tp b a} : variance tp = 1 → isWild b = false → isWild a = false → SubT U b a → RelArg U tp b a
  | contra {tp b a} : variance tp = 2 → isWild b = false → isWild a = false → SubT U a b → RelArg U tp b a
  | useOut {tp b bd} : isWild b = false → SubT U b bd → RelArg U tp b (wild 1 (some bd))
  | useIn {tp b bd} : isWild b = false → SubT U bd b → RelArg U tp b (wild 2 (some bd))
  | outOut {tp bd bd'} : SubT U bd bd' → RelArg U tp (wild 1 (some bd)) (wild 1 (some bd'))

/-- position-wise along the parameters -/
inductive RelArgs (U : Ty → Prop) : List Ty → List Ty → List Ty → Prop
  | nil : RelArgs U [] [] []
  | cons {tp tps b bs a as} : RelArg U tp b a → RelArgs U tps bs as →
      RelArgs U (tp :: tps) (b :: bs) (a :: as)

theorem RelArg.cont {U : Ty → Prop} {tp b a : Ty} (h : RelArg U tp b a) : Cont U tp b a := by
  cases h with
  | same h => exact Cont.same h
  | co h1 h2 h3 h4 => exact Cont.declCo h1 h2 h3 h4
  | contra h1 h2 h3 h4 => exact Cont.declContra h1 h2 h3 h4
  | useOut h1 h2 => exact Cont.useOut h1 h2
  | useIn h1 h2 => exact Cont.useIn h1 h2
  | outOut h => exact Cont.outOut h

theorem RelArgs.contL {U : Ty → Prop} {tps bs as : List Ty} (h : RelArgs U tps bs as) :
    ContL U tps bs as := by
  induction h with
  | nil => exact ContL.stop (Or.inl rfl)
  | cons h _ ih => exact ContL.cons h.cont ih

/-- **the subtype direction of `_construct_related_types` for a class without bounds** (the
    search chooses every argument by the declared variance of its position, or inside a
    use-site projection): whatever vector is chosen position-wise in this way, the
    instantiation is a declarative subtype of the query.  Bounded parameters (where the code
    re-derives arguments by unification) are not covered: `find_types:…/bound-mentions-parameter`
    is a recorded violation there. -/
theorem relatedUnbounded_partial (U : Ty → Prop) (nm nm' : String) (con : Ty) (as bs ss ss' : List Ty)
    (hcon : beq con con = true) (h : RelArgs U (conParams con) bs as) :
    SubT U (param nm' con bs ss') (param nm con as ss) :=
  SubT.args hcon h.contL

/-- `Prod<Foo>` is related to `Prod<Any>` in this sense (`Prod<out T>`) -/
example (U : Ty → Prop) : RelArgs U (conParams prodC) [fooT] [anyT] :=
  RelArgs.cons (RelArg.co (by decide) (by decide) (by decide)
    (SubT.nominal (by rw [show fooT.sups = [anyT] from rfl]; exact List.mem_singleton.2 rfl))) RelArgs.nil

/-! ## 7. The candidate arguments of a related instantiation; the irrelevant instantiation -/

/-- what the answer `ans` of a nested search `_find_types(e, get_subtypes = d, include_self)`
    promises: every element is `e` itself, or a proper type on the requested side of `e` -/
def AnsOK (U : Ty → Prop) (e : Ty) (d : Bool) (ans : List Ty) : Prop :=
  ∀ r ∈ ans, beq r e = true ∨
    (isWild r = false ∧ isWild e = false ∧ (if d then SubT U r e else SubT U e r))

theorem candDirProj_some {base bd : Ty} {d : Bool}
    (h : candDirProj base true false = some (bd, d)) :
    (base = wild 1 (some bd) ∧ d = true) ∨ (base = wild 2 (some bd) ∧ d = false) := by
  unfold candDirProj at h
  simp only [Bool.false_eq_true, if_false] at h
  split at h
  · simp only [Option.some.injEq, Prod.mk.injEq] at h
    obtain ⟨rfl, rfl⟩ := h
    exact Or.inl ⟨rfl, rfl⟩
  · simp only [Bool.not_true, Option.some.injEq, Prod.mk.injEq] at h
    obtain ⟨rfl, rfl⟩ := h
    exact Or.inr ⟨rfl, rfl⟩
  · cases h

/-- **`_find_candidate_type_args`, subtype direction.**  If the nested searches keep their
    promise (`AnsOK`: each returns the queried type or proper types on the requested side), every
    candidate argument the function offers for a position is *contained* in the query's argument
    at that position (`Cont`: equal; below / above it for a covariant / contravariant parameter;
    inside the use-site projection) — so whichever candidate `random.choice` draws, the position
    is sound for a subtype of the query.  The direction flags of the model (`candDirSelf`,
    `candDirProj`) are what the harness compares with the recorded nested calls. -/
theorem candidateArgs_sound (U : Ty → Prop) (tp base : Ty) (selfAns projAns : List Ty)
    (hv : variance tp ≤ 2) (hreg : beq base base = true)
    (hself : ∀ d, candDirSelf (variance tp) true false = some d → AnsOK U base d selfAns)
    (hproj : ∀ bd d, candDirProj base true false = some (bd, d) →
      ∀ r ∈ projAns, isWild r = false ∧ (if d then SubT U r bd else SubT U bd r)) :
    ∀ b ∈ candidateArgs (variance tp) base true false selfAns projAns, Cont U tp b base := by
  have hT : ∀ b ∈ (match candDirSelf (variance tp) true false with
      | some _ => selfAns | none => [base]), Cont U tp b base := by
    intro b hb
    cases hd : candDirSelf (variance tp) true false with
    | none =>
      rw [hd] at hb
      simp only [List.mem_singleton] at hb
      subst hb
      exact Cont.same hreg
    | some d =>
      rw [hd] at hb
      rcases hself d hd b hb with h | ⟨h1, h2, h3⟩
      · exact Cont.same h
      · have hv3 : variance tp = 0 ∨ variance tp = 1 ∨ variance tp = 2 := by omega
        rcases hv3 with h0 | h0 | h0
        · simp [candDirSelf, h0] at hd
        · simp [candDirSelf, h0] at hd
          subst hd
          exact Cont.declCo h0 h1 h2 (by simpa using h3)
        · simp [candDirSelf, h0] at hd
          subst hd
          exact Cont.declContra h0 h1 h2 (by simpa using h3)
  intro b hb
  unfold candidateArgs at hb
  simp only at hb
  cases hp : candDirProj base true false with
  | none =>
    rw [hp] at hb
    exact hT b hb
  | some c =>
    obtain ⟨bd, d⟩ := c
    rw [hp] at hb
    have hpr := hproj bd d hp
    rcases candDirProj_some hp with ⟨rfl, rfl⟩ | ⟨rfl, rfl⟩
    · simp only [List.mem_append, List.mem_map] at hb
      rcases hb with hb | hb | ⟨r, hr, rfl⟩
      · exact hT b hb
      · obtain ⟨h1, h2⟩ := hpr b hb
        exact Cont.useOut h1 (by simpa using h2)
      · obtain ⟨_, h2⟩ := hpr r hr
        exact Cont.outOut (by simpa using h2)
    · simp only [List.mem_append] at hb
      rcases hb with hb | hb
      · exact hT b hb
      · obtain ⟨h1, h2⟩ := hpr b hb
        exact Cont.useIn h1 (by simpa using h2)

def barT : Ty := simple "Bar" [fooT]
/-- `class Sink<in T>` queried as `Sink<in Bar>`: the searches go UP from `Bar` (both the one for
    the argument — which for a projection returns the projection itself — and the one for its
    bound); the candidates are `in Bar`, `Bar`, `Foo`, `Any` -/
example : (candidateCalls 2 (wild 2 (some barT)) true false).map (fun c => (getName c.1, c.2)) =
    [("*", false), ("Bar", false)] := by decide
example : (candidateArgs 2 (wild 2 (some barT)) true false [wild 2 (some barT)] [barT, fooT, anyT]).map getName
    = ["*", "Bar", "Foo", "Any"] := by decide
/-- the hypotheses of `candidateArgs_sound` are met by that instance -/
example (U : Ty → Prop) : AnsOK U (wild 2 (some barT)) false [wild 2 (some barT)] ∧
    ∀ r ∈ [barT, fooT], isWild r = false ∧ SubT U barT r := by
  refine ⟨fun r hr => Or.inl (by rw [List.mem_singleton.1 hr]; decide), fun r hr => ?_⟩
  rcases List.mem_cons.1 hr with rfl | hr
  · exact ⟨rfl, SubT.refl (by decide)⟩
  · rw [List.mem_singleton.1 hr]
    exact ⟨rfl, SubT.nominal (by rw [show barT.sups = [fooT] from rfl]; exact List.mem_singleton.2 rfl)⟩

theorem beq_param_args_false {n nm : String} {con c : Ty} {as bs sp ss : List Ty}
    (h : beqL as bs = false) : beq (param n con as sp) (param nm c bs ss) = false := by
  cases con <;> cases c <;> simp [beq, h]

/-- **`get_irrelevant_parameterized_type` never returns the instantiation it started from**: an
    answer is an instantiation of the constructor whose argument list differs (by the IR's `==`)
    from the relevant one, hence is not `==` to any instantiation carrying the relevant arguments
    — in particular not to the query itself when the constructor is the query's. -/
theorem irrelevantParam_neq (con : Ty) (typeArgs : List Ty) (choices : List (Option Ty)) (r : Ty)
    (h : irrelevantParam con typeArgs choices = some r) :
    ∃ new, r = tconNew con new ∧ beqL new typeArgs = false ∧
      ∀ nm c ss, beq r (param nm c typeArgs ss) = false := by
  unfold irrelevantParam at h
  simp only at h
  split at h
  · cases h
  · rename_i hne
    simp only [Option.some.injEq] at h
    subst h
    have hne' : beqL (irrNewArgs typeArgs choices) typeArgs = false := by simpa using hne
    refine ⟨_, rfl, hne', ?_⟩
    intro nm c ss
    exact beq_param_args_false hne'

/-- … and it answers nothing when every drawn replacement reproduces the old argument
    (`Box<Box<Foo>>`: the nested constructor re-instantiated to `Box<Foo>`) -/
def boxC : Ty := tcon tcCls "Box" [tparam "T" 0 none] [anyT]
example : irrelevantParam boxC [tconNew boxC [fooT]] [some (tconNew boxC [fooT])] = none := by decide
example : (irrelevantParam boxC [tconNew boxC [fooT]] [some fooT]).map getName = some "Box<Foo>" := by decide

end Heph.Props.C09
