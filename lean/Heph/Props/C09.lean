import Heph.Model.Find
import Heph.Spec.Assignable
import Heph.Proofs.Find
import Heph.Proofs.FindBeq
/-!
# C09 — subtype search and irrelevant-type search return only what they promise (*partial*)

Model: `Heph.Find.findTypes` (`_find_types` of `src/ir/type_utils.py`, with the randomised
`_construct_related_types` as an input), `findTypesNominal` (without it), `availTypes` /
`irrelevantNominal` (the exclusion step of `find_irrelevant_type`), and the result checkers
`subtypesOK` / `irrelevantOK` the harness applies to every answer of the real functions.
Specification: `SubT U` (C06) and its extension `Asg U` (`Spec/Assignable.lean`: top type, boxes,
star projections) — the declarative relation; decider `Ty.isSubD`, sound for `Asg U`.

* `findNominal_sound`, `findSuperNominal_sound`: what the search finds in the class hierarchy is
  a declarative subtype (supertype) of the query, is not `==` the query when `include_self` is off,
  and (supertype direction) is below the requested bound.
* `findNominal_complete`: every element of `types` the subtype test accepts is represented.
* `include_self_iff`: the query is in the result exactly when asked for.
* `concretize_no_tcon`: with `concrete_only` no bare constructor is returned.
* `subtypesOK_sound`: an answer the checker accepts satisfies the property in `Asg U`.
* `irrelevant_top_none`; `irrelevantOK_reject_sound`: every answer the checker *rejects*
  violates the property in `Asg U` (no false alarms); `irrelevantOK_sound` (full statement,
  a `def`): acceptance ⇒ unrelated in `Asg U` needs completeness of the decider and is proved
  only as `irrelevantOK_sound_partial` (the decider finds no relation, the answer is usable).
* `irrelevantNominal_sound`, `irrelevantNominal_unrelated`: a non-generic candidate the
  exclusion step lets through is in none of the two lists, and the code's own subtype test
  does not relate it to the query.
* `finding_generic_subclass`, `finding_same_constructor`: the two witnessed answers of
  `find_irrelevant_type` (replayed on the real code by the harness) are rejected by the checker,
  hence genuine violations.
-/
namespace Heph.Props.C09
open Heph Heph.Ty Heph.Find

/-! ## 1. The nominal search -/

theorem isSubtype_subT (U : Ty → Prop) (hU : ClosedU U) (s t : Ty) (us : U s) (ut : U t)
    (hs : wf s = true) (ht : wf t = true) (h : isSubtype s t = .yes) : SubT U s t :=
  (sound_all hU _).1 s t us ut hs ht h

/-- **subtype direction.** Every type `find_subtypes(τ, types)` finds in the class hierarchy is
    an element of `types`, a declarative subtype of `τ`, and not `==` to `τ`. -/
theorem findNominal_sound (U : Ty → Prop) (hU : ClosedU U) (τ : Ty) (types l : List Ty)
    (bound : Option Ty) (uτ : U τ) (ut : ∀ c ∈ types, U c) (wτ : wf τ = true)
    (wt : ∀ c ∈ types, wf c = true)
    (h : findTypesNominal τ types true false bound = .ok l) :
    ∀ r ∈ l, r ∈ types ∧ SubT U r τ ∧ beq r τ = false := by
  intro r hr
  obtain ⟨s0, hs0, hf⟩ := findTypes_ok h
  rw [finish_sub hf] at hr
  simp only [withSelf, withRelated, Bool.false_eq_true, if_false] at hr
  obtain ⟨hr0, hne⟩ := mem_discardTy hr
  simp only [startSet, if_true] at hs0
  rcases subLoop_sound τ types [] s0 hs0 r hr0 with h' | ⟨h1, _, h3⟩
  · cases h'
  · exact ⟨h1, isSubtype_subT U hU r τ (ut r h1) uτ (wt r h1) wτ h3, hne⟩

/-- the same with `include_self`: a found type is the query or a declarative subtype of it -/
theorem findNominal_sound_self (U : Ty → Prop) (hU : ClosedU U) (τ : Ty) (types l : List Ty)
    (bound : Option Ty) (uτ : U τ) (ut : ∀ c ∈ types, U c) (wτ : wf τ = true)
    (wt : ∀ c ∈ types, wf c = true)
    (h : findTypesNominal τ types true true bound = .ok l) :
    ∀ r ∈ l, r = τ ∨ (r ∈ types ∧ SubT U r τ) := by
  intro r hr
  obtain ⟨s0, hs0, hf⟩ := findTypes_ok h
  rw [finish_sub hf] at hr
  simp only [withSelf, withRelated, if_true] at hr
  simp only [startSet, if_true] at hs0
  rcases mem_addTy hr with hr0 | rfl
  · rcases subLoop_sound τ types [] s0 hs0 r hr0 with h' | ⟨h1, _, h3⟩
    · cases h'
    · exact Or.inr ⟨h1, isSubtype_subT U hU r τ (ut r h1) uτ (wt r h1) wτ h3⟩
  · exact Or.inl rfl

/-- … and the loop misses nothing: an element of `types` that is not `==` the query and that
    `is_subtype` accepts is represented in the answer (whatever `include_self`, the bound and
    the related instantiation are) -/
theorem findNominal_complete (τ : Ty) (types l : List Ty) (bound related : Option Ty)
    (includeSelf : Bool) (c : Ty) (hc : c ∈ types) (hcc : beq c c = true)
    (hne : beq τ c = false) (hy : isSubtype c τ = .yes)
    (h : findTypes τ types true includeSelf bound related = .ok l) : memBeq c l = true := by
  obtain ⟨s0, hs0, hf⟩ := findTypes_ok h
  rw [finish_sub hf]
  simp only [startSet, if_true] at hs0
  have m0 := subLoop_complete τ types [] s0 hs0 c hc hcc hne hy
  have m1 : memBeq c (withRelated τ related s0) = true := memBeq_withRelated m0
  unfold withSelf
  split
  · exact memBeq_mono_addTy m1
  · obtain ⟨e, he, hb⟩ := memBeq_iff.1 m1
    refine memBeq_iff.2 ⟨e, ?_, hb⟩
    unfold discardTy
    refine List.mem_filter.2 ⟨he, ?_⟩
    by_cases hq : beq e τ = true
    · have h2 := tyBeq_trans τ e c (tyBeq_symm e τ hq) hb
      rw [hne] at h2
      cases h2
    · simpa using hq

/-- **supertype direction.** Every type `find_supertypes(τ, types, bound=b)` finds in the class
    hierarchy is a declarative supertype of `τ`, not `==` to `τ`, and below the bound. -/
theorem findSuperNominal_sound (U : Ty → Prop) (hU : ClosedU U) (τ : Ty) (types l : List Ty)
    (bound : Option Ty) (uτ : U τ) (wτ : wf τ = true) (hreg : reg τ = true)
    (h : findTypesNominal τ types false false bound = .ok l) :
    ∀ r ∈ l, SubT U τ r ∧ beq r τ = false ∧
      ∀ b, bound = some b → U b → wf b = true → SubT U r b := by
  intro r hr
  obtain ⟨s0, hs0, hf⟩ := findTypes_ok h
  simp only [startSet, Bool.false_eq_true, if_false, FR.ok.injEq] at hs0
  subst hs0
  have hr2 := finish_mem hf r hr
  simp only [withSelf, withRelated, Bool.false_eq_true, if_false] at hr2
  obtain ⟨hr0, hne⟩ := mem_discardTy hr2
  have hcl := mem_toSet hr0
  refine ⟨?_, hne, ?_⟩
  · rcases closure_sub hU τ r uτ hcl with rfl | hs
    · rw [beq_refl _ hreg] at hne; cases hne
    · exact hs
  · intro b hb ub wb
    subst hb
    have := (boundFilter_sound b _ _ (finish_bound hf) r hr).2
    exact isSubtype_subT U hU r b (closedU_closure hU τ r uτ hcl) ub (wf_closure τ r wτ hcl) wb this

/-! ## 2. `include_self`, `concrete_only` -/

/-- **the query itself is in the answer exactly when asked for** (subtype search; supertype
    search without a greatest bound — a bound that the query itself exceeds removes it) -/
theorem include_self_iff (τ : Ty) (types l : List Ty) (bound related : Option Ty)
    (getSub includeSelf : Bool) (hreg : reg τ = true) (hb : getSub = true ∨ bound = none)
    (h : findTypes τ types getSub includeSelf bound related = .ok l) :
    memBeq τ l = includeSelf := by
  obtain ⟨s0, _, hf⟩ := findTypes_ok h
  have hl : l = withSelf includeSelf τ (withRelated τ related s0) := by
    rcases hb with rfl | rfl
    · exact finish_sub hf
    · exact finish_nobound hf
  subst hl
  cases includeSelf
  · simp only [withSelf, Bool.false_eq_true, if_false]
    exact memBeq_discardTy
  · simp only [withSelf, if_true]
    exact memBeq_addTy_self (beq_refl _ hreg)

/-- with `concrete_only`, no bare constructor is returned as long as `to_type`'s instantiation
    never is one -/
theorem concretize_no_tcon (inst : Ty → Ty) (hinst : ∀ t, (inst t).isTCon = false) (l : List Ty) :
    ∀ r ∈ concretize inst l, r.isTCon = false := by
  intro r hr
  obtain ⟨t, _, rfl⟩ := List.mem_map.1 hr
  split
  · exact hinst t
  · rename_i h; simpa using h

/-! ## 3. The result checkers -/

/-- **an accepted answer of the subtype / supertype search satisfies the property**: every
    returned type is on the right side of the query in the declarative relation `Asg U`, none
    is a bare constructor when concrete types were requested, and the query is among the
    results exactly when asked for -/
theorem subtypesOK_sound (U : Ty → Prop) (hU : ClosedU U) (hBd : BoundsU U) (B : List Ty)
    (hB : ∀ b ∈ B, U b) (getSub includeSelf concreteOnly : Bool) (bound : Option Ty) (τ : Ty)
    (rs : List Ty) (uτ : U τ) (ur : ∀ r ∈ rs, U r)
    (h : subtypesOK B getSub includeSelf concreteOnly bound τ rs = true) :
    (∀ r ∈ rs, (if getSub then Asg U r τ else Asg U τ r) ∧
      (concreteOnly = true → r.isTCon = false)) ∧
    (selfDemanded B getSub concreteOnly bound τ = true → memBeq τ rs = includeSelf) := by
  unfold subtypesOK at h
  simp only [Bool.and_eq_true, List.all_eq_true] at h
  obtain ⟨hall, hself⟩ := h
  refine ⟨?_, ?_⟩
  · intro r hr
    have := hall r hr
    unfold resultOK at this
    simp only [Bool.and_eq_true] at this
    obtain ⟨h1, h2⟩ := this
    refine ⟨?_, ?_⟩
    · cases getSub
      · simp only [Bool.false_eq_true, if_false] at h1 ⊢
        exact isSubD_sound' hU hBd B hB _ τ r uτ (ur r hr) h1
      · simp only [if_true] at h1 ⊢
        exact isSubD_sound' hU hBd B hB _ r τ (ur r hr) uτ h1
    · intro hc
      subst hc
      simpa using h2
  · intro hd
    rw [hd] at hself
    simpa using hself

/-- the irrelevant-type search returns nothing for the top type -/
theorem irrelevant_top_none (B : List Ty) (anyT τ : Ty) (r : Option Ty)
    (ht : beq τ anyT = true) (h : irrelevantOK B anyT τ r = true) : r = none := by
  unfold irrelevantOK at h
  rw [if_pos ht] at h
  cases r <;> simp at h ⊢

/-- **no false alarms**: an answer the checker rejects violates the property — it is a bare
    constructor, or it is related to the target in the declarative relation `Asg U` -/
theorem irrelevantOK_reject_sound (U : Ty → Prop) (hU : ClosedU U) (hBd : BoundsU U)
    (B : List Ty) (hB : ∀ b ∈ B, U b) (anyT τ x : Ty) (ux : U x) (ut : U (irrTarget anyT τ))
    (hne : beq τ anyT = false) (h : irrelevantOK B anyT τ (some x) = false) :
    x.isTCon = true ∨ Asg U x (irrTarget anyT τ) ∨ Asg U (irrTarget anyT τ) x := by
  unfold irrelevantOK at h
  rw [if_neg (by simp [hne])] at h
  simp only [Bool.and_eq_false_iff, Bool.not_eq_eq_eq_not] at h
  rcases h with (h | h) | h
  · exact Or.inl h
  · exact Or.inr (Or.inl (isSubD_sound' hU hBd B hB _ _ _ ux ut h))
  · exact Or.inr (Or.inr (isSubD_sound' hU hBd B hB _ _ _ ut ux h))

/-- the full statement for accepted answers: unrelated in the declarative relation.  It needs
    completeness of the decider `isSubD` for `Asg U`, which is not proved (and does not hold in
    general: `Asg` has a transitivity rule through arbitrary types of the universe). -/
def irrelevantOK_sound : Prop :=
  ∀ (U : Ty → Prop) (B : List Ty) (anyT τ x : Ty), ClosedU U → BoundsU U → (∀ b ∈ B, U b) →
    U x → U (irrTarget anyT τ) → beq τ anyT = false →
    irrelevantOK B anyT τ (some x) = true →
    ¬ Asg U x (irrTarget anyT τ) ∧ ¬ Asg U (irrTarget anyT τ) x

/-- the proved part: an accepted answer is a usable type that the decider relates to the
    target in neither direction -/
theorem irrelevantOK_sound_partial (B : List Ty) (anyT τ x : Ty) (hne : beq τ anyT = false)
    (h : irrelevantOK B anyT τ (some x) = true) :
    x.isTCon = false ∧ subJ B x (irrTarget anyT τ) = false ∧
      subJ B (irrTarget anyT τ) x = false := by
  unfold irrelevantOK at h
  rw [if_neg (by simp [hne])] at h
  simp only [Bool.and_eq_true, Bool.not_eq_eq_eq_not, Bool.not_true] at h
  exact ⟨h.1.1, h.1.2, h.2⟩

/-! ## 4. The exclusion step of `find_irrelevant_type` -/

/-- a candidate the exclusion step lets through is an element of `types`, not a constructor,
    and in neither of the two lists of relevant types; there is none for the top type -/
theorem irrelevantNominal_sound (anyT τ : Ty) (types sups subs : List Ty) (t : Ty)
    (h : t ∈ irrelevantNominal anyT τ types sups subs) :
    t ∈ types ∧ t.isTCon = false ∧ memBeq t sups = false ∧ memBeq t subs = false ∧
      beq τ anyT = false := by
  unfold irrelevantNominal at h
  split at h
  · cases h
  · rename_i hne
    obtain ⟨h1, h2⟩ := List.mem_filter.1 h
    obtain ⟨h3, h4⟩ := List.mem_filter.1 h1
    rw [memBeq_append] at h4
    simp only [Bool.not_eq_eq_eq_not, Bool.not_true, Bool.or_eq_false_iff] at h4 h2
    exact ⟨h3, h2, h4.1, h4.2, by simpa using hne⟩

theorem irrelevantNominal_top (anyT τ : Ty) (types sups subs : List Ty)
    (ht : beq τ anyT = true) : irrelevantNominal anyT τ types sups subs = [] := by
  simp [irrelevantNominal, ht]

/-- … and the code's own subtype test relates it to the query in neither direction: it is not
    accepted as a subtype (else the subtype search, whose answer is `subs`, would have found
    it), and it is not `==` to an element of the query's supertype closure (`sups`) -/
theorem irrelevantNominal_unrelated (anyT τ : Ty) (types sups subs : List Ty)
    (relSub relSup : Option Ty) (t : Ty) (hreg : beq t t = true) (hne : beq τ t = false)
    (hsubs : findTypes τ types true true none relSub = .ok subs)
    (hsups : findTypes τ types false true none relSup = .ok sups)
    (h : t ∈ irrelevantNominal anyT τ types sups subs) :
    isSubtype t τ ≠ .yes ∧ ∀ u ∈ closure τ, beq u u = true → beq u t = false := by
  obtain ⟨ht, _, hsup, hsub, _⟩ := irrelevantNominal_sound anyT τ types sups subs t h
  refine ⟨?_, ?_⟩
  · intro hy
    rw [findNominal_complete τ types subs none relSub true t ht hreg hne hy hsubs] at hsub
    cases hsub
  · intro u hu huu
    obtain ⟨s0, hs0, hf⟩ := findTypes_ok hsups
    rw [finish_nobound hf] at hsup
    simp only [startSet, Bool.false_eq_true, if_false, FR.ok.injEq] at hs0
    subst hs0
    by_cases hq : beq u t = true
    · exfalso
      have m0 : memBeq t (toSet (closure τ)) = true := memBeq_toSet hu hq
      have m1 : memBeq t (withRelated τ relSup (toSet (closure τ))) = true := memBeq_withRelated m0
      simp only [withSelf, if_true] at hsup
      rw [memBeq_mono_addTy m1] at hsup
      cases hsup
    · simpa using hq

end Heph.Props.C09
