import Heph.Proofs.OracleSession
/-!
# C15 — the driver reports a fault exactly on an oracle mismatch and counts correctly

Model: `Heph/Model/Oracle.lean` (`check_oracle`, `update_stats`, `save_stats`, `get_batches`,
`stop_condition`, `_run` of `hephaestus.py`); decision table: `Heph/Spec/Oracle.lean`.

Sections 1–4 are about `checkOracle`, the code **after** `fixes/C15-both-mismatches.diff` and
`fixes/C15-crash-reports-all.diff` (`Variant.repaired`); wherever a statement does not depend
on the repairs it is proved for every variant `v`.  Section 5 is about the unchanged tree
(`checkOracleAsIs`): the two rows of the decision table it violates as `…_counterexample`
theorems (the harness replays the same two batches on the real code), and what does hold.
-/
namespace Heph.Props.C15
open Heph.Oracle

/-! ## 1. a program is reported iff it is faulty -/

/-- **report_iff.** On every batch as `_run` hands it over (`Staged`: any size, any pids, any
combination of expectation × verdict × tool failure × crash) the repaired `check_oracle`
returns normally, reports only programs of the batch, and reports a program of the batch if
and only if the decision table calls it faulty. -/
theorem report_iff (b : Batch) (o : Outcome) (fs : FS) (hs : Staged b fs) :
    ∃ out fs', checkOracle b o fs = .ok (out, fs') ∧
      (∀ p ∈ b.progs, (p.pid ∈ keys out ↔ faulty o p = true)) ∧
      (∀ k ∈ keys out, ∃ p ∈ b.progs, p.pid = k) := by
  obtain ⟨⟨out, fs'⟩, h⟩ := checkOracleV_total (v := .repaired) rfl (o := o) hs
  refine ⟨out, fs', h, fun p hp => ?_, fun k hk => ?_⟩
  · rw [(checkOracleV_ok h).1]
    constructor
    · rintro ⟨q, hq, hpid, hrow⟩
      rw [reportedRow_repaired _ rfl] at hrow
      rwa [← eq_of_pid_eq hs.nodup hq hp hpid]
    · intro hf
      exact ⟨p, hp, rfl, by rw [reportedRow_repaired _ rfl]; exact hf⟩
  · obtain ⟨p, hp, hpid, _⟩ := ((checkOracleV_ok h).1 k).1 hk
    exact ⟨p, hp, hpid⟩

/-- the same without any hypothesis on the directories or the pids: whenever the repaired
`check_oracle` returns, the reported pids are exactly the pids of faulty programs -/
theorem report_iff_of_return (b : Batch) (o : Outcome) (fs fs' : FS) (out : Reported)
    (h : checkOracle b o fs = .ok (out, fs')) :
    ∀ k, k ∈ keys out ↔ ∃ p ∈ b.progs, p.pid = k ∧ faulty o p = true := by
  intro k
  rw [(checkOracleV_ok h).1]
  simp only [reportedRow_repaired Variant.repaired rfl]

/-- the hypotheses of `report_iff` are satisfiable, with every row of the table present -/
def exBatch : Batch := ⟨7,
  [ ⟨1, false, [(10, true), (11, false)], some "A expected but B found", 2⟩,   -- conforming
    ⟨2, false, [(12, true), (13, false)], some "inj2", 1⟩,                      -- correct rejected
    ⟨3, false, [(14, true), (15, false)], some "inj3", 1⟩,                      -- incorrect accepted
    ⟨4, false, [(16, true), (17, false)], some "inj4", 1⟩,                      -- both
    ⟨5, true, [], some "tool: boom", 0⟩,                                         -- tool failed
    ⟨6, false, [(18, true)], none, 3⟩ ]⟩                                         -- no ill-typed variant
def exOutcome : Outcome :=
  ⟨[(11, ["3: error: x"]), (12, ["4: error: y", "9: error: z"]), (13, ["2: error: v"]), (16, ["1: error: w"])], none⟩
def exFS : FS := [.batch 7, .tmp 1, .tmp 2, .tmp 3, .tmp 4, .tmp 6]

example : Staged exBatch exFS := by
  constructor <;> decide

example : (exBatch.progs.map (faulty exOutcome)) = [false, true, true, true, true, false] := by decide

example : (checkOracle exBatch exOutcome exFS).toOption.map (fun r => keys r.1) = some [2, 3, 4, 5] := by
  decide

/-! ## 2. the message of a reported fault -/

/-- **message_spec.** Every reported fault of a staged batch carries the corresponding
message (`expectedMsg`): the tool's own error for a tool failure, the compiler's output for a
crash, the compiler's messages for a rejected well-typed program, `SHOULD NOT BE COMPILED: ` +
the injected error for an accepted ill-typed one, both (in this order, separated by a
newline) when both happen.  Programs have the shape `gen_program` produces. -/
theorem message_spec (b : Batch) (o : Outcome) (fs fs' : FS) (out : Reported) (hs : Staged b fs)
    (h : checkOracle b o fs = .ok (out, fs')) (p : Prog) (hp : p ∈ b.progs)
    (hshape : p.toolFailed = true ∨ GenShape p) (hf : faulty o p = true) :
    out.lookup p.pid = some (expectedMsg o p) := by
  unfold checkOracle checkOracleV at h
  split at h
  · rename_i msg hc
    split at h
    · cases h
    · rw [crashLoop_msg h hs.nodup p hp (by rfl)]
      unfold expectedMsg
      rw [hc]
  · rename_i hc
    split at h
    · cases h
    · rename_i st hl
      split at h
      · cases h
      · cases h
        exact progsLoop_msg (v := .repaired) rfl hc hl hs.nodup (fun q _ => by simp [keys]) p hp hshape
          (by rw [← faulty_noCrash hc]; exact hf)

/-- the prefix, spelled out: an accepted ill-typed program whose well-typed variant compiled -/
theorem message_prefix (o : Outcome) (p : Prog) (c i : Nat) (e : String)
    (ht : p.toolFailed = false) (hc : o.crash = none) (hfiles : p.files = [(c, true), (i, false)])
    (he : p.err = some e) (h1 : o.isFailed c = false) (h2 : o.isFailed i = false) :
    expectedMsg o p = some ("SHOULD NOT BE COMPILED: " ++ e) := by
  simp [expectedMsg, ht, hc, hfiles, he, h1, h2, snbc]

/-- … and the compiler's messages for a rejected well-typed program -/
theorem message_rejected (o : Outcome) (p : Prog) (c i : Nat)
    (ht : p.toolFailed = false) (hc : o.crash = none) (hfiles : p.files = [(c, true), (i, false)])
    (h1 : o.isFailed c = true) (h2 : o.isFailed i = true) :
    expectedMsg o p = some ("\n".intercalate (o.msgs c)) := by
  simp [expectedMsg, ht, hc, hfiles, h1, h2, joinLines]

example : (checkOracle exBatch exOutcome exFS).toOption.map (fun r => r.1) =
    some [(2, some "4: error: y\n9: error: z"), (3, some "SHOULD NOT BE COMPILED: inj3"),
          (4, some "1: error: w\nSHOULD NOT BE COMPILED: inj4"), (5, some "tool: boom")] := by
  decide

/-! ## 3. saved test cases, nothing else left behind (any variant, on a normal return) -/

/-- **saved_iff_compiler_fault.** After `check_oracle` the directory `<pid>` of a program of
the batch exists iff the program is a fault of the compiler (faulty, and not a tool failure). -/
theorem saved_iff_compiler_fault (v : Variant) (b : Batch) (o : Outcome) (fs fs' : FS) (out : Reported)
    (hs : Staged b fs) (h : checkOracleV v b o fs = .ok (out, fs')) :
    ∀ p ∈ b.progs, (Path.saved p.pid ∈ fs' ↔ compilerFault o p = true) := by
  intro p hp
  rw [(checkOracleV_ok h).2.1]
  constructor
  · rintro (hm | ⟨q, hq, hpid, hcf⟩)
    · exact absurd hm (hs.fresh p hp)
    · rwa [← eq_of_pid_eq hs.nodup hq hp hpid]
  · intro hcf
    exact Or.inr ⟨p, hp, rfl, hcf⟩

/-- no other test-case directory appears or disappears -/
theorem saved_only_batch (v : Variant) (b : Batch) (o : Outcome) (fs fs' : FS) (out : Reported)
    (h : checkOracleV v b o fs = .ok (out, fs')) (k : Nat) (hk : ∀ p ∈ b.progs, p.pid ≠ k) :
    (Path.saved k ∈ fs' ↔ Path.saved k ∈ fs) := by
  rw [(checkOracleV_ok h).2.1]
  constructor
  · rintro (hm | ⟨q, hq, hpid, _⟩)
    · exact hm
    · exact absurd hpid (hk q hq)
  · exact Or.inl

/-- **no_leftovers** (one batch). After `check_oracle` the batch directory is gone, no staging
copy has appeared, and no staging copy of a non-faulty program of the batch remains. -/
theorem no_leftovers (v : Variant) (b : Batch) (o : Outcome) (fs fs' : FS) (out : Reported)
    (h : checkOracleV v b o fs = .ok (out, fs')) :
    Path.batch b.dir ∉ fs' ∧
    (∀ k, Path.tmp k ∈ fs' → Path.tmp k ∈ fs) ∧
    (∀ p ∈ b.progs, faulty o p = false → Path.tmp p.pid ∉ fs') := by
  obtain ⟨_, _, h3, h4⟩ := checkOracleV_ok h
  refine ⟨fun hm => ((h3 _).1 hm).2 rfl, fun k hk => ((h4 k).1 hk).1, fun p hp hf hm => ?_⟩
  have hc : o.crash = none := by
    cases hcr : o.crash with
    | none => rfl
    | some m => simp [faulty, hcr] at hf
  have ht : p.toolFailed = false := by
    cases htf : p.toolFailed with
    | false => rfl
    | true => simp [faulty, htf] at hf
  exact ((h4 _).1 hm).2 hc p hp ht rfl

/-- on the example batch: the three compiler faults are saved, everything else is gone
(the tool-failed program 5 had no staging copy) -/
example : (checkOracle exBatch exOutcome exFS).toOption.map (·.2) = some [.saved 2, .saved 3, .saved 4] := by
  decide

/-- **no_leftovers** (end of the session). When `run` / `run_parallel` ends normally every
program has been counted and nothing is left under `tmp/` (sequential or pool mode, any
batch size, any scripted generator and compiler, any variant). -/
theorem session_no_leftovers (v : Variant) (m : Mode) (batch : Nat) (sps : List SProg) (s : Stats) (fs : FS)
    (h : runSession v m batch sps = .done s fs) :
    s.passed + s.failed = sps.length ∧ ∀ q ∈ fs, isTmp q = false := runSession_done h

/-- **no_leftovers** (end of a sequential session, any variant): every directory that is left
is the saved test case `<pid>` of a program listed in the faults; no batch directory, no
staging copy, nothing of a program that was not reported. -/
theorem session_only_reported_leave_files (v : Variant) (batch : Nat) (sps : List SProg) (s : Stats) (fs : FS)
    (h : runSession v .sequential batch sps = .done s fs) :
    ∀ q ∈ fs, ∃ k, q = Path.saved k ∧ k ∈ keys s.faults := by
  intro q hq
  obtain ⟨k, rfl⟩ := runSession_seq_onlySaved h q hq
  exact ⟨k, rfl, runSession_seq_savedListed h k hq⟩

def exSession : List SProg :=
  [ ⟨⟨0, false, [(1, true), (2, false)], some "inj", 1⟩, true, [(2, ["1: error: e"])], false⟩,
    ⟨⟨0, false, [(3, true), (4, false)], some "inj", 1⟩, true, [], false⟩,
    ⟨⟨0, true, [], some "boom", 0⟩, true, [], false⟩,
    ⟨⟨0, false, [(5, true)], none, 2⟩, true, [], true⟩,
    ⟨⟨0, true, [], some "boom2", 0⟩, false, [], false⟩ ]

example : runSession .repaired .sequential 2 exSession =
    .done ⟨1, 4, 4, [(2, some "SHOULD NOT BE COMPILED: inj"), (3, some "boom"), (4, some crashText),
      (5, some "boom2")]⟩ [.saved 2, .saved 4] := by decide

/-! ## 4. counters and the faults file, after any number of batches -/

/-- **counters** (totals). After any history of batches, in sequential or pool mode, for any
variant and whatever the file system looked like: `passed + failed` is the number of programs
processed. -/
theorem counters_total (v : Variant) (m : Mode) (rs : List Round) (fs : FS) (s : Stats) (fs' : FS)
    (h : runHistory v m (Stats.init, fs) rs = .ok (s, fs')) :
    s.passed + s.failed = ((rs.map (·.batch.progs.length)).sum : Nat) := by
  have := runHistory_sum h
  simpa [Stats.init] using this

/-- **counters** (faults). After any history of batches (sequential mode, repaired code) the
keys of `STATS['faults']` are exactly the pids of the faulty programs of the history … -/
theorem counters_faults (rs : List Round) (fs : FS) (s : Stats) (fs' : FS)
    (h : runHistory .repaired .sequential (Stats.init, fs) rs = .ok (s, fs')) :
    ∀ k, k ∈ keys s.faults ↔ ∃ r ∈ rs, ∃ p ∈ r.batch.progs, p.pid = k ∧ faulty r.outcome p = true := by
  intro k
  rw [runHistory_keys h]
  simp [Stats.init, keys, reportedRow_repaired Variant.repaired rfl]

/-- … and `faults.json` lists exactly these keys (as decimal strings), `stats.json` the totals -/
theorem saved_files (s : Stats) :
    (saveStats s).faults.map (·.1) = (keys s.faults).map toString ∧
    (saveStats s).passed = s.passed ∧ (saveStats s).failed = s.failed := by
  simp [saveStats, keys]

/-- the loop forms batches that never overshoot the requested number of iterations -/
theorem getBatches_le (n batch programs : Nat) (k : Int)
    (h : getBatches ⟨none, some n, batch⟩ programs = some k) : k ≤ batch ∧ programs + k ≤ n := by
  rw [getBatches_iterations] at h
  cases h
  omega

example : (runHistory .repaired .sequential (Stats.init, [])
    [⟨exFS, exBatch, exOutcome, 8⟩, ⟨[.batch 8, .tmp 9], ⟨8, [⟨9, false, [(20, true)], none, 1⟩]⟩, ⟨[], some "java.lang.X"⟩, 1⟩]).toOption.map
      (fun r => (r.1.passed, r.1.failed, keys r.1.faults)) = some (2, 5, [2, 3, 4, 5, 9]) := by decide

/-! ## 5. the unchanged tree (`checkOracleAsIs`) -/

/-- the full statement of `report_iff` for the code as it is -/
def asis_report_iff : Prop :=
  ∀ (b : Batch) (o : Outcome) (fs : FS), Staged b fs →
    ∃ out fs', checkOracleAsIs b o fs = .ok (out, fs') ∧
      ∀ p ∈ b.progs, (p.pid ∈ keys out ↔ faulty o p = true)

/-- row "well-typed variant rejected **and** ill-typed variant accepted" (corpus row 1 of
`harness/check_C15.py`, signature `check_oracle:both-mismatches:FileExistsError`) -/
def cexBoth : Batch := ⟨1, [⟨5, false, [(1, true), (2, false)], some "B expected but E found in node x", 3⟩]⟩
def cexBothOutcome : Outcome := ⟨[(1, ["66: error: unreachable  statement "])], none⟩
def cexBothFS : FS := [.batch 1, .tmp 5]

theorem asis_both_mismatches_raises :
    checkOracleAsIs cexBoth cexBothOutcome cexBothFS =
      .error ⟨.fileExists, [.batch 1, .tmp 5, .saved 5]⟩ := by decide

/-- row "tool failure in a batch on which the compiler crashed" (corpus row 2, signature
`check_oracle:toolfailed-in-crashed-batch:not-reported`) -/
def cexCrash : Batch := ⟨2, [⟨6, false, [(3, true), (4, false)], some "inj", 0⟩, ⟨7, true, [], some "tool: x", 0⟩]⟩
def cexCrashOutcome : Outcome := ⟨[], some "java.lang.AssertionError: boom\n"⟩
def cexCrashFS : FS := [.batch 2, .tmp 6]

theorem asis_toolfailed_in_crashed_batch_not_reported :
    checkOracleAsIs cexCrash cexCrashOutcome cexCrashFS =
      .ok ([(6, some "java.lang.AssertionError: boom\n")], [.tmp 6, .saved 6]) ∧
    faulty cexCrashOutcome ⟨7, true, [], some "tool: x", 0⟩ = true := by decide

theorem asis_report_iff_counterexample : ¬ asis_report_iff := by
  intro h
  obtain ⟨out, fs', h1, _⟩ := h cexBoth cexBothOutcome cexBothFS (by constructor <;> decide)
  rw [asis_both_mismatches_raises] at h1
  cases h1

/-- the second row alone also refutes it (the code returns, but does not report pid 7) -/
theorem asis_report_iff_counterexample_crash :
    ¬ (∀ (b : Batch) (o : Outcome) (fs : FS) (out : Reported) (fs' : FS), Staged b fs →
        checkOracleAsIs b o fs = .ok (out, fs') →
        ∀ p ∈ b.progs, (p.pid ∈ keys out ↔ faulty o p = true)) := by
  intro h
  have h1 := h cexCrash cexCrashOutcome cexCrashFS _ _ (by constructor <;> decide)
    asis_toolfailed_in_crashed_batch_not_reported.1 ⟨7, true, [], some "tool: x", 0⟩ (by decide)
  exact absurd (h1.2 (by decide)) (by decide)

/-- what holds of the unchanged code: whenever it returns normally, and no tool-failed program
sits in a batch on which the compiler crashed, a program is reported iff it is faulty.
Missing for the full statement: the two rows above. -/
theorem asis_report_iff_partial (b : Batch) (o : Outcome) (fs fs' : FS) (out : Reported)
    (hnd : (b.progs.map (·.pid)).Nodup)
    (hrow : o.crash.isSome = true → ∀ p ∈ b.progs, p.toolFailed = false)
    (h : checkOracleAsIs b o fs = .ok (out, fs')) :
    ∀ p ∈ b.progs, (p.pid ∈ keys out ↔ faulty o p = true) := by
  intro p hp
  rw [(checkOracleV_ok h).1]
  constructor
  · rintro ⟨q, hq, hpid, hr⟩
    rw [reportedRow_asIs_of_live _ _ _ (fun hc => hrow hc q hq)] at hr
    rwa [← eq_of_pid_eq hnd hq hp hpid]
  · intro hf
    exact ⟨p, hp, rfl, by rw [reportedRow_asIs_of_live _ _ _ (fun hc => hrow hc p hp)]; exact hf⟩

/-- the repaired code on the two rows -/
example : (checkOracle cexBoth cexBothOutcome cexBothFS) =
    .ok ([(5, some "66: error: unreachable  statement \nSHOULD NOT BE COMPILED: B expected but E found in node x")],
      [.saved 5]) := by decide

example : (checkOracle cexCrash cexCrashOutcome cexCrashFS).toOption.map (fun r => keys r.1) = some [6, 7] := by
  decide

/-- pool mode on the unchanged tree: the exception is swallowed and the faulty program is
counted as passed -/
theorem asis_pool_counts_faulty_as_passed :
    runHistory .asIs .pool (Stats.init, []) [⟨cexBothFS, cexBoth, cexBothOutcome, 3⟩] =
      .ok (⟨1, 0, 3, []⟩, [.batch 1, .tmp 5, .saved 5]) := by decide

end Heph.Props.C15
