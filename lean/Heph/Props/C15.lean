import Heph.Model.Oracle
namespace Heph.Props.C15
open Heph.Oracle

theorem stub : keys [] = [] := rfl

end Heph.Props.C15
