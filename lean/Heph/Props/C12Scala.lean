import Heph.Proofs.TransScalaPrinted
import Heph.Spec.Brackets
/-!
# C12 for the Scala translator — translations are faithful to the program's declarations and annotations

Model: `Heph.TransScala` (the state-threading port of `src/translators/scala.py` shared with C11); a visit
returns a `Doc` (text pieces tagged with their origin, the Kotlin model's `Tag`s), the text is
`flatten doc`; `scalaDoc package p` is the doc of `ScalaTranslator(package).visit(p)`.  The IR side is
`sem n` / `semProgram p` (`Spec/TransScalaSem.lean`): the non-layout pieces the program calls for, in
print order, computed from the IR alone; `inventory p` is its restriction to declaration tags.

Proved for ALL programs, every package and — through C11's `Scala.history_independent` — every history:

* `doc_tags`, `doc_tags_history` — the tags of the non-layout pieces of the doc are those of `semProgram p`, in order.
* `doc_inventory` — `declTags (scalaDoc package p) = inventory p`.
* `doc_pieces_partial` — tags AND texts equal `semProgram p` when `condOK p` (the condition of every
  conditional is an expression other than a lambda or a `new`); the full statement `doc_pieces` is refuted by
  `doc_pieces_counterexample` (`visit_conditional` cuts `self.ident` characters off the condition's text;
  replayed on the real `ScalaTranslator` by the harness).
* `tag_in_doc_iff` / `piece_in_doc_iff`, and from them `annot_iff_var`, `annot_iff_ret`, `annot_iff_targs`
  (every program): a type annotation of variable `v` / return-type annotation of `f` / explicit
  type-argument list of a call of `f` is printed iff the program has such a declaration carrying a type
  (`var_type` / `ret_type` not `None`) / such a call with `can_infer_type_args = False` and type arguments;
  `annot_var_text`, `annot_ret_text`, `annot_targs_text`, `new_piece_text` (`condOK`): what is printed is the
  declared type (`[A,B]` for type arguments; the bare class name of a `new` iff its type arguments can be inferred).
* `literals_ops_present`, `literals_ops_tags`, `literal_piece_iff`, `operator_piece_iff`.
* `balanced` is stated and REFUTED as stated (`balanced_counterexample`, the same cut).

"Printed" means `printed` (`Spec/TransScalaSem.lean`): every node the translator visits except the
arguments of `New(Any)`, whose text `visit_new` drops (`1.asInstanceOf[Any]`).
-/
namespace Heph.Props.C12.Scala
open Heph Heph.TransScala Heph.Brackets
open Heph.TransKotlin (Tag Piece Doc flatten initObj St Obj declTags obs noOther packageLine
  declTags_obs obs_true_noOther tag_mem_iff_of_obs_false mem_obs_true piece_infix)

/-- tags of the non-layout pieces, in order: doc = what the program calls for (every program) -/
theorem doc_tags (package : Option String) (p : Program) :
    obs false (scalaDoc package p) = obs false (semProgram p) :=
  obs_programDoc false _ p (okAtL_false _)

/-- the same after any history of translations by the same object -/
theorem doc_tags_history (package : Option String) (ps : List Program) (p : Program) :
    obs false (programDoc (after (initObj package) ps) p).2 = obs false (semProgram p) :=
  obs_programDoc false _ p (okAtL_false _)

/-- the declaration tags of the doc, in order, are the inventory computed from the IR -/
theorem doc_inventory (package : Option String) (p : Program) :
    declTags (scalaDoc package p) = inventory p := by
  rw [← declTags_obs false, doc_tags, declTags_obs, semProgram, inventory, declTags_semL]

/-- full-strength statement about texts: the non-layout pieces (tags and texts) are `semProgram p` -/
def doc_pieces : Prop :=
  ∀ (package : Option String) (p : Program), obs true (scalaDoc package p) = semProgram p

/-- proved part: programs in which the condition of every conditional is an expression whose text
    starts with its indentation (every expression kind except a lambda and a `new`).  Missing for the
    full statement: `visit_conditional` removes `self.ident` leading characters of the condition's text
    whatever they are. -/
theorem doc_pieces_partial (package : Option String) (p : Program) (h : condOK p = true) :
    obs true (scalaDoc package p) = semProgram p := by
  rw [scalaDoc, obs_programDoc true _ p h, semProgram, obs_true_noOther _ (noOther_semL _)]

/-- the text (not only the tags) is independent of the state a declaration is visited in -/
theorem node_pieces (st : St) (n : Node) (h : okAt true n = true) : obs true (visit st n).2 = sem n := by
  rw [obs_visit true n st h, obs_true_noOther _ (noOther_sem n)]

/-! ## annotations, literals, operators: piece by piece -/

/-- a non-layout tag occurs in the doc iff a printed node of the program calls for it (every program) -/
theorem tag_in_doc_iff (package : Option String) (p : Program) (t : Tag) (ht : t ≠ Tag.other) :
    (∃ x, (t, x) ∈ scalaDoc package p) ↔ ∃ m ∈ printedL p.decls, ∃ x, (t, x) ∈ own m := by
  rw [tag_mem_iff_of_obs_false (doc_tags package p) t ht]
  simp only [semProgram, mem_semL, Own]
  constructor
  · rintro ⟨x, m, hm, hx⟩; exact ⟨m, hm, x, hx⟩
  · rintro ⟨m, hm, x, hx⟩; exact ⟨x, m, hm, hx⟩

/-- with texts, when `condOK p` -/
theorem piece_in_doc_iff (package : Option String) (p : Program) (h : condOK p = true) (pc : Piece)
    (hpc : pc.1 ≠ Tag.other) :
    pc ∈ scalaDoc package p ↔ ∃ m ∈ printedL p.decls, pc ∈ own m := by
  have e : obs true (scalaDoc package p) = semProgram p := doc_pieces_partial package p h
  have := mem_obs_true pc (scalaDoc package p)
  rw [e, semProgram, mem_semL] at this
  constructor
  · intro hm; exact this.mpr ⟨hm, hpc⟩
  · intro hm; exact (this.mp hm).1

/-- a type annotation of variable `v` is printed iff the program has a variable declaration `v` that
    carries a declared type (every program: an erased annotation is absent, an overwritten one present) -/
theorem annot_iff_var (package : Option String) (p : Program) (v : String) :
    (∃ x, (Tag.varAnnot v, x) ∈ scalaDoc package p) ↔
      ∃ e f t i, Node.varDecl v e f (some t) i ∈ printedL p.decls := by
  rw [tag_in_doc_iff package p _ (by simp)]
  constructor
  · rintro ⟨m, hm, x, hx⟩
    obtain ⟨e, f, t, i, rfl, _⟩ := (varAnnot_own v x m).mp hx
    exact ⟨e, f, t, i, hm⟩
  · rintro ⟨e, f, t, i, hm⟩
    exact ⟨_, hm, _, (varAnnot_own v _ _).mpr ⟨e, f, t, i, rfl, rfl⟩⟩

/-- …and what is printed is the declared type (`condOK p`) -/
theorem annot_var_text (package : Option String) (p : Program) (h : condOK p = true) (v x : String) :
    (Tag.varAnnot v, x) ∈ scalaDoc package p ↔
      ∃ e f t i, Node.varDecl v e f (some t) i ∈ printedL p.decls ∧ x = ": " ++ typeName t := by
  rw [piece_in_doc_iff package p h _ (by simp)]
  constructor
  · rintro ⟨m, hm, hx⟩
    obtain ⟨e, f, t, i, rfl, hxt⟩ := (varAnnot_own v x m).mp hx
    exact ⟨e, f, t, i, hm, hxt⟩
  · rintro ⟨e, f, t, i, hm, hxt⟩
    exact ⟨_, hm, (varAnnot_own v _ _).mpr ⟨e, f, t, i, rfl, hxt⟩⟩

theorem annot_iff_ret (package : Option String) (p : Program) (f : String) :
    (∃ x, (Tag.retAnnot f, x) ∈ scalaDoc package p) ↔
      ∃ ps t inf body fin ov tps ft, Node.funcDecl f ps (some t) inf body fin ov tps ft ∈ printedL p.decls := by
  rw [tag_in_doc_iff package p _ (by simp)]
  constructor
  · rintro ⟨m, hm, x, hx⟩
    obtain ⟨ps, t, inf, body, fin, ov, tps, ft, rfl, _⟩ := (retAnnot_own f x m).mp hx
    exact ⟨ps, t, inf, body, fin, ov, tps, ft, hm⟩
  · rintro ⟨ps, t, inf, body, fin, ov, tps, ft, hm⟩
    exact ⟨_, hm, _, (retAnnot_own f _ _).mpr ⟨ps, t, inf, body, fin, ov, tps, ft, rfl, rfl⟩⟩

theorem annot_ret_text (package : Option String) (p : Program) (h : condOK p = true) (f x : String) :
    (Tag.retAnnot f, x) ∈ scalaDoc package p ↔
      ∃ ps t inf body fin ov tps ft, Node.funcDecl f ps (some t) inf body fin ov tps ft ∈ printedL p.decls ∧
        x = ": " ++ typeName t := by
  rw [piece_in_doc_iff package p h _ (by simp)]
  constructor
  · rintro ⟨m, hm, hx⟩
    obtain ⟨ps, t, inf, body, fin, ov, tps, ft, rfl, hxt⟩ := (retAnnot_own f x m).mp hx
    exact ⟨ps, t, inf, body, fin, ov, tps, ft, hm, hxt⟩
  · rintro ⟨ps, t, inf, body, fin, ov, tps, ft, hm, hxt⟩
    exact ⟨_, hm, (retAnnot_own f _ _).mpr ⟨ps, t, inf, body, fin, ov, tps, ft, rfl, hxt⟩⟩

/-- an explicit type-argument list of a call of `f` is printed iff the program has a call of `f` with
    type arguments whose `can_infer_type_args` is false -/
theorem annot_iff_targs (package : Option String) (p : Program) (f : String) :
    (∃ x, (Tag.targs f, x) ∈ scalaDoc package p) ↔
      ∃ args recv targs rc, Node.call f args recv targs false rc ∈ printedL p.decls ∧ targs ≠ [] := by
  rw [tag_in_doc_iff package p _ (by simp)]
  constructor
  · rintro ⟨m, hm, x, hx⟩
    obtain ⟨args, recv, targs, rc, rfl, hne, _⟩ := (targs_own f x m).mp hx
    exact ⟨args, recv, targs, rc, hm, hne⟩
  · rintro ⟨args, recv, targs, rc, hm, hne⟩
    exact ⟨_, hm, _, (targs_own f _ _).mpr ⟨args, recv, targs, rc, rfl, hne, rfl⟩⟩

/-- …printed as `[A,B]` (`condOK p`) -/
theorem annot_targs_text (package : Option String) (p : Program) (h : condOK p = true) (f x : String) :
    (Tag.targs f, x) ∈ scalaDoc package p ↔
      ∃ args recv targs rc, Node.call f args recv targs false rc ∈ printedL p.decls ∧ targs ≠ [] ∧
        x = "[" ++ ",".intercalate (targs.map typeName) ++ "]" := by
  rw [piece_in_doc_iff package p h _ (by simp)]
  constructor
  · rintro ⟨m, hm, hx⟩
    obtain ⟨args, recv, targs, rc, rfl, hne, hxt⟩ := (targs_own f x m).mp hx
    exact ⟨args, recv, targs, rc, hm, hne, hxt⟩
  · rintro ⟨args, recv, targs, rc, hm, hne, hxt⟩
    exact ⟨_, hm, (targs_own f _ _).mpr ⟨args, recv, targs, rc, rfl, hne, hxt⟩⟩

/-- the class of a `new` is printed with its type arguments iff they cannot be inferred
    (`explicit = !can_infer_type_args`); `New(Any)` is `1.asInstanceOf[Any]` (`condOK p`) -/
theorem new_piece_text (package : Option String) (p : Program) (h : condOK p = true) (explicit : Bool) (x : String) :
    (Tag.newT explicit, x) ∈ scalaDoc package p ↔
      ∃ t args, Node.newE t args (!explicit) ∈ printedL p.decls ∧
        x = (if TransKotlin.isCls t clsAny then "1.asInstanceOf[Any]"
             else if explicit then typeName t else TransKotlin.attrName t) := by
  rw [piece_in_doc_iff package p h _ (by simp)]
  constructor
  · rintro ⟨m, hm, hx⟩
    obtain ⟨t, args, rfl, hxt⟩ := (newT_own explicit x m).mp hx
    exact ⟨t, args, hm, hxt⟩
  · rintro ⟨t, args, hm, hxt⟩
    exact ⟨_, hm, (newT_own explicit x _).mpr ⟨t, args, rfl, hxt⟩⟩

/-- every piece a printed node calls for — in particular every literal and every operator of the
    program — is in the doc, and its text is a part of the emitted text (`condOK p`) -/
theorem literals_ops_present (package : Option String) (p : Program) (h : condOK p = true)
    (m : Node) (hm : m ∈ printedL p.decls) (pc : Piece) (hpc : pc ∈ own m) :
    pc ∈ scalaDoc package p ∧ ∃ a b, flatten (scalaDoc package p) = a ++ pc.2 ++ b := by
  have hno : pc.1 ≠ Tag.other := by
    have h1 : pc ∈ semL p.decls := (mem_semL pc p.decls).mpr ⟨m, hm, hpc⟩
    have h2 := noOther_semL p.decls
    simp only [noOther, List.all_eq_true, bne_iff_ne, ne_eq] at h2
    exact h2 pc h1
  have hin := (piece_in_doc_iff package p h pc hno).mpr ⟨m, hm, hpc⟩
  exact ⟨hin, piece_infix pc _ hin⟩

/-- for every program (no hypothesis): the tag of every such piece occurs -/
theorem literals_ops_tags (package : Option String) (p : Program)
    (m : Node) (hm : m ∈ printedL p.decls) (t : Tag) (x : String) (hpc : (t, x) ∈ own m) :
    ∃ y, (t, y) ∈ scalaDoc package p := by
  have hno : t ≠ Tag.other := by
    have h1 : (t, x) ∈ semL p.decls := (mem_semL _ p.decls).mpr ⟨m, hm, hpc⟩
    have h2 := noOther_semL p.decls
    simp only [noOther, List.all_eq_true, bne_iff_ne, ne_eq] at h2
    exact h2 _ h1
  exact (tag_in_doc_iff package p t hno).mpr ⟨m, hm, x, hpc⟩

/-- a string constant of the program is printed with its text -/
theorem string_literal_present (package : Option String) (p : Program) (h : condOK p = true) (lit : String)
    (hm : Node.stringC lit ∈ printedL p.decls) :
    ∃ a b, flatten (scalaDoc package p) = a ++ lit ++ b :=
  (literals_ops_present package p h _ hm (Tag.lit, lit) (by simp [own])).2

theorem operator_present (package : Option String) (p : Program) (h : condOK p = true) (k op : String) (l r : Node)
    (hm : Node.binop k l r op ∈ printedL p.decls) :
    (Tag.op, op) ∈ scalaDoc package p :=
  (literals_ops_present package p h _ hm (Tag.op, op) (by simp [own])).1

/-- conversely a literal piece of the doc is a literal of the program -/
theorem literal_piece_iff (package : Option String) (p : Program) (h : condOK p = true) (x : String) :
    (Tag.lit, x) ∈ scalaDoc package p ↔
      ∃ m ∈ printedL p.decls, (∃ t, m = .intC x t) ∨ (∃ t, m = .realC x t) ∨ m = .boolC x ∨ m = .charC x ∨
        m = .stringC x := by
  rw [piece_in_doc_iff package p h _ (by simp)]
  constructor
  · rintro ⟨m, hm, hx⟩; exact ⟨m, hm, (lit_own x m).mp hx⟩
  · rintro ⟨m, hm, hx⟩; exact ⟨m, hm, (lit_own x m).mpr hx⟩

/-- …and an operator piece is the operator of a binary operation of the program, or the `isInstanceOf` of an
    `is` / `!is` (Scala prints both alike: `visit_is` ignores `operator.is_not`) -/
theorem operator_piece_iff (package : Option String) (p : Program) (h : condOK p = true) (x : String) :
    (Tag.op, x) ∈ scalaDoc package p ↔
      ∃ m ∈ printedL p.decls, (∃ k l r, m = .binop k l r x) ∨ (∃ e t b, m = .isE e t b ∧ x = "isInstanceOf") := by
  rw [piece_in_doc_iff package p h _ (by simp)]
  constructor
  · rintro ⟨m, hm, hx⟩; exact ⟨m, hm, (op_own x m).mp hx⟩
  · rintro ⟨m, hm, hx⟩; exact ⟨m, hm, (op_own x m).mpr hx⟩

/-! ## the cut in `visit_conditional` -/

def tyAny : Ty := .builtin "<class 'src.ir.scala_types.AnyType'>" "Any" false false []
def tyInt : Ty := .builtin "<class 'src.ir.scala_types.IntegerType'>" "Int" false false [tyAny]
def tyLong : Ty := .builtin "<class 'src.ir.scala_types.LongType'>" "Long" false false [tyAny]

/-- `if ((x: Int) => true) 1 else 2` (a lambda as the condition; never generated: not Boolean) -/
def badCond : Program := {
  lang := "scala",
  decls := [.cond (.lambda "l" [.paramDecl "x" tyInt false none] none (.boolC "true") none)
              (.intC "1" none) (.intC "2" none) none],
  context := [] }

/-- `if (new B()) 1 else 2`: `new` is printed before the indentation, so the cut removes `ne` -/
def badCondNew : Program := {
  lang := "scala",
  decls := [.cond (.newE (.simple "B" []) [] false) (.intC "1" none) (.intC "2" none) none],
  context := [] }

example : flatten (scalaDoc none badCond) = "(if (: Int) => true) then\n  1\nelse\n  2)" := by decide +kernel
example : flatten (scalaDoc none badCondNew) = "(if (w   B()) then\n  1\nelse\n  2)" := by decide +kernel
example : semProgram badCond =
    [(Tag.paramD "x", "x: Int"), (Tag.lit, "true"), (Tag.lit, "1"), (Tag.lit, "2")] := by decide +kernel

/-- the code violates the full statement: the opening parenthesis of the lambda and the parameter's name
    are cut off (the harness replays this on the real `ScalaTranslator`) -/
theorem doc_pieces_counterexample : ¬ doc_pieces := by
  intro h
  exact absurd (h none badCond) (by decide +kernel)

/-! ## balance -/

/-- the full-strength statement: if the names, type names, literals and operators the program calls for
    and the package name are bracket-neutral, the emitted text is balanced -/
def balanced : Prop :=
  ∀ (package : Option String) (p : Program),
    (∀ pc ∈ semProgram p, Neutral pc.2) → Neutral (packageLine package) →
    Balanced (flatten (scalaDoc package p))

theorem neutral_of_no_brackets (s : String)
    (h : ∀ c ∈ s.toList, c ≠ '(' ∧ c ≠ ')' ∧ c ≠ '[' ∧ c ≠ ']' ∧ c ≠ '{' ∧ c ≠ '}') : Neutral s := by
  intro stk
  generalize s.toList = cs at h
  induction cs generalizing stk with
  | nil => rfl
  | cons c r ih =>
    have hc := h c List.mem_cons_self
    simp only [run, step, hc.1, hc.2.1, hc.2.2.1, hc.2.2.2.1, hc.2.2.2.2.1, hc.2.2.2.2.2, or_self, if_false]
    exact ih stk (fun d hd => h d (List.mem_cons_of_mem _ hd))

/-- the code violates it: for `if ((x: Int) => true) 1 else 2` the opening parenthesis of the lambda is cut off
    by `visit_conditional` although every piece the program calls for is bracket-free -/
theorem balanced_counterexample : ¬ balanced := by
  intro h
  have hb := h none badCond
    (by
      intro pc hpc
      apply neutral_of_no_brackets
      revert pc
      decide +kernel)
    (neutral_of_no_brackets _ (by decide +kernel))
  revert hb
  decide +kernel

example : ¬ Balanced (flatten (scalaDoc none badCond)) := by decide +kernel

/-! ## non-vacuity: a demo program -/

/-- `open class B(val x: Int)`, `class A[+T <: Any](final override val x: Int) extends B(1) { final def f … }`,
    `def g(): Int = { val v = 3; return v; }`, `def h() = (if ((v < 3)) then `g`() else `id`[Int](2))` with an
    erased return type -/
def demo : Program := {
  lang := "scala",
  decls := [
    .classDecl "B" 0 false [.fieldDecl "x" tyInt true true false] [] [] [],
    .classDecl "A" 0 true [.fieldDecl "x" tyInt true false true]
      [.superInst (.simple "B" []) (some [.intC "1" (some tyInt)])]
      [.funcDecl "f" [.paramDecl "a" tyInt false none] (some tyLong) (some tyLong)
         (some (.intC "-2" (some tyLong))) true false [] 0]
      [.tparam "T" 1 none],
    .funcDecl "g" [] (some tyInt) (some tyInt)
      (some (.block [.varDecl "v" (.intC "3" (some tyInt)) true none (some tyInt), .variable "v"] true))
      true false [] 1,
    .funcDecl "h" [] none (some tyInt)
      (some (.cond (.binop "comparison" (.variable "v") (.intC "3" (some tyInt)) "<")
              (.call "g" [] none [] true false)
              (.call "id" [.callArg (.intC "2" (some tyInt)) none] none [tyInt] false false) (some tyInt)))
      true false [] 1],
  context := [] }

example : condOK demo = true := by decide +kernel
example : inventory demo =
    [Tag.classD "B", Tag.fieldD "x", Tag.classD "A", Tag.tparamD "T", Tag.fieldD "x", Tag.superT,
     Tag.funcD "f", Tag.paramD "a", Tag.retAnnot "f", Tag.funcD "g", Tag.retAnnot "g", Tag.varD "v",
     Tag.funcD "h", Tag.targs "id"] := by decide +kernel
example : declTags (scalaDoc (some "src.pkg") demo) = inventory demo := doc_inventory _ _
example : obs true (scalaDoc (some "src.pkg") demo) = semProgram demo := doc_pieces_partial _ _ (by decide +kernel)
example : (Tag.retAnnot "h", ": Int") ∉ semProgram demo ∧ (Tag.retAnnot "g", ": Int") ∈ semProgram demo ∧
    (Tag.targs "id", "[Int]") ∈ semProgram demo ∧ (Tag.op, "<") ∈ semProgram demo := by decide +kernel
example : Balanced (flatten (scalaDoc (some "src.pkg") demo)) := by decide +kernel
example : Node.stringC "s" ∈ printedL [.varDecl "v" (.stringC "s") true none none] := by simp [printedL, printed]

end Heph.Props.C12.Scala
