import Driver.Util
import Heph.Model.Graph
open Lean Heph.Graph
namespace Driver.Graph

def parseGraph (j : Json) : Except String Graph := do
  let a ← j.getArr?
  a.toList.mapM fun e => do
    let p ← e.getArr?
    if p.size != 2 then throw "graph entry must be [key, [neighbours]]"
    let k ← p[0]!.getNat?
    let ns ← natList p[1]!
    pure (k, ns)

def srcRes : SrcRes → Json
  | .ok l => ofNatList l
  | .keyError => Json.str "KeyError"
  | .fuel => Json.str "fuel"

def handle : Handler := fun op j =>
  let run (f : Graph → Except String Json) : Option (Except String Json) :=
    some (do let g ← parseGraph (← j.getObjVal? "g"); let r ← f g; pure (res r))
  match op with
  | "graph.reachable" => run fun g => do pure (optBool (reachable g (← getNat j "s") (← getNat j "d")))
  | "graph.bi_reachable" => run fun g => do pure (optBool (biReachable g (← getNat j "s") (← getNat j "d")))
  | "graph.connected" => run fun g => do pure (optBool (connected g (← getNat j "s") (← getNat j "d")))
  | "graph.dfs" => run fun g => do pure (optNatList (dfs g (← getNat j "s")))
  | "graph.all_paths" => run fun g => do
      pure (match findAllPaths g (← getNat j "s") with | some l => ofNatListList l | none => Json.str "fuel")
  | "graph.longest_paths" => run fun g => do
      pure (match findLongestPaths g (← getNat j "s") with | some l => ofNatListList l | none => Json.str "fuel")
  | "graph.all_reachable" => run fun g => do pure (optNatList (findAllReachable g (← getNat j "s")))
  | "graph.all_bi_reachable" => run fun g => do pure (optNatList (findAllBiReachable g (← getNat j "s")))
  | "graph.all_connected" => run fun g => do pure (optNatList (findAllConnected g (← getNat j "s")))
  | "graph.none_reachable" => run fun g => do pure (optBool (noneReachable g (← getNat j "s") (← getNat j "d")))
  | "graph.none_connected" => run fun g => do pure (optBool (noneConnected g (← getNat j "s") (← getNat j "d")))
  | "graph.sources" => run fun g => do pure (srcRes (findSources g (← getNat j "s")))
  | _ => none

end Driver.Graph
