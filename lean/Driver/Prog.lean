import Driver.ProgJson
open Lean Heph
namespace Driver.Prog

mutual
partial def countNodes : Node → Nat
  | .block b _ => 1 + countL b
  | .superInst _ a => 1 + (match a with | some l => countL l | none => 0)
  | .classDecl _ _ _ f s fn _ => 1 + countL f + countL s + countL fn
  | .varDecl _ e _ _ _ => 1 + countNodes e
  | .callArg e _ => 1 + countNodes e
  | .paramDecl _ _ _ d => 1 + (match d with | some x => countNodes x | none => 0)
  | .funcDecl _ ps _ _ b _ _ _ _ => 1 + countL ps + (match b with | some x => countNodes x | none => 0)
  | .lambda _ ps _ b _ => 1 + countL ps + countNodes b
  | .funcRef _ r _ => 1 + (match r with | some x => countNodes x | none => 0)
  | .arrayE _ _ es => 1 + countL es
  | .isE e _ _ => 1 + countNodes e
  | .binop _ l r _ => 1 + countNodes l + countNodes r
  | .cond c t f _ => 1 + countNodes c + countNodes t + countNodes f
  | .newE _ a _ => 1 + countL a
  | .fieldAccess e _ => 1 + countNodes e
  | .call _ a r _ _ _ => 1 + countL a + (match r with | some x => countNodes x | none => 0)
  | .assign _ e r => 1 + countNodes e + (match r with | some x => countNodes x | none => 0)
  | _ => 1
partial def countL (l : List Node) : Nat := l.foldl (fun n x => n + countNodes x) 0
end

def handle : Handler := fun op j =>
  match op with
  | "prog.count" => some (do
      let (_, p) ← parseProgramObj j
      pure (res (Json.num (JsonNumber.fromNat (countL p.decls)))))
  | _ => none

end Driver.Prog
