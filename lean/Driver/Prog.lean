import Driver.Util
open Lean
namespace Driver.Prog

def handle : Handler := fun _ _ => none

end Driver.Prog
