import Driver.Util
import Heph.Model.Subst
/-! JSON ⇄ `Ty`: the hash-consed type table of `harness/export.py` and the canonical tree form. -/
open Lean Heph
namespace Driver

def idxList (tbl : Array Ty) (j : Json) : Except String (List Ty) := do
  let a ← j.getArr?
  a.toList.mapM fun x => do
    let i ← x.getNat?
    match tbl[i]? with
    | some t => pure t
    | none => throw s!"type index {i} out of range"

def idxOpt (tbl : Array Ty) (j : Json) : Except String (Option Ty) := do
  if j.isNull then pure none else
    let i ← j.getNat?
    match tbl[i]? with
    | some t => pure (some t)
    | none => throw s!"type index {i} out of range"

def parseEntry (tbl : Array Ty) (j : Json) : Except String Ty := do
  let k ← getStr j "k"
  match k with
  | "b" => pure (.builtin (← getStr j "cls") (← getStr j "name") (← getBool j "nothing") (← getBool j "prim")
                  (← idxList tbl (← j.getObjVal? "sups")))
  | "s" => pure (.simple (← getStr j "name") (← idxList tbl (← j.getObjVal? "sups")))
  | "v" => pure (.tparam (← getStr j "name") (← getNat j "var") (← idxOpt tbl (j.getObjValD "bound")))
  | "w" => pure (.wild (← getNat j "var") (← idxOpt tbl (j.getObjValD "bound")))
  | "c" => pure (.tcon (← getStr j "cls") (← getStr j "name") (← idxList tbl (← j.getObjVal? "params"))
                  (← idxList tbl (← j.getObjVal? "sups")))
  | "p" => do
      let con ← idxOpt tbl (← j.getObjVal? "con")
      match con with
      | some c => pure (.param (← getStr j "name") c (← idxList tbl (← j.getObjVal? "args"))
                          (← idxList tbl (← j.getObjVal? "sups")))
      | none => throw "param without constructor"
  | "n" => pure .nothing
  | "x" => pure (.ext (← getStr j "cls"))
  | _ => throw s!"unknown type kind {k}"

/-- the request's `"tt"` field → array of types -/
def parseTable (j : Json) : Except String (Array Ty) := do
  let a ← getArr j "tt"
  a.foldlM (fun tbl e => do pure (tbl.push (← parseEntry tbl e))) #[]

def tyAt (tbl : Array Ty) (j : Json) (k : String) : Except String Ty := do
  let i ← getNat j k
  match tbl[i]? with
  | some t => pure t
  | none => throw s!"type index {i} out of range"

def tyOptAt (tbl : Array Ty) (j : Json) (k : String) : Except String (Option Ty) :=
  idxOpt tbl (j.getObjValD k)

def tyListAt (tbl : Array Ty) (j : Json) (k : String) : Except String (List Ty) := do
  idxList tbl (← j.getObjVal? k)

mutual
partial def tyToJson : Ty → Json
  | .builtin cls nm nt p ss => Json.mkObj [("k", "b"), ("cls", cls), ("name", nm), ("nothing", nt), ("prim", p), ("sups", tysToJson ss)]
  | .simple nm ss => Json.mkObj [("k", "s"), ("name", nm), ("sups", tysToJson ss)]
  | .tparam nm v b => Json.mkObj [("k", "v"), ("name", nm), ("var", v), ("bound", tyOptToJson b)]
  | .wild v b => Json.mkObj [("k", "w"), ("var", v), ("bound", tyOptToJson b)]
  | .tcon cls nm ps ss => Json.mkObj [("k", "c"), ("cls", cls), ("name", nm), ("params", tysToJson ps), ("sups", tysToJson ss)]
  | .param nm con args ss => Json.mkObj [("k", "p"), ("name", nm), ("con", tyToJson con), ("args", tysToJson args), ("sups", tysToJson ss)]
  | .nothing => Json.mkObj [("k", "n")]
  | .ext cls => Json.mkObj [("k", "x"), ("cls", cls)]
partial def tysToJson (l : List Ty) : Json := Json.arr (l.toArray.map tyToJson)
partial def tyOptToJson : Option Ty → Json
  | none => Json.null
  | some t => tyToJson t
end

mutual
/-- exact structural equality (not the IR's `==`) used to compare a model result with the
    exported result of the implementation -/
def structEq : Ty → Ty → Bool
  | .builtin c n nt p ss, .builtin c' n' nt' p' ss' => c == c' && n == n' && nt == nt' && p == p' && structEqL ss ss'
  | .simple n ss, .simple n' ss' => n == n' && structEqL ss ss'
  | .tparam n v b, .tparam n' v' b' => n == n' && v == v' && structEqO b b'
  | .wild v b, .wild v' b' => v == v' && structEqO b b'
  | .tcon c n ps ss, .tcon c' n' ps' ss' => c == c' && n == n' && structEqL ps ps' && structEqL ss ss'
  | .param n con as ss, .param n' con' as' ss' => n == n' && structEq con con' && structEqL as as' && structEqL ss ss'
  | .nothing, .nothing => true
  | .ext c, .ext c' => c == c'
  | _, _ => false
def structEqL : List Ty → List Ty → Bool
  | [], [] => true
  | x :: xs, y :: ys => structEq x y && structEqL xs ys
  | _, _ => false
def structEqO : Option Ty → Option Ty → Bool
  | none, none => true
  | some x, some y => structEq x y
  | _, _ => false
end

/-- answer of a type-valued op: `true` when the request carries `"expect": idx` and the model's
    result equals it structurally, else the canonical tree of the model's result -/
def answerTy (tbl : Array Ty) (j : Json) (r : Ty) : Json :=
  match j.getObjVal? "expect" with
  | .ok e => (match e.getNat? with
      | .ok i => (match tbl[i]? with
          | some x => if structEq r x then Json.bool true else tyToJson r
          | none => tyToJson r)
      | .error _ => tyToJson r)
  | .error _ => tyToJson r

def answerTyOpt (tbl : Array Ty) (j : Json) (r : Option Ty) : Json :=
  match r with
  | some t => answerTy tbl j t
  | none => Json.null

def resToJson : Ty.Res → Json
  | .yes => Json.bool true
  | .no => Json.bool false
  | .typeError => Json.str "TypeError"
  | .attrError => Json.str "AttributeError"
  | .fuel => Json.str "fuel"

def trToJson {α} (f : α → Json) : Ty.TR α → Json
  | .ok a => f a
  | .attrError => Json.str "AttributeError"
  | .fuel => Json.str "fuel"

def parsePairs (j : Json) (k : String) : Except String (List (String × String)) := do
  match j.getObjVal? k with
  | .error _ => pure []
  | .ok v => do
    let a ← v.getArr?
    a.toList.mapM fun e => do
      let p ← e.getArr?
      if p.size != 2 then throw "pair expected"
      pure (← p[0]!.getStr?, ← p[1]!.getStr?)

/-- `"m": [[keyIdx, valIdx], …]` → type map -/
def parseTMap (tbl : Array Ty) (j : Json) (k : String) : Except String Ty.TMap := do
  let a ← getArr j k
  a.toList.mapM fun e => do
    let p ← e.getArr?
    if p.size != 2 then throw "pair expected"
    let ki ← p[0]!.getNat?
    let vi ← p[1]!.getNat?
    match tbl[ki]?, tbl[vi]? with
    | some a, some b => pure (a, b)
    | _, _ => throw "type index out of range"

end Driver
