import Driver.Util
open Lean
namespace Driver.Closed

def handle : Handler := fun _ _ => none

end Driver.Closed
