import Driver.ProgJson
import Heph.Model.Closed
import Heph.Model.Capture
import Heph.Model.Reserved
import Heph.Model.Assignable
/-! Ops of property C05.

* `closed.check`  `{<program export>, "keywords": [..], "stats": bool}` →
  `{"r": "ok"}` | `{"r": {"path":…, "reason":…}}` (+ `"kinds": {kind: count}` when `stats`)
  with `"capture": true` also `"capture": "ok" | {"path":…, "reason":…}` (`Capture.captureCheck`, javac's effectively-final
  rule) and `"captured": [references, assignments]` that cross a Java lambda boundary
* `closed.pool`   `{"initial": [..], "ops": [op…]}` → `{"r": [answer…], "words": [..], "initial": [..]}` where op is
    `["word", choice]`            → the word | `"KeyError"` (choice not in the pool: never on a real run);
                                    `["word", null]` → `"IndexError"` iff the pool is empty (`r.choice(())`), else `"bad-request"`
    `["reset"]`                   → `null`
    `["remove_reserved", [kw…], fixed?]`  → `null` (`fixed` absent: the variant `Pool.codeIsFixed` names)
    `["gen_identifier", mode, choice]` (mode `null | "lower" | "capitalize"`) → identifier | `"KeyError"`
    `["caps", [sample…], [blacklist…]]` → the accepted sample | `null`
* `closed.variant` `{}` → `"fixed"` | `"asIs"` (`Pool.codeIsFixed`)
* `closed.collisions` `{"fixed": bool}` → `[[language, word, identifier]…]` (`Pool.reservedCollisions` on the regenerated tables)
* `closed.assignable` `{"insideJavaLambda": bool, "vars": [{"name", "isFinal": bool|null, "searched": bool,
     "fields": [[name, isFinal]…]|null}…]}` → `[[receiver|null, name, isFinal]…]` | `"TypeError"`
-/
open Lean Heph Heph.Scope
namespace Driver.Closed

def strList (j : Json) : Except String (List String) := do
  (← j.getArr?).toList.mapM fun x => x.getStr?

def poolStep (p : Pool.Pool) (op : Json) : Except String (Json × Pool.Pool) := do
  let a ← op.getArr?
  let tag ← (a[0]?.getD Json.null).getStr?
  match tag with
  | "word" =>
    match a[1]?.getD Json.null with
    | .null => pure (Json.str (if p.words.isEmpty then "IndexError" else "bad-request"), p)
    | cj =>
      let c ← cj.getStr?
      match p.word c with
      | some (w, p') => pure (Json.str w, p')
      | none => pure (Json.str "KeyError", p)
  | "reset" => pure (Json.null, p.reset)
  | "remove_reserved" =>
    let kw ← strList (a[1]?.getD Json.null)
    match a[2]?.getD Json.null with
    | .bool b => pure (Json.null, p.removeReservedWordsV b kw)
    | _ => pure (Json.null, p.removeReservedWords kw)
  | "gen_identifier" =>
    let mode ← match a[1]?.getD Json.null with
      | .null => pure Pool.Mode.plain
      | .str "lower" => pure Pool.Mode.lower
      | .str "capitalize" => pure Pool.Mode.capitalize
      | _ => throw "bad mode"
    let c ← (a[2]?.getD Json.null).getStr?
    match p.word c with
    | some (w, p') => pure (Json.str (Pool.genIdentifier mode w), p')
    | none => pure (Json.str "KeyError", p)
  | "caps" =>
    let samples ← strList (a[1]?.getD Json.null)
    let bl ← strList (a[2]?.getD Json.null)
    match Pool.caps samples bl with
    | some s => pure (Json.str s, p)
    | none => pure (Json.null, p)
  | other => throw s!"unknown pool op {other}"

def handle : Handler := fun op j =>
  match op with
  | "closed.check" => some (do
      let (_, p) ← parseProgramObj j
      let kw ← strList (← j.getObjVal? "keywords")
      let r := match closedCheck p kw with
        | .ok => Json.str "ok"
        | .error path reason => Json.mkObj [("path", Json.str path), ("reason", Json.str reason)]
      let stats := (j.getObjValD "stats") == Json.bool true
      let cap := (j.getObjValD "capture") == Json.bool true
      let capFields : List (String × Json) :=
        if cap then
          let c := match Capture.captureCheck p with
            | .ok => Json.str "ok"
            | .error path reason => Json.mkObj [("path", Json.str path), ("reason", Json.str reason)]
          let n := Capture.capturedUses p
          [("capture", c), ("captured", Json.arr #[Json.num (JsonNumber.fromNat n.1), Json.num (JsonNumber.fromNat n.2)])]
        else []
      if stats then
        let kinds := Json.mkObj ((countKinds p).map fun (k, n) => (k, Json.num (JsonNumber.fromNat n)))
        pure (Json.mkObj ([("r", r), ("kinds", kinds)] ++ capFields))
      else pure (Json.mkObj ([("r", r)] ++ capFields)))
  | "closed.pool" => some (do
      let init ← strList (← j.getObjVal? "initial")
      let ops ← getArr j "ops"
      let mut p : Pool.Pool := { initial := init, words := init }
      let mut out : Array Json := #[]
      for o in ops do
        let (a, p') ← poolStep p o
        out := out.push a
        p := p'
      pure (Json.mkObj [("r", Json.arr out), ("words", ofStrList p.words), ("initial", ofStrList p.initial)]))
  | "closed.variant" => some (pure (res (Json.str (if Pool.codeIsFixed then "fixed" else "asIs"))))
  | "closed.collisions" => some (do
      let b := (j.getObjValD "fixed") == Json.bool true
      pure (res (Json.arr ((Pool.reservedCollisions b).toArray.map fun (l, w, i) =>
        Json.arr #[Json.str l, Json.str w, Json.str i]))))
  | "closed.assignable" => some (do
      let jl ← getBool j "insideJavaLambda"
      let vs ← (← getArr j "vars").toList.mapM fun v => do
        let isFinal := match v.getObjValD "isFinal" with | .bool b => some b | _ => none
        let fj := v.getObjValD "fields"
        let fields ← if fj.isNull then pure none else do
          let fs ← (← fj.getArr?).toList.mapM fun f => do
            let fa ← f.getArr?
            pure ((← (fa[0]?.getD Json.null).getStr?), (fa[1]?.getD Json.null) == Json.bool true)
          pure (some fs)
        pure ({ name := ← getStr v "name", isFinal := isFinal, searched := ← getBool v "searched", fields := fields } : Assignable.VarInfo)
      match Assignable.assignableVars jl vs with
      | none => pure (res (Json.str "TypeError"))
      | some cs => pure (res (Json.arr (cs.toArray.map fun c =>
          Json.arr #[(match c.recv with | some r => Json.str r | none => Json.null), Json.str c.name, Json.bool c.isFinal]))))
  | _ => none

end Driver.Closed
