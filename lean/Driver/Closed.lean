import Driver.ProgJson
import Heph.Model.Closed
/-! Ops of property C05.

* `closed.check`  `{<program export>, "keywords": [..], "stats": bool}` →
  `{"r": "ok"}` | `{"r": {"path":…, "reason":…}}` (+ `"kinds": {kind: count}` when `stats`)
* `closed.pool`   `{"initial": [..], "ops": [op…]}` → `{"r": [answer…], "words": [..], "initial": [..]}` where op is
    `["word", choice]`            → the word | `"KeyError"` (choice not in the pool: never on a real run)
    `["reset"]`                   → `null`
    `["remove_reserved", [kw…]]`  → `null`
    `["gen_identifier", mode, choice]` (mode `null | "lower" | "capitalize"`) → identifier | `"KeyError"`
    `["caps", [sample…], [blacklist…]]` → the accepted sample | `null`
-/
open Lean Heph Heph.Scope
namespace Driver.Closed

def strList (j : Json) : Except String (List String) := do
  (← j.getArr?).toList.mapM fun x => x.getStr?

def poolStep (p : Pool.Pool) (op : Json) : Except String (Json × Pool.Pool) := do
  let a ← op.getArr?
  let tag ← (a[0]?.getD Json.null).getStr?
  match tag with
  | "word" =>
    let c ← (a[1]?.getD Json.null).getStr?
    match p.word c with
    | some (w, p') => pure (Json.str w, p')
    | none => pure (Json.str "KeyError", p)
  | "reset" => pure (Json.null, p.reset)
  | "remove_reserved" =>
    let kw ← strList (a[1]?.getD Json.null)
    pure (Json.null, p.removeReservedWords kw)
  | "gen_identifier" =>
    let mode ← match a[1]?.getD Json.null with
      | .null => pure Pool.Mode.plain
      | .str "lower" => pure Pool.Mode.lower
      | .str "capitalize" => pure Pool.Mode.capitalize
      | _ => throw "bad mode"
    let c ← (a[2]?.getD Json.null).getStr?
    match p.word c with
    | some (w, p') => pure (Json.str (Pool.genIdentifier mode w), p')
    | none => pure (Json.str "KeyError", p)
  | "caps" =>
    let samples ← strList (a[1]?.getD Json.null)
    let bl ← strList (a[2]?.getD Json.null)
    match Pool.caps samples bl with
    | some s => pure (Json.str s, p)
    | none => pure (Json.null, p)
  | other => throw s!"unknown pool op {other}"

def handle : Handler := fun op j =>
  match op with
  | "closed.check" => some (do
      let (_, p) ← parseProgramObj j
      let kw ← strList (← j.getObjVal? "keywords")
      let r := match closedCheck p kw with
        | .ok => Json.str "ok"
        | .error path reason => Json.mkObj [("path", Json.str path), ("reason", Json.str reason)]
      let stats := (j.getObjValD "stats") == Json.bool true
      if stats then
        let kinds := Json.mkObj ((countKinds p).map fun (k, n) => (k, Json.num (JsonNumber.fromNat n)))
        pure (Json.mkObj [("r", r), ("kinds", kinds)])
      else pure (res r))
  | "closed.pool" => some (do
      let init ← strList (← j.getObjVal? "initial")
      let ops ← getArr j "ops"
      let mut p : Pool.Pool := { initial := init, words := init }
      let mut out : Array Json := #[]
      for o in ops do
        let (a, p') ← poolStep p o
        out := out.push a
        p := p'
      pure (Json.mkObj [("r", Json.arr out), ("words", ofStrList p.words), ("initial", ofStrList p.initial)]))
  | _ => none

end Driver.Closed
