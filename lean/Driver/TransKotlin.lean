import Driver.Util
open Lean
namespace Driver.TransKotlin

def handle : Handler := fun _ _ => none

end Driver.TransKotlin
