import Driver.ProgJson
import Heph.Model.TransKotlin
/-! ops of the Kotlin translator model:
 * `trans.kotlin` `{program: <export>, package: str|null, history?: [<export>…]}` → text of `program`
   printed by a translator object that has already translated the programs of `history`
 * `trans.kotlin.doc` (same request) → `[[tag, name|null, text]…]`, the tagged pieces
 * `trans.kotlin.inventory` `{program}` → `[[tag, name]…]`, the declaration inventory computed from the IR
 * `trans.kotlin.visit` `{program, ident?, is_unit?, is_lambda?, _cast_integers?}` → texts of the top-level
   declarations visited in turn from that state, and the state afterwards
 * `trans.kotlin.state` (same request as `trans.kotlin`) → the state after translating history and program -/
open Lean Heph Heph.TransKotlin
namespace Driver.TransKotlin

def tagJson : Tag → List Json
  | .other => ["other", Json.null]
  | .classD n => ["class", n]
  | .tparamD n => ["tparam", n]
  | .fieldD n => ["field", n]
  | .funcD n => ["func", n]
  | .funcName n => ["funcname", n]
  | .paramD n => ["param", n]
  | .varD n => ["var", n]
  | .superT => ["super", Json.null]
  | .varAnnot n => ["varannot", n]
  | .retAnnot n => ["retannot", n]
  | .lamRet => ["lamret", Json.null]
  | .targs f => ["targs", f]
  | .newT e => ["new", Json.bool e]
  | .lit => ["lit", Json.null]
  | .op => ["op", Json.null]
  | .name => ["name", Json.null]
  | .ty => ["ty", Json.null]

def pieceJson (p : Piece) : Json := Json.arr ((tagJson p.1 ++ [Json.str p.2]).toArray)

def getPackage (j : Json) : Option String :=
  match j.getObjValD "package" with | .str s => some s | _ => none

def getHistory (j : Json) : Except String (List Program) := do
  match j.getObjVal? "history" with
  | .error _ => pure []
  | .ok h => (← h.getArr?).toList.mapM fun pj => do pure (← parseProgramObj pj).2

def getProgram (j : Json) : Except String Program := do
  pure (← parseProgramObj (← j.getObjVal? "program")).2

def frameStr : Frame → String
  | .none => "none" | .block => "block" | .fn _ => "fn" | .varD _ => "var" | .other => "other"

def stJson (ob : Obj) : Json :=
  let st := ob.st
  Json.mkObj [
  ("ident", Json.num (JsonNumber.fromNat st.ident)), ("is_unit", st.isUnit), ("is_lambda", st.isLambda),
  ("_cast_integers", st.cast), ("_nodes_stack", Json.arr (st.stack.reverse.toArray.map fun f => Json.str (frameStr f))),
  ("package", match ob.package with | some s => Json.str s | none => Json.null),
  ("context_classes", Json.arr (st.context.toArray.map fun c => Json.str (className c)))]

def handle : Handler := fun op j =>
  match op with
  | "trans.kotlin" => some (do
      let p ← getProgram j
      let st := after (initObj (getPackage j)) (← getHistory j)
      pure (res (Json.str (text st p))))
  | "trans.kotlin.doc" => some (do
      let p ← getProgram j
      let st := after (initObj (getPackage j)) (← getHistory j)
      pure (res (Json.arr ((programDoc st p).2.toArray.map pieceJson))))
  | "trans.kotlin.state" => some (do
      let p ← getProgram j
      let st := after (initObj (getPackage j)) (← getHistory j)
      pure (res (stJson (visitProgram st p))))
  | "trans.kotlin.visit" => some (do
      -- visit the top-level declarations one by one from a hand-set state (no `visit_program`)
      let p ← getProgram j
      let st0 : St := { ident := (j.getObjValAs? Nat "ident").toOption.getD 0,
                        isUnit := (j.getObjValAs? Bool "is_unit").toOption.getD false,
                        isLambda := (j.getObjValAs? Bool "is_lambda").toOption.getD false,
                        cast := (j.getObjValAs? Bool "_cast_integers").toOption.getD false,
                        context := programClasses p }
      let r := visitL st0 p.decls
      pure (res (Json.mkObj [("texts", Json.arr (r.2.toArray.map fun d => Json.str (flatten d))),
                             ("state", stJson { st := r.1 })])))
  | "trans.kotlin.inventory" => some (do
      let p ← getProgram j
      pure (res (Json.arr ((inventory p).toArray.map fun t => Json.arr (tagJson t).toArray))))
  | "trans.kotlin.issam" => some (do
      let p ← getProgram j
      let cs := programClasses p
      pure (res (Json.arr (cs.toArray.map fun c => Json.arr #[Json.str (className c), Json.bool (isSamDecl cs c)]))))
  | _ => none

end Driver.TransKotlin
