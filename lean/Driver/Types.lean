import Driver.TyJson
open Lean Heph Heph.Ty
namespace Driver.Types

def handle : Handler := fun op j =>
  let run (f : Array Ty → Except String Json) : Option (Except String Json) :=
    some (do let tbl ← parseTable j; let r ← f tbl; pure (res r))
  match op with
  | "types.eq" => run fun tbl => do pure (Json.bool (beq (← tyAt tbl j "s") (← tyAt tbl j "t")))
  | "types.subtype" => run fun tbl => do pure (resToJson (isSubtype (← tyAt tbl j "s") (← tyAt tbl j "t")))
  | "types.assignable" => run fun tbl => do
      pure (resToJson (isAssignable (← parsePairs j "extra") (← tyAt tbl j "s") (← tyAt tbl j "t")))
  | "types.supertypes" => run fun tbl => do pure (tysToJson (closure (← tyAt tbl j "s")))
  | "types.name" => run fun tbl => do pure (Json.str (getName (← tyAt tbl j "s")))
  | "types.has_tv" => run fun tbl => do pure (Json.bool (hasTV (← tyAt tbl j "s")))
  | "types.subst" => run fun tbl => do
      pure (answerTy tbl j (substituteType (← tyAt tbl j "s") (← parseTMap tbl j "m")))
  | "types.new" => run fun tbl => do
      let con ← tyAt tbl j "s"
      let args ← tyListAt tbl j "args"
      if args.length < (conParams con).length then pure (Json.str "IndexError")
      else if args.length > (conParams con).length then pure (Json.str "AssertionError")
      else pure (answerTy tbl j (tconNew con args))
  | "types.to_variance_free" => run fun tbl => do
      pure (answerTy tbl j (toVarianceFree (← tyAt tbl j "s") (← parseTMap tbl j "m")))
  | "types.to_type_variable_free" => run fun tbl => do
      pure (trToJson (answerTy tbl j) (toTypeVariableFree (← tyAt tbl j "s") (← tyOptAt tbl j "any")))
  | "types.bound_rec" => run fun tbl => do
      pure (trToJson (answerTyOpt tbl j) (getBoundRec (← tyAt tbl j "s") (← tyOptAt tbl j "any")))
  | _ => none

end Driver.Types
