import Driver.Util
open Lean
namespace Driver.Types

def handle : Handler := fun _ _ => none

end Driver.Types
