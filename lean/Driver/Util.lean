import Lean.Data.Json
/-! JSON helpers shared by the driver families (trusted glue, no Mathlib). -/
open Lean
namespace Driver

abbrev Handler := String → Json → Option (Except String Json)

def getNat (j : Json) (k : String) : Except String Nat := j.getObjValAs? Nat k
def getStr (j : Json) (k : String) : Except String String := j.getObjValAs? String k
def getBool (j : Json) (k : String) : Except String Bool := j.getObjValAs? Bool k
def getArr (j : Json) (k : String) : Except String (Array Json) := j.getObjValAs? (Array Json) k

def natList (j : Json) : Except String (List Nat) := do
  let a ← j.getArr?
  a.toList.mapM fun x => x.getNat?

def getNatList (j : Json) (k : String) : Except String (List Nat) := do
  natList (← j.getObjVal? k)

def ofNatList (l : List Nat) : Json := Json.arr (l.toArray.map fun n => Json.num (JsonNumber.fromNat n))
def ofNatListList (l : List (List Nat)) : Json := Json.arr (l.toArray.map ofNatList)
def ofStrList (l : List String) : Json := Json.arr (l.toArray.map Json.str)

def optBool : Option Bool → Json
  | some b => Json.bool b
  | none => Json.str "fuel"

def optNatList : Option (List Nat) → Json
  | some l => ofNatList l
  | none => Json.str "fuel"

def res (j : Json) : Json := Json.mkObj [("r", j)]

end Driver
