import Driver.Util
open Lean
namespace Driver.Misc

def handle : Handler := fun _ _ => none

end Driver.Misc
