import Driver.Util
import Driver.Pickle
open Lean
namespace Driver.Misc

/-- the pre-registered spare slot of `Driver/Main.lean` carries the pickle family (C13) -/
def handle : Handler := Driver.Pickle.handle

end Driver.Misc
