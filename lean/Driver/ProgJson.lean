import Driver.TyJson
import Heph.Model.IR
/-! JSON → `Program` (the format of `harness/export_ast.py`): `{"tt": [...], "lang": …,
    "decls": [node…], "context": [[ns, kind, name]…]}`; types inside nodes are indices into `tt`. -/
open Lean Heph
namespace Driver

partial def parseNode (tbl : Array Ty) (j : Json) : Except String Node := do
  let k ← getStr j "n"
  let nodes (key : String) : Except String (List Node) := do
    (← getArr j key).toList.mapM (parseNode tbl)
  let optNode (key : String) : Except String (Option Node) := do
    let x := j.getObjValD key
    if x.isNull then pure none else pure (some (← parseNode tbl x))
  let node (key : String) : Except String Node := do parseNode tbl (← j.getObjVal? key)
  let ty (key : String) := tyAt tbl j key
  let optTy (key : String) := tyOptAt tbl j key
  let tys (key : String) := tyListAt tbl j key
  let optStr (key : String) : Option String := match j.getObjValD key with | .str s => some s | _ => none
  match k with
  | "block" => pure (.block (← nodes "body") (← getBool j "isFunc"))
  | "super" =>
      let a := j.getObjValD "args"
      let args ← if a.isNull then pure none else pure (some (← nodes "args"))
      pure (.superInst (← ty "t") args)
  | "class" => pure (.classDecl (← getStr j "name") (← getNat j "ctype") (← getBool j "isFinal")
      (← nodes "fields") (← nodes "supers") (← nodes "funcs") (← tys "tparams"))
  | "var" => pure (.varDecl (← getStr j "name") (← node "expr") (← getBool j "isFinal") (← optTy "varType") (← optTy "inferred"))
  | "arg" => pure (.callArg (← node "expr") (optStr "name"))
  | "field" => pure (.fieldDecl (← getStr j "name") (← ty "t") (← getBool j "isFinal") (← getBool j "canOverride") (← getBool j "override"))
  | "param" => pure (.paramDecl (← getStr j "name") (← ty "t") (← getBool j "vararg") (← optNode "default"))
  | "func" => pure (.funcDecl (← getStr j "name") (← nodes "params") (← optTy "retType") (← optTy "inferred")
      (← optNode "body") (← getBool j "isFinal") (← getBool j "override") (← tys "tparams") (← getNat j "ftype"))
  | "lambda" => pure (.lambda (← getStr j "name") (← nodes "params") (← optTy "retType") (← node "body") (← optTy "signature"))
  | "funcref" => pure (.funcRef (← getStr j "func") (← optNode "receiver") (← optTy "signature"))
  | "bottom" => pure (.bottom (← optTy "t"))
  | "int" => pure (.intC (← getStr j "lit") (← optTy "t"))
  | "real" => pure (.realC (← getStr j "lit") (← optTy "t"))
  | "bool" => pure (.boolC (← getStr j "lit"))
  | "char" => pure (.charC (← getStr j "lit"))
  | "string" => pure (.stringC (← getStr j "lit"))
  | "array" => pure (.arrayE (← ty "t") (← getNat j "len") (← nodes "exprs"))
  | "variable" => pure (.variable (← getStr j "name"))
  | "is" => pure (.isE (← node "e") (← ty "t") (← getBool j "isNot"))
  | "binop" => pure (.binop (← getStr j "kind") (← node "l") (← node "r") (← getStr j "op"))
  | "cond" => pure (.cond (← node "c") (← node "t") (← node "f") (← optTy "ty"))
  | "new" => pure (.newE (← ty "t") (← nodes "args") (← getBool j "canInfer"))
  | "fieldaccess" => pure (.fieldAccess (← node "e") (← getStr j "field"))
  | "call" => pure (.call (← getStr j "func") (← nodes "args") (← optNode "receiver") (← tys "targs")
      (← getBool j "canInfer") (← getBool j "isRefCall"))
  | "assign" => pure (.assign (← getStr j "name") (← node "expr") (← optNode "receiver"))
  | other => throw s!"unknown node kind {other}"

def parseCtx (j : Json) : Except String (List CtxEntry) := do
  match j.getObjVal? "context" with
  | .error _ => pure []
  | .ok c => do
    (← c.getArr?).toList.mapM fun e => do
      let a ← e.getArr?
      if a.size != 3 then throw "context entry must be [ns, kind, name]"
      let ns ← (← a[0]!.getArr?).toList.mapM fun s => s.getStr?
      pure { ns := ns, kind := ← a[1]!.getStr?, name := ← a[2]!.getStr? }

/-- parse a whole exported program under key `key` of the request (default: the request itself) -/
def parseProgramObj (j : Json) : Except String (Array Ty × Program) := do
  let tbl ← parseTable j
  let decls ← (← getArr j "decls").toList.mapM (parseNode tbl)
  pure (tbl, { lang := ← getStr j "lang", decls := decls, context := ← parseCtx j })

end Driver
