import Driver.Util
open Lean
namespace Driver.Unify

def handle : Handler := fun _ _ => none

end Driver.Unify
