import Driver.TyJson
import Heph.Model.Unify
/-! ops of the family `unify`:

* `unify.run {tt, target, pattern, any, same_type, bn, variant?, expect?}` → the dict of the model
  as a list of `[var, type|null]` pairs in insertion order — `true` when the request carries
  `"expect": [[varIdx, typeIdx|null], …]` and the model's dict is structurally equal to it (same
  keys, same values, same order) — or the name of the exception;
* `unify.current` → which variant `Heph.Unify.unify` is (`"asIs"` / `"repaired"`). -/
open Lean Heph Heph.Ty Heph.Unify
namespace Driver.Unify

def urToJson (f : UMap → Json) : UR → Json
  | .ok m => f m
  | .attrError => Json.str "AttributeError"
  | .typeError => Json.str "TypeError"
  | .indexError => Json.str "IndexError"
  | .notImpl => Json.str "NotImplementedError"
  | .kfuel => Json.str "fuel"
  | .fuel => Json.str "fuel"

def mapToJson (m : UMap) : Json :=
  Json.arr (m.toArray.map fun p => Json.arr #[tyToJson p.1, tyOptToJson p.2])

def parseExpect (tbl : Array Ty) (j : Json) : Except String (Option UMap) := do
  match j.getObjVal? "expect" with
  | .error _ => pure none
  | .ok e =>
    let a ← e.getArr?
    let l ← a.toList.mapM fun x => do
      let p ← x.getArr?
      if p.size != 2 then throw "pair expected"
      let ki ← p[0]!.getNat?
      let v ← idxOpt tbl p[1]!
      match tbl[ki]? with
      | some k => pure (k, v)
      | none => throw "type index out of range"
    pure (some l)

def mapEq : UMap → UMap → Bool
  | [], [] => true
  | (k, v) :: xs, (k', v') :: ys => structEq k k' && structEqO v v' && mapEq xs ys
  | _, _ => false

def variantOf (j : Json) : Variant :=
  match j.getObjVal? "variant" with
  | .ok (Json.str "asIs") => .asIs
  | .ok (Json.str "repaired") => .repaired
  | _ => Variant.current

def handle : Handler := fun op j =>
  match op with
  | "unify.run" => some (do
      let tbl ← parseTable j
      let t1 ← tyAt tbl j "target"
      let t2 ← tyAt tbl j "pattern"
      let fac ← tyOptAt tbl j "any"
      let st ← getBool j "same_type"
      let bn ← parsePairs j "bn"
      let exp ← parseExpect tbl j
      let r := unifyV (variantOf j) bn fac st t1 t2
      pure (res (urToJson (fun m =>
        match exp with
        | some e => if mapEq m e then Json.bool true else mapToJson m
        | none => mapToJson m) r)))
  | "unify.current" => some (pure (res (Json.str (match Variant.current with
      | .asIs => "asIs" | .repaired => "repaired"))))
  | _ => none

end Driver.Unify
